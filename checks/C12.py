"""C12 -- listing players and servers is safe during concurrent joins and leaves.

1. TLC model-checks the code-shaped Listing.tla (a map behind a sync.RWMutex, a listing
   reader, two writers; the reader iterates under the read lock, as the code does now):
   NoIterWriteOverlap (no writer inside its critical section while a reader iterates: the
   condition for Go's "concurrent map iteration and map write" and for a race report) and
   SnapshotAtomic (the returned list is the map's value at one instant of the call).
   Non-vacuity: the lock-ignoring variant and the "copy the map header, iterate after
   unlocking" variant (what Players / DisconnectAll / players.Range did before the fix)
   must violate both.
2. TLC exports gate-point schedules of the lock-ignoring model; harness/c12 forces each on
   the real proxy, rotating over Players, PlayerCount, DisconnectAll, Servers,
   server.Players().Range / Len against real joins (login completion), leaves (Close ->
   teardown), Register / Unregister of servers and server player-list updates, and records
   call/return histories with the returned lists.  A crash of the harness process is
   attributed to the schedule in progress and the harness is restarted past it.
3. TLC validates the histories against ListingHist_Trace (a returned list must be the
   collection at one instant between call and return, no duplicates; counts likewise;
   DisconnectAll bounds).
4. The same APIs run freely against each other under `go test -race` in a child process
   (forced schedules hide races from the detector because the gates synchronise):
   a race report or a fatal runtime error, seen again on one re-run, is a finding.
"""
import glob
import json
import os
import re
import vlib

META = {
    "category": "model_checking",
    "text": "TLC model-checks a code-shaped model of a listing call against writers of the same RWMutex-protected "
            "map (no write inside an iteration, returned list = map value at one instant) and shows that the "
            "lock-ignoring and the iterate-after-unlock variants violate it. Gate-point schedules exported by TLC "
            "are forced on the real Players / PlayerCount / DisconnectAll / Servers / players.Range / Len against "
            "real joins, leaves, server (un)registration and server player-list updates; the recorded call/return "
            "histories (with the returned lists) are validated by TLC against the abstract ListingHist acceptor, "
            "process crashes are attributed to the schedule in progress. The same APIs are also run free against "
            "each other under the race detector in a child process, whose report or fatal error is the oracle for "
            "'no crash, no data race'.",
    "design_ref": "DESIGN.md section 4, C12",
    "level_note": "Snapshot atomicity is required of the lists returned by Players, Servers and Range/PlayersToSlice; "
                  "of DisconnectAll only that it disconnects everybody registered during the whole call and nobody "
                  "never registered during it. Forced schedules synchronise the threads through the gates, so data "
                  "races are looked for in the free-running -race run (quick: few rounds; thorough: many); the forced "
                  "schedules run under -race as well (one build flavour), but can only show races of goroutines the "
                  "gates do not order. The race detector sees executed schedules only. "
                  "Schedules are sampled from the lock-ignoring model (exhaustive export is ~10^6).",
    "technique": "TLA+ code-shaped model + abstract acceptor, TLC schedule sampling, forced replay on real code, "
                 "TLC trace validation, race detector on a free-running child process",
}

NEED = ["list.players.enter", "list.servers.enter", "list.range.enter", "list.disconnectall.enter", "reg.register.enter", "reg.unregister.enter", "w.mid", "list.players.iter", "list.players.step", "list.disconnectall.iter", "list.servers.iter", "list.servers.step",
        "list.range.iter", "list.range.step", "reg.register.insert", "reg.unregister.locked",
        "srv.register.insert", "srv.unregister.delete", "sp.add.locked", "sp.remove.locked", "w.enter"]

CHUNK = 25


def par(jobs):
    """Run independent TLC jobs side by side (starts staggered: Ctx.tlc numbers its scratch
    dirs with a plain counter)."""
    import time
    from concurrent.futures import ThreadPoolExecutor
    with ThreadPoolExecutor(len(jobs)) as ex:
        futs = []
        for fn in jobs:
            futs.append(ex.submit(fn))
            time.sleep(0.5)
        return [f.result() for f in futs]


def must_violate(ctx, cfg, what, inv):
    r = ctx.tlc("Listing", cfg, allow_violation=True, count=False, workers=2, heap="2g")
    if r.violated != inv:
        raise vlib.ToolError("%s: expected a violation of %s, got %s" % (cfg, inv, r.violated))
    ctx.log("Listing (%s): violates %s (non-vacuity ok)" % (what, inv))
    return r.violated


FRAME = re.compile(r"go\.minekube\.com/gate/pkg/edition/java/proxy\.(\(\*?\w+\)\.\w+|\w+)")


def crash_key(out):
    """(key, message) of a crashed or race-reporting child, or None."""
    m = re.search(r"^(panic: .*|fatal error: .*)$", out, re.M)
    if not m:
        return None
    msg = m.group(1).strip()
    tail = out[m.end():]
    fm = FRAME.search(tail)
    fn = fm.group(1) if fm else "?"
    fn = re.sub(r"\.func\d+.*$", "", fn)
    slug = re.sub(r"[^A-Za-z0-9]+", "-", re.sub(r"\d+", "N", msg.split(":", 1)[1].strip()).lower())[:48].strip("-")
    return "crash:%s:%s" % (fn, slug), msg


def race_keys(out):
    """One key per race report: the gate functions of package proxy on top of the two stacks."""
    keys = {}
    for rep in re.split(r"^=+\n", out, flags=re.M):
        if "WARNING: DATA RACE" not in rep:
            continue
        fns = []
        for part in re.split(r"\n\n", rep.replace("WARNING: DATA RACE\n", "")):
            if re.match(r"\s*(Write|Read|Previous write|Previous read)", part.strip()):
                fm = FRAME.search(part)
                hm = re.search(r"verif/harness/(c12\.\w+)", part)  # the harness's named callers
                fns.append(re.sub(r"\.func\d+.*$", "", fm.group(1)) if fm else hm.group(1) if hm else "?")
        k = "race:" + "|".join(sorted(set(fns)))
        keys.setdefault(k, rep.strip()[:3000])
    return keys


def run_forced(ctx, scheds, race, prefix, extra_env=None, max_crashes=8):
    """Run the forced schedules, restarting past crashing ones. Returns (records, stats, crashes)."""
    crashes, skip, start = [], [], 0
    for old in glob.glob(ctx.path(prefix + ".*.ndjson")):
        os.remove(old)
    while True:
        env = {"VERIF_TRACE_FILE": prefix, "VERIF_START": start, "VERIF_SKIP": ",".join(map(str, skip)),
               "VERIF_STATS_FILE": prefix + "_stats.json"}
        env.update(extra_env or {})
        p = ctx.harness("./c12", "TestSchedules", race=race, timeout=2400, env=env, check=False)
        if p.returncode == 0:
            break
        ck = crash_key(p.stdout)
        rk = race_keys(p.stdout)
        if ck is None and rk and "FAIL" in p.stdout:
            # the race detector failed the test at its end: the run itself is complete
            crashes += [{"key": k, "msg": "race detector report", "output": v, "n": -1, "sched": None}
                        for k, v in rk.items()]
            break
        if ck is None:
            raise vlib.ToolError("harness c12 failed without a crash signature:\n%s"
                                 % "\n".join(p.stdout.splitlines()[-60:]))
        try:
            n = int(open(ctx.path("progress.txt")).read())
        except (OSError, ValueError):
            raise vlib.ToolError("harness c12 crashed before its first run:\n%s" % p.stdout[-3000:])
        # a goroutine left behind by the previous run may be the one that died
        crashes.append({"key": ck[0], "msg": ck[1], "n": n, "sched": scheds[n],
                        "prev": [(j, scheds[j]) for j in (n - 1, n - 2) if j >= 0 and j not in skip],
                        "output": "\n".join(p.stdout.splitlines()[:60])})
        skip.append(n)
        start = (n // CHUNK) * CHUNK
        if len(crashes) >= max_crashes:
            ctx.notes.append("stopped restarting the forced-schedule harness after %d crashes" % max_crashes)
            break
    recs = []
    for f in sorted(glob.glob(ctx.path(prefix + ".*.ndjson"))):
        try:
            recs += vlib.read_ndjson(f)
        except ValueError:
            pass  # part cut short by a crash
    try:
        stats = json.load(open(ctx.path(prefix + "_stats.json")))
    except OSError:
        stats = {"runs": 0, "by_kind": {}, "blocked_steps": 0, "hung_runs": 0, "events": 0,
                 "gate_arrivals": {}, "writes_inside_iteration": 0, "samples": []}
    return recs, stats, crashes


def rj_key(rj):
    head = rj["run"][0]
    bad = rj["bad"] or {}
    ev = bad.get("ev", "eof")
    if ev == "r.ret":
        what = "list" if "list" in bad else "count" if "count" in bad else "closed"
        return "not-a-snapshot:%s:%s" % (bad.get("api") or head.get("kind"), what)
    return "%s:%s" % (ev, head.get("kind"))


def replay(ctx):
    """bin/vcheck C12 quick --replay <evidence/replay/C12/x.json>: force that schedule again
    (or, for a race report, run the free-running -race child again)."""
    rp = json.load(open(ctx.replay))["replay"] or {}
    s = None
    if rp.get("run"):
        h = rp["run"][0]
        s = {"init": h["init"], "wprog": h["wprog"], "sched": h["sched"], "kind": h["kind"]}
    elif rp.get("sched"):
        s = rp["sched"]
    tstates = matched = 0
    if s is not None:
        with open(ctx.path("sched.json"), "w") as fh:
            json.dump([s] * 12, fh)
        recs, _, crashes = run_forced(ctx, [s] * 12, True, "trace", {"VERIF_HUNG_MS": 8000}, max_crashes=2)
        for c in crashes:
            ctx.finding(c["key"], "replayed schedule killed the process again: %s" % c["msg"], c)
        if recs:
            rejected, matched, tstates = ctx.validate_runs("ListingHist_Trace", recs, dfs=True)
            for r in rejected:
                ctx.finding(rj_key(r), "replayed schedule rejected again (first unexplained event: %s)"
                            % json.dumps(r["bad"]), r)
    else:
        p = ctx.harness("./c12", "TestRace", race=True, timeout=1200, check=False, env={"VERIF_ROUNDS": 40})
        found = dict(race_keys(p.stdout))
        ck = crash_key(p.stdout)
        if ck:
            found[ck[0]] = ck[1]
        for k, rep in sorted(found.items()):
            ctx.finding(k, "free-running -race run reported again", {"report": rep})
    return ctx.finish("model_checking", {"states": tstates, "samples": [s or "TestRace"], "evaluations": 12,
                                         "distinct_nontrivial": 2, "rule": "replay of one recorded schedule / report",
                                         "trace_events_validated": matched, "exhaustive": False}, ["replay run"])


def run(ctx):
    if ctx.replay:
        return replay(ctx)
    r, nv1, nv2, nv3, s1, s2 = par([
        lambda: ctx.tlc("Listing", ctx.pick("Listing.cfg", "Listing_full.cfg"), count=False,
                        workers=ctx.pick(4, 8), heap="4g"),
        lambda: must_violate(ctx, "Listing_unlocked.cfg", "lock ignored", "NoIterWriteOverlap"),
        lambda: must_violate(ctx, "Listing_header.cfg", "header copied, iterated after unlock", "NoIterWriteOverlap"),
        lambda: must_violate(ctx, "Listing_header_snap.cfg", "header copied, iterated after unlock", "SnapshotAtomic"),
        lambda: ctx.tlc("Listing", "Listing_sched.cfg", workers=1, count=False, heap="3g",
                        simulate=ctx.pick(220, 6000), depth=17).printed_json("SCHED"),
        lambda: [] if ctx.quick else ctx.tlc("Listing", "Listing_sched2.cfg", workers=1, count=False, heap="3g",
                                             simulate=2000, depth=24).printed_json("SCHED"),
    ])
    ctx.states += r.distinct
    ctx.transitions += r.generated
    mc_states = r.distinct
    ctx.log("Listing (iteration under the read lock): %d distinct states, invariants hold" % r.distinct)
    nonvac = {"lock_ignored": nv1, "iterate_after_unlock_overlap": nv2, "iterate_after_unlock_snapshot": nv3}
    scheds = s1 + s2
    ctx.log("schedules: %d (one reader, two writers) + %d (two readers)" % (len(s1), len(s2)))
    with open(ctx.path("sched.json"), "w") as fh:
        json.dump(scheds, fh)

    recs, stats, crashes = run_forced(ctx, scheds, True, "trace")
    missing = [g for g in NEED if not stats["gate_arrivals"].get(g)]
    if missing and not crashes:
        raise vlib.ToolError("hook_missing: gates never reached: %s" % missing)

    rejected, matched, tstates = ctx.validate_runs("ListingHist_Trace", recs, dfs=True, timeout=1800) \
        if recs else ([], 0, 0)

    # ---- confirm: re-run the schedules of every crash / rejection class (map iteration
    # order is random in Go, so each is repeated a few times)
    classes = {}
    for c in crashes:
        if c["sched"] is not None:
            classes.setdefault(c["key"], []).append(dict(c["sched"], kind=kind_of(scheds, c["n"])))
            for j, sj in c.get("prev") or []:
                classes[c["key"]].append(dict(sj, kind=kind_of(scheds, j)))
    for rj in rejected:
        h = rj["run"][0]
        classes.setdefault(rj_key(rj), []).append({"init": h["init"], "wprog": h["wprog"], "sched": h["sched"],
                                                   "kind": h["kind"]})
    confirmed = {}
    if classes:
        again = []
        for k, ss in sorted(classes.items()):
            for s in ss[:6]:
                again += [s] * 6
        with open(ctx.path("sched_confirm.json"), "w") as fh:
            json.dump(again, fh)
        crecs, _, ccrashes = run_forced(ctx, again, True, "ctrace",
                                        {"VERIF_SCHED_FILE": "sched_confirm.json", "VERIF_HUNG_MS": 8000},
                                        max_crashes=len(classes) * 3 + 3)
        for c in ccrashes:
            confirmed.setdefault(c["key"], c)
        if crecs:
            crej, _, cst = ctx.validate_runs("ListingHist_Trace", crecs, dfs=True, timeout=1800, max_rejects=40)
            tstates += cst
            for rj in crej:
                confirmed.setdefault(rj_key(rj), rj)
    unconfirmed = [k for k in classes if k not in confirmed]
    for k in sorted(classes):
        if k not in confirmed:
            continue
        c = confirmed[k]
        if k.startswith("crash:") or k.startswith("race:"):
            ctx.finding(k, "the process running the real listing code died: %s (schedule %s)"
                        % (c["msg"], json.dumps(c["sched"])), c)
        else:
            bad = c["bad"] or {}
            ctx.finding(k, "history of the real code is not a behaviour of ListingHist (first unexplained event: %s; "
                           "run: %s)" % (json.dumps(bad), json.dumps({x: c["run"][0].get(x) for x in
                                                                     ("kind", "init", "wprog", "sched")})), c)

    # ---- free-running run under the race detector (child process is the oracle)
    race_findings = {}
    rounds = ctx.pick(8, 150)
    p = ctx.harness("./c12", "TestRace", race=True, timeout=2400, check=False, env={"VERIF_ROUNDS": rounds})
    first = dict(race_keys(p.stdout))
    ck = crash_key(p.stdout)
    if ck:
        first[ck[0]] = "\n".join(p.stdout.splitlines()[:80])
    if p.returncode != 0 and not first:
        raise vlib.ToolError("TestRace failed without a race / crash signature:\n%s"
                             % "\n".join(p.stdout.splitlines()[-60:]))
    race_runs = 1
    if first:
        p2 = ctx.harness("./c12", "TestRace", race=True, timeout=2400, check=False,
                         env={"VERIF_ROUNDS": rounds * 2, "VERIF_STATS_FILE": "stats_race2.json"})
        race_runs += 1
        second = dict(race_keys(p2.stdout))
        ck2 = crash_key(p2.stdout)
        if ck2:
            second[ck2[0]] = "\n".join(p2.stdout.splitlines()[:80])
        for k, rep in sorted(first.items()):
            if k in second:
                race_findings[k] = rep
                ctx.finding(k, "the free-running listing/join/leave run under the race detector reported: %s"
                            % rep.splitlines()[0 if k.startswith("crash") else 1 if len(rep.splitlines()) > 1 else 0],
                            {"report": rep, "second_run": second[k][:1500]})
            else:
                unconfirmed.append(k)
    try:
        rstats = json.load(open(ctx.path("stats_race.json")))
    except OSError:
        rstats = {"rounds": 0, "calls": {}}

    if unconfirmed:
        if not ctx.findings:
            raise vlib.ToolError("rejections / reports did not reproduce on the re-run: %s" % unconfirmed)
        ctx.notes.append("not reproduced on re-run: %s" % unconfirmed)

    distinct = len({json.dumps([s["init"], s["wprog"], s["sched"]], sort_keys=True) for s in scheds})
    cov = {
        "states": mc_states + tstates,
        "samples": stats["samples"][:2] + [{"trace_events": len(recs), "runs": stats["runs"]}],
        "evaluations": stats["runs"] + rstats.get("rounds", 0),
        "distinct_nontrivial": distinct,
        "rule": "schedule = (initial collection, two writer operations, interleaving of gate points of one or two "
                "listing calls and the writers) sampled by TLC from the lock-ignoring Listing model; every one "
                "interleaves a listing call with writers",
        "runs_by_api": stats["by_kind"],
        "blocked_steps": stats["blocked_steps"],
        "writes_landed_inside_an_iteration": stats["writes_inside_iteration"],
        "gate_arrivals": {g: stats["gate_arrivals"].get(g, 0) for g in NEED},
        "trace_events_validated": matched,
        "crashes_attributed": len(crashes),
        "race_rounds": rstats.get("rounds", 0),
        "race_calls": rstats.get("calls", {}),
        "race_runs": race_runs,
        "race_detector": True,
        "forced_schedules_under_race_detector": True,
        "non_vacuity": nonvac,
        "exhaustive": False,
    }
    return ctx.finish("model_checking", cov, [
        "gates only delay threads; a forced failure is a real execution",
        "players join through the real login completion and leave through Close -> teardown; elements are "
        "identified by their remote address / server name",
        "the race detector and the Go runtime of the child process are trusted oracles for data races and "
        "concurrent map access",
    ])


def kind_of(scheds, n):
    """Mirror of kindFor in harness/c12 (which listing API run n used)."""
    kinds = ["players.list", "servers.list", "sp.range", "players.list", "players.count", "sp.len"]
    s = scheds[n]
    if s.get("kind"):
        return s["kind"]
    if any(op["op"] == "del" for op in s["wprog"].values()) or n % 2:
        return kinds[n % len(kinds)]
    return "players.disconnectall"
