"""C09 -- session-server id = Java's signed SHA-1 hex digest.

1. TLC proves the byte-level reference operator SignedHex equal to the arithmetic
   definition for all 1- and 2-byte digests (exhaustive), plus two's-complement laws.
2. The harness records (digest, id) of the real authenticator for random secrets and
   for boundary digests found by search (sign bit, carry chains, leading zero nibbles),
   and the in-place two's complement on all short inputs.
3. TLC re-evaluates SignedHex / Twos on every recorded line (trace validation).
"""
import json
import vlib

META = {
    "category": "model_checking",
    "text": "The TLA+ reference operator SignedHex (subtract-one-then-complement on bytes) is proved by TLC equal "
            "to the arithmetic definition of Java's BigInteger.toString(16) on all 65 792 one- and two-byte "
            "digests; recorded (digest, id) pairs of the real authenticator, including boundary digests found "
            "by search, are then re-evaluated by TLC line by line.",
    "design_ref": "DESIGN.md section 4, C09",
    "level_note": "SHA-1 is Go's crypto/sha1 in the harness (uninterpreted in the spec). Inputs are sampled "
                  "(random + searched boundary classes), not all byte strings.",
    "technique": "TLA+ reference operator, TLC exhaustive self-check, TLC trace validation of recorded real I/O",
}


def run(ctx):
    r = ctx.tlc("ServerId")
    ctx.log("ServerId.tla: %d digests, byte-level operator == arithmetic definition" % r.distinct)
    ctx.harness("./c09", "TestTrace",
                env={"VERIF_N": ctx.pick(500, 5000), "VERIF_SEARCH": ctx.pick(1 << 17, 1 << 24)},
                timeout=1200)
    st = json.load(open(ctx.path("stats.json")))
    recs = vlib.read_ndjson(ctx.path("trace.ndjson"))
    ok, matched, total, res = ctx.validate_trace("ServerId_Trace", ctx.path("trace.ndjson"),
                                                 n_traces=1)
    tries = 0
    while not ok and tries < 10:
        bad = recs[matched]
        if bad["ev"] == "id":
            ctx.finding("id:" + classify(bad["digest"]),
                        "server id %r is not the signed hex of digest %s" % (bad["id"], bad["digest"]), bad)
        else:
            ctx.finding("twos:len%d" % len(bad["in"]),
                        "two's complement of %s gave %s" % (bad["in"], bad["out"]), bad)
        recs = recs[matched + 1:]
        if not recs:
            break
        p = ctx.path("rest%d.ndjson" % tries)
        vlib.write_ndjson(p, recs)
        ok, matched, total, res = ctx.validate_trace("ServerId_Trace", p, n_traces=0)
        tries += 1
    classes = st["classes"]
    cov = {
        "samples": st["samples"],
        "evaluations": st["ids"] + st["twos"],
        "distinct_nontrivial": sum(v for k, v in classes.items() if k not in ("pos", "neg")),
        "rule": "random secrets plus secrets searched so that SHA-1(secret||key) hits a boundary class "
                "(negative with 1..3 trailing zero bytes = carry chains, leading zero nibbles); "
                "non-trivial = digest in a boundary class",
        "digest_classes": classes,
        "twos_inputs": st["twos"],
        "exhaustive": False,
    }
    return ctx.finish("model_checking", cov, [
        "SHA-1 is instantiated by Go's crypto/sha1 in the harness (uninterpreted in the spec)",
        "the all-zero digest (id \"0\") is unreachable by search and not exercised",
    ])


def classify(d):
    if d[0] >= 128:
        tz = 0
        for b in reversed(d):
            if b != 0:
                break
            tz += 1
        return "neg-carry%d" % tz if tz else ("neg-lz" if d[0] >= 0xF0 else "neg")
    return "pos-lz" if d[0] < 16 else "pos"
