"""C26 -- the BungeeCord plugin messaging channel behaves like BungeeCord (as ported by Velocity).

1. Bungee.tla: Respond(st, rq) = what the proxy must do for a request on the BungeeCord channel
   (responses per server connection in DataOutput layout, forwards per target server, connects,
   kicks, messages), transcribed from Velocity's BungeeCordMessageResponder.  TLC enumerates small
   proxy states x all sub-channels x argument classes, checks the statement's clauses on Respond
   itself and exports the requests (wire bytes built by the spec).
2. Part 1 (responder): the harness feeds every request to the real bungeecord.NewMessageResponder
   over recording fakes built from the state and logs what the fakes saw; TLC compares with
   Respond (Bungee_Trace.tla).
3. Part 2 (adapter, live rig): real proxy, three players on two fake backends, a third backend on whose
   player list one of them is still registered (mid server switch); a backend sends
   Forward / ForwardToPlayer / GetPlayerServer requests; the harness logs which backend connections
   and which clients received a BungeeCord plugin message; the same trace spec judges it.
"""
import json
import random
import vlib

META = {
    "category": "model_checking",
    "text": "Bungee.tla defines Respond(state, request): the exact set of responses (bytes and the server connection "
            "they are written to), forwarded payloads per target server, connects, kicks and chat messages for all "
            "18 BungeeCord sub-channels, transcribed from Velocity's BungeeCordMessageResponder on the byte-level "
            "DataOutput operators of Wire.tla. TLC enumerates 48 proxy states (1-3 players over 2-3 servers, every player "
            "on either side of the 1.13 channel rename) x sub-channels x argument classes (self, other, unknown, empty, ALL, ONLINE, "
            "server names, truncated input), checks the statement's clauses on Respond and exports the requests; the "
            "real responder is fed each one over recording fakes and, for the adapter, on the live proxy with three "
            "players on two backends (one of them still listed on a third, connection-less server, as in the middle of a "
            "server switch); TLC compares everything that was observed with Respond. The quantifier is "
            "inputs x small states, which this enumerates exhaustively.",
    "design_ref": "DESIGN.md section 4, C26",
    "level_note": "Not required (behaviour of BungeeCord/Velocity not certain): anything for incomplete requests except "
                  "that the responder does not panic; ForwardToPlayer to a player who has no server; which of the two "
                  "BungeeCord channel ids a forwarded payload carries; lower-case 'all'; invalid JSON in *Raw requests; "
                  "the order of names in PlayerList/GetServers is taken from the providers' order. Chat messages and "
                  "kick reasons are compared as plain text. On the live rig only Forward/ForwardToPlayer/"
                  "GetPlayerServer/PlayerCount/GetServer are driven (who receives what); Connect/Kick effects are "
                  "covered at responder level only.",
    "technique": "TLA+ reference operator over enumerated proxy states, TLC request export, replay on the real responder "
                 "with recording fakes and on the live proxy rig, TLC trace validation",
}


LIVE_SUBS = ("Forward", "ForwardToPlayer", "GetPlayerServer", "PlayerCount", "GetServer", "IP", "IPOther",
             "UUID", "UUIDOther", "ServerIP", "Bogus")


def b2s(b):
    return bytes(b).decode("latin1")


def key_of(rec):
    rq = rec["rq"]
    st = rec["st"]
    names = [b2s(p["name"]) for p in st["players"]]
    servers = [b2s(s["name"]) for s in st["servers"]]
    a = b2s(rq["a"])
    if rq["trunc"]:
        cls = "truncated"
    elif a in ("ALL", "ONLINE"):
        cls = a
    elif a == names[0]:
        cls = "self"
    elif a in names:
        p = st["players"][names.index(a)]
        srv = b2s(p["server"])
        cls = "other-player" + ("@same-server" if srv == b2s(st["players"][0]["server"]) else
                                "@no-server" if not srv else "@other-server")
        if p.get("modern") != st["players"][0].get("modern"):
            cls += ",other-side-of-1.13"
    elif a in servers:
        cls = "current-server" if a == b2s(st["players"][0]["server"]) else "other-server"
    elif a == "":
        cls = "empty" if rq["sub"] not in ("IP", "UUID", "GetServers", "GetServer", "Bogus") else "-"
    else:
        cls = "unknown"
    if "outs" in rec:
        sym = "panic" if rec.get("panicked") else "outs=" + ("+".join(sorted(
            "%s(%s%s)" % (o["kind"], b2s(o["who"]) or b2s(o["where"]), ("@" + o["chan"]) if o["kind"] == "resp" else "")
            for o in rec["outs"])) or "none")
    else:
        sym = "lost" if rec.get("lost") else "backends=%s,clients=%s" % (
            "+".join(sorted("%s@%s" % (b2s(o["who"]), b2s(o["where"])) for o in rec["srv"])) or "none",
            "+".join(sorted(b2s(o["who"]) for o in rec["cli"])) or "none")
    return "%s(%s)->%s" % (rq["sub"], cls, sym)


def run(ctx):
    r = ctx.tlc("Bungee", workers=1, timeout=900)
    reqs = r.printed_json("REQ")
    all_reqs = reqs
    if len(reqs) < 1000:
        raise vlib.ToolError("Bungee.tla exported only %d requests" % len(reqs))
    ctx.log("Bungee.tla: %d (state, request) pairs, clauses hold on Respond" % r.distinct)
    rnd = random.Random(ctx.seed)
    if ctx.quick:
        # all requests on the richest states, a seeded sample of the rest
        rich = [q for q in reqs if len(q["st"]["players"]) == 3 and len(q["st"]["servers"]) == 3]
        rest = [q for q in reqs if not (len(q["st"]["players"]) == 3 and len(q["st"]["servers"]) == 3)]
        rnd.shuffle(rest)
        reqs = rich + rest[:800]
    with open(ctx.path("reqs.json"), "w") as fh:
        json.dump(reqs, fh)
    # part 2 input: the requests whose effect is visible on the wire, for the adapter on the live proxy
    live, seen = [], set()
    for q in all_reqs:
        rq = q["rq"]
        if rq["trunc"] or rq["sub"] not in LIVE_SUBS:
            continue
        k = (rq["sub"], tuple(rq["a"]))
        if k in seen:
            continue
        seen.add(k)
        live.append(rq)
    live.sort(key=lambda x: (x["sub"], x["a"]))
    live = live * ctx.pick(1, 3)
    with open(ctx.path("live_reqs.json"), "w") as fh:
        json.dump(live, fh)
    ctx.harness("./c26", "TestResponder|TestAdapter", timeout=1200)
    st = json.load(open(ctx.path("stats.json")))
    recs = vlib.read_ndjson(ctx.path("trace.ndjson"))
    ctx.log("responder: %d requests, %d with outputs, %d panics" % (st["requests"], st["with_outputs"], st["panics"]))
    lst = json.load(open(ctx.path("live_stats.json")))
    lrecs = vlib.read_ndjson(ctx.path("live.ndjson"))
    ctx.log("adapter (live rig): %d requests, %d messages at backends, %d at clients%s"
            % (lst["requests"], lst["srv_messages"], lst["cli_messages"],
               ", ABORTED (requester's connection lost)" if lst["aborted"] else ""))
    if lst["unattributed"]:
        raise vlib.ToolError("%d forwarded payloads with an unknown nonce" % lst["unattributed"])
    if lst["aborted"]:
        ctx.notes.append("live run stopped after request %d: the requester's backend connection no longer answered"
                         % lst["requests"])
    bad_total, live_bad = judge(ctx, recs + lrecs)
    cov = {
        "samples": st["samples"],
        "evaluations": st["requests"],
        "distinct_nontrivial": st["with_outputs"],
        "rule": "one evaluation = one (proxy state, request) pair enumerated by TLC and fed to the real responder; "
                "non-trivial = the responder produced at least one response or effect",
        "requests_rejected": bad_total,
        "live_requests": lst["requests"],
        "live_requests_rejected": live_bad,
        "live_sample": lst["samples"][:1],
        "exhaustive": not ctx.quick,
    }
    return ctx.finish("model_checking", cov, [
        "player/server lookups of the fakes are exact-match; address and uuid formatting is the responder's own",
    ])


def judge(ctx, recs):
    """Validate independent request records in one TLC run; the trace spec reports every line whose
    observation is not allowed by Respond(st, rq) as <<"BAD", line>>; each becomes a finding."""
    p = ctx.path("all.ndjson")
    vlib.write_ndjson(p, recs)
    ok, matched, total, res = ctx.validate_trace("Bungee_Trace", p, n_traces=0)
    if not ok:
        raise vlib.ToolError("Bungee_Trace did not consume the whole trace (%d/%d):\n%s" % (matched, total, res.tail(30)))
    bad_lines = sorted({int(x) for x in res.printed("BAD")})
    ctx.traces_validated += total - len(bad_lines)
    nbad = {"responder": 0, "adapter": 0}
    for ln in bad_lines:
        bad = recs[ln - 1]
        part = "responder" if bad["ev"] == "req" else "adapter"
        nbad[part] += 1
        seen = bad.get("outs", bad.get("srv", []) + [dict(x, kind="client") for x in bad.get("cli", [])])
        ctx.finding("%s:%s" % (part, key_of(bad)),
                    "%s: request %s(a=%r, b=%r) in state players=%s servers=%s: observed %s is not what Respond(st, rq) allows"
                    % (part, bad["rq"]["sub"], b2s(bad["rq"]["a"]), b2s(bad["rq"]["b"]),
                       [(b2s(x["name"]), b2s(x["server"])) for x in bad["st"]["players"]],
                       [b2s(x["name"]) for x in bad["st"]["servers"]],
                       json.dumps([dict(o, who=b2s(o["who"]), where=b2s(o.get("where", [])), data=o["data"][:40])
                                   for o in seen])
                       + (" PANIC " + bad.get("panic", "") if bad.get("panicked") else "")),
                    bad)
    return nbad["responder"], nbad["adapter"]
