"""C11 -- player registry stays unique and consistent under any login/logout interleaving.

1. TLC model-checks the code-shaped PlayerRegistryImpl.tla (muP respected; 2 connections in
   quick, 3 in thorough, over 2 UUIDs x 2 lower-cased names, kick mode on/off, online/offline,
   leave / LoginEvent-denial flags)
   against the property invariants, and the abstract acceptor PlayerRegistry.tla against
   the same invariants.  Non-vacuity: the lock-ignoring variant and the two variants that
   model the defects fixed in /repo (delete-by-key unregister, lock leak on the duplicate
   path) must each violate.
2. TLC exports gate-point schedules of the model (2 connections exhaustive in thorough,
   sampled in quick; 3 connections sampled; lock-ignoring ones sampled).
3. harness/c11 forces each schedule on the real code: real authSessionHandler login
   completion (canRegisterConnection, LoginEvent, registerConnection) over a real
   netmc.MinecraftConn, real Close -> Disconnected -> teardown -> unregisterConnection,
   and records login call/return, own disconnects, DisconnectEvents and lookups
   (Player, PlayerByName, PlayerCount, Players).  Plus seeded random schedules over 2-4
   connections and free-running (ungated) runs.
4. TLC validates the history against PlayerRegistry_Trace (silent Insert/Remove steps).
   A rejected run is re-run once; only a reproduced rejection is a finding.
"""
import json
import random
import vlib

META = {
    "category": "model_checking",
    "text": "TLC model-checks a code-shaped model of canRegister/register/unregister/teardown (one action per "
            "segment between verif gate points, muP respected) and an abstract registry acceptor against the "
            "property invariants (one player per UUID, count = #UUIDs, name/UUID indices agree without kick mode, "
            "registered players stay findable, nobody else's teardown or failed login removes them, kick mode "
            "removes the older session first). TLC then exports gate-point schedules; each is forced on the real "
            "login-completion and teardown code through the gates, and the observable history (login results, "
            "own disconnects, DisconnectEvents, lookups by id/name, count, listing) is validated by TLC against "
            "the abstract acceptor. Schedules and histories are the quantifiers of this property.",
    "design_ref": "DESIGN.md section 4, C11",
    "level_note": "The login is entered after authentication (real authSessionHandler + netmc connection over an "
                  "in-memory socket, protocol 1.20.2 so that the connection stays in the login state after "
                  "LoginSuccess); handshake/encryption are C08's business. A connection's own disconnect is driven "
                  "after its login returned (as the read loop does), kicks and teardowns of other connections run "
                  "concurrently. Not required (the statement does not ask for it): a justification for rejected "
                  "logins, DisconnectEvent login statuses, and behaviour of a connection closed by a third party "
                  "while its own login is still in flight. Lookups are taken only while every driven thread is "
                  "parked or finished. Hangs are a timing verdict (1.5 s, confirmed with 6 s on a re-run). "
                  "3-connection and lock-ignoring schedules are sampled.",
    "technique": "TLA+ code-shaped model + abstract acceptor, TLC schedule enumeration, forced replay on real code, "
                 "TLC trace validation with silent linearization steps",
}

GATES = ["reg.can.enter", "reg.register.enter", "reg.register.insert", "reg.kick",
         "reg.unregister.enter", "reg.unregister.locked", "h.leave"]


def relation(conns):
    sameid = any(a["id"] == b["id"] for i, a in enumerate(conns) for b in conns[i + 1:])
    samename = any(a["name"] == b["name"] for i, a in enumerate(conns) for b in conns[i + 1:])
    return "+".join([x for x, y in (("sameid", sameid), ("samename", samename)) if y]) or "distinct"


def key_of(rj):
    head = rj["run"][0]
    bad = rj["bad"] or {}
    ev = bad.get("ev", "eof")
    denied = any(p.get("deny") for p in (head.get("prog") or {}).values())
    return "%s:%s:%s%s" % (ev, "kick" if head.get("kick") else "nokick", relation(head.get("conns", [])),
                           ":denied" if denied else "")


def sched_of(rj):
    h = rj["run"][0]
    return {"kick": h["kick"], "online": h["online"], "prog": h["prog"], "sched": h.get("sched") or [],
            "free": bool(h.get("free")), "origin": h.get("origin", "")}


def par(jobs):
    """Run independent TLC jobs side by side (each gets its own scratch dir; starts are staggered
    because Ctx.tlc numbers its scratch dirs with a plain counter)."""
    import time
    from concurrent.futures import ThreadPoolExecutor
    with ThreadPoolExecutor(len(jobs)) as ex:
        futs = []
        for fn in jobs:
            futs.append(ex.submit(fn))
            time.sleep(0.5)
        return [f.result() for f in futs]


def must_violate(ctx, cfg, what, allowed):
    r = ctx.tlc("PlayerRegistryImpl", cfg, allow_violation=True, count=False, workers=2, heap="2g")
    if r.violated not in allowed:
        raise vlib.ToolError("%s: expected a violation of %s, got %s" % (cfg, allowed, r.violated))
    ctx.log("PlayerRegistryImpl (%s): violates %s (non-vacuity ok)" % (what, r.violated))
    return r.violated


def replay(ctx):
    """bin/vcheck C11 quick --replay <evidence/replay/C11/x.json>: force that one schedule again."""
    rj = json.load(open(ctx.replay))["replay"]
    s = sched_of(rj)
    with open(ctx.path("sched.json"), "w") as fh:
        json.dump([s] * (10 if s["free"] else 3), fh)
    ctx.harness("./c11", "TestSchedules", timeout=600, env={"VERIF_RANDOM": 0, "VERIF_FREE": 0, "VERIF_HUNG_MS": 6000})
    recs = vlib.read_ndjson(ctx.path("trace.ndjson"))
    rejected, matched, tstates = ctx.validate_runs("PlayerRegistry_Trace", recs, dfs=True)
    for r in rejected:
        ctx.finding(key_of(r), "replayed schedule rejected again (first unexplained event: %s)"
                    % json.dumps(r["bad"]), r)
    return ctx.finish("model_checking", {"states": tstates, "samples": [s], "evaluations": len(recs),
                                         "distinct_nontrivial": 2, "rule": "replay of one recorded schedule",
                                         "trace_events_validated": matched, "exhaustive": False}, ["replay run"])


def run(ctx):
    if ctx.replay:
        return replay(ctx)

    def export(cfg, origin, simulate=None, depth=None, limit=None):
        kw = {}
        if simulate:
            kw = dict(simulate=simulate, depth=depth)
        res = ctx.tlc("PlayerRegistryImpl", cfg, workers=1, count=False, timeout=1500, heap="3g",
                      **kw).printed_json("SCHED")
        if limit and len(res) > limit:
            random.Random(ctx.seed).shuffle(res)
            res = res[:limit]
        for s in res:
            s["origin"] = origin
        return res

    exhaustive2 = not ctx.quick
    jobs = [
        lambda: ctx.tlc("PlayerRegistryImpl", ctx.pick("PlayerRegistryImpl_quick.cfg", "PlayerRegistryImpl_full.cfg"),
                        timeout=1500, count=False, workers=ctx.pick(4, 8), heap="6g"),
        lambda: must_violate(ctx, "PlayerRegistryImpl_unlocked.cfg", "lock ignored",
                             ("FindableById", "FindableByName", "OnePerId", "OnePerName", "SameSet")),
        lambda: must_violate(ctx, "PlayerRegistryImpl_noptr.cfg", "unregister deletes by key",
                             ("FindableById", "FindableByName", "SameSet")),
        lambda: must_violate(ctx, "PlayerRegistryImpl_leak.cfg", "muP kept on the duplicate path", ("NoHang",)),
        lambda: ctx.tlc("PlayerRegistry", ctx.pick("PlayerRegistry_quick.cfg", "PlayerRegistry.cfg"), count=False,
                        workers=ctx.pick(2, 4), heap="3g"),
        (lambda: export("PlayerRegistryImpl_sched2.cfg", "tlc-locked", simulate=160, depth=19)) if ctx.quick else
        (lambda: export("PlayerRegistryImpl_sched2.cfg", "tlc-locked", limit=8000)),
        lambda: export("PlayerRegistryImpl_sched2u.cfg", "tlc-unlocked", simulate=ctx.pick(40, 1200), depth=19),
        lambda: export("PlayerRegistryImpl_sched3.cfg", "tlc-locked", simulate=ctx.pick(80, 3000), depth=28),
        lambda: [] if ctx.quick else export("PlayerRegistryImpl_sched3u.cfg", "tlc-unlocked", simulate=400, depth=28),
    ]
    rimpl, nv1, nv2, nv3, rabs, s2, s2u, s3, s3u = par(jobs)
    ctx.states += rimpl.distinct + rabs.distinct
    ctx.transitions += rimpl.generated + rabs.generated
    mc_states = rimpl.distinct + rabs.distinct
    ctx.log("PlayerRegistryImpl (muP respected): %d distinct states, invariants hold" % rimpl.distinct)
    ctx.log("PlayerRegistry (abstract acceptor): %d distinct states, invariants hold" % rabs.distinct)
    nonvac = {"lock_ignored": nv1, "unregister_by_key": nv2, "lock_leak": nv3}
    scheds = s2 + s2u + s3 + s3u
    ctx.log("schedules: %d two-connection%s + %d lock-ignoring + %d three-connection + %d lock-ignoring"
            % (len(s2), " (exhaustive, shuffled, capped)" if exhaustive2 else " (sampled)", len(s2u), len(s3), len(s3u)))
    with open(ctx.path("sched.json"), "w") as fh:
        json.dump(scheds, fh)

    race = not ctx.quick
    ctx.harness("./c11", "TestSchedules", race=race, timeout=2400,
                env={"VERIF_RANDOM": ctx.pick(40, 1500), "VERIF_FREE": ctx.pick(30, 1500)})
    stats = json.load(open(ctx.path("stats.json")))
    missing = [g for g in GATES if not stats["gate_arrivals"].get(g)]
    if missing:
        raise vlib.ToolError("hook_missing: gates never reached: %s" % missing)

    recs = vlib.read_ndjson(ctx.path("trace.ndjson"))
    rejected, matched, tstates = ctx.validate_runs("PlayerRegistry_Trace", recs, dfs=True, timeout=1800)

    # ---- confirm every rejected class by re-running its schedules once
    by_key = {}
    for rj in rejected:
        by_key.setdefault(key_of(rj), []).append(rj)
    confirmed = {}
    if by_key:
        again = []
        for k, rjs in sorted(by_key.items()):
            for rj in rjs[:3]:
                s = sched_of(rj)
                again += [s] * (10 if s["free"] else 1)
        with open(ctx.path("sched_confirm.json"), "w") as fh:
            json.dump(again, fh)
        ctx.harness("./c11", "TestSchedules", race=race, timeout=2400,
                    env={"VERIF_SCHED_FILE": "sched_confirm.json", "VERIF_TRACE_FILE": "trace_confirm.ndjson",
                         "VERIF_STATS_FILE": "stats_confirm.json", "VERIF_HUNG_MS": 6000,
                         "VERIF_RANDOM": 0, "VERIF_FREE": 0})
        crecs = vlib.read_ndjson(ctx.path("trace_confirm.ndjson"))
        crej, _, cst = ctx.validate_runs("PlayerRegistry_Trace", crecs, dfs=True, timeout=1800, max_rejects=40)
        tstates += cst
        for rj in crej:
            confirmed.setdefault(key_of(rj), rj)
    unconfirmed = []
    for k, rjs in sorted(by_key.items()):
        if k in confirmed:
            rj = confirmed[k]
            bad = rj["bad"] or {}
            what = ("a registry call never returned" if bad.get("ev") == "hung" else
                    "first unexplained event: %s" % json.dumps(bad))
            ctx.finding(k, "history of the real registry is not a behaviour of PlayerRegistry (%s); "
                           "kick=%s conns=%s sched=%s" % (what, rj["run"][0].get("kick"),
                                                          json.dumps(rj["run"][0].get("conns")),
                                                          "".join(rj["run"][0].get("sched") or [])), rj)
        else:
            unconfirmed.append(k)
    if unconfirmed:
        with open(ctx.path("unconfirmed.json"), "w") as fh:
            json.dump({k: by_key[k][0] for k in unconfirmed}, fh, default=str)
        if not ctx.findings:
            raise vlib.ToolError("rejected histories did not reproduce on the re-run (flaky machinery?): %s; "
                                 "first: %s" % (unconfirmed, json.dumps(by_key[unconfirmed[0]][0]["bad"])))
        ctx.notes.append("rejections not reproduced on re-run: %s" % unconfirmed)

    distinct = len({json.dumps([s["kick"], s["online"], s["prog"], s["sched"]], sort_keys=True) for s in scheds})
    cov = {
        "states": mc_states + tstates,
        "samples": stats["samples"][:2] + [{"trace_events": len(recs), "runs": stats["runs"]}],
        "evaluations": stats["runs"],
        "distinct_nontrivial": distinct,
        "rule": "schedule = (mode, per-connection program, interleaving of gate points) exported by TLC from "
                "PlayerRegistryImpl; distinct = distinct tuples; every one interleaves >= 2 connections",
        "runs_by_origin": stats["by_origin"],
        "blocked_steps": stats["blocked_steps"],
        "lookups_recorded": stats["looks"],
        "lookups_skipped_unsettled": stats["looks_skipped"],
        "login_outcomes": stats["outcomes"],
        "gate_arrivals": {g: stats["gate_arrivals"].get(g, 0) for g in GATES},
        "trace_events_validated": matched,
        "non_vacuity": nonvac,
        "race_detector": race,
        "exhaustive": False,
        "two_connection_schedules_exhaustive": exhaustive2,
    }
    return ctx.finish("model_checking", cov, [
        "gates only delay threads; a forced failure is a real execution",
        "connections are identified by their remote address; UUIDs and names are small symbolic sets "
        "(names in three spellings; lower-casing by Go's strings.ToLower)",
        "a connection that is open when its login returns has been sent LoginSuccess",
    ])
