"""C25 -- plugin channel events fire for forwarded messages with the real message body.

1. TLC checks the decision table PluginEvents.tla (the ideal outcome of every row is allowed,
   an event carrying the raw packet and a forwarded registration without its event are
   rejected) and exports the rows: handler phase x message kind x subscriber action x body shape.
2. The live rig drives every row through the real handlers: clients at 1.8, 1.12.2 (legacy channel
   names), 1.20.1 and 1.20.4, a scripted backend, an event manager subscribed to PlayerChannelRegisterEvent and
   PluginMessageEvent, a channel registered with the proxy's ChannelRegistrar.
3. TLC validates every recorded row (events, their Data(), forwarded packets) with Allowed.
"""
import json
import vlib

META = {
    "category": "model_checking",
    "text": "PluginEvents.tla is a decision table: Allowed(row) says that a forwarded client channel registration "
            "raised exactly one PlayerChannelRegisterEvent, that every PluginMessageEvent's Data() is exactly the "
            "message body, and that what is forwarded after an event is that data (once). TLC enumerates the rows "
            "(client play / client config / backend play / backend config x register / unregister / registered "
            "channel / other channel x subscriber action x body shape incl. empty, many and invalid channel "
            "names), checks the table's sanity and non-vacuity, and every row is driven through the real handlers "
            "on the live proxy (overlap rows hold the first event in the subscriber until a second, different message "
            "of the same size was taken in; 1.20.4 for the configuration handlers; 1.8, 1.12.2 with the legacy REGISTER / "
            "UNREGISTER names, 1.20.1 and 1.20.4 for the play handlers); the logged events and forwarded packets are validated by TLC row by row. Inputs "
            "are the quantifier; the table is exhaustive over the modelled classes.",
    "design_ref": "DESIGN.md section 4, C25",
    "level_note": "Whether a message is forwarded at all (default results differ per handler) and whether a "
                  "registered channel raises an event are not required, only what the statement says about events "
                  "that are raised and registrations that are forwarded. Rows are attributed to events by "
                  "per-player sequencing with generous waits. Brand and BungeeCord channel messages belong to "
                  "C26; the 1.20.1 pre-join handler is unreachable for a vanilla client (read loop blocked).",
    "technique": "TLA+ decision table, TLC row enumeration, live-rig replay, TLC trace validation",
}


def run(ctx):
    r = ctx.tlc("PluginEvents", workers=1)
    rows = r.printed_json("ROW")
    with open(ctx.path("rows.json"), "w") as fh:
        json.dump(rows, fh)
    ctx.log("PluginEvents.tla: %d rows, table sanity and non-vacuity hold" % len(rows))
    ctx.harness("./c25", "TestRows", env={"VERIF_CLIENTS": ctx.pick(3, 6)}, race=not ctx.quick, timeout=1800)
    st = json.load(open(ctx.path("stats.json")))
    phases = ("clientPlay", "clientConfig", "backendPlay", "backendConfig")
    missing = [p for p in phases if not st["per_phase"].get(p)]
    if missing or st["aborted"] > 2:
        raise vlib.ToolError("rows not driven: phases without a row %s, aborted clients %s" % (missing, st["abort_reasons"]))
    if st["aborted"]:
        ctx.notes.append("%d scripted client(s) gave up before their play rows: %s" % (st["aborted"], st["abort_reasons"]))
    recs = vlib.read_ndjson(ctx.path("trace.ndjson"))
    ok, matched, total, res = ctx.validate_trace("PluginEvents_Trace", ctx.path("trace.ndjson"), n_traces=len(recs))
    verdict = res.printed_json("REJECTED")
    if not ok or matched != len(recs) or not verdict:
        raise vlib.ToolError("row trace was not read completely (%d of %d lines):\n%s" % (matched, len(recs), res.tail(30)))
    tstates = res.distinct
    rejected = [{"run": [recs[i - 1]], "bad_index": 0, "bad": recs[i - 1]} for i in verdict[-1]["lines"]]
    ctx.traces_validated -= len(rejected)
    for rj in rejected:
        b = rj["bad"] or {}
        body, pm, fwd = b.get("body"), b.get("pm", []), b.get("fwd", [])
        if b.get("kind") == "register" and b.get("regEvents") != (1 if fwd and b.get("phase", "").startswith("client") else b.get("regEvents")):
            why = "register-events=%s,forwarded=%d" % (b.get("regEvents"), len(fwd))
        elif b.get("regEvents", 0) > (1 if b.get("kind") == "register" else 0):
            why = "register-events=%s" % b.get("regEvents")
        elif any(x != body for x in pm):
            why = "event-data-is-not-the-body"
        elif len(fwd) > 1:
            why = "forwarded-%d-times" % len(fwd)
        elif any(x != body for x in fwd):
            why = "forwarded-data-is-not-the-body"
        else:
            why = "row-rejected"
        key = "%s:%s:%s" % (b.get("phase"), b.get("kind"), why)
        if b.get("proto", 999) < 393:
            key += ":pre-1.13-client"
        small = dict(b)
        for f in ("body", "pm", "fwd"):
            if len(json.dumps(small.get(f))) > 200:
                small[f] = "<%d bytes>" % len(json.dumps(small.get(f)))
        ctx.finding(key, "row not allowed by PluginEvents.tla: %s" % json.dumps(small), rj)
    cov = {
        "states": r.distinct + tstates,
        "samples": st["samples"][:2],
        "evaluations": st["rows"],
        "distinct_nontrivial": len(rows),
        "rule": "row = (handler phase, message kind, subscriber action, body shape) exported by TLC; every row "
                "sends one real plugin message through the proxy; distinct = distinct rows",
        "rows_per_phase": st["per_phase"],
        "trace_events_validated": matched,
        "race_detector": not ctx.quick,
        "exhaustive": st["aborted"] == 0,
    }
    return ctx.finish("model_checking", cov, [
        "fake clients/backend speak the harness's own codec; packet ids from the vanilla tables",
        "events are attributed to the row in flight for that player (rows of one player are sequential)",
    ])
