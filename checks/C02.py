"""C02 -- frame decoding matches the vanilla/Velocity acceptance rules on hostile byte streams.

1. TLC checks the decision operator of FrameAccept.tla (Frame / Envelope) against the clauses of
   the statement over the full table of boundary classes (claimed size x inflated size x zlib
   condition x threshold x direction; length prefixes), shows a lenient variant is caught, and
   exports every row as a scenario.
2. The Go harness builds a byte stream for every row (Go's compress/zlib), plus mutated valid
   streams, adversarial VarInts, runs of empty frames, empty frames spread over long streams and random bytes, and runs the real
   codec.Decoder on them (all bytes available), recording per Decode call the result, which
   bytes the payload equals, the allocation, and what an independent parser sees at that position.
3. TLC re-evaluates Frame() on the logged head bytes / zlib facts / sizes (FrameAccept_Trace.tla).
"""
import json
import vlib

META = {
    "category": "model_checking",
    "text": "The acceptance rules (frame length <= 2^21-1, claimed size negative / below threshold / above the "
            "direction cap, exact inflation, uncompressed size vs threshold, empty frames) are a TLA+ operator "
            "Frame() over the head bytes of a stream, uninterpreted zlib facts and sizes. TLC checks it against the "
            "statement's clauses over the whole boundary table and exports the table; the real codec.Decoder is run "
            "on a concrete stream per row and on mutated / adversarial / random streams, and TLC re-evaluates "
            "Frame() for every real Decode call (yield / reject / which bytes / how many consumed / allocation).",
    "design_ref": "DESIGN.md section 4, C02",
    "level_note": "zlib is Go's compress/zlib in the harness (uninterpreted in the spec). Streams are finite and fully "
                  "available, so 'blocks' is observed as a Decode that does not return within 20 s and 'incomplete frame' "
                  "as an error at end of input. Not judged (only no panic / no hang / bounded allocation): length "
                  "prefixes that are not minimally encoded (the statement excludes them), bytes behind the end of a "
                  "zlib stream inside a frame, payloads whose packet-id VarInt does not parse. Allocation is the "
                  "TotalAlloc delta of the call, bound 2*(frame length + accepted claimed size) + 512 KiB. The decoder "
                  "runs with an empty packet registry so that payloads come back undecoded.",
    "technique": "TLA+ decision operator, TLC exhaustive table check + scenario export, TLC trace validation of "
                 "recorded real decoder behaviour",
}


def varint(b):
    u = 0
    for i, x in enumerate(b[:5]):
        u |= (x & 0x7f) << (7 * i)
        if x < 128:
            u &= 0xffffffff
            return (u - (1 << 32) if u >= 1 << 31 else u), i + 1
    return None, 0


def classify(run, idx):
    """Name the input class of the frame a rejected decode line belongs to (for the finding key only)."""
    reset = run[0]
    thr = reset.get("thr", -1)
    cap = 2 << 20 if reset.get("dir") == "sb" else 8 << 20
    skips = 0
    total_empty = sum(1 for x in run[:idx] if x.get("ev") == "frame" and x.get("hk") == "skip")
    fr = None
    j = idx - 1
    while j >= 0 and run[j].get("ev") == "frame":
        if fr is None:
            fr = run[j]
        elif run[j].get("hk") == "skip":
            skips += 1
        j -= 1
    if fr is None:
        return "unknown"
    if skips > 10:
        return "empty-run>10"
    if total_empty > 10 and fr.get("hk") in ("raw", "inflated"):
        return "empty-total>10(runs<=10)"
    head = fr["head"]
    L, n = varint(head)
    if L is None:
        return "length-varint-unterminated"
    if L < 0:
        return "length-negative"
    if L > (1 << 21) - 1:
        return "length>2^21-1"
    if fr["avail"] - n < L:
        return "truncated-frame"
    if thr < 0:
        return "plain-frame"
    c, cn = varint(head[n:n + L])
    if c is None:
        return "claimed-varint-overlong" if len(head[n:n + L]) >= 5 else "claimed-varint-unterminated"
    if c == 0:
        return "uncompressed>threshold" if L - cn > thr else "uncompressed<=threshold"
    if c < 0:
        return "claimed-negative"
    if c < thr:
        return "claimed<threshold"
    if c > cap:
        return "claimed>cap"
    z = fr["z"]
    if not z["ok"]:
        return "zlib-invalid-or-truncated"
    if z["n"] > c:
        return "inflated>claimed"
    if z["n"] < c:
        return "inflated<claimed"
    return "valid-compressed"


def run(ctx):
    # the table check and the scenario export are the same run (invariants Clauses, CapsOrdered, Emit);
    # quick: thresholds {0, 256}, thorough: {0, 1, 64, 256, 2^20} plus the non-vacuity run
    rs = ctx.tlc("FrameAccept", ctx.pick("FrameAccept_scen_quick.cfg", "FrameAccept_scen.cfg"), workers=1)
    ctx.log("FrameAccept.tla: %d table rows satisfy the statement's clauses" % rs.distinct)
    if not ctx.quick:
        rl = ctx.tlc("FrameAccept", "FrameAccept_lenient.cfg", allow_violation=True, count=False, workers=1)
        if rl.violated != "Clauses":
            raise vlib.ToolError("lenient envelope not caught by Clauses (got %s)" % rl.violated)
    scens = rs.printed_json("SCEN")
    if len(scens) < 500:
        raise vlib.ToolError("scenario export too small: %d" % len(scens))
    run_scens = scens
    if ctx.quick:
        # rows whose body inflates to megabytes are expensive: the quick tier keeps, of those, the exact
        # and off-by-one inflations of intact streams and the broken streams of exact size, and the
        # 8 MiB ones for one threshold only
        def keep(s):
            r = s["row"]
            if s["zn"] <= 1 << 20:
                return True
            if not (r["zk"] == "ok" or r["zd"] == 0):
                return False
            return s["zn"] < 4 << 20 or r["thr"] != 0
        run_scens = [s for s in scens if keep(s)]
    with open(ctx.path("scenarios.json"), "w") as fh:
        json.dump(run_scens, fh)
    ctx.log("exported %d table rows as scenarios, %d run on the real decoder" % (len(scens), len(run_scens)))

    ctx.harness("./c02", "TestStreams", timeout=1500,
                env={"VERIF_MUT": ctx.pick(1000, 20000), "VERIF_RAND": ctx.pick(1000, 20000)})
    st = json.load(open(ctx.path("stats.json")))
    recs = vlib.read_ndjson(ctx.path("trace.ndjson"))
    # One pass in "diagnose" mode: TLC judges every decode line; forbidden ones are printed as
    # <<"BAD", line>> and the trace goes on (the plain FrameAccept_Trace.cfg stops at the first).
    ok2, m2, total, res2 = ctx.validate_trace("FrameAccept_Trace", ctx.path("trace.ndjson"),
                                              cfg="FrameAccept_Trace_diag.cfg", n_traces=0)
    bad_lines = sorted({int(x) for x in res2.printed("BAD")})
    if not ok2:
        raise vlib.ToolError("harness parser and spec disagree on a frame line (machinery bug) at trace line %d: %s"
                             % (m2 + 1, json.dumps(recs[min(m2, len(recs) - 1)])))
    matched = m2
    nbad = len(bad_lines)
    ctx.states += res2.distinct
    bad_runs = set()
    for ln in bad_lines:
        i = ln - 1                      # trace line numbers are 1-based
        bad = recs[i]
        start = i
        while recs[start].get("ev") != "reset":
            start -= 1
        end = i + 1
        while end < len(recs) and recs[end].get("ev") != "reset":
            end += 1
        run_ = recs[start:end]
        bad_runs.add(start)
        cls = classify(run_, i - start)
        key = "%s:%s" % (cls, bad.get("res"))
        if bad.get("res") == "payload":
            key += ":" + str(bad.get("pis"))
        pending = recs[i - 1]
        ctx.finding(key, "decoder (%s, threshold %s) on frame class '%s' returned %s; frame head %s, zlib facts %s"
                    % (run_[0].get("dir"), run_[0].get("thr"), cls, json.dumps(bad),
                       pending.get("head"), pending.get("z")), {"run": run_, "bad_index": i - start})
    ctx.traces_validated += st["Streams"] - len(bad_runs)
    cov = {
        "samples": st["Samples"][:3] + [{"table_row": scens[0]}],
        "evaluations": st["Decodes"],
        "distinct_nontrivial": st["Interesting"],
        "rule": "distinct (direction, threshold, byte stream) inputs; non-trivial = the stream contains a frame that "
                "is compressed, rejected, truncated, has a hostile length prefix or sits exactly on the threshold",
        "streams": st["Streams"],
        "by_source": st["BySrc"],
        "frames_by_parser_verdict": st["ByKind"],
        "decode_results": st["ByResult"],
        "table_rows_from_tlc": len(scens),
        "table_rows_run": len(run_scens),
        "trace_lines_validated": matched,
        "decode_lines_rejected": nbad,
        "exhaustive": False,
    }
    return ctx.finish("model_checking", cov, [
        "zlib facts (complete, bytes produced, trailing bytes) come from Go's compress/zlib",
        "finite fully-available streams: hang = no return within 20 s",
    ])
