"""C28 -- the tab-list model matches what the client was told (1.19.3+ clients).

1. TabList.tla: vanilla client model ClientApply over decoded player-info packets, reference proxy,
   invariant Match (proxy view = client view); a broken variant (profile replaced in place) must
   violate.  TLC exports operation histories: exhaustive short ones, simulated longer ones, for
   viewer protocols 1.19.3, 1.21.2, 1.21.4.
2. The harness replays each history on gate's real tab list with a recording viewer; packets are
   encoded with gate's codec and decoded by the harness's own vanilla-layout parser; backend packets
   come from the harness's own encoder through gate's real decoder.  Logged: decoded packets and
   TabList.Entries() after every call.
3. TabList_Trace.tla advances the client model with the logged packets and compares it with the
   logged proxy view after every call.
"""
import json
import random
import re
import vlib

META = {
    "category": "model_checking",
    "text": "TabList.tla models the vanilla client's handling of player-info update/remove packets (ClientApply: ADD "
            "creates entries with vanilla defaults for unknown ids only, actions applied to known ids, updates for "
            "unknown ids ignored) and a reference proxy; TLC checks that the proxy's view equals the client's view "
            "after every operation and exports operation histories over API add (5 entry templates incl. a second "
            "profile; also several entries in one Add call, the same id twice) / set attribute / removeAll and backend upsert (8 action sets x 8 entry lists) / remove for two "
            "uuids and viewer protocols 1.19.3, 1.21, 1.21.2, 1.21.4 - both sides of every version switch of the tab list - (exhaustive for 2 operations, simulated up to 6). Each "
            "history is replayed on gate's real tab list; every packet it sends is encoded by gate's codec and decoded "
            "by an independent vanilla-layout parser, and TLC applies the decoded packets to the client model and "
            "compares with TabList.Entries() after every call. Histories are the quantifier: exhaustive pairs plus "
            "random longer ones.",
    "design_ref": "DESIGN.md section 4, C28",
    "level_note": "Compared: presence, profile name and properties, latency, game mode, listed, display name (as plain "
                  "text), list order (viewers 1.21.2+ only). Not compared: the hat flag (not in the statement), "
                  "chat sessions. A proxy-side game mode of -1 ('not specified') is taken "
                  "as the client's default. A call that panics is reported as a violation (the statement presupposes "
                  "that the operations complete). Returned errors are logged, not judged. Packets buffered by the tab "
                  "list (RemoveAll) count as sent. 1.8-1.19.2 viewers (keyed/legacy tab list) are out of scope of the "
                  "statement.",
    "technique": "TLA+ history machine with vanilla client model, TLC exhaustive + simulated history export, replay on the "
                 "real tab list with independent packet parser, TLC trace validation",
}


def cfg(versions, full, maxlen, emit=True):
    return ("SPECIFICATION Spec\nCONSTANTS\n  Versions = {%s}\n  FullVersions = {%s}\n  MaxLen = %d\n"
            "  InPlaceProfile = FALSE\nINVARIANTS Match%s\n"
            % (", ".join(map(str, versions)), ", ".join(map(str, full)), maxlen, " Emit" if emit else ""))


def opdesc(r):
    if r["op"] == "add":
        return "add(%s)" % r["how"]
    if r["op"] == "addmany":
        ids = [e["id"] for e in r.get("entries", [])]
        return "add-many(%s%s)" % (r["how"], ",same-id-twice" if len(set(ids)) < len(ids) else "")
    if r["op"] == "set":
        return "set(%s)" % r["attr"]
    if r["op"] == "bupsert":
        return "backend-upsert(%s)" % "+".join(r["actions"])
    if r["op"] == "bremove":
        return "backend-remove(%d-ids)" % len(r["opids"])
    return "removeAll(%s)" % r["how"]


def run(ctx):
    r = ctx.tlc("TabList", "TabList_inplace.cfg", workers=1, allow_violation=True)
    if r.violated != "Match":
        raise vlib.ToolError("broken variant (in-place profile replacement) was not rejected by the model: %s" % r.violated)
    ctx.log("broken variant rejected by Match")
    rnd = random.Random(ctx.seed)
    # both sides of every version switch of the tab list: NBT display names (765), list order (768), hat (769)
    vers = [761, 767, 768, 769]
    hists, states = [], 0
    # exhaustive pairs
    # quick: the whole alphabet on 768 (everything that is compared exists there), API operations on all versions
    r = ctx.tlc("TabList", cfg_text=cfg(vers, ctx.pick([768], vers), 2), timeout=900)
    pairs = r.printed_json("HIST")
    states += r.distinct
    ctx.log("TabList.tla: %d states, %d histories of 2 operations, Match holds" % (r.distinct, len(pairs)))
    if ctx.quick:
        # always keep the multi-entry Add calls on a fresh list; a seeded sample of the rest
        # ... and every re-add of an id (any two templates) on every version
        keep = [h for h in pairs if (h["h"][0]["op"] == "addmany" and h["h"][1]["op"] == "removeAll")
                or (h["h"][1]["op"] == "bremove" and h["h"][0]["op"] in ("add", "addmany"))
                or (h["h"][0]["op"] == "add" and h["h"][1]["op"] == "add" and h["h"][0]["id"] == h["h"][1]["id"])]
        rest = [h for h in pairs if h not in keep]
        rnd.shuffle(rest)
        pairs = keep + rest[:800]
    hists += pairs
    # simulated longer ones
    sim, cap, depth = ctx.pick((8, 500, 5), (300, 20000, 6))
    r = ctx.tlc("TabList", cfg_text=cfg(vers, vers, depth), workers=1, timeout=900, simulate=sim, depth=depth + 1)
    longer = r.printed_json("HIST")
    states += r.distinct
    rnd.shuffle(longer)
    longer = longer[:cap]
    ctx.log("TabList.tla simulated: %d states, %d histories of %d operations" % (r.distinct, len(longer), depth))
    hists += longer
    hists.sort(key=lambda h: json.dumps(h, sort_keys=True))
    with open(ctx.path("hist.json"), "w") as fh:
        json.dump(hists, fh)
    ctx.harness("./c28", "TestReplay", timeout=1200)
    st = json.load(open(ctx.path("stats.json")))
    ctx.log("replayed %d histories, %d calls, %d packets decoded, %d panics"
            % (st["histories"], st["calls"], st["packets"], st["panics"]))
    recs = vlib.read_ndjson(ctx.path("trace.ndjson"))
    ok, matched, total, res = ctx.validate_trace("TabList_Trace", ctx.path("trace.ndjson"), n_traces=0, timeout=1200)
    if not ok:
        raise vlib.ToolError("TabList_Trace did not consume the whole trace (%d/%d):\n%s" % (matched, total, res.tail(30)))
    # first offending line per history
    run_of, cur = {}, 0
    for i, rc in enumerate(recs, 1):
        if rc["ev"] == "reset":
            cur = i
        run_of[i] = cur
    first = {}
    for raw in res.printed("BAD"):
        m = re.match(r'\s*(\d+),\s*"(\w+)",\s*(.*)$', raw)
        if not m:
            raise vlib.ToolError("cannot parse BAD line: " + raw)
        ln, kind, rest = int(m.group(1)), m.group(2), m.group(3)
        fields = sorted(set(re.findall(r'"(\w+)">>', rest)))
        if run_of[ln] not in first or ln < first[run_of[ln]][0]:
            first[run_of[ln]] = (ln, kind, fields)
    nruns = sum(1 for rc in recs if rc["ev"] == "reset")
    ctx.traces_validated += nruns - len(first)
    for start, (ln, kind, fields) in sorted(first.items()):
        bad = recs[ln - 1]
        ver = recs[start - 1]["ver"]
        prior = [opdesc(x) for x in recs[start:ln - 1]]
        key = "%s:%s:%s" % (opdesc(bad), kind, "+".join(fields) or "-")
        ctx.finding(key, "viewer protocol %d, after [%s]: %s -> %s%s; packets %s; proxy view %s"
                    % (ver, ", ".join(prior), opdesc(bad), kind,
                       (" in " + ",".join(fields)) if fields else "",
                       json.dumps(bad["pkts"])[:600], json.dumps(bad["view"])[:400])
                    + ((" PANIC: " + bad.get("panic", "")) if bad.get("panicked") else ""),
                    {"ver": ver, "run": recs[start - 1:ln]})
    hat_lines = sorted({int(x) for x in res.printed("HAT")})
    if hat_lines:
        ex = recs[hat_lines[0] - 1]
        ctx.notes.append("observation, not judged (the hat flag is not in the statement): after %d calls on 1.21.4 viewers "
                         "the proxy's ShowHat differs from the client's, first after %s" % (len(hat_lines), opdesc(ex)))
    cov = {
        "samples": st["samples"][:1],
        "evaluations": st["calls"],
        "distinct_nontrivial": sum(1 for h in hists if sum(1 for o in h["h"] if o["op"] in ("add", "addmany", "bupsert")) >= 1
                                   and len(h["h"]) >= 2),
        "rule": "history = (viewer protocol, operation sequence) exported by TLC and replayed on a fresh tab list; "
                "non-trivial = at least two operations of which one creates entries",
        "histories": len(hists),
        "packets_decoded": st["packets"],
        "operation_kinds": st["hows"],
        "histories_rejected": len(first),
        "hat_flag_differences_observed": len(hat_lines),
        "exhaustive": False,
        "states": states + res.distinct,
    }
    return ctx.finish("model_checking", cov, [
        "the vanilla client model is the spec's transcription of ClientPacketListener.handlePlayerInfoUpdate/Remove",
        "display names are plain text components; properties are opaque strings",
    ])
