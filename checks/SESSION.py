"""SESSION -- the composite connection-lifecycle specification (not one of the listed properties).

Session.tla is model-checked, then concurrent live-rig sessions (healthy / refusing / kicking
backends in the try list, 1.20.1 and 1.20.4 clients) are logged at both sides and every
session's events are validated against it.  Grows the specification's coverage of the system;
reported under the pseudo id SESSION and not claimed for any property.
"""
import json
import vlib

META = {
    "category": "model_checking",
    "text": "composite lifecycle spec (client side / backend side phases and their causal order) model-checked and "
            "used as trace spec for live-rig sessions",
    "design_ref": "DESIGN.md section 3",
    "level_note": "not a listed property; informational",
    "technique": "TLA+ lifecycle spec, TLC model checking, live-rig trace validation",
}


def run(ctx):
    r = ctx.tlc("Session", timeout=300)
    ctx.log("Session.tla: %d distinct states" % r.distinct)
    ctx.harness("./session", "TestSessions", env={"VERIF_SESSIONS": ctx.pick(40, 300)}, timeout=900)
    st = json.load(open(ctx.path("stats.json")))
    if st["joined"] == 0:
        raise vlib.ToolError("no session joined: vacuous")
    recs = vlib.read_ndjson(ctx.path("trace.ndjson"))
    # pass 1: the lifecycle as it should be (strict).  Sessions it rejects only because of the
    # named deviation EarlyAck are reported under one specific key; pass 2 re-validates everything
    # with the deviation allowed, so the rest of those sessions is still checked.
    strict, _, _ = ctx.validate_runs("Session_Trace", recs, max_rejects=8)
    early = 0
    for rj in strict:
        bad = rj["bad"] or {}
        prior_acks = sum(1 for x in rj["run"][:rj["bad_index"]] if x.get("ev") == "c" and x.get("what") == "cfgack")
        if bad.get("ev") == "b" and bad.get("what") == "cfgack" and prior_acks >= 1:
            early += 1
    if early:
        ctx.finding("reconfiguration:backend-finish-acknowledged-before-client-acknowledged",
                    "on a server switch (1.20.2+) the proxy acknowledged the new backend's finish-configuration "
                    "before the client did, in at least %d session(s)" % early, strict[0])
    rejected, matched, tstates = ctx.validate_runs("Session_Trace", recs, cfg="Session_Trace_dev.cfg")
    for rj in rejected:
        bad = rj["bad"] or {}
        ctx.finding("lifecycle:%s:%s" % (bad.get("ev"), bad.get("what")),
                    "session lifecycle event not allowed by Session.tla: %s" % json.dumps(bad), rj)
    cov = {
        "samples": st["samples"],
        "evaluations": st["sessions"],
        "distinct_nontrivial": st["joined"],
        "switches": st.get("switched", 0),
        "sessions_with_early_backend_ack": early,
        "rule": "one evaluation = one player session (client connection + the backend connections opened for it); "
                "non-trivial = sessions that reached play through the refuse/kick/ok try list",
        "trace_events_validated": matched,
        "states": r.distinct + tstates,
        "exhaustive": False,
    }
    return ctx.finish("model_checking", cov, ["events are logged by the sender before the write and by the receiver after the read"])
