"""C16 -- server switches keep exactly one live backend and consistent server player lists.

1. TLC model-checks the code-shaped SwitchImpl.tla in its design shape (check-and-set atomic,
   no stale clears, a kick leaves a live attempt alone): AtMostOneInFlight, SlotTracksAttempt,
   QuiescentClean hold; each of the three other code shapes must violate (non-vacuity, and
   they are the hypotheses the live runs look for).  TLC also explores the abstract Switch.tla.
2. TLC (simulation over the most permissive shape) exports schedules: programs of up to three
   requests (server x API x backend behaviour) and interleavings of their gate points, backend
   actions and a kick from the current server; sequential and overlapping ones.
3. The live rig (real proxy, three scripted fake backends, fake client at 763 or 765 that
   follows re-configuration) forces every schedule through the verifhook gates and records
   calls/returns, the proxy's linearization events and observations at quiescence.
4. TLC validates every run against the abstract Switch spec (Switch_Trace.tla).
"""
import json
import random
import vlib

META = {
    "category": "model_checking",
    "text": "Switch.tla is the abstract specification of one player's backend connections (attempts under way, current "
            "server, API calls, observations at quiescence) with the property's clauses as action guards: an attempt "
            "starts only when none is under way; a request is answered AlreadyConnected / InProgress exactly when it "
            "targets the current server / an attempt is under way and then has no side effects; at quiescence exactly "
            "the current server's backend connection is open and the player is in exactly that server's player list; a "
            "successful switch lands on the destination; a safe failure leaves the previous server (same connection) or "
            "a fallback; a kick falls back; a lone request to a backend that accepts it succeeds. SwitchImpl.tla models checkServer / setInFlightConnection / "
            "resetIfInFlightIs / connect()'s reset / handleKickEvent as separate steps; TLC checks the design shape, "
            "shows that each deviating code shape breaks the invariants, and exports schedules that the live rig forces "
            "on the real proxy through gate points; TLC then validates each recorded run against Switch.tla.",
    "design_ref": "DESIGN.md section 4, C16",
    "level_note": "One player per run (list consistency is judged per player at quiescence over all three servers). "
                  "Attempt start/end, check results and current-server changes are taken from verifhook events emitted "
                  "under the player's lock; calls, returns, kicks and observations (Player.CurrentServer, "
                  "RegisteredServer.Players, the fake backends' open connections, the client connection) are black-box. "
                  "With the plain Connect API and a 1.20.2+ client, a backend that disconnects after its login succeeded "
                  "(configuration phase) leaves the player without a server: the protocol has already released the old "
                  "backend and Connect documents that error handling is the caller's; the spec accepts that outcome for "
                  "that API only (ConnectWithIndication must reach a fallback). Expectations on the resulting server are "
                  "only stated for quiescent points reached by a single request, by rejections only, by successes only, or "
                  "by a kick only, for a player that was connected (and, for failures and kicks, on a server) at the previous quiescent point; every quiescent point is checked for one open backend / list consistency. Calls that never return are counted, not judged (the statement is about safety), with one exception: a call whose request context the caller cancelled while the backend was silent in login (or, legacy clients, before JoinGame) must have returned 6 s later, else the run is rejected. Observations "
                  "wait up to 6 s for the proxy to settle; schedules that cannot be forced as given are run to the end "
                  "anyway and judged as the executions they are.",
    "technique": "TLA+ abstract spec + code-shaped model, TLC model checking, TLC schedule export, forced replay on a live "
                 "proxy rig through verifhook gates, TLC trace validation",
}

GEN = """SPECIFICATION Spec
CONSTANTS
  Threads = {%s}
  Servers = {"s1", "s2", "s3"}
  InitServer = "s1"
  Try1 = "s1"
  Try2 = "s3"
  Apis = {"connect", "indication"}
  Behs = {"accept", "refuse", "kicklogin", "kickmid", "stall", "hang", "cancel", "cancelmid"}
  Atomic = FALSE
  StaleClears = TRUE
  KickClears = TRUE
  AllowKick = TRUE
  AllowQuit = TRUE
  Sequential = %s
  FirstRound = FALSE
  AckThenInstall = FALSE
  Export = TRUE
INVARIANTS Emit
"""


def feats(s):
    f = set()
    progs = s["prog"]
    for t, p in progs.items():
        f.add(("req", p["api"], p["beh"], p["s"]))
    steps = [(x["k"], x["t"]) for x in s["sched"]]
    f.add(("shape", tuple(k for k, _ in steps[:7])))
    for pat in patterns(s):
        f.add(("pattern", pat))
    kinds = [k for k, _ in steps]
    if "kick" in kinds:
        i = kinds.index("kick")
        open_calls = len({t for k, t in steps[:i] if k == "t"}) - 0
        f.add(("kick-after", min(i, 6), open_calls))
    # first two steps of two different threads before anyone's third: both pass the check
    first = {}
    for i, (k, t) in enumerate(steps):
        if k == "t":
            first.setdefault(t, []).append(i)
    ts = sorted(first)
    for a in ts:
        for b in ts:
            if a < b and len(first[a]) > 1 and len(first[b]) > 1 and max(first[a][0], first[b][0]) < min(first[a][1], first[b][1]):
                f.add(("both-checked-before-set", progs[a]["s"] == progs[b]["s"], progs[a]["api"], progs[b]["api"]))
    return f


def kick_during_attempt(s):
    """the kick comes while some request has set the slot and its backend has not acted yet"""
    nt, waiting = {}, set()
    for x in s["sched"]:
        if x["k"] == "t":
            nt[x["t"]] = nt.get(x["t"], 0) + 1
            if nt[x["t"]] == 2:
                waiting.add(x["t"])
        elif x["k"] == "b":
            waiting.discard(x["t"])
        elif x["k"] == "kick" and waiting:
            return True
    return False


def patterns(s):
    """interleavings the property singles out: named so that every run contains some of each"""
    out = set()
    nt, phase = {}, {}          # per thread: number of its steps so far, where it is
    for x in s["sched"]:
        k, t = x["k"], x["t"]
        if k == "t":
            nt[t] = nt.get(t, 0) + 1
            if nt[t] == 1:
                if any(p == "dial" for p in phase.values()):
                    out.add("request-while-another-is-dialing")
                if any(p == "wait" for p in phase.values()):
                    out.add("request-while-another-is-logging-in")
                phase[t] = "checked"
            elif nt[t] == 2 and phase.get(t) == "checked":
                phase[t] = "dial"
            else:
                phase[t] = "after"
        elif k == "d" and phase.get(t) == "dial":
            phase[t] = "wait"
        elif k == "b":
            if s["prog"][t]["beh"] in ("cancel", "cancelmid") and phase.get(t) in ("wait", "dial"):
                out.add("caller-cancels-" + ("in-login" if s["prog"][t]["beh"] == "cancel" else "before-joingame"))
            phase[t] = "after"
        elif k == "o":
            out.add("current-backend-closes-by-itself-during-switch")
            phase[t] = "after"
        elif k == "x":
            out.add("client-breaks-while-switch-completes")
            phase[t] = "after"
        elif k == "quit":
            if any(p == "dial" for p in phase.values()):
                out.add("quit-while-dialing")
            if any(p == "wait" for p in phase.values()):
                out.add("quit-while-logging-in")
            if not any(p in ("dial", "wait") for p in phase.values()):
                out.add("quit-idle")
    return out


def select(pool, budget, rnd, max_hang, max_kick, max_kick_live):
    rnd.shuffle(pool)
    seen, picked, rest = set(), [], []
    used = {"hang": 0, "kick": 0, "live": 0}
    # first: three schedules of every named pattern (without hangs and kicks: cheap and sharp)
    want = {}
    for s in pool:
        if any(p["beh"] == "hang" for p in s["prog"].values()) or any(x["k"] == "kick" for x in s["sched"]):
            continue
        for pat in patterns(s):
            if want.get(pat, 0) < 2 and s not in picked:
                picked.append(s)
                seen |= feats(s)
                for q in patterns(s):
                    want[q] = want.get(q, 0) + 1
    maxquit = max(6, budget // 5)

    used["quit"] = sum(1 for s in picked if any(x["k"] in ("quit", "x") for x in s["sched"]))

    def cost(s):
        return {"hang": sum(1 for p in s["prog"].values() if p["beh"] == "hang"),
                "kick": int(any(x["k"] == "kick" for x in s["sched"])),
                "quit": int(any(x["k"] in ("quit", "x") for x in s["sched"])),
                "live": int(kick_during_attempt(s))}

    def fits(c):
        return used["hang"] + c["hang"] <= max_hang and used["kick"] + c["kick"] <= max_kick and \
            used["live"] + c["live"] <= max_kick_live and used["quit"] + c["quit"] <= max(maxquit, used["quit"])

    for s in pool:
        if s in picked:
            continue
        f, c = feats(s), cost(s)
        if len(picked) < budget and not f <= seen and fits(c):
            picked.append(s)
            seen |= f
            for k in used:
                used[k] += c[k]
        else:
            rest.append((s, c))
    for s, c in rest:
        if len(picked) >= budget:
            break
        if fits(c):
            picked.append(s)
            for k in used:
                used[k] += c[k]
    return picked


def key_of(rj):
    """A specific name for the rejected line (the verdict is TLC's rejection of that line)."""
    run, bad, i = rj["run"], rj["bad"] or {}, rj["bad_index"]
    before = run[:i]
    cfg = "cfgphase" if run[0].get("cfg") else "legacy"
    ev = bad.get("ev")
    live = []
    for r in before:
        if r.get("ev") == "start":
            live.append((r["who"], r["s"]))
        elif r.get("ev") == "end" and (r["who"], r["s"]) in live:
            live.remove((r["who"], r["s"]))
        elif r.get("ev") == "conn" and r.get("s") != "none":
            live = [a for a in live if a[1] != r["s"]]
    if ev == "start":
        return "two-attempts-in-flight:both-requests-passed-the-check-before-either-set-the-slot"
    if ev == "chk" and bad.get("res") == "ok" and live:
        # who emptied the slot although an attempt was live?
        clears = [r for r in before if r.get("ev") == "clear" and r.get("had") != "none"]
        kicked = any(r.get("ev") == "kick" for r in before)
        if clears:
            c = clears[-1]
            rets = {r["t"]: r for r in before if r.get("ev") == "ret"}
            calls = {r["t"]: r for r in before if r.get("ev") == "call"}
            who = c.get("who")
            chks = [r for r in before if r.get("ev") == "chk" and r.get("who") == who]
            started = any(r.get("ev") == "start" and r.get("who") == who for r in before)
            if who in calls and not started and chks and chks[-1]["res"] in ("inprogress", "already"):
                return "request-admitted-while-attempt-live:slot-cleared-by-rejected-%s-request" % calls[who]["api"]
            if who in calls and started:
                return "request-admitted-while-attempt-live:slot-cleared-after-failed-%s-request" % calls[who]["api"]
            if kicked:
                return "request-admitted-while-attempt-live:slot-cleared-by-kick-from-current-server"
        dials = [r for r in before if r.get("ev") == "dial"]
        if dials and dials[-1].get("phase") == "held":
            return "request-admitted-while-attempt-live:first-attempt-still-dialing"
        return "request-admitted-while-attempt-live"
    if ev == "stuck":
        ph = [r.get("phase") for r in before if r.get("ev") == "cancel" and r.get("t") == bad.get("t")]
        return "cancelled-request-never-returned:%s:%s" % (cfg, ph[-1] if ph else "?")
    if ev == "chk":
        return "check-answer-%s-not-allowed:%s" % (bad.get("res"), cfg)
    if ev == "ret":
        return "return-%s-inconsistent:%s" % (bad.get("status"), cfg)
    if ev == "obs":
        rets = [r for r in before if r.get("ev") == "ret"]
        last = rets[-1] if rets else {}
        what = []
        cur, alive = bad.get("current"), bad.get("alive")
        if alive and bad.get("open") != ([] if cur == "none" else [cur]):
            what.append("open-backends=%s" % ",".join(bad.get("open", [])))
        if alive and bad.get("lists") != ([] if cur == "none" else [cur]):
            what.append("lists=%s" % ",".join(bad.get("lists", [])))
        if not alive and (bad.get("open") or bad.get("lists")):
            what.append("leftovers-after-disconnect")
        if not what:
            what.append("current=%s,alive=%s" % ("none" if cur == "none" else "server", alive))
        if any(r.get("ev") == "quit" for r in before):
            qi = [j for j, r in enumerate(before) if r.get("ev") == "quit"][0]
            lv = []
            for r in before[:qi]:
                if r.get("ev") == "start":
                    lv.append((r["who"], r["s"]))
                elif r.get("ev") == "end" and (r["who"], r["s"]) in lv:
                    lv.remove((r["who"], r["s"]))
                elif r.get("ev") == "conn" and r.get("s") != "none":
                    lv = [a for a in lv if a[1] != r["s"]]
            livenow = bool(lv)
            return "quiescent-state:%s:after-client-quit%s:%s" % (cfg, "-during-attempt" if livenow else "", ";".join(what))
        if run[0].get("first") and any(r.get("ev") == "ret" and r.get("status") == "fail" and r.get("beh") == "accept" for r in before):
            return "healthy-backend-request-failed:first-configuration-round:JoinGame-handled-before-transition-handler-installed"
        if len(rets) == 1 and last.get("status") == "fail" and last.get("beh") in ("accept", "stall") and \
                not any(r.get("ev") in ("kick", "quit") for r in before):
            return "healthy-backend-request-failed:%s" % cfg
        kick = "+kick" if any(r.get("ev") == "kick" for r in before) else ""
        calls = [r for r in before if r.get("ev") == "call"]
        ctx = "after-%s(%s/%s)%s" % (last.get("status", "nothing"), last.get("beh", ""),
                                     calls[-1]["api"] if calls else "", kick)
        return "quiescent-state:%s:%s:%s" % (cfg, ctx, ";".join(what))
    return "unexplained:%s" % ev


def run(ctx):
    r = ctx.tlc("SwitchImpl", "SwitchImpl_q.cfg" if ctx.quick else None, timeout=1200)
    states = r.distinct
    ctx.log("SwitchImpl.tla (design shape, 2 threads): %d distinct states, invariants hold" % r.distinct)
    if not ctx.quick:
        r3 = ctx.tlc("SwitchImpl", "SwitchImpl_3.cfg", timeout=1800)
        states += r3.distinct
        ctx.log("SwitchImpl.tla (design shape, 3 threads): %d distinct states, invariants hold" % r3.distinct)
    shapes = {}
    allshapes = (("SwitchImpl_race.cfg", "check and set in separate critical sections"),
                 ("SwitchImpl_stale.cfg", "connect() clears the slot whatever it holds"),
                 ("SwitchImpl_kick.cfg", "a kick clears the slot and starts a fallback"))
    # quick: one of the three (by seed); thorough: all
    for cfg, what in (allshapes[ctx.seed % 3:ctx.seed % 3 + 1] if ctx.quick else allshapes):
        rv = ctx.tlc("SwitchImpl", cfg, allow_violation=True, count=False)
        if not rv.violated:
            raise vlib.ToolError("code shape '%s' does not violate the invariants: they are vacuous" % what)
        shapes[what] = rv.violated
    ctx.log("deviating code shapes violate: %s" % shapes)
    rfirst = ctx.tlc("SwitchImpl", "SwitchImpl_first.cfg", count=False)
    rrace = ctx.tlc("SwitchImpl", "SwitchImpl_firstrace.cfg", allow_violation=True, count=False)
    if rrace.violated != "FirstJoinLands":
        raise vlib.ToolError("first-round model: acknowledging before installing the handler does not lose the join (vacuous)")
    shapes["acknowledgement written before the JoinGame handler is installed, backend not paused"] = rrace.violated
    gfirst = ctx.tlc("SwitchImpl", cfg_text=open(vlib.SPEC + "/SwitchImpl_firstrace.cfg").read()
                     .replace("Export = FALSE", "Export = TRUE").replace("INVARIANTS FirstJoinLands", "INVARIANTS Emit"),
                     workers=1, count=False)
    first_scheds = [x for x in gfirst.printed_json("SCHED")
                    if [y["t"] for y in x["sched"]] == ["ack", "joingame", "install"]]
    if not first_scheds:
        raise vlib.ToolError("the first-round model did not export the schedule ack; JoinGame; install")
    ra = ctx.tlc("Switch", timeout=600)
    states += ra.distinct
    ctx.log("Switch.tla (abstract): %d distinct states" % ra.distinct)

    three = '"t1", "t2", "t3"'
    pool = []
    for seq, n in (("TRUE", ctx.pick(200, 2500)), ("FALSE", ctx.pick(500, 6000))):
        g = ctx.tlc("SwitchImpl", cfg_text=GEN % (three, seq), workers=1, simulate=n, depth=30, count=False, timeout=1200)
        got = g.printed_json("SCHED")
        for s in got:
            s["sequential"] = seq == "TRUE"
        pool += got
    rnd = random.Random(ctx.seed)
    scheds = select(pool, ctx.pick(38, 300), rnd, ctx.pick(1, 20), ctx.pick(12, 110), ctx.pick(2, 12))
    for i, s in enumerate(scheds):
        s["ver"] = (763, 765)[(i + ctx.seed) % 2]
    # a client that breaks while a switch completes matters most for clients without a configuration
    # phase (the old backend is still attached when JoinGame arrives): both kinds, legacy first
    nx = 0
    for s in scheds:
        if any(x["k"] == "x" for x in s["sched"]):
            s["ver"] = (763, 765)[nx % 2]
            nx += 1
    nc = 0
    for s in scheds:
        if "caller-cancels-before-joingame" in patterns(s):
            s["ver"] = 763      # 1.20.2+ has no request-context watcher after the login (counted, not judged)
        elif "caller-cancels-in-login" in patterns(s):
            s["ver"] = (763, 765)[nc % 2]
            nc += 1
    # the player's first connection with the forced order "acknowledgement; backend's JoinGame; handler
    # installed" (1.20.2+ clients only: older ones have no configuration phase)
    for ver in ctx.pick(((765, 767)[ctx.seed % 2],), (764, 765, 766, 767, 774)):
        scheds.append({"prog": {}, "sched": first_scheds[0]["sched"], "ver": ver, "first": True, "sequential": True})
    nseq = sum(1 for s in scheds if s["sequential"])
    ctx.log("schedules: %d (of %d simulated), %d sequential, %d with a kick"
            % (len(scheds), len(pool), nseq, sum(1 for s in scheds if any(x["k"] == "kick" for x in s["sched"]))) +
            "; named patterns: %s" % sorted({p for s in scheds for p in patterns(s)}))
    with open(ctx.path("sched.json"), "w") as fh:
        json.dump(scheds, fh)

    ctx.harness("./c16", "TestSchedules", race=not ctx.quick, timeout=ctx.pick(900, 3000))
    st = json.load(open(ctx.path("stats.json")))
    if st.get("skipped"):
        ctx.log("schedules the rig could not set up (no verdict): %s" % st["skipped"][:4])
    if st["runs"] < 0.8 * len(scheds):
        raise vlib.ToolError("only %d of %d schedules could be driven: %s" % (st["runs"], len(scheds), (st.get("skipped") or [])[:4]))
    if not st.get("runs_with_old_backend_teardown_held_during_switch"):
        raise vlib.ToolError("hook_missing: no teardown of a self-closing current backend was ever held at cc.disconnecting")
    if not st.get("request_contexts_cancelled"):
        raise vlib.ToolError("vacuous: no request context was ever cancelled by the schedule")
    if not st.get("runs_with_client_break_held_at_switch_completion"):
        raise vlib.ToolError("hook_missing: no client break was ever held at gate point sw.switching")
    if not st.get("first_connection_runs_held_at_ack"):
        raise vlib.ToolError("hook_missing: no first-connection run was held at gate point cfg.acked")
    need = ["sw.checked", "sw.reset", "sw.failed"]
    missing = [g for g in need if not st["gate_arrivals"].get(g)]
    needev = ["chk", "start", "end", "conn", "call", "ret", "obs"]
    missing += [e for e in needev if not st["events"].get(e)]
    if missing:
        raise vlib.ToolError("hook_missing: never seen: %s" % missing)
    if not st["statuses"].get("success") or not st["statuses"].get("fail") or \
            not (st["statuses"].get("inprogress") or st["statuses"].get("already")):
        raise vlib.ToolError("vacuous: outcomes seen %s" % st["statuses"])

    recs = vlib.read_ndjson(ctx.path("trace.ndjson"))
    rejected, matched, tstates = ctx.validate_runs("Switch_Trace", recs, max_rejects=ctx.pick(10, 30))
    for rj in rejected:
        bad = rj["bad"] or {}
        key = key_of(rj)
        n = rj["run"][0].get("n")
        ctx.finding(key, "run of schedule %s on the live proxy is not a behaviour of Switch.tla; first unexplained event: %s"
                    % (n, json.dumps(bad)), {"schedule": scheds[n] if isinstance(n, int) and n < len(scheds) else None,
                                             "run": rj["run"], "bad_index": rj["bad_index"]})
    cov = {
        "states": states + tstates,
        "samples": st["samples"][:1] + [scheds[0]],
        "evaluations": st["runs"],
        "distinct_nontrivial": len({json.dumps(s, sort_keys=True) for s in scheds}),
        "rule": "schedule = (three requests: server x API x backend behaviour, interleaving of their gate points with "
                "backend actions and a kick) exported by TLC from SwitchImpl; each is forced on a fresh player; distinct = "
                "distinct (program, interleaving, client version) triples, all with >= 1 request",
        "sequential_schedules": nseq,
        "runs_with_overlapping_calls": st["runs_with_overlapping_calls"],
        "diverged_schedules": st["diverged"],
        "request_contexts_cancelled": st.get("request_contexts_cancelled", 0),
        "old_backend_teardowns_held_during_switch": st.get("runs_with_old_backend_teardown_held_during_switch", 0),
        "first_connection_runs_held_at_ack": st.get("first_connection_runs_held_at_ack", 0),
        "client_breaks_held_at_switch_completion": st.get("runs_with_client_break_held_at_switch_completion", 0),
        "runs_with_a_call_that_never_returned": st["unfinished"],
        "gate_arrivals": st["gate_arrivals"],
        "events": st["events"],
        "statuses": st["statuses"],
        "code_shapes_violating_model": shapes,
        "trace_events_validated": matched,
        "race_detector": not ctx.quick,
        "exhaustive": False,
    }
    return ctx.finish("model_checking", cov, [
        "gates only delay the calling goroutines; a forced execution is a real execution",
        "fake backends park a connection after the login start until the schedule (or the free run) lets them act",
        "the fake client follows StartConfiguration / FinishConfiguration like a vanilla client",
    ])
