"""C20 -- Velocity modern forwarding data authentic and negotiated like Velocity.

1. TLC proves, on the whole space requested 0..255 x every supported client protocol x key revision
   {none, GENERIC_V1, LINKED_V2}, that the transcription of Velocity's findForwardingVersion
   (Negotiate) equals a declarative reading (highest version not above the request that the client /
   key can carry), and exports boundary requests as scenarios.
2. The harness calls the real findForwardingVersion for the whole table (verif shim), builds payloads
   for fake key-carrying players through the real CreateForwardingData, and drives the live proxy in
   velocity mode with a fake Paper backend that requests forwarding (or does not). Payloads are
   MAC-checked with crypto/hmac and parsed by a parser written after Paper's VelocityProxy.
3. TLC judges every recorded line with Forwarding_Trace.tla: table rows = Negotiate; payload bytes =
   Payload(Negotiate(..), player's ip/uuid/name/properties[/key]) and MAC valid; parsed fields equal;
   a backend that never requested forwarding never becomes the player's server.
"""
import json
import vlib

META = {
    "category": "model_checking",
    "text": "Forwarding.tla transcribes Velocity's findForwardingVersion and TLC proves it equal to a declarative "
            "definition on all 256 requested versions x every supported protocol x 3 key revisions; the real "
            "function is evaluated for the same whole table and TLC compares every row. Forwarding payloads "
            "(live proxy answering a fake Paper backend for every 1.13+ protocol x boundary requested versions x "
            "malformed request data, from distinct source IPs, UUIDs and hostile property lists incl. profiles that make the "
            "payload exceed 2, 4 and 8 KiB; and "
            "CreateForwardingData for fake players with V1/V2 keys) are verified with crypto/hmac under the secret exactly as configured (secrets with leading / "
            "trailing spaces, tabs, line breaks, all-space; and must fail under another secret), must equal byte for byte the layout Payload() built in TLA+ on Wire.tla, and "
            "their Paper-style parse must give back exactly ip, uuid, name, properties and key data. A backend "
            "sending login success without requesting forwarding (also after a proxy plugin answered its login plugin request "
            "on another channel) must not become the player's server.",
    "design_ref": "DESIGN.md section 4, C20",
    "level_note": "HMAC-SHA256 is Go's crypto/hmac in the harness (uninterpreted in the spec). The requested version "
                  "byte is read as 0..255 as the property states (Velocity reads a signed byte; Paper only sends "
                  "1..4). Key-carrying versions 2/3 cannot be reached live (a valid Mojang-signed key cannot be "
                  "forged), they are exercised through the verif shim with fake keys. 'Refused' is judged one-sided: "
                  "only a backend observed as the player's current server is a violation; a run without any "
                  "conclusive refusal observation is a tool error.",
    "technique": "TLA+ transcription vs declarative definition (TLC exhaustive), TLA+ byte layout on Wire.tla, "
                 "live-rig + shim recording, TLC trace validation",
}


def run(ctx):
    ctx.harness("./c20", "TestVersions", timeout=600)
    sup = json.load(open(ctx.path("versions.json")))["supported"]
    cfg = ("SPECIFICATION Spec\nCONSTANTS\n  Protos = {%s}\n"
           "INVARIANTS TranscriptionMatchesDeclarative NeverAboveRequest Emit\n" % ", ".join(map(str, sup)))
    r = ctx.tlc("Forwarding", cfg_text=cfg)
    scens = r.printed_json("SC")
    if r.distinct != 256 * len(sup) * 3:
        raise vlib.ToolError("negotiation space not fully enumerated: %d states" % r.distinct)
    if ctx.quick:
        keep = set(sup[::4]) | {393, 759, 760, 761, 763, 764, 765, sup[-1]}
        scens = [s for s in scens if s["proto"] in keep]
    ctx.log("Forwarding.tla: %d states (whole negotiation table), %d boundary scenarios driven" % (r.distinct, len(scens)))
    with open(ctx.path("scen.json"), "w") as fh:
        json.dump(scens, fh)
    ctx.harness("./c20", "TestTrace", timeout=ctx.pick(400, 900))
    st = json.load(open(ctx.path("stats.json")))
    s = st["stats"]
    ctx.log("harness: %s" % json.dumps(s, sort_keys=True))
    if s.get("neg_rows", 0) != len(sup) * 3:
        raise vlib.ToolError("negotiation table incomplete: %s rows" % s.get("neg_rows"))
    if not s.get("live_payloads") or not s.get("shim_payloads_with_key"):
        raise vlib.ToolError("no live forwarding payload / no key-carrying payload recorded: vacuous")
    if not s.get("noreq") or not s.get("live_joined_after_request"):
        raise vlib.ToolError("no conclusive no-request observation or no control join after a request: vacuous")
    if not s.get("noreq_after_plugin_answered_other_channel"):
        raise vlib.ToolError("no observation of a backend that got a plugin's answer on another channel and never requested forwarding")
    for src in ("shim", "live"):
        for cls in (">2048", ">4096", ">8192"):
            if not s.get("%s_payload%s" % (src, cls)):
                raise vlib.ToolError("no %s payload of size %s was produced: size classes not covered" % (src, cls))
    lost = s.get("live_unreached", 0) + s.get("live_no_response", 0)
    if lost * 20 > s["live_payloads"]:
        raise vlib.ToolError("%d live logins gave no forwarding response" % lost)
    recs = vlib.read_ndjson(ctx.path("trace.ndjson"))
    path = ctx.path("trace.ndjson")
    tcfg = open(vlib.SPEC + "/Forwarding_Trace.cfg").read()
    ok, matched, total, res = ctx.validate_trace("Forwarding_Trace", path, n_traces=0, cfg_text=tcfg)
    ctx.log("Forwarding_Trace: %s (%d of %d lines)" % ("accepted" if ok else "REJECTED", matched, total))
    nbad = 0
    if not ok:
        res2 = ctx.tlc("Forwarding_Trace", "Forwarding_Trace_collect.cfg", files={"trace.ndjson": path},
                       workers=1, count=False)
        lines = sorted({int(x) for x in res2.printed("REJECT")})
        if matched + 1 not in lines:
            raise vlib.ToolError("collect pass disagrees with the strict pass (first reject %d, listed %s)"
                                 % (matched + 1, lines[:5]))
        for ln in lines:
            bad = recs[ln - 1]
            nbad += 1
            ctx.finding(classify(bad), describe(bad), slim(bad))
    ctx.traces_validated += len(recs) - nbad
    cov = {
        "samples": st["samples"] or [{"note": "no sample"}],
        "evaluations": 256 * len(sup) * 3 + s.get("live_payloads", 0) + s.get("shim_payloads", 0) + s.get("noreq", 0),
        "distinct_nontrivial": s.get("live_payloads", 0) + s.get("shim_payloads", 0),
        "rule": "negotiation: every (requested, protocol, key) triple, exhaustive; payloads: one per boundary scenario "
                "(live = real login in velocity mode, shim = CreateForwardingData for a fake player); non-trivial = a "
                "payload was produced and judged",
        "negotiation_triples": 256 * len(sup) * 3,
        "protocols": len(sup),
        "harness": s,
        "exhaustive": True,
        "exhaustive_scope": "version negotiation table; payload inputs are sampled",
        "states": r.distinct + res.distinct,
    }
    return ctx.finish("model_checking", cov, [
        "HMAC-SHA256 instantiated by crypto/hmac + crypto/sha256",
        "live players have no signed key (offline mode); key data is covered through the verif shim only",
    ])


def slim(bad):
    b = dict(bad)
    for k in ("data",):
        if k in b and len(b[k]) > 200:
            b[k] = b[k][:200] + ["..."]
    return b


def classify(bad):
    if bad["ev"] == "neg":
        return "negotiate:proto%s:key=%s" % ("<1.19.3" if bad["proto"] < 761 else ">=1.19.3", bad["key"])
    if bad["ev"] == "noreq":
        return "no-request:backend-accepted" + (":after-plugin-answer-on-other-channel" if bad.get("otheranswered") else "")
    p = bad.get("p", {})
    w = bad["want"]
    if not bad["macok"]:
        what = "mac-invalid"
    elif bad["macwrong"]:
        what = "mac-valid-under-other-secret"
    elif not bad["parsed"]:
        what = "unparseable"
    else:
        wrong = [f for f in ("ip", "uuid", "name", "props") if p.get(f) != w.get(f)]
        what = "field-" + wrong[0] if wrong else "version-key-or-layout"
    return "payload:%s:%s:req=%s" % (bad["src"], what, "none" if bad["req"] < 0 else
                                     ("<=1" if bad["req"] <= 1 else "2..3" if bad["req"] <= 3 else ">=4"))


def describe(bad):
    if bad["ev"] == "neg":
        return "findForwardingVersion row for protocol %s, key %s differs from Velocity's: %s" % (
            bad["proto"], bad["key"], bad["got"][:8])
    if bad["ev"] == "noreq":
        return "backend sent login success without requesting forwarding and became the player's server (protocol %s)" % bad["proto"]
    return "forwarding payload (src %s, protocol %s, key %s, requested %s) not allowed by Forwarding spec: macok=%s parsed=%s version=%s" % (
        bad["src"], bad["proto"], bad["key"], bad["req"], bad["macok"], bad["parsed"], bad.get("p", {}).get("version"))
