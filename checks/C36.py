"""C36 -- config edits via JSON Merge Patch follow RFC 7396.

1. TLC: the reference operator MergePatch (declarative) equals a literal transcription of the
   RFC's pseudocode (MergeFold) and satisfies the RFC's laws on every (target, patch) pair of the
   enumerated domain, reproduces the 15 examples of the RFC's appendix, and is told apart from
   two mutants (nulls kept, shallow replace) -- so the domain is not vacuous.
2. TLC exports every pair; the harness runs the real applyMergePatch on them (plus seeded random
   deeper documents and chains of patches) through the same encoding/json round trip that
   mergeConfigPatch uses and records target/patch/out.
3. End to end: the harness dumps the canonical documents of real configurations and generated
   patches (transplanted subtrees of another real config, deletions, unknown members, wrong
   shapes, whole-document patches); TLC computes the RFC result of each; the harness runs the
   real mergeConfigPatch and records acceptance + the candidate next to the strictly decoded
   form of TLC's result.
4. TLC validates the whole trace: out = MergePatch(target, patch); accepted <=> the RFC result
   decodes strictly; the candidate is that configuration; the accepted document only uses
   members the configuration type knows (Strict over the reflected schema).
"""
import json
import vlib

META = {
    "category": "model_checking",
    "text": "A TLA+ reference operator for RFC 7396 (checked by TLC against a literal transcription of the "
            "RFC pseudocode, the RFC's laws and its 15 appendix examples on every enumerated target/patch "
            "pair: 14 953 quick, 342 595 thorough) judges recorded I/O of the real applyMergePatch on every pair "
            "of an enumerated domain (14 953 pairs quick, 143 377 thorough) and on random deeper "
            "documents, and judges mergeConfigPatch end to end on real configurations: accepted iff the RFC "
            "result decodes strictly, the candidate equals it, and it only uses known members.",
    "design_ref": "DESIGN.md section 4, C36",
    "level_note": "JSON documents beyond depth 2 / keys {a,b} are sampled (seeded), not enumerated. 'Decodes "
                  "strictly as a configuration' is instantiated by the real strict decoder applied to the RFC "
                  "result computed by TLC, plus a TLA+ Strict predicate over the reflected member names; members "
                  "of sections with custom YAML decoding are not claimed (kind any). Non-integer numbers travel "
                  "as opaque strings.",
    "technique": "TLA+ reference operator, TLC exhaustive self-check + vector export, TLC trace validation of recorded real I/O",
}


def classify(target, patch):
    if patch.get("t") != "obj":
        return "replace-nonobject"
    c = "obj" if target.get("t") == "obj" else "obj-onto-nonobj"

    def walk(v, d):
        if v.get("t") != "obj":
            return v.get("t") == "null", d
        n, md = False, d
        m = v.get("m") or {}
        for e in (m.values() if isinstance(m, dict) else []):
            en, ed = walk(e, d + 1)
            n = n or en
            md = max(md, ed)
        return n, md
    n, d = walk(patch, 0)
    return c + ("+null" if n else "") + ("+nested" if d >= 2 else "")


def run(ctx):
    r = ctx.tlc("MergePatch", ctx.pick("MergePatch_small.cfg", "MergePatch_rich.cfg"), timeout=1200)
    pairs = r.distinct
    ctx.log("MergePatch.tla: %d target/patch pairs: declarative == RFC pseudocode, laws, RFC appendix A" % pairs)
    for cfg in ("MergePatch_mutant1.cfg", "MergePatch_mutant2.cfg"):
        m = ctx.tlc("MergePatch", cfg, allow_violation=True, count=False)
        if not m.violated:
            raise vlib.ToolError("mutant merge operator not told apart (%s): domain vacuous" % cfg)
    ctx.log("mutant operators (nulls kept / shallow replace) are told apart: domain not vacuous")

    # vectors: every pair of the 3-leaf domain (quick) / the 5-leaf domain (thorough)
    v = ctx.tlc("MergePatch", ctx.pick("MergePatch_vec.cfg", "MergePatch_stdvec.cfg"), count=False, timeout=1200)
    vecs = v.printed_json("VEC")
    if len(vecs) != v.distinct or not vecs:
        raise vlib.ToolError("exported %d vectors for %d pairs" % (len(vecs), v.distinct))
    with open(ctx.path("vec.json"), "w") as fh:
        json.dump(vecs, fh)
    ctx.log("exported %d vectors" % len(vecs))
    ctx.harness("./c36", "TestVectors|TestCfgDump",
                env={"VERIF_N": ctx.pick(1500, 30000), "VERIF_CFG_N": ctx.pick(15, 150)}, timeout=1200)
    st = json.load(open(ctx.path("stats.json")))
    ctx.log("harness: %d vectors + %d random documents (+%d chain steps) through applyMergePatch"
            % (st["vectors"], st["random"], st["chain_steps"]))

    # end to end: TLC computes the RFC result for every (real config, patch) case
    e = ctx.tlc("MergePatch_Cfg", files={"cfgvec.ndjson": ctx.path("cfgvec.ndjson"),
                                         "cfgbases.json": ctx.path("cfgbases.json")},
                workers=1, count=False, timeout=1200)
    exps = e.printed_json("EXP")
    with open(ctx.path("cfgexp.json"), "w") as fh:
        json.dump(exps, fh)
    ctx.harness("./c36", "TestCfgApply", timeout=1200)
    cst = json.load(open(ctx.path("cfgstats.json")))
    ctx.log("harness: %d end-to-end cases on real configurations (%d accepted, %d rejected)"
            % (cst["cfg_cases"], cst["cfg_accepted"], cst["cfg_rejected"]))
    if cst["cfg_cases"] != len(exps) or not cst["cfg_accepted"] or not cst["cfg_rejected"]:
        raise vlib.ToolError("end-to-end cases degenerate: %s" % cst)

    bases = json.load(open(ctx.path("cfgbases.json")))
    head = {"ev": "bases", "bases": bases["bases"], "schema": bases["schema"]}
    recs = vlib.read_ndjson(ctx.path("cfgtrace.ndjson")) + vlib.read_ndjson(ctx.path("trace.ndjson"))
    total = len(recs)
    matched_total, tries = 0, 0
    while recs and tries < 12:
        p = ctx.path("val%d.ndjson" % tries)
        vlib.write_ndjson(p, [head] + recs)
        ok, matched, tot, res = ctx.validate_trace("MergePatch_Trace", p, n_traces=0, timeout=1800)
        tries += 1
        if ok:
            matched_total += len(recs)
            recs = []
            break
        if matched == 0:
            raise vlib.ToolError("trace spec rejects the bases line:\n" + res.tail(30))
        bad = recs[matched - 1]
        matched_total += matched - 1
        if bad["ev"] == "merge":
            ctx.finding("merge:" + classify(bad["target"], bad["patch"]),
                        "applyMergePatch output is not the RFC 7396 result: %s" % json.dumps(bad)[:600], bad)
        else:
            if bad["accepted"] != bad["norm_ok"]:
                why = "accepted" if bad["accepted"] else "rejected"
                desc = "mergeConfigPatch %s a patch whose RFC result %s strictly" % (
                    why, "decodes" if bad["norm_ok"] else "does not decode")
            elif not bad.get("base_untouched", True):
                why, desc = "base-mutated", "mergeConfigPatch changed the effective configuration it was given"
            elif bad["accepted"] and bad.get("cand") != bad.get("norm"):
                why, desc = "result", "the accepted candidate is not the RFC 7396 result"
            else:
                why, desc = "strict", "an accepted document uses members the configuration does not know"
            slim = {k: bad[k] for k in ("id", "base", "class", "patch", "accepted", "norm_ok")}
            ctx.finding("cfgpatch:%s:%s" % (bad["class"], why), desc + ": " + json.dumps(slim)[:600], bad)
        recs = recs[matched:]
    if recs:
        ctx.notes.append("stopped after %d rejections; %d trace lines unexamined" % (tries, len(recs)))
    ctx.traces_validated += 1

    classes = st["classes"]
    cov = {
        "samples": st["samples"][:2] + cst["samples"][:1],
        "evaluations": total,
        "distinct_nontrivial": sum(n for c, n in classes.items() if c != "replace-nonobject") + cst["cfg_cases"],
        "rule": "non-trivial = object patch (recursive merge, null removal, object onto non-object) or an "
                "end-to-end case on a real configuration; counted per class below",
        "pairs_self_checked": pairs,
        "pairs_replayed_on_real_code": len(vecs),
        "vector_classes": classes,
        "vectors_changing_target": st["changed"],
        "random_documents": st["random"],
        "chain_steps": st["chain_steps"],
        "cfg_cases": cst["cfg_cases"],
        "cfg_accepted": cst["cfg_accepted"],
        "cfg_rejected": cst["cfg_rejected"],
        "cfg_classes": cst["classes"],
        "trace_events_validated": matched_total,
        "exhaustive": False,
    }
    return ctx.finish("model_checking", cov, [
        "documents of depth <= 2 over keys {a,b} are enumerated: self-check with 3 (thorough 6) leaf kinds, replay on "
        "the real code with 3 (thorough 5) leaf kinds; deeper documents are seeded random",
        "encoding/json's decoding of the patch text and yaml.v3's strict decoding are the real ones (not modelled)",
    ])
