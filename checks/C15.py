"""C15 -- non-intercepted packets are relayed byte-identical and in order.

1. TLC model-checks Relay.tla (two FIFO channels; invariants: what was received is always a
   prefix of -- and at quiescence equal to -- the non-intercepted subsequence of what was
   sent, per direction); the fault-injecting variant must violate (non-vacuity).
2. TLC (simulation) generates stream scenarios: protocol version x client threshold x
   backend threshold x per-direction sequences of (size class, id kind).
3. The live rig joins a fake client (harness codec) through the real proxy to a fake backend
   that announces its own threshold, then both ends pump the scenario concurrently and log
   (dir, id, len, sha256) on send and on receive (+ how the frame was framed on the last hop).
4. TLC validates every run against Relay_Trace.tla.
"""
import json
import random
import vlib

META = {
    "category": "model_checking",
    "text": "Relay.tla specifies the proxy in play state as two independent FIFO channels with an 'intercepted' "
            "predicate; TLC checks the order/no-loss/no-duplication invariants on the model (and that a faulty channel "
            "violates them) and generates stream scenarios over protocol version x client-side threshold x "
            "backend-side threshold x size classes (empty body, 1 byte, both thresholds -1/0/+1, 2^14 and 2^15 "
            "boundaries, the largest frame both hops can carry near 2^21, bursts, and 'held': a frame stopped inside the proxy's "
            "encoder between compression and write while two other players relay compressible packets through the same "
            "proxy) x id kinds (ids gate has not "
            "registered for that version/direction incl. multi-byte VarInt ids, a known pass-through packet, a known "
            "intercepted packet). Each scenario is pumped through the live proxy in both directions at once; the "
            "endpoints' send/receive logs (id, length, SHA-256, last-hop framing) are validated by TLC line by line.",
    "design_ref": "DESIGN.md section 4, C15",
    "level_note": "A 'held' packet uses the gate point enc.frame (encoder.go) so that the interleaving 'other connections encode while "
                  "this frame is compressed but not yet written' is forced rather than hoped for; the peers' streams are "
                  "validated as runs of their own. Unknown ids are looked up through gate's exported state registry (a table lookup that steers the "
                  "driver). Known pass-through types are limited to the three whose handlers provably forward the received "
                  "payload (serverbound ClientSettings, clientbound KeepAlive, clientbound legacy PlayerListItem 1.8-1.19.1); known intercepted ones (serverbound "
                  "KeepAlive with an id nobody asked for, clientbound BungeeCord plugin message) carry no obligation. "
                  "Besides identity and order the trace spec requires that a frame reaches the receiver in a form a vanilla "
                  "peer accepts (length prefix <= 2^21-1, compressed only at/above the hop's threshold). Sizes stay within "
                  "what both hops can carry after re-framing (<= 2^21-1 frame bytes, <= 2 MiB uncompressed serverbound). The "
                  "serverbound packet rate limiter is switched off (it intercepts by design). Loss is only concluded after "
                  "all senders finished and the receiver saw nothing for VERIF_IDLE_MS (8 s quick / 20 s thorough) or its "
                  "connection ended. Protocols below 1.8 are not driven.",
    "technique": "TLA+ abstract channel spec, TLC model checking + simulation-based scenario generation, live-rig replay, "
                 "TLC trace validation",
}

VERSIONS = [47, 340, 754, 762, 763, 765, 767, 774]
THRP1 = [0, 1, 65, 257]
SIZES = ["zero", "one", "small", "sm1", "s0", "sp1", "dm1", "d0", "dp1", "k14", "k15", "big", "burst", "held"]


def gen_cfg(maxsend):
    return ("SPECIFICATION Spec\nCONSTANTS\n  Versions = {%s}\n  ThrPlus1 = {%s}\n  Sizes = {%s}\n"
            "  Kinds = {\"unknown\", \"pass\", \"icpt\"}\n  SmallSize = \"small\"\n  MaxSend = %d\n  Faulty = FALSE\n"
            "INVARIANTS InOrderNoLossNoDup CompleteAtQuiescence Emit\n"
            % (", ".join(map(str, VERSIONS)), ", ".join(map(str, THRP1)),
               ", ".join('"%s"' % s for s in SIZES), maxsend))


def features(sc):
    f = {("combo", sc["ver"], sc["cthr"], sc["bthr"])}
    for st in sc["h"]:
        f.add((st["dir"], st["size"] if st["kind"] == "unknown" else st["kind"]))
        f.add(("pair", sc["cthr"] > 0, sc["bthr"] > 0, st["dir"], st["size"]))
    return f


def select(pool, budget, rnd):
    """Greedy: scenarios that add an unseen feature first, then fill up."""
    rnd.shuffle(pool)
    seen, picked, rest = set(), [], []
    for sc in pool:
        f = features(sc)
        if len(picked) < budget and not f <= seen:
            picked.append(sc)
            seen |= f
        else:
            rest.append(sc)
    picked += rest[:max(0, budget - len(picked))]
    return picked


def classify(rj):
    """Name the kind of deviation for the finding key (the verdict is TLC's rejection)."""
    run, bad = rj["run"], rj["bad"] or {}
    reset = run[0]
    d = bad.get("dir")
    sent = [r for r in run if r.get("ev") == "send" and r.get("dir") == d and r.get("kind") != "icpt"]
    got = [r for r in run[:rj["bad_index"]] if r.get("ev") == "recv" and r.get("dir") == d]
    hop = "c=%d,b=%d" % (reset["cthr"], reset["bthr"])
    if bad.get("ev") == "end":
        missing = sent[len(got)] if len(got) < len(sent) else {}
        what = "lost(len=%s,closed=%s)" % (size_class(missing.get("len"), reset), bad.get("closed"))
    elif bad.get("ev") == "recv":
        k = len(got)
        exp = sent[k] if k < len(sent) else None
        hashes = [s["hash"] for s in sent]
        if exp and exp["hash"] == bad["hash"] and exp["id"] == bad["id"]:
            what = "framing(comp=%s,len=%s,flen=%s)" % (bad.get("comp"), size_class(bad.get("len"), reset), bad.get("flen"))
        elif bad["hash"] in hashes:
            i = hashes.index(bad["hash"])
            what = "duplicate" if i < k else "reordered-or-skipped(len=%s)" % size_class(sent[k]["len"], reset)
        else:
            what = "corrupted(len=%s)" % size_class(exp["len"] if exp else bad.get("len"), reset)
    else:
        what = "unexplained:%s" % bad.get("ev")
    return "ver=%s,%s,%s:%s" % (reset["ver"], hop, d, what)


def size_class(n, reset):
    if n is None:
        return "?"
    for name, t in (("cthr", reset["cthr"]), ("bthr", reset["bthr"])):
        if t > 1 and abs(n - t) <= 1:
            return "%s%+d" % (name, n - t)
    if n <= 3:
        return "tiny"
    if n >= 1 << 20:
        return ">=1MiB"
    if n >= 1 << 14:
        return ">=16KiB"
    return "small"


def run(ctx):
    r = ctx.tlc("Relay", cfg_text=None if ctx.quick else open(vlib.SPEC + "/Relay.cfg").read().replace("MaxSend = 2", "MaxSend = 3"),
                timeout=1200)
    mc_states = r.distinct
    ctx.log("Relay.tla: %d distinct states, invariants hold" % r.distinct)
    rf = ctx.tlc("Relay", "Relay_faulty.cfg", allow_violation=True, count=False)
    if not rf.violated:
        raise vlib.ToolError("faulty Relay channel does not violate the invariants: they are vacuous")
    ctx.log("Relay.tla (faulty channel): violates %s (non-vacuity ok)" % rf.violated)

    maxsend = ctx.pick(5, 6)
    g = ctx.tlc("Relay", cfg_text=gen_cfg(maxsend), workers=1, simulate=ctx.pick(500, 6000), depth=4 * maxsend + 2,
                count=False, timeout=1200)
    pool = g.printed_json("SCEN")
    scens = select(pool, ctx.pick(40, 280), random.Random(ctx.seed))
    combos = {(s["ver"], s["cthr"], s["bthr"]) for s in scens}
    ctx.log("scenarios: %d of %d simulated behaviours, %d (version, client thr, backend thr) combinations"
            % (len(scens), len(pool), len(combos)))
    with open(ctx.path("scen.json"), "w") as fh:
        json.dump(scens, fh)

    ctx.harness("./c15", "TestStreams", env={"VERIF_IDLE_MS": ctx.pick(8000, 20000), "VERIF_PAR": 6, "VERIF_PROCS": 3},
                timeout=ctx.pick(600, 2400))
    st = json.load(open(ctx.path("stats.json")))
    stats = st["stats"]
    if st["skipped"]:
        ctx.log("scenarios the rig could not set up (no verdict): %s" % st["skipped"][:5])
    recs = vlib.read_ndjson(ctx.path("trace.ndjson"))
    rejected, matched, tstates = ctx.validate_runs("Relay_Trace", recs)
    for rj in rejected:
        key = classify(rj)
        ctx.finding(key, "relay through the live proxy deviates from Relay spec at %s" % json.dumps(rj["bad"]),
                    {"scenario": rj["run"][0], "bad": rj["bad"], "bad_index": rj["bad_index"],
                     "run_tail": rj["run"][max(0, rj["bad_index"] - 6):rj["bad_index"] + 1]})
    if not ctx.findings:
        # coverage holes are tool trouble, but never instead of a verdict the traces already gave
        if stats.get("runs", 0) < 0.8 * len(scens):
            raise vlib.ToolError("only %d of %d scenarios could be driven: %s" % (stats.get("runs", 0), len(scens), st["skipped"][:5]))
        if not stats.get("received_compressed") or not stats.get("received_1MiB_plus") or not stats.get("received_empty_body_or_tiny"):
            raise vlib.ToolError("coverage hole (compressed / >=1MiB / tiny packets never received): %s" % stats)
        if not stats.get("frames_held_in_encoder"):
            raise vlib.ToolError("hook_missing: no frame was ever held at gate point enc.frame (multi-player contention not exercised)")
    cov = {
        "states": mc_states + tstates,
        "samples": st["samples"][:1] + [scens[0]],
        "evaluations": stats.get("sent", 0),
        "distinct_nontrivial": len(scens),
        "rule": "scenario = (version, client threshold, backend threshold, per-direction size-class/kind sequence) exported by "
                "TLC; every scenario has %d steps per direction (a burst step is 16 packets); evaluations = packets sent" % maxsend,
        "scenarios_driven": stats.get("runs", 0),
        "combinations": len(combos),
        "packets_sent": stats.get("sent", 0),
        "packets_relayable": stats.get("relayable", 0),
        "packets_received": stats.get("received", 0),
        "received_compressed": stats.get("received_compressed", 0),
        "received_1MiB_plus": stats.get("received_1MiB_plus", 0),
        "received_tiny": stats.get("received_empty_body_or_tiny", 0),
        "players_joined": stats.get("players", 0),
        "frames_held_in_encoder_while_peers_relayed": stats.get("frames_held_in_encoder", 0),
        "trace_events_validated": matched,
        "exhaustive": False,
    }
    return ctx.finish("model_checking", cov, [
        "fake client and backend speak the harness's own codec (framing, zlib via Go stdlib); SHA-256 is Go stdlib",
        "a packet counts as originated by the proxy (ignored) iff its id is not one the scenario relays in that direction",
    ])
