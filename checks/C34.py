"""C34 -- rate limiters enforce exactly their configured windows and buckets.

1. TLC proves the code-shaped ring buffer of packetlimiter.counter (expire / add / resize,
   initial capacity scaled to 2 so that it wraps and resizes twice) equal to the abstract
   sliding window on every nondecreasing timestamp/count history within the bounds
   (total = window sum, ring content = window content, slots outside the ring clean);
   a resize that does not unwrap the ring must violate.
2. TLC exports every history of 4 (thorough: 5) events and simulated 14-event ones; the
   harness replays a tenth (thorough: half) of the exhaustive set and all simulated ones into the real counter and into Limiter.Account (injected clock,
   several clock bases including one that wraps int64, events repeated to force the real
   8 -> 16 -> 32 resizes), at 100 ms per step and at 300 us per step (events inside one
   millisecond with the window edge between them), plus seeded random long histories
   (bursts, gaps > window) at millisecond and microsecond resolution.
2b. QuotaFirst.tla models simultaneous first events of one uncached address block; TLC
   checks the group bound with the lock, finds it broken without, and exports every gate
   interleaving; the harness forces them on the real Quota through the quota.miss gate
   point and adds free-running simultaneous bursts on fresh blocks.
3. Bucket.tla pairs boundary addresses (bit flipped around /24 and /64, mapped, zoned),
   proves byte-masking == bit-prefix bucketing, exports the pairs; the harness records
   ipKey equality for them and runs Quota.Blocked in real time over several buckets.
4. TLC judges all recorded histories: window sums, closed <=> Exceeded, bucket keys, and
   the one-sided token-bucket bound allowed <= burst + rate * elapsed per bucket.
"""
import json
import vlib

META = {
    "category": "model_checking",
    "text": "RateLimit.tla holds the abstract sliding window (events with t >= now - W; exceeded when sum*1000 > "
            "rate*W) and a code-shaped model of the ring buffer; TLC proves total = window sum and ring = window on all "
            "bounded nondecreasing histories (scaled capacity: wrap-around and two resizes) and exports histories. The "
            "harness replays them, stretched variants and random long histories into the real counter and the real "
            "Limiter.Account through an injected clock; Bucket.tla exports boundary address pairs for ipKey; "
            "Quota.Blocked runs in real time. TLC validates every recorded history against the abstract window, the "
            "Exceeded rule, the bucket rule and the one-sided token-bucket bound.",
    "design_ref": "DESIGN.md section 4, C34",
    "level_note": "Timestamps are nondecreasing (the quantifier's histories). An event exactly one window old may count "
                  "or not. A Limiter history ends at the first refusal (the connection is closed there). The quota bound "
                  "is an upper bound in real time (elapsed = latest end - earliest start of the bucket's calls, half an "
                  "event slack) plus, in sequential runs, 'a bucket's first event is allowed'; no lower bound on "
                  "throughput is required. Gate schedules the real lock forbids just run as the lock lets them. Non-IP strings are "
                  "unconstrained. LRU eviction of quota buckets is not exercised.",
    "technique": "TLA+ refinement check (ring buffer vs abstract window) with TLC, TLC-exported histories replayed on "
                 "real code with an injected clock, TLC trace validation",
}


def run(ctx):
    r = ctx.tlc("RateLimit", ctx.pick("RateLimit.cfg", "RateLimit_full.cfg"), timeout=1500)
    ctx.log("RateLimit.tla: %d states, ring buffer refines the abstract window" % r.distinct)
    rb = ctx.tlc("RateLimit", "RateLimit_broken.cfg", allow_violation=True, count=False)
    if not rb.violated:
        raise vlib.ToolError("broken resize not caught: refinement invariants vacuous")
    ctx.log("broken resize violates %s (non-vacuity ok)" % rb.violated)
    rh = ctx.tlc("RateLimit", ctx.pick("RateLimit_hist.cfg", "RateLimit_hist5.cfg"), workers=1, count=False,
                 timeout=1500)
    hs = [{"w": 3, "ev": h} for h in rh.printed_json("HIST")]
    n_ex = len(hs)
    rs = ctx.tlc("RateLimit", "RateLimit_sim.cfg", workers=1, count=False, simulate=ctx.pick(30, 300), depth=15)
    sim = [{"w": 4, "ev": h} for h in rs.printed_json("HIST")]
    sim = sim[:ctx.pick(300, 3000)]
    hs += sim
    # sized to the measured validation throughput (~1.5-3k trace lines/s): a tenth of the
    # exhaustive set in quick, half of it in thorough
    hs = hs[:n_ex:ctx.pick(10, 2)] + sim
    ctx.log("histories: %d exhaustive (len %d), %d simulated (len 14); replaying %d"
            % (n_ex, ctx.pick(4, 5), len(sim), len(hs)))
    with open(ctx.path("hist.json"), "w") as fh:
        json.dump(hs, fh)
    rq = ctx.tlc("QuotaFirst")
    ru = ctx.tlc("QuotaFirst", "QuotaFirst_unlocked.cfg", allow_violation=True, count=False)
    if ru.violated != "GroupBound":
        raise vlib.ToolError("quota model without the lock does not exceed the burst: vacuous")
    qs = ctx.tlc("QuotaFirst", "QuotaFirst_sched.cfg", workers=1, count=False).printed_json("SCHED")
    with open(ctx.path("qsched.json"), "w") as fh:
        json.dump(qs, fh)
    ctx.log("QuotaFirst.tla: %d states hold the group bound; %d gate schedules of simultaneous first events"
            % (rq.distinct, len(qs)))
    rp = ctx.tlc("Bucket", workers=1)
    pairs = rp.printed_json("PAIR")
    if ctx.quick:
        pairs = pairs[::3]
    with open(ctx.path("pairs.json"), "w") as fh:
        json.dump(pairs, fh)
    ctx.log("Bucket.tla: %d address pairs (%d same bucket)" % (len(pairs), sum(1 for p in pairs if p["same"])))

    ctx.harness("./c34", "TestTrace", env={"VERIF_RANDOM": ctx.pick(40, 600),
                                           "VERIF_QUOTA_MS": ctx.pick(400, 4000),
                                           "VERIF_QUOTA_ROUNDS": ctx.pick(40, 400)}, timeout=1200)
    st = json.load(open(ctx.path("stats.json")))
    ctx.log("harness: %d counter runs (%d adds, max capacity %d), %d limiter runs (%d closed), %d quota calls "
            "(%d blocked), %d key pairs" % (st["counter_runs"], st["adds"], st["max_ring_capacity"], st["limiter_runs"],
                                            st["limiter_runs_closed"], st["quota_calls"], st["quota_blocked"],
                                            st["key_pairs"]))
    if not st["sub_millisecond_runs"] or not st["quota_schedules_forced"] or st["max_ring_capacity"] < 32 or not st["limiter_runs_closed"] or not st["quota_blocked"] \
            or st["limiter_runs_closed"] == st["limiter_runs"]:
        raise vlib.ToolError("harness did not reach resizes / refusals: %s" % st)
    recs = vlib.read_ndjson(ctx.path("trace.ndjson"))
    # one TLC pass per slice of at most ~80k trace lines (cut at run boundaries)
    rejected, matched, tstates = [], 0, 0
    chunk, n_chunks = [], 0
    bounds = [i for i, r in enumerate(recs) if r.get("ev") == "reset"] + [len(recs)]
    start = 0
    for k in range(1, len(bounds)):
        if bounds[k] - start >= 80000 or k == len(bounds) - 1:
            rj, m, ts = ctx.validate_runs("RateLimit_Trace", recs[start:bounds[k]], timeout=900)
            rejected += rj
            matched += m
            tstates += ts
            n_chunks += 1
            start = bounds[k]
    ctx.log("trace validated in %d TLC pass(es): %d lines" % (n_chunks, matched))
    for rj in rejected:
        bad = rj["bad"] or {}
        ev = bad.get("ev")
        run = rj["run"]
        head = run[0] if run and run[0].get("ev") == "reset" else {}
        if ev == "add":
            key = "counter:sum-mismatch"
            desc = "counter sum %s after adding n=%s at t=%s (window %s, %s units per second) is not the sliding-window sum" % (
                bad.get("sum"), bad.get("n"), bad.get("t"), head.get("w"), head.get("ups"))
        elif ev == "acct":
            key = "limiter:%s" % ("refused-within-limit" if not bad.get("ok") else "allowed-over-limit")
            desc = "Limiter(pps=%s,bps=%s,window=%s at %s units/s).Account at t=%s returned %s against the sliding-window count" % (
                head.get("pps"), head.get("bps"), head.get("w"), head.get("ups"), bad.get("t"), bad.get("ok"))
        elif ev == "q":
            zoned = "%" in bad.get("s", "")
            key = "quota:%s:%s" % ("zoned-address" if zoned else
                                   "simultaneous-first-events" if head.get("conc") else "address",
                                   "blocked-first-event" if bad.get("blocked") else "over-bound")
            desc = "Quota(eps_milli=%s,burst=%s): event for %s at %s ms was %s" % (
                head.get("eps_milli"), head.get("burst"), bad.get("s"), bad.get("t1"),
                "blocked although first of its bucket" if bad.get("blocked")
                else "allowed beyond burst + rate*elapsed of its bucket")
        elif ev == "key":
            zoned = "%" in bad.get("s", "")
            key = "ipkey:%s" % ("zoned-address" if zoned else "address-pair")
            desc = "ipKey for %s: keyed=%s/%s same=%s contradicts /24-/64 bucketing" % (
                bad.get("s"), bad.get("ka"), bad.get("kb"), bad.get("same"))
        else:
            key, desc = "history-rejected:%s" % ev, json.dumps(bad)[:300]
        ctx.finding(key, desc, rj)
    cov = {
        "samples": st["samples"] + [{"history": hs[0]}],
        "evaluations": st["adds"] + st["accounts"] + st["quota_calls"] + st["key_pairs"],
        "distinct_nontrivial": len(hs),
        "rule": "distinct timestamp/count histories exported by TLC (exhaustive short + simulated long); each is replayed "
                "on the counter and the limiter; every one has >= 4 events",
        "exhaustive_histories": n_ex,
        "simulated_histories": len(sim),
        "counter_runs": st["counter_runs"],
        "limiter_runs": st["limiter_runs"],
        "limiter_runs_closed": st["limiter_runs_closed"],
        "max_ring_capacity": st["max_ring_capacity"],
        "sub_millisecond_runs": st["sub_millisecond_runs"],
        "quota_schedules_forced": st["quota_schedules_forced"],
        "quota_calls": st["quota_calls"],
        "quota_blocked": st["quota_blocked"],
        "key_pairs": st["key_pairs"],
        "trace_events_validated": matched,
        "exhaustive": False,
    }
    return ctx.finish("model_checking", cov, [
        "the injected clock replaces time.Now().UnixNano() in Limiter.Account only under the verif build tag",
        "golang.org/x/time/rate is trusted to measure time monotonically; only the upper bound is judged",
    ])
