"""C40 -- Bedrock players get valid, stable Java identities.

1. BedrockId.tla: the reference normalisation JavaName on code point sequences and the
   validity predicate (1..16 of A-Z a-z 0-9 _).  TLC checks on every gamertag of length <= 3
   (thorough: 4) over a hostile alphabet (incl. the case-folding lookalikes U+017F, U+212A,
   U+0130, U+0131) and on long ones around the cut, under four
   formats, that the name is valid, the normalisation idempotent and the identity on valid
   names; a normalisation cutting at 17 must violate.  The inputs are exported.
2. The harness formats each (format, gamertag) with fmt.Sprintf as the call site does, calls
   the real javaCompatibleUsername, adds random strings (invalid UTF-8, odd formats), and
   calls BedrockData.JavaUuid for small / realistic / adjacent / huge / negative / repeated
   XUIDs, twice each with different other fields; then several goroutines derive UUIDs for
   XUIDs of that set at the same time.
3. TLC judges every name (valid and equal to the reference) and every UUID (RFC 4122 variant
   and version bits, equal for equal XUIDs, different for different XUIDs over the whole run).
"""
import json
import vlib

META = {
    "category": "model_checking",
    "text": "BedrockId.tla gives the validity predicate of Java profile names and a reference normalisation on code "
            "points; TLC checks validity, idempotence and identity-on-valid-names for every gamertag up to length 3 (4 in "
            "thorough) over a hostile alphabet plus long names around the 16-character cut under four formats, and "
            "exports those inputs. The real javaCompatibleUsername runs on them and on random strings; JavaUuid runs on "
            "thousands of XUIDs. TLC validates names against the reference and UUIDs for RFC 4122 layout, stability "
            "and pairwise distinctness over the run.",
    "design_ref": "DESIGN.md section 4, C40",
    "level_note": "Strings are decoded to code points by Go's []rune conversion in the harness (the same decoding the "
                  "range loop uses; invalid bytes become U+FFFD). The statement fixes only validity, so equality with the "
                  "reference normalisation is stricter than required: it is what the function documents. The UUID's "
                  "derivation (SHA-1 name based) is not required, only layout, stability and distinctness on the "
                  "sampled XUIDs.",
    "technique": "TLA+ reference operator + postcondition, TLC exhaustive on a bounded alphabet, TLC trace validation",
}


def run(ctx):
    r = ctx.tlc("BedrockId", ctx.pick("BedrockId.cfg", "BedrockId_full.cfg"), workers=1, timeout=1500)
    names = r.printed_json("NAME")
    if len(names) != r.distinct:
        raise vlib.ToolError("exported %d inputs for %d states" % (len(names), r.distinct))
    ctx.log("BedrockId.tla: %d (format, gamertag) inputs: valid, idempotent, identity on valid names" % r.distinct)
    rb = ctx.tlc("BedrockId", "BedrockId_cut17.cfg", allow_violation=True, count=False)
    if rb.violated != "AlwaysValid":
        raise vlib.ToolError("cut at 17 not caught")
    with open(ctx.path("names.json"), "w") as fh:
        json.dump(names, fh)
    ctx.harness("./c40", "TestTrace", env={"VERIF_RANDOM": ctx.pick(1500, 20000),
                                           "VERIF_XUIDS": ctx.pick(1500, 6000)}, timeout=900)
    st = json.load(open(ctx.path("stats.json")))
    ctx.log("harness: %d names (%d changed, %d longer than 16), %d uuids (%d repeats)" % (
        st["names"], st["names_changed"], st["names_truncated"], st["uuids"], st["uuid_repeats"]))
    recs = vlib.read_ndjson(ctx.path("trace.ndjson"))
    total = len(recs)
    path = ctx.path("trace.ndjson")
    judged, tries = 0, 0
    while True:
        ok, matched, tot, res = ctx.validate_trace("BedrockId_Trace", path, n_traces=0, timeout=1500)
        judged += matched
        if ok:
            break
        bad = recs[matched]
        if bad["ev"] == "name":
            out = "".join(chr(c) for c in bad["out"])
            inp = "".join(chr(c) for c in bad["in"])
            kind = "empty" if not out else "too-long" if len(out) > 16 else \
                "bad-char" if any(not (c.isascii() and (c.isalnum() or c == "_")) for c in out) else "not-reference"
            ctx.finding("name:%s" % kind, "javaCompatibleUsername(%r) = %r" % (inp, out), bad)
        else:
            x = bytes(bad["xuid"]).decode()
            ctx.finding("uuid:%s%s" % ("concurrent:" if bad.get("conc") else "",
                                       "unstable" if bad["uuid"] != bad["again"] else "layout-collision-or-changed"),
                        "JavaUuid for xuid %s = %s / %s" % (x, bytes(bad["uuid"]).hex(), bytes(bad["again"]).hex()), bad)
        recs = recs[matched + 1:]
        tries += 1
        if not recs or tries >= 6:
            break
        path = ctx.path("rest%d.ndjson" % tries)
        vlib.write_ndjson(path, recs)
    ctx.traces_validated += judged
    if not st["uuids_computed_concurrently"] or not st["names_changed"] or not st["names_truncated"] or not st["uuid_repeats"]:
        raise vlib.ToolError("classes not exercised: %s" % st)
    cov = {
        "samples": st["samples"],
        "evaluations": total,
        "records_judged": judged,
        "distinct_nontrivial": len(names),
        "rule": "TLC-exported distinct (format, gamertag) inputs; all but the few all-valid short ones need normalising",
        "names": st["names"],
        "names_changed": st["names_changed"],
        "names_longer_than_16": st["names_truncated"],
        "uuids": st["uuids"],
        "uuid_repeats": st["uuid_repeats"],
        "uuids_computed_concurrently": st["uuids_computed_concurrently"],
        "exhaustive": False,
    }
    return ctx.finish("model_checking", cov, [
        "UTF-8 decoding is Go's []rune conversion in the harness",
        "UUID distinctness is checked over the sampled XUIDs of one run only",
    ])
