"""C24 -- early plugin messages are delivered once, in order, with bounded buffering.

1. TLC checks the abstract design PluginQueue.tla (scaled caps) and exports connection
   histories (client messages interleaved with the backend's milestones) for an initial join
   at 1.20.1 and 1.20.2+/1.20.4, a 1.20.2+ server switch, a fallback to the next
   server after the first (ready) backend was lost in the configuration phase, and the pre-join queue.
2. TLC checks the code-shaped PluginQueueImpl.tla (mutex respected), shows non-vacuity with
   the lock-agnostic variant, and exports every order in which the client read loop and the
   backend goroutine can pass the gate points around the configuration-phase queue.
3. The live rig replays the histories (scripted fake backends are released step by step and
   log what reaches them), forces the gate orders, and replays the real caps
   (1024 / 1025 messages, 4 MiB / 4 MiB + 1) as explicit histories.
4. TLC validates the observations against the black-box acceptor PluginQueueObs.tla.
"""
import json
import random
import threading
import vlib

META = {
    "category": "model_checking",
    "text": "PluginQueueObs.tla is the black-box acceptor (the backend receives exactly the client's sequence of "
            "custom payloads, in order; a disconnect only when a cap can have been exceeded, and always when it "
            "was exceeded while the backend was held back). PluginQueue.tla is the abstract queue design whose "
            "histories (client messages x backend milestones: login success, finish-configuration, JoinGame, "
            "switch, loss of the first backend + fallback) TLC enumerates; PluginQueueImpl.tla is the code-shaped model of the configuration-phase "
            "queue whose gate-point orders TLC enumerates. All are replayed on the live proxy with scripted fake "
            "clients/backends, gate orders forced through verif gate points, the real caps as explicit histories, "
            "and the observations validated by TLC (the acceptor also bounds what a backend receives of the messages "
            "sent before it was released: the proxy held them all at once). A fault history lets the first backend "
            "die in the flush with 100 big messages queued and sends 100 more for the fallback backend. Histories "
            "and schedules are the quantifier.",
    "design_ref": "DESIGN.md section 4, C24",
    "level_note": "A vanilla 1.20.1 client's read loop is blocked while the first connection is established, so its "
                  "early messages wait in the socket and are judged like all others (order, once). The pre-join "
                  "queue of clientPlaySessionHandler is only used while the client's connection phase is incomplete "
                  "(legacy Forge handshake); the harness puts a joined 1.20.1 player into that phase through the "
                  "exported SetPhase to exercise enqueue/drain/caps on the real code (kinds playq763/capsplay763), "
                  "without racing the drain. In a switch history only messages of the new backend's configuration "
                  "phase and later are judged. Quiescence is judged after generous waits (>= 4 s). Registered "
                  "channels (event path) are C25's subject; messages here use an unregistered channel.",
    "technique": "TLA+ spec + TLC history and schedule enumeration, live-rig replay with forced gate orders, "
                 "TLC trace validation",
}

CAPS = [
    {"kind": "caps765", "count": 1024, "size": 16, "last": 16},
    {"kind": "caps765", "count": 1025, "size": 16, "last": 16},
    {"kind": "caps765", "count": 129, "size": 32767, "last": 128},    # exactly 4 MiB
    {"kind": "caps765", "count": 129, "size": 32767, "last": 129},    # 4 MiB + 1
    {"kind": "capsplay763", "count": 1024, "size": 16, "last": 16},
    {"kind": "capsplay763", "count": 1025, "size": 16, "last": 16},
    {"kind": "capsplay763", "count": 129, "size": 32767, "last": 128},
    {"kind": "capsplay763", "count": 129, "size": 32767, "last": 129},
]


# fault + caps: 100 big messages queued for a backend that dies in the flush, 100 more for the
# fallback backend: each batch alone is below 4 MiB, together they are not
FAULTS = [
    {"kind": "flushfail765", "size": 32766,
     "h": ["msg"] * 100 + ["failready"] + ["msg"] * 100 + ["ready", "finish", "join"]},
    {"kind": "flushfail765", "size": 32765,
     "h": ["msg"] * 100 + ["failready"] + ["msg"] * 28 + ["ready", "msg", "finish", "join"]},
]


def context(reset, k):
    """where in the history the k-th client message was sent"""
    h = reset.get("h")
    if not h:
        return "held-back"
    n, last = 0, "start"
    for s in h:
        if s == "msg":
            n += 1
            if n == k:
                return "after-" + last
        else:
            last = s
    return "after-" + last


def in_join_window(h):
    """a client message in play state before the backend's JoinGame was handled"""
    seq = h.get("h", [])
    if "finish" not in seq or "join" not in seq:
        return False
    return "msg" in seq[seq.index("finish"):seq.index("join")]


def lost_key(kind, state, ctxt):
    # one call site whatever way the join was reached: clientPlaySessionHandler.handlePluginMessage
    # while connectedServer() is nil (client in play state, backend's JoinGame not handled yet)
    if state == "play" and ctxt == "after-finish":
        return "lost:play-message-after-finish-before-joingame"
    return "lost:%s:%s-message-%s" % (kind, state, ctxt)


def first_missing(before):
    """the first client message the backend must have received but did not (messages sent
    before a `lose` event were meant for the backend that is gone: optional)"""
    opt, sent, got = 0, [], set()
    for x in before:
        if x.get("ev") == "csend":
            sent.append(x.get("k"))
        elif x.get("ev") == "lose":
            opt = len(sent)
        elif x.get("ev") == "brecv":
            got.add(x.get("k"))
    for k in sent:
        if k not in got and k > opt:
            return k
    return None


def classify(rj):
    run, bad = rj["run"], rj["bad"] or {}
    reset = run[0] if run else {}
    kind = reset.get("kind", "?")
    before = run[1:rj["bad_index"]]
    got = sum(1 for x in before if x.get("ev") == "brecv")
    sent = sum(1 for x in before if x.get("ev") == "csend")
    ev = bad.get("ev")
    if ev == "brecv":
        k = bad.get("k")
        if k is not None and k <= max([x.get("k", 0) for x in before if x.get("ev") == "brecv"] + [0]):
            return "duplicate-or-reordered:%s:%s" % (kind, context(reset, k))
        sizes = {x.get("k"): x.get("n", 0) for x in before if x.get("ev") == "csend"}
        if sizes.get(k) == bad.get("n") and any(x.get("ev") == "release" for x in before):
            rel = max(i for i, x in enumerate(before) if x.get("ev") == "release")
            pre = {x.get("k") for x in before[:rel] if x.get("ev") == "csend"}
            held = [x for x in before[rel:] if x.get("ev") == "brecv" and x.get("k") in pre]
            hb = sum(x.get("n", 0) for x in held) + bad.get("n", 0)
            if k in pre and (len(held) + 1 > 1024 or hb > 4 * 1024 * 1024):
                return "held-more-than-the-caps:%s:%d-messages,%d-bytes" % (kind, len(held) + 1, hb)
        miss = first_missing(before)
        st = next((x.get("state") for x in before if x.get("ev") == "csend" and x.get("k") == miss), "?")
        return lost_key(kind, st, context(reset, miss))
    if ev == "end":
        miss = first_missing(before)
        if bad.get("alive") and miss is not None:
            st = next((x.get("state") for x in before if x.get("ev") == "csend" and x.get("k") == miss), "?")
            return lost_key(kind, st, context(reset, miss))
        if bad.get("alive"):
            return "no-disconnect:%s:count=%s,size=%s,last=%s" % (kind, reset.get("count"), reset.get("size"),
                                                                  reset.get("last"))
        return "closed-without-overflow:%s" % kind
    if ev == "disc":
        return "disconnect-without-overflow:%s:sent=%d" % (kind, sent)
    return "history-rejected:%s:%s" % (kind, ev)


def run(ctx):
    bg = {}

    def model():
        try:
            bg["machine"] = ctx.tlc("PluginQueue", count=False)
            bg["unlocked"] = ctx.tlc("PluginQueueImpl", "PluginQueueImpl_unlocked.cfg", allow_violation=True,
                                     count=False)
        except Exception as e:
            bg["err"] = e

    th = threading.Thread(target=model)
    th.start()
    r = ctx.tlc("PluginQueueImpl", workers=1, count=False)
    scheds = r.printed_json("SCHED")
    impl_states = r.distinct
    cfg = open(vlib.SPEC + "/PluginQueue_hist.cfg").read().replace("MaxMsgs = 4", "MaxMsgs = %d" % ctx.pick(3, 5))
    r = ctx.tlc("PluginQueue", cfg_text=cfg, workers=1, count=False, timeout=1800)
    hists = r.printed_json("HIST")
    nall = len(hists)
    rnd = random.Random(ctx.seed)
    if ctx.quick:
        rnd.shuffle(hists)
        # all kinds stay represented
        keep, per = [], {}
        for h in hists:
            k = (h["kind"], in_join_window(h))
            if k[1] and h["kind"] != "join765":
                continue        # the join window (a known finding) is shown once, on the plain join
            if per.get(k, 0) < (1 if k[1] else 10):
                per[k] = per.get(k, 0) + 1
                keep.append(h)
        hists = keep
    # every third history sends zero-length bodies while no backend has been released yet
    hists = [dict(h, zero=(i % 3 == 0)) for i, h in enumerate(hists)]
    faults = FAULTS[:1] if ctx.quick else FAULTS
    hists = hists + CAPS + faults
    with open(ctx.path("sched.json"), "w") as fh:
        json.dump(scheds, fh)
    with open(ctx.path("hist.json"), "w") as fh:
        json.dump(hists, fh)
    ctx.log("gate orders: %d, histories: %d of %d (+%d cap histories)" % (len(scheds), len(hists) - len(CAPS) - len(faults), nall,
                                                                           len(CAPS) + len(faults)))
    ctx.harness("./c24", "TestSched|TestHist", timeout=2400)
    ss = json.load(open(ctx.path("stats_sched.json")))
    sh = json.load(open(ctx.path("stats_hist.json")))
    need = ["pmq.cfg.enqueue", "pmq.cfg.direct", "pmq.cfg.flush", "pmq.cfg.queued", "pmq.cfg.flushed"]
    missing = [g for g in need if not ss["arrivals"].get(g)]
    if missing:
        raise vlib.ToolError("hook_missing: gates never reached: %s" % missing)
    if ss["followed"] == 0:
        raise vlib.ToolError("no forced gate order was followed by the real code")
    if sh["aborted"] > len(hists) // 4:
        raise vlib.ToolError("%d of %d scripted connections could not even start" % (sh["aborted"], len(hists)))
    ctx.log("harness done")
    recs = vlib.read_ndjson(ctx.path("trace_sched.ndjson")) + vlib.read_ndjson(ctx.path("trace_hist.ndjson"))
    vlib.write_ndjson(ctx.path("all.ndjson"), recs)
    ok, matched, total, res = ctx.validate_trace("PluginQueue_Trace", ctx.path("all.ndjson"), timeout=1800, n_traces=0)
    verdict = res.printed_json("REJECTED")
    if not ok or matched != len(recs) or not verdict:
        raise vlib.ToolError("trace was not read completely (%d of %d lines):\n%s" % (matched, len(recs), res.tail(30)))
    tstates = res.distinct
    rejected = []
    for ln in verdict[-1]["lines"]:
        i0 = ln - 1
        while recs[i0].get("ev") != "reset":
            i0 -= 1
        i1 = ln
        while i1 < len(recs) and recs[i1].get("ev") != "reset":
            i1 += 1
        rejected.append({"run": recs[i0:i1], "bad_index": ln - 1 - i0, "bad": recs[ln - 1]})
    ctx.traces_validated += sum(1 for x in recs if x.get("ev") == "reset") - len(rejected)
    ctx.log("trace validation done: %d events" % matched)
    for rj in rejected:
        ctx.finding(classify(rj), "what the backend received is not a behaviour of PluginQueueObs.tla (first "
                    "unexplained event: %s; history %s)" % (json.dumps(rj["bad"]), json.dumps(rj["run"][0])), rj)
    th.join()
    if "err" in bg:
        raise bg["err"]
    if not bg["unlocked"].violated:
        raise vlib.ToolError("lock-agnostic PluginQueueImpl finds no violation: invariants vacuous")
    ctx.states += bg["machine"].distinct + impl_states
    ctx.log("PluginQueue.tla: %d states; PluginQueueImpl.tla: %d states, lock-agnostic variant violates %s"
            % (bg["machine"].distinct, impl_states, bg["unlocked"].violated))
    runs = ss["schedules"] + sh["runs"]
    cov = {
        "states": bg["machine"].distinct + impl_states + tstates,
        "samples": (ss["samples"][:1] + sh["samples"][:1]) or [{"runs": runs}],
        "evaluations": runs,
        "distinct_nontrivial": len(scheds) + len({json.dumps(h, sort_keys=True) for h in hists
                                                  if h.get("count") or "msg" in h.get("h", [])}),
        "rule": "history = client messages interleaved with backend milestones (TLC export) or an explicit cap "
                "history; gate order = TLC export of PluginQueueImpl; counted if it contains >= 1 client message",
        "gate_orders_forced": ss["schedules"],
        "gate_orders_followed": ss["followed"],
        "gate_orders_diverged": ss["diverged"],
        "history_runs_by_kind": sh["kinds"],
        "cap_histories": len(CAPS),
        "fault_histories": len(faults),
        "trace_events_validated": matched,
        "race_detector": False,
        "exhaustive": not ctx.quick,
    }
    return ctx.finish("model_checking", cov, [
        "the race detector is off: concurrent server switches trip an unrelated data race in gate (the shared "
        "ComponentHolder of tablist.ClearHeaderFooter caches its JSON lazily)",
        "fake clients/backends speak the harness's own codec; custom payloads use the unregistered channel verif:c24",
        "the gate sequencer only delays goroutines; an order the code cannot follow is recorded as diverged",
    ])
