"""C43 -- server list pings: one well-formed response, exact echo.

1. TLC model-checks Status.tla (history machine of a status connection) for every
   client-protocol class and exports every history (exhaustive for length <= 4).
2. The live rig (real proxy, HandleConn over loopback, harness codec) replays each
   history for 0..2 online players and records the proxy's reaction per client packet.
3. TLC validates the recorded reactions against Status_Trace.tla.
"""
import json
import vlib

META = {
    "category": "model_checking",
    "text": "Status.tla is the history machine of a status-phase connection; TLC enumerates all client packet "
            "sequences (length <= 4 over request / ping / other) for every supported protocol number plus "
            "unknown, gap, negative and huge ones, the live rig replays each against the real proxy in six registry phases (empty, one joined, "
            "rejected duplicate logins, second joined, second left, all left; the online count is the harness's own "
            "ground truth), and TLC validates the recorded reactions (response fields, echo bytes, closes) "
            "line by line. Histories are the quantifier, so exhaustive small histories x protocol classes is "
            "the right level.",
    "design_ref": "DESIGN.md section 4, C43",
    "level_note": "Classic mode, no ping handlers, default status config. A ping sent before any request must close "
                  "the connection; an echo is tolerated there (the statement only speaks of the ping that follows "
                  "a request). 'Supported' is the proxy's own published version list. Reactions are read with "
                  "generous timeouts (5 s) so load cannot turn into a verdict.",
    "technique": "TLA+ history machine, TLC exhaustive history export, live-rig replay, TLC trace validation",
}


def run(ctx):
    ctx.harness("./c43", "TestVersions")
    v = json.load(open(ctx.path("versions.json")))
    sup, mx = v["supported"], v["max"]
    gaps = sorted({sup[0] - 1, sup[-1] + 1, 0, 3, 6, 9999, -1, -2, 2147483647,
                   sup[len(sup) // 2] + 1 if sup[len(sup) // 2] + 1 not in sup else 1})
    gaps = [g for g in gaps if g not in sup]
    clients = sup if not ctx.quick else sorted(set(sup[:3] + sup[-4:] + sup[::5]))
    cfg = """SPECIFICATION Spec
CONSTANTS
  Supported = {%s}
  MaxProto = %d
  ClientProtos = {%s}
  NegProtos = {%s}
  Payloads = {1, 2}
  MaxLen = 4
INVARIANTS OneResponse ResponseProto EchoExact Emit
PROPERTY ClosedIsFinal
""" % (", ".join(map(str, sup)), mx, ", ".join(str(x) for x in clients + gaps if x >= 0),
       ", ".join(str(-x) for x in gaps if x < 0))
    r = ctx.tlc("Status", cfg_text=cfg, workers=1)
    hists = r.printed_json("HIST")
    ctx.log("Status.tla: %d states, %d histories over %d protocol numbers (%d unsupported)"
            % (r.distinct, len(hists), len(clients) + len(gaps), len(gaps)))
    with open(ctx.path("hist.json"), "w") as fh:
        json.dump(hists, fh)
    ctx.harness("./c43", "TestReplay", timeout=900)
    st = json.load(open(ctx.path("stats.json")))
    recs = vlib.read_ndjson(ctx.path("trace.ndjson"))
    rejected, matched, tstates = ctx.validate_runs("Status_Trace", recs)
    for rj in rejected:
        reset, bad = rj["run"][0], rj["bad"] or {}
        sup_set = set(reset["supported"])
        cls = "supported" if reset["cp"] in sup_set else "unsupported"
        st_before = "awaiting" if rj["bad_index"] == 1 else "responded"
        if bad.get("ev") == "pipe":
            key = "%s-proto:pipelined[%s]->[%s]%s" % (cls, ",".join(x["k"] for x in bad["sends"]),
                                                       ",".join(o["got"] for o in bad["outs"]), "" if bad["closed"] else ",open")
        else:
            key = "%s-proto:%s@%s->%s" % (cls, bad.get("send"), st_before, bad.get("got"))
        ctx.finding(key, "status connection (client protocol %s, %d online): reaction to '%s' not allowed by "
                    "Status spec: %s" % (reset["cp"], reset["online"], bad.get("send", "pipelined packets"), json.dumps(bad)[:600]), rj)
    cov = {
        "samples": st["samples"],
        "evaluations": st["runs"],
        "distinct_nontrivial": len(hists),
        "rule": "history = (client protocol, packet sequence) exported by TLC; every history is replayed per online "
                "count; distinct = distinct (protocol, sequence) pairs, all non-trivial (>= 1 client packet)",
        "protocol_numbers": len(clients) + len(gaps),
        "unsupported_protocol_numbers": gaps,
        "trace_events_validated": matched,
        "pipelined_runs": sum(1 for x in recs if x.get("ev") == "pipe"),
        "exhaustive": not ctx.quick,
        "states": r.distinct + tstates,
    }
    return ctx.finish("model_checking", cov, [
        "the fake client uses the harness's own codec; JSON parsed with encoding/json",
    ])
