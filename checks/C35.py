"""C35 -- live config changes are atomic, validated, versioned by content, compare-and-swap.

1. TLC model-checks LiveConfig.tla (threads running snapshot / apply / conditional-apply programs,
   every operation atomic as under reloadMu): published configurations are complete accepted
   candidates, CAS, rejected candidates change nothing.
2. With the conditional apply split at the lc.checked gate (mutex ignored) TLC must find the CAS
   violation (non-vacuity) and exports every interleaving (2 threads exhaustive, 3 threads sampled /
   thorough more) as schedules.
3. The harness forces each schedule on a real gate.Gate through the lc.enter / lc.checked gate points
   (interleavings the real mutex forbids show as blocked steps and are skipped), runs seeded
   sequential histories over the whole candidate pool with an observation after every call -- the
   caller there may pass a candidate object it keeps and edit it in place afterwards --, and
   free-running concurrent appliers; it records calls, the linearization events the instrumented
   code reports under the reload mutex, returns and quiescent observations of ConfigSnapshot() and
   the proxy's routing table.
4. TLC validates the history against the abstract LiveConfigHist spec.
"""
import json
import random
import vlib

META = {
    "category": "model_checking",
    "text": "TLC model-checks a thread-level model of the live configuration object (published = complete accepted "
            "candidate, compare-and-swap, rejected = unchanged), shows the CAS invariant fails when the conditional "
            "apply is split at its gate point, and exports every such interleaving; each is forced on a real "
            "gate.Gate through verif-tagged gate points, together with seeded sequential histories and concurrent "
            "stress, and the recorded history (calls, linearization events under the reload mutex, returns, "
            "observed config/version/routing) is validated by TLC against the abstract LiveConfigHist spec, which "
            "also requires the version strings to be a function of, and injective in, the content.",
    "design_ref": "DESIGN.md section 4, C35",
    "level_note": "Candidates come from a pool of 17 named configurations (same, three route sets, invalid routes, a difference in each root section -- noAutoReload, healthService, connect, api -- alone and with a route change, bind "
                  "changed, bind+routes changed, lite off, nil). The spec requires only what the statement says: which "
                  "rejection code is used, and that an eligible candidate is applied, are not required. 'unchanged' on "
                  "a conditional apply counts as success (as the API treats it) and needs the current version. "
                  "Trusted: the lc.commit / lc.snapshot events are emitted under reloadMu after the state change; the "
                  "proxy routing table is observed only when no call is in progress.",
    "technique": "TLA+ spec + TLC schedule enumeration, forced replay on real code, TLC trace validation",
}


def run(ctx):
    if ctx.quick:
        r = ctx.tlc("LiveConfig", "LiveConfig_mc2.cfg")
        r3 = ctx.tlc("LiveConfig", "LiveConfig_mc3small.cfg")
        mc_states = r.distinct + r3.distinct
    else:
        r = ctx.tlc("LiveConfig", "LiveConfig.cfg", timeout=1800)
        mc_states = r.distinct
    ctx.log("LiveConfig.tla (atomic operations): %d distinct states, Published / CAS / RejectedUnchanged hold" % mc_states)
    r = ctx.tlc("LiveConfig", "LiveConfig_nonatomic.cfg", allow_violation=True, count=False)
    if r.violated != "CAS":
        raise vlib.ToolError("split conditional apply does not violate CAS (got %s): invariant vacuous" % r.violated)
    ctx.log("LiveConfig.tla (conditional apply split at lc.checked): violates CAS (non-vacuity ok)")

    scheds = ctx.tlc("LiveConfig", "LiveConfig_sched2.cfg", workers=1, count=False).printed_json("SCHED")
    n2 = len(scheds)
    rnd = random.Random(ctx.seed)
    if ctx.quick:
        rnd.shuffle(scheds)
        scheds = scheds[:450]
        s3 = ctx.tlc("LiveConfig", "LiveConfig_sched3.cfg", workers=1, count=False, simulate=150,
                     depth=12).printed_json("SCHED")
    else:
        s3 = ctx.tlc("LiveConfig", "LiveConfig_sched3.cfg", workers=1, count=False, simulate=2000,
                     depth=12, timeout=1800).printed_json("SCHED")
    scheds += s3
    ctx.log("schedules: %d of %d two-thread (exhaustive enumeration) + %d three-thread (simulated)"
            % (len(scheds) - len(s3), n2, len(s3)))
    with open(ctx.path("sched.json"), "w") as fh:
        json.dump(scheds, fh)

    ctx.harness("./c35", "TestLiveConfig", race=not ctx.quick,
                env={"VERIF_SEQ": ctx.pick(90, 400), "VERIF_STRESS": ctx.pick(40, 300)}, timeout=1800)
    st = json.load(open(ctx.path("stats.json")))
    missing = [g for g in ("lc.enter", "lc.checked", "lc.commit", "lc.snapshot") if not st["hook_events"].get(g)]
    if missing:
        raise vlib.ToolError("hook_missing: never reached: %s" % missing)
    if not st["schedules_with_blocked_steps"]:
        raise vlib.ToolError("no schedule was blocked by the reload mutex: gate points are not where the model has them")
    ctx.log("harness: %d schedules forced (%d with steps the real mutex blocked), %d sequential runs, %d stress runs, codes %s"
            % (st["schedules"], st["schedules_with_blocked_steps"], st["sequential_runs"], st["stress_runs"],
               st["result_codes"]))

    recs = vlib.read_ndjson(ctx.path("trace.ndjson"))
    rejected, matched, tstates = ctx.validate_runs("LiveConfigHist_Trace", recs)
    for rj in rejected:
        bad = rj["bad"] or {}
        kind = next((x.get("kind") for x in rj["run"] if x.get("ev") == "reset"), "?")
        ev = bad.get("ev")
        if ev == "hung":
            key = "hung-call"
        elif ev == "lc.commit":
            call = next((x for x in reversed(rj["run"][:rj["bad_index"]])
                         if x.get("ev") == "call" and x.get("thread") == bad.get("thread")), {})
            key = "commit:%s:%s:%s" % (bad.get("code"), call.get("op"), call.get("cand"))
        elif ev in ("obs", "end") and rj["bad_index"] > 0 and rj["run"][rj["bad_index"] - 1].get("ev") == "edit":
            key = "published-config-changes-with-callers-candidate-object"
        else:
            key = "history-rejected:%s" % ev
        ctx.finding(key, "history of the real gate (%s run) is not a behaviour of LiveConfigHist; first unexplained "
                         "event: %s" % (kind, json.dumps(bad)), rj)
    cov = {
        "states": mc_states + tstates,
        "samples": st["samples"][:2],
        "evaluations": st["schedules"] + st["sequential_runs"] + st["stress_runs"],
        "distinct_nontrivial": len({json.dumps(s, sort_keys=True) for s in scheds}),
        "rule": "schedule = (programs of 2-3 threads, interleaving of their critical sections / gate points) exported "
                "by TLC from the mutex-agnostic LiveConfig model; distinct (prog, sched) pairs, all with >= 2 threads",
        "schedules_forced": st["schedules"],
        "schedules_with_blocked_steps": st["schedules_with_blocked_steps"],
        "blocked_steps": st["blocked_steps"],
        "sequential_runs": st["sequential_runs"],
        "sequential_ops": st["sequential_ops"],
        "caller_edits_of_applied_candidates": st["caller_edits_of_applied_candidates"],
        "stress_runs": st["stress_runs"],
        "result_codes": st["result_codes"],
        "hook_events": st["hook_events"],
        "trace_events_validated": matched,
        "race_detector": not ctx.quick,
        "exhaustive": False,
    }
    return ctx.finish("model_checking", cov, [
        "gates only delay threads; a forced failure is a real execution",
        "the candidate pool is finite (8 named configurations); versions are compared as opaque strings",
    ])
