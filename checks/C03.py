"""C03 -- primitive field codecs are exact inverses and reject truncated input.

1. TLC checks the reference operators of spec/lib/Wire.tla against the property itself
   (Codec.tla: RoundTrip, PrefixRejected, HostileRejected) over an enumerated domain, and
   that a zero-padding decoder is caught (non-vacuity).
2. TLC exports the boundary cases (values with their required encoding, hostile length
   prefixes) as vectors; the Go harness feeds them and seeded random values to the real
   util.Write*/util.Read* functions (through bytes.Reader, a one-byte-at-a-time reader,
   bytes.Buffer, bufio.Reader and io.LimitedReader) and records
   outputs, values, bytes consumed, errors, panics, allocation.
3. TLC re-evaluates Enc/Dec on every recorded line (Codec_Trace.tla).
"""
import json
import vlib

META = {
    "category": "model_checking",
    "text": "Byte-level TLA+ reference encoders/decoders for every primitive (spec/lib/Wire.tla) are model-checked "
            "by TLC against the property (exact inverse, exact consumption, every strict prefix rejected, hostile "
            "length prefixes rejected) over all 8/16-bit values, VarInts around every group boundary, limb "
            "boundaries of 32/64-bit values and the length-prefix boundaries of strings and arrays. TLC exports "
            "the boundary cases as vectors; the real util.Write*/Read* functions are run on them and on seeded "
            "random values, and TLC re-evaluates the reference operators on every recorded call (bytes written, "
            "value read, bytes consumed, error-vs-value on every strict prefix, allocation on hostile lengths).",
    "design_ref": "DESIGN.md section 4, C03",
    "level_note": "The wire formats are fixed by the spec (Minecraft VarInt, big-endian ints, VarInt- / short- / "
                  "extended-short-prefixed arrays), so an encoder and decoder that agree with each other but not with "
                  "the format are rejected too. Floats are judged on their IEEE bit patterns (math.Float*bits trusted, "
                  "NaNs canonical). Strings are UTF-8 byte strings; a string limit of max code points is taken as "
                  "4*max bytes and only lengths above it (or negative) count as oversized. Counted arrays have no "
                  "stated limit: negative counts must fail without allocation, counts beyond the input must fail "
                  "with at most a capped pre-allocation. Bodies of arrays longer than 2048 bytes are compared by the "
                  "harness (opaque to TLC), their length prefixes and byte counts are judged by TLC. Values are "
                  "boundary classes plus random samples, not the full int32/int64 ranges. The quick tier model-checks "
                  "every 23rd 8/16-bit value and VarInt of -70000..70000 plus all boundary values; thorough all of them.",
    "technique": "TLA+ reference operators, TLC exhaustive self-check + vector export, TLC trace validation of "
                 "recorded real I/O",
}


def run(ctx):
    if ctx.quick:
        # thinned domain; the same run prints the boundary cases as vectors
        r = rx = ctx.tlc("Codec", "Codec_quick.cfg", workers=1)
    else:
        r = ctx.tlc("Codec", "Codec.cfg", workers=8)
        rx = ctx.tlc("Codec", "Codec_export.cfg", workers=1, count=False)
    ctx.log("Codec.tla: %d cases, reference operators satisfy the property" % r.distinct)
    if not ctx.quick:
        rz = ctx.tlc("Codec", "Codec_zeropad.cfg", allow_violation=True, count=False, workers=1)
        if rz.violated != "PrefixRejected":
            raise vlib.ToolError("zero-padding decoder not caught by PrefixRejected (got %s)" % rz.violated)
    vecs = {"vec": rx.printed_json("VEC"), "lvec": rx.printed_json("LVEC"), "hvec": rx.printed_json("HVEC")}
    nvec = sum(len(v) for v in vecs.values())
    if nvec < 500:
        raise vlib.ToolError("vector export too small: %d" % nvec)
    with open(ctx.path("vectors.json"), "w") as fh:
        json.dump(vecs, fh)
    ctx.log("exported %d vectors (%d hostile)" % (nvec, len(vecs["hvec"])))

    ctx.harness("./c03", "TestTrace", env={"VERIF_N": ctx.pick(16, 400)}, timeout=900)
    st = json.load(open(ctx.path("stats.json")))
    recs = vlib.read_ndjson(ctx.path("trace.ndjson"))
    rejected, matched, tstates = ctx.validate_runs("Codec_Trace", recs, max_rejects=60)
    for rj in rejected:
        head = rj["run"][0]
        bad = rj["bad"] or {}
        fn = head.get("fn", "?")
        # the failing side of the function pair
        side = fn.split("/")[0] if bad.get("ev") == "enc" else fn.split("/")[-1]
        key = "%s:%s" % (side, head.get("cls"))
        if bad.get("panic"):
            key += ":panic"
        ctx.finding(key, "real %s (%s, class %s) is not what Wire.tla requires: %s"
                    % (side, head.get("k"), head.get("cls"), json.dumps(trim(bad))),
                    {"group": head, "bad": bad})
    cov = {
        "samples": st["Samples"][:3],
        "evaluations": st["Enc"] + st["Dec"] + st["Big"],
        "distinct_nontrivial": st["DistinctInputs"],
        "rule": "distinct (kind, limit, input bytes) reader inputs shorter than 64 bytes: complete encodings of "
                "boundary/random values, their strict prefixes, hostile length prefixes",
        "functions": st["Functions"],
        "vectors_from_tlc": nvec,
        "random_values": st["Random"],
        "strict_prefixes": st["Prefixes"],
        "hostile_inputs": st["Hostile"],
        "per_class": st["ByKind"],
        "trace_lines_validated": matched,
        "groups_rejected": len(rejected),
        "exhaustive": False,
    }
    return ctx.finish("model_checking", cov, [
        "byte bodies longer than 2048 bytes are compared by the harness, not by TLC",
        "allocation is measured as runtime.MemStats.TotalAlloc delta of the call (one-sided, 64 KiB slack)",
        "a rejected group is cut out at its first bad line; later lines of that group are not examined",
    ])


def trim(rec):
    out = {}
    for k, v in rec.items():
        if isinstance(v, list) and len(v) > 24:
            out[k] = v[:24] + ["...(%d)" % len(v)]
        else:
            out[k] = v
    return out
