//go:build verif

// C23 harness: registers TLC-enumerated proxy command trees (per-node permission
// requirements, redirects) on a real command manager, feeds a backend
// AvailableCommands packet with a TLC-enumerated backend tree through the real
// backendPlaySessionHandler, and decodes the packet the player's connection wrote
// with an own decoder of the Commands wire format.  CommandTree_Trace.tla judges.
package c23

import (
	"encoding/json"
	"fmt"
	"os"
	"path/filepath"
	"sort"
	"testing"
	"time"

	"go.minekube.com/brigodier"
	"go.minekube.com/gate/pkg/command"
	"go.minekube.com/gate/pkg/edition/java/proto/packet"
	"go.minekube.com/gate/pkg/edition/java/proto/version"
	"go.minekube.com/gate/pkg/gate/proto"
	"go.minekube.com/gate/pkg/util/permission"

	"verif/harness/mcwire"
	"verif/harness/playfix"
	"verif/harness/tracefmt"
)

type node struct {
	Name string `json:"name"`
	Kind string `json:"kind"`
	Exec bool   `json:"exec"`
	Req  string `json:"req"`
	Rd   string `json:"rd"`
	Ch   []node `json:"ch"`
}

type outNode struct {
	Name string    `json:"name"`
	Kind string    `json:"kind"`
	Exec bool      `json:"exec"`
	Ch   []outNode `json:"ch"`
	Rt   []outNode `json:"rt"`
}

type tcase struct {
	Perms   []string `json:"perms"`
	Perms2  []string `json:"perms2"`
	Proxy   []node   `json:"proxy"`
	Backend []node   `json:"backend"`
	Origin  string   `json:"origin"`
}

type stats struct {
	Cases      int   `json:"cases"`
	NoPacket   int   `json:"no_packet"`
	Filtered   int   `json:"cases_with_filtered_nodes"`
	Replaced   int   `json:"cases_with_replacement"`
	Redirects  int   `json:"cases_with_redirect"`
	Restricted int   `json:"restricted_flag_nodes"`
	Samples    []any `json:"samples"`
}

func sortNodes(ns []node) {
	sort.Slice(ns, func(i, j int) bool { return ns[i].Name < ns[j].Name })
	for i := range ns {
		if ns[i].Ch == nil {
			ns[i].Ch = []node{}
		}
		sortNodes(ns[i].Ch)
	}
}

var placeholder = brigodier.CommandFunc(func(c *brigodier.CommandContext) error { return nil })

// buildNode builds n below parent; "<root>" / "<up>" redirects point at root / parent,
// a top-level name redirect at target (nil: none).
func buildNode(n node, parent, root, target brigodier.CommandNode) brigodier.CommandNode {
	var b brigodier.NodeBuilder
	if n.Kind == "arg" {
		b = brigodier.Argument(n.Name, brigodier.Bool).NodeBuilder()
	} else {
		b = brigodier.Literal(n.Name).NodeBuilder()
	}
	if n.Exec {
		b = b.Executes(placeholder)
	}
	if n.Req != "" {
		req := n.Req
		b = b.Requires(command.Requires(func(c *command.RequiresContext) bool {
			return c.Source.HasPermission("verif." + req)
		}))
	}
	switch {
	case n.Rd == "<root>":
		b = b.Redirect(root)
	case n.Rd == "<up>":
		b = b.Redirect(parent)
	case n.Rd != "" && target != nil:
		b = b.Redirect(target)
	}
	nd := b.Build()
	for _, c := range n.Ch {
		nd.AddChild(buildNode(c, nd, root, nil))
	}
	return nd
}

// wire node of the clientbound Commands packet (1.19+ layout)
type wireNode struct {
	flags    byte
	children []int
	redirect int
	name     string
	parser   int
}

func decodeCommands(data []byte) ([]wireNode, int, error) {
	r := mcwire.NewRd(data)
	n := r.VarInt()
	nodes := make([]wireNode, 0, n)
	for i := 0; i < n && r.Err == nil; i++ {
		w := wireNode{redirect: -1, parser: -1}
		w.flags = r.Byte()
		k := r.VarInt()
		for j := 0; j < k && r.Err == nil; j++ {
			w.children = append(w.children, r.VarInt())
		}
		if w.flags&0x08 != 0 {
			w.redirect = r.VarInt()
		}
		switch w.flags & 0x03 {
		case 1:
			w.name = r.Str()
		case 2:
			w.name = r.Str()
			w.parser = r.VarInt()
			if w.parser != 0 { // only brigadier:bool (no properties) is used by this harness
				return nil, 0, fmt.Errorf("unexpected parser id %d", w.parser)
			}
			if w.flags&0x10 != 0 {
				_ = r.Str()
			}
		}
		nodes = append(nodes, w)
	}
	root := r.VarInt()
	if r.Err != nil {
		return nil, 0, r.Err
	}
	if r.Len() != 0 {
		return nil, 0, fmt.Errorf("%d trailing bytes", r.Len())
	}
	return nodes, root, nil
}

func marker(name, kind string) outNode {
	return outNode{Name: name, Kind: kind, Ch: []outNode{}, Rt: []outNode{}}
}

// project unfolds the wire graph below idx into a tree.  path = indices of the ancestors,
// tops = names of the top-level commands on the path (children of a root-type node, or
// reached through a redirect).  A redirect to the packet root is "<root>", to the parent
// "<up>"; one to a command already on the path, or to another root while inside one, is cut.
func project(nodes []wireNode, idx, rootIdx int, path []int, tops []string, restricted *int) outNode {
	w := nodes[idx]
	o := outNode{Name: w.name, Exec: w.flags&0x04 != 0, Ch: []outNode{}, Rt: []outNode{}}
	isRoot := w.flags&0x03 == 0
	switch w.flags & 0x03 {
	case 1:
		o.Kind = "lit"
	case 2:
		o.Kind = "arg"
	default:
		o.Kind = "root"
	}
	if w.flags&0x20 != 0 {
		*restricted++
	}
	if len(path) > 12 {
		o.Kind = "too-deep"
		return o
	}
	here := append(append([]int{}, path...), idx)
	for _, c := range w.children {
		t := tops
		if isRoot {
			t = append(append([]string{}, tops...), nodes[c].name)
		}
		o.Ch = append(o.Ch, project(nodes, c, rootIdx, here, t, restricted))
	}
	sort.Slice(o.Ch, func(i, j int) bool { return o.Ch[i].Name < o.Ch[j].Name })
	if w.redirect >= 0 {
		tg := nodes[w.redirect]
		tgRoot := tg.flags&0x03 == 0
		rootOnPath := false
		for _, i := range here[1:] {
			rootOnPath = rootOnPath || nodes[i].flags&0x03 == 0
		}
		switch {
		case w.redirect == rootIdx:
			o.Rt = append(o.Rt, marker("<root>", "root"))
		case tgRoot && rootOnPath:
			o.Rt = append(o.Rt, marker("<cycle>", "root"))
		case tgRoot:
			o.Rt = append(o.Rt, project(nodes, w.redirect, rootIdx, here, tops, restricted))
		case len(path) > 0 && w.redirect == path[len(path)-1]:
			o.Rt = append(o.Rt, marker("<up>", "lit"))
		case containsStr(tops, tg.name) || contains(here, w.redirect):
			o.Rt = append(o.Rt, marker("<cycle>", "lit"))
		default:
			o.Rt = append(o.Rt, project(nodes, w.redirect, rootIdx, here, append(append([]string{}, tops...), tg.name), restricted))
		}
	}
	return o
}

func containsStr(xs []string, x string) bool {
	for _, y := range xs {
		if y == x {
			return true
		}
	}
	return false
}

func contains(xs []int, x int) bool {
	for _, y := range xs {
		if y == x {
			return true
		}
	}
	return false
}

func TestMerge(t *testing.T) {
	b, err := os.ReadFile(filepath.Join(tracefmt.OutDir(), "cases.json"))
	if err != nil {
		t.Fatal(err)
	}
	var cases []tcase
	if err := json.Unmarshal(b, &cases); err != nil {
		t.Fatal(err)
	}
	tw, err := tracefmt.Create("trace.ndjson")
	if err != nil {
		t.Fatal(err)
	}
	st := &stats{}
	protos := []proto.Protocol{version.Minecraft_1_20_3.Protocol, version.Minecraft_1_20_2.Protocol,
		version.Minecraft_1_19_4.Protocol, version.Minecraft_1_21_4.Protocol}
	env, err := playfix.NewEnv(nil)
	if err != nil {
		t.Fatal(err)
	}
	mgr := env.Proxy.Command()

	for n, tc := range cases {
		sortNodes(tc.Proxy)
		sortNodes(tc.Backend)
		if tc.Perms == nil {
			tc.Perms = []string{}
		}
		// a redirect needs an existing, non-redirecting target; otherwise the node is a plain leaf
		byName := map[string]node{}
		for _, p := range tc.Proxy {
			byName[p.Name] = p
		}
		for i := range tc.Proxy {
			if rd := tc.Proxy[i].Rd; rd != "" {
				if tg, ok := byName[rd]; !ok || tg.Rd != "" {
					tc.Proxy[i].Rd = ""
				}
			}
		}
		bName := map[string]node{}
		for _, bn := range tc.Backend {
			bName[bn.Name] = bn
		}
		for i := range tc.Backend {
			if rd := tc.Backend[i].Rd; rd != "" {
				if tg, ok := bName[rd]; !ok || tg.Rd != "" {
					tc.Backend[i].Rd = ""
				}
			}
		}
		// fresh proxy command tree
		mgr.Root = brigodier.RootCommandNode{}
		reg := map[string]brigodier.CommandNode{}
		for _, p := range tc.Proxy {
			if p.Rd == "" {
				nd := buildNode(p, nil, &mgr.Root, nil)
				mgr.Root.AddChild(nd)
				reg[p.Name] = nd
			}
		}
		hasRd := false
		for _, p := range tc.Proxy {
			if p.Rd != "" {
				hasRd = true
				mgr.Root.AddChild(buildNode(p, nil, &mgr.Root, reg[p.Rd]))
			}
		}
		held := map[string]bool{}
		for _, p := range tc.Perms {
			held["verif."+p] = true
		}
		pv := protos[n%len(protos)]
		pl, err := env.NewPlay(fmt.Sprintf("t%d", n), pv, func(p string) permission.TriState {
			if held[p] {
				return permission.True
			}
			return permission.Undefined
		})
		if err != nil {
			t.Fatal(err)
		}
		if tc.Perms2 == nil {
			tc.Perms2 = []string{}
		}
		// the backend sends its tree, the player's permissions change, the backend sends it again
		for step, perms := range [][]string{tc.Perms, tc.Perms2} {
			for k := range held {
				delete(held, k)
			}
			for _, p := range perms {
				held["verif."+p] = true
			}
			if !feed(tw, st, pl, tc, perms, step+1, n, pv, hasRd, held) {
				break
			}
		}
		_ = pl.Close()
	}
	if err := tw.Close(); err != nil {
		t.Fatal(err)
	}
	if err := tracefmt.WriteJSON("stats.json", st); err != nil {
		t.Fatal(err)
	}
}

// feed sends the backend tree through the handler once and records what the player received.
func feed(tw *tracefmt.Writer, st *stats, pl *playfix.Play, tc tcase, perms []string, step, n int, pv proto.Protocol,
	hasRd bool, held map[string]bool) bool {
	pl.Client.Take()
	root := &brigodier.RootCommandNode{}
	breg := map[string]brigodier.CommandNode{}
	for _, bn := range tc.Backend {
		if bn.Rd == "" {
			nd := buildNode(bn, nil, root, nil)
			root.AddChild(nd)
			breg[bn.Name] = nd
		}
	}
	for _, bn := range tc.Backend { // backend aliases redirecting to another backend root command
		if bn.Rd != "" {
			root.AddChild(buildNode(bn, nil, root, breg[bn.Rd]))
		}
	}
	pl.FromBackend(&packet.AvailableCommands{RootNode: root})
	// the packet is written after the (asynchronous) PlayerAvailableCommandsEvent
	var raw []byte
	deadline := time.Now().Add(5 * time.Second)
	for time.Now().Before(deadline) {
		raw = append(raw, pl.Client.Take()...)
		if len(raw) > 0 {
			rd := mcwire.NewRd(raw)
			ln := rd.VarInt()
			if rd.Err == nil && rd.Len() >= ln {
				break
			}
		}
		time.Sleep(50 * time.Microsecond)
	}
	st.Cases++
	rec := tracefmt.Rec{"ev": "merge", "n": n, "proto": int(pv), "perms": perms, "step": step, "proxy": tc.Proxy,
		"backend": tc.Backend, "origin": tc.Origin}
	rd := mcwire.NewRd(raw)
	ln := rd.VarInt()
	if rd.Err != nil || rd.Len() < ln || ln == 0 {
		st.NoPacket++
		rec["ev"] = "nopacket"
		tw.Emit(rec)
		return false
	}
	body := mcwire.NewRd(rd.N(ln))
	pid := body.VarInt()
	nodes, rootIdx, err := decodeCommands(body.Rest())
	if err != nil {
		rec["ev"] = "undecodable"
		rec["err"] = err.Error()
		tw.Emit(rec)
		return false
	}
	restricted := 0
	got := project(nodes, rootIdx, rootIdx, nil, nil, &restricted).Ch
	st.Restricted += restricted
	rec["pid"] = pid
	rec["got"] = got
	rec["extra"] = rd.Len() // bytes after the first frame
	tw.Emit(rec)
	if hasRd {
		st.Redirects++
	}
	if filtered(tc.Proxy, held) {
		st.Filtered++
	}
	for _, p := range tc.Proxy {
		for _, bn := range tc.Backend {
			if p.Name == bn.Name {
				st.Replaced++
			}
		}
	}
	if len(st.Samples) < 2 && hasRd {
		st.Samples = append(st.Samples, map[string]any{"case": tc, "got": got})
	}
	return true
}

// filtered reports (for coverage statistics only) whether some node has a requirement the player fails.
func filtered(ns []node, held map[string]bool) bool {
	for _, n := range ns {
		if n.Req != "" && !held["verif."+n.Req] {
			return true
		}
		if filtered(n.Ch, held) {
			return true
		}
	}
	return false
}
