//go:build verif

package c23

import (
	"os"
	"runtime/debug"
	"testing"
	"time"

	"go.minekube.com/brigodier"
	"go.minekube.com/gate/pkg/edition/java/proto/packet"
	"go.minekube.com/gate/pkg/edition/java/proto/version"

	"verif/harness/playfix"
	"verif/harness/tracefmt"
)

// TestRedirectCycle: a proxy command whose child redirects to the dispatcher root
// (the "execute ... run" idiom) or to its own parent.  Runs in its own process: if the
// merge never returns the stack limit ends the process and the trace stays open.
func TestRedirectCycle(t *testing.T) {
	debug.SetMaxStack(48 << 20)
	mode := os.Getenv("VERIF_CYCLE") // "root" | "parent"
	tw, err := tracefmt.Create("cycle_" + mode + "_begin.ndjson")
	if err != nil {
		t.Fatal(err)
	}
	env, err := playfix.NewEnv(nil)
	if err != nil {
		t.Fatal(err)
	}
	mgr := env.Proxy.Command()
	x := brigodier.Literal("x").Executes(placeholder).Build()
	mgr.Root.AddChild(x)
	var target brigodier.CommandNode = &mgr.Root
	if mode == "parent" {
		target = x
	}
	x.AddChild(brigodier.Literal("pa").Redirect(target).Build())
	pl, err := env.NewPlay("cyc", version.Minecraft_1_20_3.Protocol, nil)
	if err != nil {
		t.Fatal(err)
	}
	tw.Emit(tracefmt.Rec{"ev": "begin", "mode": mode})
	_ = tw.Close()
	root := &brigodier.RootCommandNode{}
	root.AddChild(brigodier.Literal("y").Build())
	pl.FromBackend(&packet.AvailableCommands{RootNode: root})
	deadline := time.Now().Add(5 * time.Second)
	n := 0
	for time.Now().Before(deadline) && n == 0 {
		n = len(pl.Client.Take())
		time.Sleep(time.Millisecond)
	}
	tw2, _ := tracefmt.Create("cycle_" + mode + "_end.ndjson")
	tw2.Emit(tracefmt.Rec{"ev": "returned", "mode": mode, "bytes": n})
	_ = tw2.Close()
}
