//go:build verif

// C44 harness: drives the real netmc.MinecraftConn (real read loop, real
// closeKnown) over a net.Pipe with a SessionHandler that records teardown calls
// and panics on command, forces TLC-generated gate-point schedules of concurrent
// closers, and records the observable history that ConnCloseHist_Trace.tla
// judges. Everything that touches gate code runs in a CHILD process (this test
// binary re-executing itself): if a run kills the process the parent records
// `died` for exactly that run and carries on with the next one. No verdicts here.
package c44

import (
	"bytes"
	"context"
	"encoding/binary"
	"encoding/json"
	"errors"
	"fmt"
	"io"
	"math/rand"
	"net"
	"os"
	"os/exec"
	"path/filepath"
	"sort"
	"strings"
	"sync"
	"sync/atomic"
	"syscall"
	"testing"
	"time"

	"go.minekube.com/gate/pkg/edition/java/netmc"
	"go.minekube.com/gate/pkg/edition/java/proto/packet"
	"go.minekube.com/gate/pkg/edition/java/proto/packet/title"
	"go.minekube.com/gate/pkg/edition/java/proto/state"
	"go.minekube.com/gate/pkg/edition/java/proto/version"
	"go.minekube.com/gate/pkg/gate/proto"

	"verif/harness/sched"
	"verif/harness/tracefmt"
)

// serverbound Keep Alive in the play state of protocol 764 (1.20.2)
const idPlayKeepAliveSB = 0x14

type schedule struct {
	Kind      map[string]string   `json:"kind"`
	Faults    map[string][]string `json:"faults"`
	CloseFail bool                `json:"closefail"`
	Sched     []string            `json:"sched"`
}

type plan struct {
	Schedules []schedule `json:"schedules"`
	Faults    [][]string `json:"faults"`
	Stress    int        `json:"stress"`
	// Ns: when a plan re-runs entries of an earlier plan, the index each entry had there (the
	// per-run random choices are seeded by it, so the re-run makes the same choices)
	Ns []int `json:"ns"`
}

type stats struct {
	Schedules   int            `json:"schedules"`
	FaultRuns   int            `json:"fault_runs"`
	Stress      int            `json:"stress_runs"`
	Blocked     int            `json:"blocked_steps"`
	Panics      map[string]int `json:"panics_thrown"`
	Children    int            `json:"children"`
	Died        int            `json:"died"`
	Unrun       int            `json:"runs_not_executed"`
	GateArrival map[string]int `json:"gate_arrivals"`
	Samples     []any          `json:"samples"`
}

// lineWriter appends ndjson lines unbuffered, so a dying process loses nothing.
type lineWriter struct {
	mu  sync.Mutex
	f   *os.File
	seq int
}

func (w *lineWriter) Emit(r tracefmt.Rec) {
	w.mu.Lock()
	defer w.mu.Unlock()
	w.seq++
	r["seq"] = w.seq
	b, err := json.Marshal(r)
	if err != nil {
		panic(err)
	}
	w.f.Write(append(b, '\n'))
}

// core is what all session handlers of one connection share.
type core struct {
	tw     *lineWriter
	mu     sync.Mutex
	plan   map[int]string
	count  atomic.Int64
	thrown map[string]int
}

// handler is a counting session handler; several of them may be installed on one
// connection one after the other (teardown is counted per connection).
type handler struct {
	*core
	name        string
	onActivated func()
}

func (h *handler) HandlePacket(pc *proto.PacketContext) {
	n := -1
	if ka, ok := pc.Packet.(*packet.KeepAlive); ok {
		n = int(ka.RandomID)
	}
	h.mu.Lock()
	kind := h.plan[n]
	if kind == "" {
		kind = "none"
	}
	h.thrown[kind]++
	h.mu.Unlock()
	h.tw.Emit(tracefmt.Rec{"ev": "handled", "n": n, "kind": kind, "h": h.name})
	h.count.Add(1)
	switch kind {
	case "perr":
		panic(errors.New("handler failed (error value)"))
	case "pstr":
		panic("handler failed (string value)")
	case "prt":
		var m map[string]int
		m["x"] = 1 // runtime error
	case "pnil":
		var e error
		panic(e)
	}
}
func (h *handler) Disconnected() { h.tw.Emit(tracefmt.Rec{"ev": "teardown", "h": h.name}) }
func (h *handler) Activated() {
	if h.onActivated != nil {
		h.onActivated()
	}
}
func (h *handler) Deactivated() {}

// faultConn is the connection's net.Conn; its Close closes the pipe and, if failClose
// is set, reports an error (tls close_notify to a dead peer, a wrapped conn, ...).
type faultConn struct {
	net.Conn
	failClose bool
	failWrite atomic.Pointer[error] // once set, every Write fails with it
	closed    atomic.Bool           // Close was called
}

func (f *faultConn) Write(b []byte) (int, error) {
	if e := f.failWrite.Load(); e != nil {
		return 0, *e
	}
	return f.Conn.Write(b)
}

func (f *faultConn) Close() error {
	f.closed.Store(true)
	err := f.Conn.Close()
	if f.failClose {
		return errors.New("close of the underlying connection failed")
	}
	return err
}

type rig struct {
	tw      *lineWriter
	conn    netmc.MinecraftConn
	loop    func()
	far     net.Conn
	fc      *faultConn
	cancel  context.CancelFunc // cancels the context the connection was created with
	config  bool               // the outbound side is in the configuration phase (play packets are held)
	h       *handler
	rlDone  chan struct{} // the read loop returned
	injDone chan struct{} // the peer goroutine of readLoop finished
}

func newRig(tw *lineWriter, st *stats, withHandler, failClose bool) *rig {
	a, b := net.Pipe()
	fc := &faultConn{Conn: a, failClose: failClose}
	parent, cancel := context.WithCancel(context.Background())
	conn, loop := netmc.NewMinecraftConn(parent, fc, proto.ServerBound,
		20*time.Second, 20*time.Second, -1, nil)
	conn.SetProtocol(version.Minecraft_1_20_2.Protocol)
	r := &rig{tw: tw, conn: conn, loop: loop, far: b, fc: fc, cancel: cancel, rlDone: make(chan struct{}), injDone: make(chan struct{})}
	r.h = &handler{core: &core{tw: tw, plan: map[int]string{}, thrown: st.Panics}, name: "h0"}
	if withHandler {
		conn.SetActiveSessionHandler(state.Play, r.h)
		// a handler for the config registry, reachable with SwitchSessionHandler
		conn.AddSessionHandler(state.Config, &handler{core: r.h.core, name: "hcfg"})
	} else {
		conn.SetState(state.Play)
	}
	go io.Copy(io.Discard, b) // the peer reads whatever is written to it
	return r
}

// enterConfig switches only the outbound side (the reader keeps decoding play packets):
// from now on play-only packets are held by the play packet queue instead of written.
func (r *rig) enterConfig() {
	r.config = true
	r.conn.SetOutboundState(state.Config)
}

// pkt is what a plain write sends: a keep-alive, or in the configuration phase a play-only packet
func (r *rig) pkt(id int) proto.Packet {
	if r.config {
		return &title.Times{FadeIn: id, Stay: 1, FadeOut: 1}
	}
	return &packet.KeepAlive{RandomID: int64(id)}
}

func resOf(err error) string {
	switch {
	case err == nil:
		return "ok"
	case errors.Is(err, netmc.ErrClosedConn):
		return "closed"
	}
	return "err"
}

func errText(err error) string {
	if err == nil {
		return ""
	}
	return err.Error()
}

// op performs one call of the given kind as thread name.
func (r *rig) op(thread, kind string, faults []string, closeBy string) {
	switch kind {
	case "close":
		r.tw.Emit(tracefmt.Rec{"ev": "call", "thread": thread, "op": "close"})
		err := r.conn.Close()
		r.tw.Emit(tracefmt.Rec{"ev": "ret", "thread": thread, "res": resOf(err), "err": errText(err)})
	case "unknown":
		r.tw.Emit(tracefmt.Rec{"ev": "call", "thread": thread, "op": "unknown"})
		err := netmc.CloseUnknown(r.conn)
		r.tw.Emit(tracefmt.Rec{"ev": "ret", "thread": thread, "res": resOf(err), "err": errText(err)})
	case "closewith":
		r.tw.Emit(tracefmt.Rec{"ev": "call", "thread": thread, "op": "closewith"})
		err := netmc.CloseWith(r.conn, &packet.KeepAlive{RandomID: 7})
		r.tw.Emit(tracefmt.Rec{"ev": "ret", "thread": thread, "res": resOf(err), "err": errText(err)})
	case "write":
		r.tw.Emit(tracefmt.Rec{"ev": "call", "thread": thread, "op": "write"})
		var err error
		if r.config {
			err = r.conn.BufferPacket(r.pkt(9)) // held, or ErrClosedConn once closed
		} else {
			err = r.conn.WritePacket(r.pkt(9))
		}
		r.tw.Emit(tracefmt.Rec{"ev": "ret", "thread": thread, "res": resOf(err), "err": errText(err)})
	case "ctxcancel":
		r.tw.Emit(tracefmt.Rec{"ev": "ctxcancel", "thread": thread})
		r.cancel()
	case "wreset", "wclosed":
		// from now on the socket refuses writes the way a reset / closed TCP socket does
		var e error = &net.OpError{Op: "write", Net: "tcp", Err: syscall.ECONNRESET}
		if kind == "wclosed" {
			e = &net.OpError{Op: "write", Net: "tcp", Err: net.ErrClosed}
		}
		r.fc.failWrite.Store(&e)
		r.tw.Emit(tracefmt.Rec{"ev": "call", "thread": thread, "op": "write", "fault": kind})
		err := r.conn.WritePacket(&packet.KeepAlive{RandomID: 13})
		r.tw.Emit(tracefmt.Rec{"ev": "ret", "thread": thread, "res": resOf(err), "err": errText(err)})
	case "switch", "switchw", "switchreg":
		// a second counting handler takes over; with "switchw" its Activated() writes a packet
		nh := &handler{core: r.h.core, name: "h-" + thread}
		if kind == "switchw" {
			nh.onActivated = func() { _ = r.conn.WritePacket(&packet.KeepAlive{RandomID: 11}) }
		}
		r.tw.Emit(tracefmt.Rec{"ev": "call", "thread": thread, "op": "switch", "how": kind})
		if kind == "switchreg" {
			r.conn.SwitchSessionHandler(state.Config)
		} else {
			r.conn.SetActiveSessionHandler(state.Play, nh)
		}
		r.tw.Emit(tracefmt.Rec{"ev": "ret", "thread": thread, "res": "ok", "err": ""})
	case "eof":
		r.readLoop(thread, faults, closeBy)
	}
}

// readLoop runs the real read loop on the calling goroutine while the peer sends
// the fault packets, waits for the loop to settle and then goes away (closeBy =
// "peer"), stays while this goroutine calls Close (closeBy = "close"), or just
// stays (anything else).
func (r *rig) readLoop(thread string, faults []string, closeBy string) {
	r.h.mu.Lock()
	for i, k := range faults {
		r.h.plan[i+1] = k
	}
	r.h.mu.Unlock()
	go func() {
		defer close(r.injDone)
		for i, k := range faults {
			r.tw.Emit(tracefmt.Rec{"ev": "inject", "n": i + 1, "kind": k})
			var frame [10]byte
			frame[0] = 9
			frame[1] = idPlayKeepAliveSB
			binary.BigEndian.PutUint64(frame[2:], uint64(i+1))
			// short deadlines: stop as soon as the connection reports closed (nobody may be reading)
			rest, began, gaveUp := frame[:], time.Now(), false
			for len(rest) > 0 && !gaveUp {
				r.far.SetWriteDeadline(time.Now().Add(100 * time.Millisecond))
				k, err := r.far.Write(rest)
				rest = rest[k:]
				if err != nil && (!errors.Is(err, os.ErrDeadlineExceeded) || r.conn.Context().Err() != nil ||
					time.Since(began) > 20*time.Second) {
					gaveUp = true
				}
			}
			if gaveUp {
				break
			}
		}
		deadline := time.After(20 * time.Second)
		settled := false
		for !settled {
			select {
			case <-deadline:
				r.tw.Emit(tracefmt.Rec{"ev": "stalled", "handled": r.h.count.Load(), "injected": len(faults)})
				settled = true
			case <-r.conn.Context().Done():
				r.tw.Emit(tracefmt.Rec{"ev": "quiet", "why": "closed"})
				settled = true
			default:
				if int(r.h.count.Load()) >= len(faults) {
					r.tw.Emit(tracefmt.Rec{"ev": "quiet", "why": "all handled"})
					settled = true
				} else {
					time.Sleep(200 * time.Microsecond)
				}
			}
		}
		switch closeBy {
		case "close":
			r.op("closer", "close", nil, "")
		case "peer":
			r.tw.Emit(tracefmt.Rec{"ev": "peergone"})
			_ = r.far.Close()
		}
	}()
	r.tw.Emit(tracefmt.Rec{"ev": "call", "thread": thread, "op": "loop"})
	r.loop()
	r.tw.Emit(tracefmt.Rec{"ev": "ret", "thread": thread, "res": "ok", "err": ""})
	close(r.rlDone)
}

// finish: a final Close and a write after it, wait for the read loop, end.
func (r *rig) finish(loopStarted bool) {
	// everything came to rest: if the connection reports closed, the read loop ends too
	// (the underlying connection closed, not merely the context cancelled from outside)
	if r.fc.closed.Load() && loopStarted {
		select {
		case <-r.rlDone:
		case <-time.After(20 * time.Second):
			r.tw.Emit(tracefmt.Rec{"ev": "hung", "what": "read loop did not exit after close"})
		}
		select {
		case <-r.injDone:
		case <-time.After(30 * time.Second):
			r.tw.Emit(tracefmt.Rec{"ev": "hung", "what": "peer goroutine did not finish"})
		}
	}
	r.tw.Emit(tracefmt.Rec{"ev": "settled"})
	r.op("main", "write", nil, "") // a write after whatever happened so far
	r.op("main", "close", nil, "")
	r.op("main", "write", nil, "")
	r.op("main", "switch", nil, "") // a handler switch on the closed connection tears nothing down again
	if loopStarted {
		select {
		case <-r.rlDone:
		case <-time.After(20 * time.Second):
			r.tw.Emit(tracefmt.Rec{"ev": "hung", "what": "read loop did not exit after close"})
		}
		select {
		case <-r.injDone:
		case <-time.After(30 * time.Second):
			r.tw.Emit(tracefmt.Rec{"ev": "hung", "what": "peer goroutine did not finish"})
		}
	}
	r.tw.Emit(tracefmt.Rec{"ev": "end"})
	_ = r.far.Close()
}

func sortedKeys(m map[string]string) []string {
	var ks []string
	for k := range m {
		ks = append(ks, k)
	}
	sort.Strings(ks)
	return ks
}

func runSchedule(tw *lineWriter, st *stats, n int, s schedule, step time.Duration, rng *rand.Rand) {
	hasEOF, hasSwitch, hasFaults := false, false, false
	for t, k := range s.Kind {
		hasEOF = hasEOF || k == "eof"
		hasSwitch = hasSwitch || k == "switch" || k == "switchw"
		hasFaults = hasFaults || len(s.Faults[t]) > 0
	}
	withHandler := hasEOF || hasSwitch || rng.Intn(5) != 0
	// without injected packets a plain switch may as well go through SwitchSessionHandler
	// (the config registry; packets of the play registry would no longer be known there)
	useReg := withHandler && !hasFaults && rng.Intn(3) == 0
	hasWriteFault := false
	for _, k := range s.Kind {
		hasWriteFault = hasWriteFault || k == "wreset" || k == "wclosed"
	}
	parkLoop := hasWriteFault && !hasEOF // an eof thread has to read its packets and the EOF
	tw.Emit(tracefmt.Rec{"ev": "reset", "n": n, "mode": "sched", "handler": withHandler, "closefail": s.CloseFail,
		"autoread": !parkLoop})
	r := newRig(tw, st, withHandler, s.CloseFail)
	if !useReg && rng.Intn(4) == 0 {
		r.enterConfig()
	}
	if parkLoop {
		// the read loop is parked (as during a server switch): it will not notice a dead socket
		r.conn.SetAutoReading(false)
	}
	c := sched.New(nil, "cc.close.enter", "cc.once", "sh.switch.installed")
	c.Install()
	if !hasEOF {
		// a free-running read loop: it ends (and closes) when somebody closes the connection
		go r.readLoop("rl", nil, "wait")
	}
	var wg sync.WaitGroup
	for _, t := range sortedKeys(s.Kind) {
		t := t
		wg.Add(1)
		kind := s.Kind[t]
		if kind == "switch" && useReg {
			kind = "switchreg"
		}
		c.Go(t, func() { defer wg.Done(); r.op(t, kind, s.Faults[t], "peer") })
	}
	res := c.Run(s.Sched, step, 20*time.Second)
	st.Schedules++
	st.Blocked += res.Blocked
	if !res.Finished {
		c.Uninstall()
		tw.Emit(tracefmt.Rec{"ev": "hung", "what": "a call never returned"})
		// the stuck calls may hold the connection's close-once: do not wait for these closes
		go func() { _ = r.conn.Close() }()
		go func() { _ = r.far.Close() }()
		return
	}
	// the controller is in free-run mode now; it stays installed (recording only) until
	// the free-running read loop has finished too
	r.finish(true)
	c.Uninstall()
	for _, e := range c.Log {
		st.GateArrival[e[strings.IndexByte(e, '@')+1:]]++
	}
	if len(st.Samples) < 3 {
		st.Samples = append(st.Samples, map[string]any{"kind": s.Kind, "faults": s.Faults, "sched": s.Sched, "steps": res.Steps})
	}
}

func runFaults(tw *lineWriter, st *stats, n int, faults []string, rng *rand.Rand) {
	closeBy := "peer"
	if rng.Intn(3) == 0 {
		closeBy = "close"
	}
	failClose := rng.Intn(3) == 0
	tw.Emit(tracefmt.Rec{"ev": "reset", "n": n, "mode": "faults", "handler": true, "faults": strings.Join(faults, ","),
		"closeby": closeBy, "closefail": failClose})
	r := newRig(tw, st, true, failClose)
	if rng.Intn(4) == 0 {
		r.enterConfig()
	}
	c := sched.New(nil) // only records hook arrivals: no thread is registered, nothing blocks
	c.Install()
	r.readLoop("rl", faults, closeBy)
	r.finish(true)
	c.Uninstall()
	for _, e := range c.Log {
		st.GateArrival[e[strings.IndexByte(e, '@')+1:]]++
	}
	st.FaultRuns++
	if st.FaultRuns == 3 {
		st.Samples = append(st.Samples, map[string]any{"faults": faults, "closeby": closeBy})
	}
}

// free-running stress: closers of every kind, writers and a panicking read loop at once
func runStress(tw *lineWriter, st *stats, n int, rng *rand.Rand) {
	failClose := rng.Intn(3) == 0
	tw.Emit(tracefmt.Rec{"ev": "reset", "n": n, "mode": "stress", "handler": true, "closefail": failClose})
	r := newRig(tw, st, true, failClose)
	if rng.Intn(4) == 0 {
		r.enterConfig()
	}
	kinds := []string{"close", "unknown", "closewith", "write", "write", "switch", "switchw", "wreset", "wclosed", "ctxcancel"}
	panics := []string{"none", "perr", "pstr", "prt", "pnil"}
	var faults []string
	for k := rng.Intn(6); k > 0; k-- {
		faults = append(faults, panics[rng.Intn(len(panics))])
	}
	closeBy := []string{"peer", "close", "wait"}[rng.Intn(3)]
	go r.readLoop("rl", faults, closeBy)
	var wg sync.WaitGroup
	nt := 2 + rng.Intn(6)
	for k := 0; k < nt; k++ {
		name := fmt.Sprintf("g%d", k)
		kind := kinds[rng.Intn(len(kinds))]
		delay := time.Duration(rng.Intn(300)) * time.Microsecond
		wg.Add(1)
		go func() {
			defer wg.Done()
			time.Sleep(delay)
			r.op(name, kind, nil, "")
		}()
	}
	wg.Wait()
	r.finish(true)
	st.Stress++
}

// TestChild performs the runs From.. of the plan, appending to the trace.
func TestChild(t *testing.T) {
	if os.Getenv("C44_CHILD") != "1" {
		t.Skip("child only")
	}
	var p plan
	b, err := os.ReadFile(os.Getenv("C44_PLAN"))
	if err != nil {
		t.Fatal(err)
	}
	if err := json.Unmarshal(b, &p); err != nil {
		t.Fatal(err)
	}
	from := tracefmt.EnvInt("C44_FROM", 0)
	f, err := os.OpenFile(os.Getenv("C44_TRACE"), os.O_APPEND|os.O_CREATE|os.O_WRONLY, 0o644)
	if err != nil {
		t.Fatal(err)
	}
	defer f.Close()
	tw := &lineWriter{f: f, seq: from * 1000}
	st := stats{GateArrival: map[string]int{}, Panics: map[string]int{}}
	step := time.Duration(tracefmt.EnvInt("VERIF_STEP_MS", 4)) * time.Millisecond
	total := len(p.Schedules) + len(p.Faults) + p.Stress
	for n := from; n < total; n++ {
		sn := n
		if n < len(p.Ns) {
			sn = p.Ns[n]
		}
		rng := rand.New(rand.NewSource(tracefmt.Seed()*100003 + int64(sn)))
		switch {
		case n < len(p.Schedules):
			runSchedule(tw, &st, n, p.Schedules[n], step, rng)
		case n < len(p.Schedules)+len(p.Faults):
			runFaults(tw, &st, n, p.Faults[n-len(p.Schedules)], rng)
		default:
			runStress(tw, &st, n, rng)
		}
		// progress of this child, for the parent's statistics
		sb, _ := json.Marshal(st)
		_ = os.WriteFile(os.Getenv("C44_TRACE")+fmt.Sprintf(".stats.%d.json", from), sb, 0o644)
	}
}

func lastRun(trace string) int {
	b, _ := os.ReadFile(trace)
	last := -1
	for _, line := range bytes.Split(b, []byte("\n")) {
		var r struct {
			Ev string `json:"ev"`
			N  int    `json:"n"`
		}
		if json.Unmarshal(line, &r) == nil && r.Ev == "reset" {
			last = r.N
		}
	}
	return last
}

// TestC44 is the parent: it re-executes this binary for the runs of the plan.
func TestC44(t *testing.T) {
	out := tracefmt.OutDir()
	planFile := os.Getenv("VERIF_PLAN")
	if planFile == "" {
		planFile = "plan.json"
	}
	traceName := os.Getenv("VERIF_TRACE")
	if traceName == "" {
		traceName = "trace.ndjson"
	}
	planPath, trace := filepath.Join(out, planFile), filepath.Join(out, traceName)
	var p plan
	b, err := os.ReadFile(planPath)
	if err != nil {
		t.Fatal(err)
	}
	if err := json.Unmarshal(b, &p); err != nil {
		t.Fatal(err)
	}
	_ = os.Remove(trace)
	total := len(p.Schedules) + len(p.Faults) + p.Stress
	agg := stats{GateArrival: map[string]int{}, Panics: map[string]int{}}
	appendLine := func(r map[string]any) {
		f, err := os.OpenFile(trace, os.O_APPEND|os.O_CREATE|os.O_WRONLY, 0o644)
		if err != nil {
			t.Fatal(err)
		}
		lb, _ := json.Marshal(r)
		f.Write(append(lb, '\n'))
		f.Close()
	}
	from := 0
	for from < total && agg.Children < 80 {
		agg.Children++
		ctx, cancel := context.WithTimeout(context.Background(), 8*time.Minute)
		cmd := exec.CommandContext(ctx, os.Args[0], "-test.run=^TestChild$", "-test.count=1", "-test.timeout=25m")
		cmd.Env = append(os.Environ(), "C44_CHILD=1", "C44_PLAN="+planPath, "C44_TRACE="+trace,
			fmt.Sprintf("C44_FROM=%d", from))
		var ob bytes.Buffer
		cmd.Stdout, cmd.Stderr = &ob, &ob
		runErr := cmd.Run()
		cancel()
		if sb, err := os.ReadFile(trace + fmt.Sprintf(".stats.%d.json", from)); err == nil {
			var st stats
			if json.Unmarshal(sb, &st) == nil {
				agg.Schedules += st.Schedules
				agg.FaultRuns += st.FaultRuns
				agg.Stress += st.Stress
				agg.Blocked += st.Blocked
				for k, v := range st.GateArrival {
					agg.GateArrival[k] += v
				}
				for k, v := range st.Panics {
					agg.Panics[k] += v
				}
				if len(agg.Samples) < 4 {
					agg.Samples = append(agg.Samples, st.Samples...)
				}
			}
		}
		if runErr == nil {
			appendLine(map[string]any{"ev": "childexit", "code": 0})
			from = total
			break
		}
		code := -1
		var ee *exec.ExitError
		if errors.As(runErr, &ee) {
			code = ee.ExitCode()
		}
		tail := ob.String()
		if len(tail) > 3000 {
			tail = tail[:1500] + "\n...\n" + tail[len(tail)-1500:]
		}
		if strings.Contains(tail, "DATA RACE") && !strings.Contains(tail, "panic:") && !strings.Contains(tail, "fatal error") {
			// the race detector fails the child at its very end: all runs were completed
			appendLine(map[string]any{"ev": "childexit", "code": 0, "race": true})
			_ = os.WriteFile(filepath.Join(out, traceName+".race.txt"), ob.Bytes(), 0o644)
			from = total
			break
		}
		died := lastRun(trace)
		if died < from {
			t.Fatalf("child made no progress from run %d: %v\n%s", from, runErr, tail)
		}
		agg.Died++
		appendLine(map[string]any{"ev": "died", "run": died, "code": code, "output": tail})
		from = died + 1
	}
	agg.Unrun = total - from
	if err := tracefmt.WriteJSON(traceName+".stats.json", agg); err != nil {
		t.Fatal(err)
	}
}
