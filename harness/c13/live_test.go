//go:build verif

// C13 harness, part 2 (live rig, black box): PreLoginEvent subscribers drive the real
// loginInboundConn through the public LoginPhaseConnection API (synchronous sends,
// follow-up sends from consumers, a send from a goroutine that outlives the event) while a
// fake client answers in the order / with the duplicates / unknown ids the TLC-exported
// program says; and a ModernForge client is relayed the login plugin messages of a fake
// Forge backend.  Everything observable is logged for LoginPlugin_Trace.tla.
package c13

import (
	"encoding/json"
	"errors"
	"fmt"
	"net"
	"os"
	"path/filepath"
	"sync"
	"testing"
	"time"

	"github.com/robinbraemer/event"

	"go.minekube.com/gate/pkg/edition/java/proxy"

	"verif/harness/mcwire"
	"verif/harness/rig"
	"verif/harness/tracefmt"
)

// recorder collects the events of one connection; they are flushed as one run.
type recorder struct {
	mu   sync.Mutex
	recs []tracefmt.Rec
}

func (r *recorder) add(rec tracefmt.Rec) {
	r.mu.Lock()
	r.recs = append(r.recs, rec)
	r.mu.Unlock()
}
func (r *recorder) count(ev string) int {
	r.mu.Lock()
	defer r.mu.Unlock()
	n := 0
	for _, x := range r.recs {
		if x["ev"] == ev {
			n++
		}
	}
	return n
}

type liveConsumer struct {
	rec  *recorder
	tag  string
	conn proxy.LoginPhaseConnection
}

func (c *liveConsumer) OnMessageResponse(body []byte) error {
	c.rec.add(tracefmt.Rec{"ev": "deliver", "tag": c.tag, "ok": body != nil, "body": tracefmt.Bytes(body)})
	if len(body) >= 3 && body[2] == 1 {
		liveSend(c.rec, c.conn, fmt.Sprintf("c%d", body[1]))
	}
	c.rec.add(tracefmt.Rec{"ev": "deliverret", "tag": c.tag})
	return consumerErr(body)
}

func liveSend(rec *recorder, conn proxy.LoginPhaseConnection, tag string) {
	rec.add(tracefmt.Rec{"ev": "send", "tag": tag})
	err := conn.SendLoginPluginMessage(chanID, []byte(tag), &liveConsumer{rec: rec, tag: tag, conn: conn})
	r := tracefmt.Rec{"ev": "sendret", "tag": tag}
	if err != nil {
		r["err"] = err.Error()
	}
	rec.add(r)
}

type script struct {
	rec     *recorder
	prog    prog
	trigger chan struct{} // releases the goroutine send
	gorDone chan struct{}
}

type world struct {
	mu      sync.Mutex
	scripts map[string]*script
}

func (w *world) get(name string) *script {
	w.mu.Lock()
	defer w.mu.Unlock()
	return w.scripts[name]
}

func isTimeout(err error) bool {
	var ne net.Error
	return errors.As(err, &ne) && ne.Timeout()
}

// client side bookkeeping of one login connection
type liveClient struct {
	c       *mcwire.Conn
	rec     *recorder
	proto   int
	success bool
	closed  bool
	relayed map[int]string // relay: client-side message id -> data
}

// drain reads what the proxy sent until the connection is quiet for d.
func (lc *liveClient) drain(d time.Duration) {
	for !lc.closed {
		lc.c.Timeout = d
		p, err := lc.c.ReadPacket()
		if err != nil {
			if !isTimeout(err) {
				lc.closed = true
				if os.Getenv("VERIF_DEBUG") != "" {
					fmt.Println("client read error:", err, "success:", lc.success)
				}
			}
			return
		}
		if lc.success && lc.proto < rig.P1_20_2 {
			continue // play traffic is of no interest here (1.20.2+ stays in login until acknowledged)
		}
		switch p.ID {
		case rig.LoginPluginMsg:
			rd := mcwire.NewRd(p.Data)
			id := rd.VarInt()
			_ = rd.Str()
			tag := string(rd.Rest())
			lc.rec.add(tracefmt.Rec{"ev": "wrote", "id": id, "tag": tag})
			if lc.relayed != nil {
				lc.relayed[id] = tag
			}
		case rig.LoginSuccessID:
			lc.success = true
		case rig.LoginSetCompress:
			lc.c.SetCompression(mcwire.NewRd(p.Data).VarInt())
		case rig.LoginDisconnect:
			lc.closed = true
		}
	}
}

func (lc *liveClient) respond(id int, ok bool, body []byte) {
	lc.rec.add(tracefmt.Rec{"ev": "resp", "id": id, "ok": ok, "body": tracefmt.Bytes(body)})
	b := (&mcwire.Buf{}).VarInt(id).Bool(ok)
	if ok {
		b.Raw(body)
	}
	_ = lc.c.WritePacket(rig.SBLoginPluginResp, b.B)
}

func TestLive(t *testing.T) {
	t.Parallel()
	b, err := os.ReadFile(filepath.Join(tracefmt.OutDir(), "progs.json"))
	if err != nil {
		t.Fatal(err)
	}
	var progs []prog
	if err := json.Unmarshal(b, &progs); err != nil {
		t.Fatal(err)
	}
	w := &world{scripts: map[string]*script{}}
	mgr := event.New()
	event.Subscribe(mgr, 0, func(e *proxy.PreLoginEvent) {
		s := w.get(e.Username())
		if s == nil {
			return
		}
		conn, ok := e.Conn().(proxy.LoginPhaseConnection)
		if !ok {
			return
		}
		for k := 1; k <= s.prog.Pre; k++ {
			liveSend(s.rec, conn, fmt.Sprintf("p%d", k))
		}
		var gwg sync.WaitGroup
		for _, g := range s.prog.Gor {
			g := g
			gwg.Add(1)
			go func() { // a goroutine that outlives the event
				defer gwg.Done()
				<-s.trigger
				liveSend(s.rec, conn, g)
			}()
		}
		if len(s.prog.Gor) > 0 {
			go func() { gwg.Wait(); close(s.gorDone) }()
		}
		s.rec.add(tracefmt.Rec{"ev": "fired"})
	})
	event.Subscribe(mgr, 0, func(e *proxy.GameProfileRequestEvent) {
		if s := w.get(e.GameProfile().Name); s != nil {
			s.rec.add(tracefmt.Rec{"ev": "complete"})
		}
	})
	be, err := rig.NewBackend(nil)
	if err != nil {
		t.Fatal(err)
	}
	defer be.Close()
	r, err := rig.New(rig.Options{EventMgr: mgr, Backends: map[string]*rig.Backend{"lobby": be}, Try: []string{"lobby"}})
	if err != nil {
		t.Fatal(err)
	}
	defer r.Close()
	tw, err := tracefmt.Create("trace_live.ndjson")
	if err != nil {
		t.Fatal(err)
	}
	quiet := time.Duration(tracefmt.EnvInt("VERIF_QUIET_MS", 40)) * time.Millisecond
	seed := tracefmt.Seed()
	var mu sync.Mutex
	var wg sync.WaitGroup
	sem := make(chan struct{}, 16)
	var samples []any
	runs, completions, lateRuns := 0, 0, 0
	for hi, p := range progs {
		hi, p := hi, p
		wg.Add(1)
		sem <- struct{}{}
		go func() {
			defer wg.Done()
			defer func() { <-sem }()
			protoV := []int{rig.P1_20_3, rig.P1_20, rig.P1_20_2, rig.P1_20_3}[(hi+int(seed))%4]
			name := fmt.Sprintf("lp%d_%d", seed%1000, hi)
			rec := &recorder{}
			s := &script{rec: rec, prog: p, trigger: make(chan struct{}), gorDone: make(chan struct{})}
			if len(p.Gor) == 0 {
				close(s.gorDone)
			}
			at := p.At // after how many responses the goroutine sends
			rec.add(tracefmt.Rec{"ev": "reset", "kind": "live", "proto": protoV, "hist": hi, "gor_at": at})
			w.mu.Lock()
			w.scripts[name] = s
			w.mu.Unlock()
			c, err := r.Dial()
			if err != nil {
				t.Error(err)
				return
			}
			defer c.Close()
			lc := &liveClient{c: c, rec: rec, proto: protoV}
			_ = c.WritePacket(0, rig.HandshakePayload(protoV, "localhost", 25565, 2))
			_ = c.WritePacket(rig.SBLoginStart, rig.LoginStartPayload(protoV, name, rig.OfflineUUID(name)))
			// wait (generously) until the pre-login event has returned
			rig.WaitFor(5*time.Second, func() bool { return rec.count("fired") > 0 })
			lc.drain(quiet)
			fire := func() {
				select {
				case <-s.trigger:
				default:
					close(s.trigger)
					select {
					case <-s.gorDone:
					case <-time.After(5 * time.Second):
					}
					lc.drain(quiet)
				}
			}
			for k, rs := range p.Resps {
				if len(p.Gor) > 0 && at == k {
					fire()
				}
				if lc.closed || (lc.success && protoV < rig.P1_20_2) {
					break // the client left the login state: a login packet would be garbage
				}
				lc.respond(rs.ID, rs.OK, respBody(rs, k+1))
				lc.drain(quiet)
			}
			if len(p.Gor) > 0 && !lc.closed && !(lc.success && protoV < rig.P1_20_2) {
				fire()
			} else if len(p.Gor) > 0 {
				// never let the goroutine send: it stays parked until the test ends
				defer func() {
					select {
					case <-s.trigger:
					default:
						close(s.trigger)
					}
				}()
			}
			// settle: wait (generously) until every message that was sent has been delivered;
			// the completion decision then follows in the same goroutine
			allDelivered := func() bool { return rec.count("deliver") == rec.count("send") }
			if rig.WaitFor(3*time.Second, func() bool { lc.drain(quiet / 4); return allDelivered() || lc.closed }) && !lc.closed {
				rig.WaitFor(5*time.Second, func() bool { return rec.count("complete") > 0 })
				time.Sleep(quiet) // a second completion would follow at once
			}
			lc.drain(quiet)
			settled := !lc.closed
			rec.add(tracefmt.Rec{"ev": "end", "settled": settled, "success": lc.success, "closed": lc.closed})
			mu.Lock()
			rec.mu.Lock()
			for _, x := range rec.recs {
				tw.Emit(x)
			}
			runs++
			completions += rec.count2("complete")
			if len(p.Gor) > 0 {
				lateRuns++
			}
			if len(samples) < 2 && len(p.Resps) > 1 && p.Pre > 0 {
				samples = append(samples, rec.recs)
			}
			rec.mu.Unlock()
			mu.Unlock()
		}()
	}
	wg.Wait()
	if err := tw.Close(); err != nil {
		t.Fatal(err)
	}
	tracefmt.WriteJSON("stats_live.json", map[string]any{"runs": runs, "completions": completions,
		"goroutine_send_runs": lateRuns, "samples": samples, "events": tw.N})
}

// count2 is count without taking the lock (caller holds it).
func (r *recorder) count2(ev string) int {
	n := 0
	for _, x := range r.recs {
		if x["ev"] == ev {
			n++
		}
	}
	return n
}
