//go:build verif

// C13 harness, part 1: forces TLC-generated gate-point schedules on the real
// loginInboundConn (over a real netmc connection on a pipe) and records the observable
// history (send / fired / wrote / resp / deliver / complete) that LoginPlugin_Trace.tla
// judges.  Go code only drives and records.
package c13

import (
	"encoding/json"
	"errors"
	"fmt"
	"net"
	"os"
	"path/filepath"
	"strings"
	"testing"
	"time"

	"go.minekube.com/gate/pkg/edition/java/proxy"
	"go.minekube.com/gate/pkg/edition/java/proxy/message"
	gproto "go.minekube.com/gate/pkg/gate/proto"

	"verif/harness/mcwire"
	"verif/harness/rig"
	"verif/harness/sched"
	"verif/harness/tracefmt"
)

type resp struct {
	ID    int  `json:"id"`
	OK    bool `json:"ok"`
	Chain bool `json:"chain"`
	Cerr  bool `json:"cerr"`  // the consumer hit by this response returns an error
	Empty bool `json:"empty"` // successful response with an empty body
}
type prog struct {
	Pre      int      `json:"pre"`
	Resps    []resp   `json:"resps"`
	Gor      []string `json:"gor"`
	Failover bool     `json:"failover"` // relay: first server drops with its message unanswered
	At       int      `json:"at"`       // live rig: the goroutine sends after this many client responses
}
type schedule struct {
	Prog  prog     `json:"prog"`
	Sched []string `json:"sched"`
}

var gates = []string{"lp.call", "lp.send.id", "lp.send.registered", "lp.fired.enter", "lp.fired.popped",
	"lp.resp.taken", "lp.resp.consumed", "lp.resp.checked"}

var chanID, _ = message.ChannelIdentifierFrom("verif:c13")

// consumer records its invocation and optionally sends a follow-up message.
type consumer struct {
	tw   *tracefmt.Writer
	tag  string
	conn proxy.LoginPhaseConnection
	mk   func(tag string) *consumer
}

func (c *consumer) OnMessageResponse(body []byte) error {
	c.tw.Emit(tracefmt.Rec{"ev": "deliver", "tag": c.tag, "ok": body != nil, "body": tracefmt.Bytes(body)})
	// the client's response decides whether this consumer sends a follow-up message
	if len(body) >= 3 && body[2] == 1 {
		tag := fmt.Sprintf("c%d", body[1])
		send(c.tw, c.conn, tag, c.mk(tag))
	}
	c.tw.Emit(tracefmt.Rec{"ev": "deliverret", "tag": c.tag})
	return consumerErr(body)
}

// consumerErr: the response asks the consumer to fail (its error goes to the caller only).
func consumerErr(body []byte) error {
	if len(body) >= 4 && body[3] == 1 {
		return errors.New("verif: consumer rejects the response")
	}
	return nil
}

// respBody is the unique body of the k-th response of a program.
func respBody(r resp, k int) []byte {
	if !r.OK {
		return nil
	}
	if r.Empty {
		return []byte{}
	}
	b := []byte{byte(r.ID), byte(k), 0, 0}
	if r.Chain {
		b[2] = 1
	}
	if r.Cerr {
		b[3] = 1
	}
	return b
}

func send(tw *tracefmt.Writer, conn proxy.LoginPhaseConnection, tag string, c *consumer) {
	tw.Emit(tracefmt.Rec{"ev": "send", "tag": tag})
	err := conn.SendLoginPluginMessage(chanID, []byte(tag), c)
	r := tracefmt.Rec{"ev": "sendret", "tag": tag}
	if err != nil {
		r["err"] = err.Error()
	}
	tw.Emit(r)
}

// readWrites logs every login plugin message that reaches the client side of the pipe.
func readWrites(tw *tracefmt.Writer, c *mcwire.Conn, done chan<- struct{}) {
	defer close(done)
	c.Timeout = 0
	for {
		p, err := c.ReadPacket()
		if err != nil {
			return
		}
		if p.ID == rig.LoginPluginMsg {
			rd := mcwire.NewRd(p.Data)
			id := rd.VarInt()
			_ = rd.Str()
			tw.Emit(tracefmt.Rec{"ev": "wrote", "id": id, "tag": string(rd.Rest())})
		}
	}
}

func TestSchedules(t *testing.T) {
	b, err := os.ReadFile(filepath.Join(tracefmt.OutDir(), "sched.json"))
	if err != nil {
		t.Fatal(err)
	}
	var scheds []schedule
	if err := json.Unmarshal(b, &scheds); err != nil {
		t.Fatal(err)
	}
	tw, err := tracefmt.Create("trace.ndjson")
	if err != nil {
		t.Fatal(err)
	}
	step := time.Duration(tracefmt.EnvInt("VERIF_STEP_MS", 6)) * time.Millisecond
	arrivals := map[string]int{}
	blocked, unfinished, diverged := 0, 0, 0
	var samples []any

	for i, s := range scheds {
		tw.Emit(tracefmt.Rec{"ev": "reset", "n": i, "kind": "sched"})
		cli, srv := net.Pipe()
		v := proxy.VerifNewLoginInbound(srv, gproto.Protocol(rig.P1_20))
		rdDone := make(chan struct{})
		go readWrites(tw, mcwire.NewConn(cli), rdDone)
		conn := v.Conn()
		var mk func(tag string) *consumer
		mk = func(tag string) *consumer { return &consumer{tw: tw, tag: tag, conn: conn, mk: mk} }

		c := sched.New(nil, gates...)
		c.Install()
		p := s.Prog
		c.Go("rl", func() {
			first := true
			yield := func() {
				if !first {
					proxy.VerifYield("lp.call")
				}
				first = false
			}
			for k := 1; k <= p.Pre; k++ {
				yield()
				tag := fmt.Sprintf("p%d", k)
				send(tw, conn, tag, mk(tag))
			}
			yield()
			tw.Emit(tracefmt.Rec{"ev": "fired"})
			_ = v.EventFired(func() error {
				tw.Emit(tracefmt.Rec{"ev": "complete"})
				return nil
			})
			for k, r := range p.Resps {
				yield()
				body := respBody(r, k+1)
				tw.Emit(tracefmt.Rec{"ev": "resp", "id": r.ID, "ok": r.OK, "body": tracefmt.Bytes(body)})
				_ = v.Response(r.ID, r.OK, body)
			}
		})
		for _, g := range p.Gor {
			g := g
			c.Go(g, func() { send(tw, conn, g, mk(g)) })
		}
		res := c.Run(s.Sched, step, 5*time.Second)
		c.Uninstall()
		blocked += res.Blocked
		if nd := countDone(res.Steps); nd > 1+len(p.Gor) {
			diverged++ // the real code passed fewer gates than the model expected
		}
		_ = v.Close()
		<-rdDone
		_ = cli.Close()
		if !res.Finished {
			unfinished++
			tw.Emit(tracefmt.Rec{"ev": "hung", "n": i})
		} else {
			tw.Emit(tracefmt.Rec{"ev": "end", "settled": true})
		}
		for _, e := range c.Log {
			for k := 0; k < len(e); k++ {
				if e[k] == '@' {
					arrivals[e[k+1:]]++
					break
				}
			}
		}
		if i < 2 || (len(samples) < 3 && len(s.Prog.Gor) > 0 && len(s.Prog.Resps) > 1) {
			samples = append(samples, map[string]any{"prog": s.Prog, "sched": s.Sched, "steps": res.Steps})
		}
	}
	if err := tw.Close(); err != nil {
		t.Fatal(err)
	}
	tracefmt.WriteJSON("stats_sched.json", map[string]any{"schedules": len(scheds), "blocked_steps": blocked,
		"unfinished": unfinished, "diverged": diverged, "gate_arrivals": arrivals, "samples": samples, "events": tw.N})
}

func countDone(steps []string) (n int) {
	for _, st := range steps {
		if strings.Contains(st, ":done") || strings.Contains(st, ":unknown") {
			n++
		}
	}
	return
}
