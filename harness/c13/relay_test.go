//go:build verif

// C13 harness, part 3 (live rig): a fake Forge backend sends fml:loginwrapper login plugin
// messages, the proxy relays them through a ModernForge client (1.20.1, FML3 marker in the
// handshake host) and the client answers per program; the backend logs which answers reach it.
package c13

import (
	"encoding/json"
	"fmt"
	"os"
	"path/filepath"
	"sync"
	"testing"
	"time"

	"github.com/robinbraemer/event"

	"go.minekube.com/gate/pkg/edition/java/proxy"

	"verif/harness/mcwire"
	"verif/harness/rig"
	"verif/harness/tracefmt"
)

type relayScript struct {
	rec  *recorder
	prog prog
	hist int
	// failover programs: the first try-list server relays one message and drops before the
	// client answers; the next server goes through the same relay
	cmu       sync.Mutex
	conns     int
	firstSeen chan struct{}
	bdone     chan struct{}
	// how many answers the backend should wait for before it gives up waiting (pacing only)
	expect int
}

func TestRelay(t *testing.T) {
	t.Parallel()
	b, err := os.ReadFile(filepath.Join(tracefmt.OutDir(), "relay.json"))
	if err != nil {
		t.Fatal(err)
	}
	var progs []prog
	if err := json.Unmarshal(b, &progs); err != nil {
		t.Fatal(err)
	}
	var wmu sync.Mutex
	scripts := map[string]*relayScript{}
	get := func(name string) *relayScript { wmu.Lock(); defer wmu.Unlock(); return scripts[name] }

	mgr := event.New()
	event.Subscribe(mgr, 0, func(e *proxy.PreLoginEvent) {
		if s := get(e.Username()); s != nil {
			s.rec.add(tracefmt.Rec{"ev": "fired"})
		}
	})
	event.Subscribe(mgr, 0, func(e *proxy.GameProfileRequestEvent) {
		if s := get(e.GameProfile().Name); s != nil {
			s.rec.add(tracefmt.Rec{"ev": "complete"})
		}
	})
	quiet := time.Duration(tracefmt.EnvInt("VERIF_QUIET_MS", 40)) * time.Millisecond
	be, err := rig.NewBackend(func(bc *rig.BackendConn) {
		if err := bc.ReadLogin(); err != nil {
			return
		}
		s := get(bc.Name)
		if s == nil {
			return
		}
		s.cmu.Lock()
		s.conns++
		nth := s.conns
		s.cmu.Unlock()
		if s.prog.Failover && nth == 1 {
			s.rec.add(tracefmt.Rec{"ev": "send", "tag": "x1", "bid": 77})
			_ = bc.WritePacket(rig.LoginPluginMsg, (&mcwire.Buf{}).VarInt(77).String("fml:loginwrapper").Raw([]byte("x1")).B)
			s.rec.add(tracefmt.Rec{"ev": "sendret", "tag": "x1"})
			select {
			case <-s.firstSeen:
			case <-time.After(6 * time.Second):
			}
			return // the connection drops with its message unanswered
		}
		var once sync.Once
		readDone := func() { once.Do(func() { close(s.bdone) }) }
		defer readDone()
		tagOf := map[int]string{}
		for k := 1; k <= s.prog.Pre; k++ {
			bid := 10*k + s.hist%7 // backend-chosen ids, unrelated to the proxy's client-side ids
			tag := fmt.Sprintf("p%d", k)
			tagOf[bid] = tag
			s.rec.add(tracefmt.Rec{"ev": "send", "tag": tag, "bid": bid})
			_ = bc.WritePacket(rig.LoginPluginMsg, (&mcwire.Buf{}).VarInt(bid).String("fml:loginwrapper").Raw([]byte(tag)).B)
			s.rec.add(tracefmt.Rec{"ev": "sendret", "tag": tag})
			if s.hist%2 == 1 {
				time.Sleep(5 * time.Millisecond)
			}
		}
		got := 0
		for {
			if got < s.expect {
				bc.Conn.Timeout = 5 * time.Second
			} else {
				bc.Conn.Timeout = 4 * quiet
			}
			p, err := bc.ReadPacket()
			if err != nil {
				break
			}
			if p.ID != rig.SBLoginPluginResp {
				continue
			}
			rd := mcwire.NewRd(p.Data)
			bid := rd.VarInt()
			ok := rd.Bool()
			body := rd.Rest()
			tag, known := tagOf[bid]
			if !known {
				tag = fmt.Sprintf("?%d", bid)
			}
			if !ok {
				body = nil
			}
			s.rec.add(tracefmt.Rec{"ev": "deliver", "tag": tag, "ok": ok, "body": tracefmt.Bytes(body), "bid": bid})
			s.rec.add(tracefmt.Rec{"ev": "deliverret", "tag": tag})
			got++
		}
		readDone() // the script may go on: the backend now completes the join
		bc.Conn.Timeout = 5 * time.Second
		if err := bc.CompleteJoin(-1); err != nil {
			return
		}
		bc.Pump()
	})
	if err != nil {
		t.Fatal(err)
	}
	defer be.Close()
	be2, err := rig.NewBackend(be.Behave)
	if err != nil {
		t.Fatal(err)
	}
	defer be2.Close()
	r, err := rig.New(rig.Options{EventMgr: mgr, Backends: map[string]*rig.Backend{"forge": be, "forge2": be2},
		Try: []string{"forge", "forge2"}})
	if err != nil {
		t.Fatal(err)
	}
	defer r.Close()
	tw, err := tracefmt.Create("trace_relay.ndjson")
	if err != nil {
		t.Fatal(err)
	}
	seed := tracefmt.Seed()
	var mu sync.Mutex
	var wg sync.WaitGroup
	sem := make(chan struct{}, 12)
	var samples []any
	runs, answered, successes := 0, 0, 0
	slow := []string{}
	for hi, p := range progs {
		hi, p := hi, p
		wg.Add(1)
		sem <- struct{}{}
		go func() {
			defer wg.Done()
			defer func() { <-sem }()
			t0 := time.Now()
			defer func() {
				if d := time.Since(t0); d > 3*time.Second {
					mu.Lock()
					slow = append(slow, fmt.Sprintf("%d: %v %+v", hi, d.Round(time.Millisecond), p))
					mu.Unlock()
				}
			}()
			name := fmt.Sprintf("fr%d_%d", seed%1000, hi)
			rec := &recorder{}
			s := &relayScript{rec: rec, prog: p, hist: hi, bdone: make(chan struct{}), firstSeen: make(chan struct{})}
			// pacing: answers the backend may wait for = distinct real message ids the client answers
			seen := map[int]bool{}
			for _, rs := range p.Resps {
				if rs.ID >= 1 && rs.ID <= p.Pre && !seen[rs.ID] {
					seen[rs.ID] = true
					s.expect++
				}
			}
			rec.add(tracefmt.Rec{"ev": "reset", "kind": "relay", "hist": hi})
			wmu.Lock()
			scripts[name] = s
			wmu.Unlock()
			c, err := r.Dial()
			if err != nil {
				t.Error(err)
				return
			}
			defer c.Close()
			lc := &liveClient{c: c, rec: rec, proto: rig.P1_20, relayed: map[int]string{}}
			_ = c.WritePacket(0, rig.HandshakePayload(rig.P1_20, "localhost\x00FML3\x00", 25565, 2))
			_ = c.WritePacket(rig.SBLoginStart, rig.LoginStartPayload(rig.P1_20, name, rig.OfflineUUID(name)))
			shift := 0
			if p.Failover {
				// the first server's message arrives; that server drops; the second server's
				// messages arrive; only then the client answers the first one (late)
				rig.WaitFor(5*time.Second, func() bool { lc.drain(quiet); return len(lc.relayed) >= 1 || lc.closed })
				close(s.firstSeen)
				shift = 1
			}
			// wait (generously) until all relayed messages reached the client
			rig.WaitFor(8*time.Second, func() bool { lc.drain(quiet); return len(lc.relayed) >= p.Pre+shift || lc.closed })
			if p.Failover && !lc.closed {
				lc.respond(1, true, []byte{1, 99, 0, 0})
				lc.drain(quiet / 4)
			}
			for k, rs := range p.Resps {
				if shift == 1 && rs.ID >= 1 && rs.ID <= p.Pre {
					rs.ID++ // client-side ids of the second server's messages follow the first one's
				}
				if lc.closed || lc.success {
					break
				}
				lc.respond(rs.ID, rs.OK, respBody(resp{ID: rs.ID, OK: rs.OK, Empty: rs.Empty}, k+1))
				lc.drain(quiet / 4)
			}
			select {
			case <-s.bdone:
			case <-time.After(20 * time.Second):
			}
			// the backend finished reading: now it completes the join; wait for login success
			rig.WaitFor(5*time.Second, func() bool { lc.drain(quiet); return lc.success || lc.closed })
			rec.add(tracefmt.Rec{"ev": "end", "settled": !lc.closed && !p.Failover, "success": lc.success, "closed": lc.closed})
			mu.Lock()
			rec.mu.Lock()
			for _, x := range rec.recs {
				tw.Emit(x)
			}
			runs++
			answered += rec.count2("deliver")
			if lc.success {
				successes++
			}
			if len(samples) < 2 && p.Pre > 1 && len(p.Resps) > 1 {
				samples = append(samples, rec.recs)
			}
			rec.mu.Unlock()
			mu.Unlock()
		}()
	}
	wg.Wait()
	if err := tw.Close(); err != nil {
		t.Fatal(err)
	}
	tracefmt.WriteJSON("stats_relay.json", map[string]any{"runs": runs, "backend_answers": answered,
		"login_successes": successes, "slow": slow, "samples": samples, "events": tw.N})
}
