//go:build verif

// C08 harness: replays TLC-generated login-phase histories against the real proxy with
// the REAL authenticator (RSA key owned by gate, session server faked over HTTP) and
// records the proxy's reaction to every client packet; Login_Trace.tla judges.
package c08

import (
	"crypto/rand"
	"crypto/rsa"
	"crypto/sha1"
	"crypto/x509"
	"encoding/hex"
	"encoding/json"
	"errors"
	"fmt"
	"io"
	"math/big"
	mrand "math/rand"
	"net"
	"os"
	"path/filepath"
	"sync"
	"sync/atomic"
	"testing"
	"time"

	"github.com/robinbraemer/event"

	"go.minekube.com/gate/pkg/edition/java/config"
	"go.minekube.com/gate/pkg/edition/java/proxy"
	"go.minekube.com/gate/pkg/util/configutil"
	"go.minekube.com/gate/pkg/verifexport"

	"verif/harness/mcwire"
	"verif/harness/rig"
	"verif/harness/tracefmt"
)

type pkt struct {
	K    string `json:"k"`
	Name string `json:"name"`
	Tok  string `json:"tok"`
	Sec  string `json:"sec"`
}
type hist struct {
	Pre  string `json:"pre"`
	Sess string `json:"sess"`
	H    []pkt  `json:"h"`
}

type env struct {
	pre, sess string
	sid       string // expected server id (set when the client sends its encryption response)
	queries   int
	sidok     bool
}

type world struct {
	mu   sync.Mutex
	envs map[string]*env
}

func (w *world) get(name string) *env {
	w.mu.Lock()
	defer w.mu.Unlock()
	return w.envs[name]
}

// javaHex is Java's new BigInteger(digest).toString(16), via math/big.
func javaHex(d []byte) string {
	n := new(big.Int).SetBytes(d)
	if d[0]&0x80 != 0 {
		n.Sub(n, new(big.Int).Lsh(big.NewInt(1), uint(8*len(d))))
	}
	return n.Text(16)
}

func isTimeout(err error) bool {
	var ne net.Error
	return errors.As(err, &ne) && ne.Timeout()
}

type reaction struct {
	got    string
	closed bool
	pub    *rsa.PublicKey
	pubDER []byte
	token  []byte
}

// react reads the proxy's reaction to one client packet.
func react(c *mcwire.Conn, quiet bool, proto int, name string) (r reaction) {
	r.got = "none"
	for {
		if quiet {
			c.Timeout = 40 * time.Millisecond
		} else {
			c.Timeout = 5 * time.Second
		}
		p, err := c.ReadPacket()
		if err != nil {
			if isTimeout(err) {
				return r
			}
			// a frame that cannot be decoded (e.g. clear text read through our cipher) is
			// "garbled"; EOF / reset / closed are a plain close
			var ne net.Error
			if !errors.Is(err, io.EOF) && !errors.Is(err, io.ErrUnexpectedEOF) &&
				!errors.As(err, &ne) && !errors.Is(err, net.ErrClosed) {
				r.got = "garbled"
			}
			r.closed = true
			return r
		}
		switch p.ID {
		case rig.LoginSetCompress:
			c.SetCompression(mcwire.NewRd(p.Data).VarInt())
			continue
		case rig.LoginEncRequest:
			rd := mcwire.NewRd(p.Data)
			_ = rd.Str()
			r.pubDER = rd.Bytes()
			r.token = rd.Bytes()
			if rd.Err == nil {
				if k, err := x509.ParsePKIXPublicKey(r.pubDER); err == nil {
					r.pub, _ = k.(*rsa.PublicKey)
				}
			}
			if r.pub == nil {
				r.got = "garbled"
				return r
			}
			r.got = "encreq"
			return r
		case rig.LoginSuccessID:
			// only a login success that parses completely and names this user counts
			// (random bytes read through the cipher must not look like one)
			if ls, err := rig.ParseLoginSuccess(proto, p.Data); err == nil && ls.Name == name {
				r.got = "success"
				return r
			}
			r.got = "garbled"
			quiet = false
			continue
		case rig.LoginDisconnect:
			r.got = "disconnect"
			quiet = false // now wait for the close itself
			continue
		default:
			r.got = "garbled"
			quiet = false
			continue
		}
	}
}

var throwAway, _ = rsa.GenerateKey(rand.Reader, 1024)

func TestReplay(t *testing.T) {
	b, err := os.ReadFile(filepath.Join(tracefmt.OutDir(), "hist.json"))
	if err != nil {
		t.Fatal(err)
	}
	var hists []hist
	if err := json.Unmarshal(b, &hists); err != nil {
		t.Fatal(err)
	}
	cfgOnline := os.Getenv("VERIF_CFG_ONLINE") != "0"
	w := &world{envs: map[string]*env{}}
	ss := rig.NewSessionServer()
	defer ss.Close()
	ss.Reply = func(serverID, username, ip string) (int, string) {
		w.mu.Lock()
		e := w.envs[username]
		if e != nil {
			e.queries++
			if e.sid == "" || serverID != e.sid {
				e.sidok = false
			}
		}
		w.mu.Unlock()
		if e == nil {
			return 204, ""
		}
		if e.sess == "okany" { // confirms this user whatever the server id
			id := hex.EncodeToString(func() []byte { u := rig.OfflineUUID("online:" + username); return u[:] }())
			return 200, fmt.Sprintf(`{"id":"%s","name":"%s","properties":[]}`, id, username)
		}
		if e.sid == "" || serverID != e.sid {
			return 204, ""
		}
		id := hex.EncodeToString(func() []byte { u := rig.OfflineUUID("online:" + username); return u[:] }())
		switch e.sess {
		case "ok":
			return 200, fmt.Sprintf(`{"id":"%s","name":"%s","properties":[]}`, id, username)
		case "204":
			return 204, ""
		case "401":
			return 401, `{"error":"unauthorized"}`
		case "500":
			return 500, "oops"
		case "drop":
			return -1, ""
		case "empty200":
			return 200, ""
		case "noname":
			return 200, fmt.Sprintf(`{"id":"%s","properties":[]}`, id)
		}
		return 204, ""
	}
	mgr := event.New()
	event.Subscribe(mgr, 0, func(e *proxy.PreLoginEvent) {
		if en := w.get(e.Username()); en != nil {
			switch en.pre {
			case "deny":
				e.Deny(nil)
			case "forceOnline":
				e.ForceOnlineMode()
			case "forceOffline":
				e.ForceOfflineMode()
			}
		}
	})
	r, err := rig.New(rig.Options{EventMgr: mgr, Mutate: func(c *config.Config) {
		c.OnlineMode = cfgOnline
		c.ForceKeyAuthentication = false // 1.19 - 1.19.2 clients without a player key may log in
		c.Auth.SessionServerURL = (*configutil.URL)(ss.URL())
	}})
	if err != nil {
		t.Fatal(err)
	}
	defer r.Close()

	// Every login pauses between the session server's answer and the use the proxy makes of it,
	// so that other logins' session queries overlap with it: an answer belongs to the login that
	// asked for it, whatever else is in flight.  (A delay only: never changes what is allowed.)
	var joinPauses atomic.Int64
	verifexport.InstallHook(func(gate bool, name string, kv []any) {
		if gate && name == "login.join.returned" {
			joinPauses.Add(1)
			time.Sleep(2 * time.Millisecond)
		}
	})
	defer verifexport.InstallHook(nil)

	tw, err := tracefmt.Create("trace.ndjson")
	if err != nil {
		t.Fatal(err)
	}
	protos := []int{rig.P1_8, rig.P1_20, rig.P1_20_3, rig.P1_21, rig.P1_19, rig.P1_19_1}
	var mu sync.Mutex
	var wg sync.WaitGroup
	sem := make(chan struct{}, 24)
	var samples []any
	var slow []string
	runs, admissions, onlineAdmissions, repeats, boundarySecrets := 0, 0, 0, 0, 0
	seedBase := tracefmt.Seed()
	for hi, h := range hists {
		hi, h := hi, h
		wg.Add(1)
		sem <- struct{}{}
		go func() {
			defer wg.Done()
			defer func() { <-sem }()
			rng := mrand.New(mrand.NewSource(seedBase*1000003 + int64(hi)))
			proto := protos[(hi+int(seedBase))%len(protos)]
			name := fmt.Sprintf("u%d_%d", seedBase%1000, hi)
			sessOf := h.Sess
		attempts:
			// attempt 0 is the history itself.  If it ended in an online-mode admission, attempt 1
			// replays the same packets under the same user name after the first player has left,
			// against a session server that no longer confirms (204): every login needs its own
			// session confirmation.
			for attempt := 0; attempt < 2; attempt++ {
				en := &env{pre: h.Pre, sess: sessOf, sidok: true}
				w.mu.Lock()
				w.envs[name] = en
				w.mu.Unlock()
				c, err := r.Dial()
				if err != nil {
					t.Error(err)
					return
				}
				if err := c.WritePacket(0, rig.HandshakePayload(proto, "localhost", 25565, 2)); err != nil {
					c.Close()
					t.Error(err)
					return
				}
				recs := []tracefmt.Rec{{"ev": "reset", "pre": h.Pre, "sess": sessOf, "proto": proto, "hist": hi, "attempt": attempt}}
				var pub *rsa.PublicKey
				var pubDER, token []byte
				admitted, everRegistered := false, false
				registered := func() bool {
					if r.P.PlayerByName(name) != nil {
						everRegistered = true
						return true
					}
					return false
				}
				for _, s := range h.H {
					rec := tracefmt.Rec{"ev": "step", "k": s.K, "name": s.Name, "tok": s.Tok, "sec": s.Sec}
					var werr error
					quiet := false
					switch s.K {
					case "start":
						n := name
						if s.Name == "i" {
							n = []string{"bad name!", "x", "waytoolongusername_123", "näme", ""}[rng.Intn(5)]
						}
						werr = c.WritePacket(rig.SBLoginStart, rig.LoginStartPayload(proto, n, rig.OfflineUUID(n)))
					case "enc":
						secret := make([]byte, 16)
						rng.Read(secret)
						if pubDER != nil {
							// steer the derived server id into a boundary class of the signed-hex digest
							// (sign bit, carries, leading zeros): cheap local SHA-1 search
							class := (hi + attempt) % 6
							want := func(d []byte) bool {
								switch class {
								case 1:
									return d[0]&0x80 != 0 && d[19] == 0x00
								case 2:
									return d[0]&0x80 != 0 && d[19] == 0x01
								case 3:
									return d[0] == 0x80
								case 4:
									return d[0] == 0x00 && d[1]&0x80 != 0
								case 5:
									return d[0] < 0x10
								}
								return true
							}
							for try := 0; try < 6000; try++ {
								hsh := sha1.New()
								hsh.Write(secret)
								hsh.Write(pubDER)
								if want(hsh.Sum(nil)) {
									if class != 0 {
										mu.Lock()
										boundarySecrets++
										mu.Unlock()
									}
									break
								}
								rng.Read(secret)
							}
						}
						key := pub
						tk := append([]byte(nil), token...)
						if key == nil { // no encryption request seen: use a throw-away key (out of order anyway)
							key = &throwAway.PublicKey
							tk = []byte{1, 2, 3, 4}
						}
						var encSec, encTok []byte
						switch s.Sec {
						case "ok":
							encSec, _ = rsa.EncryptPKCS1v15(rand.Reader, key, secret)
						case "short":
							encSec, _ = rsa.EncryptPKCS1v15(rand.Reader, key, secret[:15])
						default:
							encSec = make([]byte, 128)
							rng.Read(encSec)
						}
						switch s.Tok {
						case "exact":
							encTok, _ = rsa.EncryptPKCS1v15(rand.Reader, key, tk)
						case "wrong":
							bad := append([]byte(nil), tk...)
							bad[rng.Intn(len(bad))] ^= 1 << uint(rng.Intn(8))
							encTok, _ = rsa.EncryptPKCS1v15(rand.Reader, key, bad)
						case "empty":
							encTok, _ = rsa.EncryptPKCS1v15(rand.Reader, key, nil)
						case "prefix":
							encTok, _ = rsa.EncryptPKCS1v15(rand.Reader, key, tk[:1+rng.Intn(len(tk)-1)])
						case "longer":
							encTok, _ = rsa.EncryptPKCS1v15(rand.Reader, key, append(append([]byte(nil), tk...), byte(rng.Intn(256)), 7))
						default:
							encTok = make([]byte, 128)
							rng.Read(encTok)
						}
						if pubDER != nil {
							hsh := sha1.New()
							hsh.Write(secret)
							hsh.Write(pubDER)
							w.mu.Lock()
							en.sid = javaHex(hsh.Sum(nil))
							w.mu.Unlock()
						}
						body := (&mcwire.Buf{}).Bytes(encSec)
						if proto == rig.P1_19 || proto == rig.P1_19_1 {
							// 1.19 - 1.19.2: either the verify token (flag true) or salt + signature (flag false).
							// The client of these runs has no player key, so a salt + signature answer carries
							// nothing the proxy could verify: it is sent in place of every non-exact token class
							// on every second history.
							if s.Tok != "exact" && hi%2 == 0 {
								body.Bool(false).I64(rng.Int63()).Bytes(encTok)
							} else {
								body.Bool(true).Bytes(encTok)
							}
						} else {
							body.Bytes(encTok)
						}
						werr = c.WritePacket(rig.SBLoginEncResp, body.B)
						// like vanilla, the client switches to encryption right after sending
						_ = c.EnableEncryption(secret)
					case "plugin":
						werr = c.WritePacket(rig.SBLoginPluginResp, (&mcwire.Buf{}).VarInt(1000+rng.Intn(1000)).Bool(rng.Intn(2) == 0).B)
						quiet = true
					default:
						werr = c.WritePacket(0x30+rng.Intn(0x40), nil)
					}
					if werr != nil {
						c.Close()
						t.Errorf("hist %d: write on a connection the model considers open failed: %v", hi, werr)
						return
					}
					t0 := time.Now()
					re := react(c, quiet, proto, name)
					if d := time.Since(t0); d > time.Second {
						mu.Lock()
						slow = append(slow, fmt.Sprintf("%s/%s/%s/%s pre=%s sess=%s proto=%d -> %s closed=%v after %v", s.K, s.Name, s.Tok, s.Sec, h.Pre, h.Sess, proto, re.got, re.closed, d.Round(time.Millisecond)))
						mu.Unlock()
					}
					if re.got == "encreq" {
						pub, pubDER, token = re.pub, re.pubDER, re.token
					}
					if re.got == "success" {
						admitted = true
					}
					rec["got"], rec["closed"], rec["registered"] = re.got, re.closed, registered()
					recs = append(recs, rec)
					if re.closed || re.got == "success" {
						break
					}
				}
				// settle: if not admitted, nothing may ever register under this name
				if !admitted {
					time.Sleep(5 * time.Millisecond)
				}
				regEnd := registered() || everRegistered
				w.mu.Lock()
				q, sidok := en.queries, en.sidok
				w.mu.Unlock()
				recs = append(recs, tracefmt.Rec{"ev": "end", "registered": regEnd, "queried": q, "sidok": sidok && q > 0 || q == 0})
				mu.Lock()
				for _, rc := range recs {
					tw.Emit(rc)
				}
				runs++
				if admitted {
					admissions++
					if q > 0 {
						onlineAdmissions++
					}
				}
				if len(samples) < 3 && admitted && len(h.H) > 1 {
					samples = append(samples, recs)
				}
				mu.Unlock()
				c.Close()
				if attempt == 0 && admitted && q > 0 && (h.Sess == "ok" || h.Sess == "okany") {
					// wait until the first player is gone, then try again without a session
					if !rig.WaitFor(5*time.Second, func() bool { return r.P.PlayerByName(name) == nil }) {
						break attempts
					}
					sessOf = "204"
					mu.Lock()
					repeats++
					mu.Unlock()
					continue
				}
				break
			}
		}()
	}
	wg.Wait()
	if err := tw.Close(); err != nil {
		t.Fatal(err)
	}
	tracefmt.WriteJSON("stats.json", map[string]any{"runs": runs, "admissions": admissions,
		"online_admissions": onlineAdmissions, "repeat_logins": repeats, "boundary_secrets": boundarySecrets, "slow": slow, "samples": samples, "events": tw.N, "session_queries": len(ss.Log()), "join_pauses": joinPauses.Load()})
}
