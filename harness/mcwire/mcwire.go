// Package mcwire is the harness's own, independent implementation of the Minecraft
// Java wire framing (VarInt length prefix, optional zlib compression envelope,
// optional AES/CFB8 stream encryption) and of the primitive field encodings. It
// deliberately shares no code with gate: it is what the fake clients and fake
// backends of the live rig speak, and what oracles decode proxy output with.
package mcwire

import (
	"bytes"
	"compress/zlib"
	"crypto/aes"
	"crypto/cipher"
	"encoding/binary"
	"errors"
	"fmt"
	"io"
	"net"
	"sync"
	"time"
)

// ---------------------------------------------------------------- primitives

// AppendVarInt appends the VarInt encoding of a 32-bit value.
func AppendVarInt(b []byte, v int32) []byte {
	u := uint32(v)
	for {
		if u&^0x7f == 0 {
			return append(b, byte(u))
		}
		b = append(b, byte(u&0x7f)|0x80)
		u >>= 7
	}
}

// VarIntLen is the number of bytes of the VarInt encoding.
func VarIntLen(v int32) int { return len(AppendVarInt(nil, v)) }

// ReadVarInt reads a VarInt of at most 5 bytes.
func ReadVarInt(r io.ByteReader) (int32, int, error) {
	var u uint32
	for i := 0; i < 5; i++ {
		b, err := r.ReadByte()
		if err != nil {
			return 0, i, err
		}
		u |= uint32(b&0x7f) << (7 * i)
		if b&0x80 == 0 {
			return int32(u), i + 1, nil
		}
	}
	return 0, 5, errors.New("mcwire: VarInt too long")
}

// Buf builds payloads.
type Buf struct{ B []byte }

func (b *Buf) VarInt(v int) *Buf   { b.B = AppendVarInt(b.B, int32(v)); return b }
func (b *Buf) Byte(v byte) *Buf    { b.B = append(b.B, v); return b }
func (b *Buf) Bool(v bool) *Buf    { if v { b.B = append(b.B, 1) } else { b.B = append(b.B, 0) }; return b }
func (b *Buf) U16(v uint16) *Buf   { b.B = binary.BigEndian.AppendUint16(b.B, v); return b }
func (b *Buf) I32(v int32) *Buf    { b.B = binary.BigEndian.AppendUint32(b.B, uint32(v)); return b }
func (b *Buf) I64(v int64) *Buf    { b.B = binary.BigEndian.AppendUint64(b.B, uint64(v)); return b }
func (b *Buf) Raw(p []byte) *Buf   { b.B = append(b.B, p...); return b }
func (b *Buf) String(s string) *Buf { b.VarInt(len(s)); b.B = append(b.B, s...); return b }
func (b *Buf) Bytes(p []byte) *Buf { b.VarInt(len(p)); b.B = append(b.B, p...); return b }
func (b *Buf) UUID(u [16]byte) *Buf { b.B = append(b.B, u[:]...); return b }

// Rd reads payloads.
type Rd struct {
	B   []byte
	Off int
	Err error
}

func NewRd(b []byte) *Rd { return &Rd{B: b} }

func (r *Rd) fail(msg string) { if r.Err == nil { r.Err = errors.New("mcwire: " + msg) } }
func (r *Rd) Len() int      { return len(r.B) - r.Off }
func (r *Rd) ReadByte() (byte, error) {
	if r.Off >= len(r.B) {
		r.fail("short read")
		return 0, io.ErrUnexpectedEOF
	}
	r.Off++
	return r.B[r.Off-1], nil
}
func (r *Rd) Byte() byte { b, _ := r.ReadByte(); return b }
func (r *Rd) Bool() bool { return r.Byte() != 0 }
func (r *Rd) VarInt() int {
	v, _, err := ReadVarInt(r)
	if err != nil {
		r.fail("bad varint")
	}
	return int(v)
}
func (r *Rd) N(n int) []byte {
	if n < 0 || r.Off+n > len(r.B) {
		r.fail("short read")
		return nil
	}
	r.Off += n
	return r.B[r.Off-n : r.Off]
}
func (r *Rd) U16() uint16 { b := r.N(2); if b == nil { return 0 }; return binary.BigEndian.Uint16(b) }
func (r *Rd) I32() int32  { b := r.N(4); if b == nil { return 0 }; return int32(binary.BigEndian.Uint32(b)) }
func (r *Rd) I64() int64  { b := r.N(8); if b == nil { return 0 }; return int64(binary.BigEndian.Uint64(b)) }
func (r *Rd) Str() string { return string(r.N(r.VarInt())) }
func (r *Rd) Bytes() []byte  { return append([]byte(nil), r.N(r.VarInt())...) }
func (r *Rd) UUID() (u [16]byte) { copy(u[:], r.N(16)); return }
func (r *Rd) Rest() []byte { return append([]byte(nil), r.N(r.Len())...) }

// ------------------------------------------------------------------- CFB8

// cfb8 is AES/CFB8 written from the mode's definition.
type cfb8 struct {
	blk     cipher.Block
	sr      [16]byte
	decrypt bool
}

func newCFB8(key []byte, decrypt bool) (*cfb8, error) {
	blk, err := aes.NewCipher(key)
	if err != nil {
		return nil, err
	}
	c := &cfb8{blk: blk, decrypt: decrypt}
	copy(c.sr[:], key) // Minecraft uses the secret as IV
	return c, nil
}

func (c *cfb8) XORKeyStream(dst, src []byte) {
	var tmp [16]byte
	for i := range src {
		c.blk.Encrypt(tmp[:], c.sr[:])
		in := src[i]
		out := in ^ tmp[0]
		copy(c.sr[:], c.sr[1:])
		if c.decrypt {
			c.sr[15] = in
		} else {
			c.sr[15] = out
		}
		dst[i] = out
	}
}

// ------------------------------------------------------------------- Conn

// Packet is a decoded frame payload: packet id + body.
type Packet struct {
	ID   int
	Data []byte
}

func (p Packet) String() string { return fmt.Sprintf("0x%02x(%d bytes)", p.ID, len(p.Data)) }

// Conn frames packets over a net.Conn.
type Conn struct {
	C       net.Conn
	rmu     sync.Mutex
	wmu     sync.Mutex
	thr     int // compression threshold, -1 disabled
	enc     *cfb8
	dec     *cfb8
	rbuf    bytes.Buffer
	Timeout time.Duration // per read
	// Tap, if set, observes every packet written (out=true, before the write) and read.
	Tap func(out bool, p Packet)
}

// NewConn wraps c; compression disabled, no encryption.
func NewConn(c net.Conn) *Conn { return &Conn{C: c, thr: -1, Timeout: 5 * time.Second} }

// SetCompression sets the threshold for both directions (-1 disables).
func (c *Conn) SetCompression(thr int) {
	c.rmu.Lock()
	c.wmu.Lock()
	c.thr = thr
	c.wmu.Unlock()
	c.rmu.Unlock()
}

// Threshold returns the current compression threshold.
func (c *Conn) Threshold() int { c.wmu.Lock(); defer c.wmu.Unlock(); return c.thr }

// EnableEncryption turns on AES/CFB8 in both directions with the 16-byte secret.
func (c *Conn) EnableEncryption(secret []byte) error {
	e, err := newCFB8(secret, false)
	if err != nil {
		return err
	}
	d, _ := newCFB8(secret, true)
	c.rmu.Lock()
	c.wmu.Lock()
	c.enc, c.dec = e, d
	c.wmu.Unlock()
	c.rmu.Unlock()
	return nil
}

// Encrypted reports whether encryption is on.
func (c *Conn) Encrypted() bool { c.wmu.Lock(); defer c.wmu.Unlock(); return c.enc != nil }

func (c *Conn) readByteRaw() (byte, error) {
	var b [1]byte
	if _, err := io.ReadFull(c.C, b[:]); err != nil {
		return 0, err
	}
	if c.dec != nil {
		c.dec.XORKeyStream(b[:], b[:])
	}
	return b[0], nil
}

type rawByteReader struct{ c *Conn }

func (r rawByteReader) ReadByte() (byte, error) { return r.c.readByteRaw() }

// ReadFrame reads one frame and returns its decompressed payload (id + body).
func (c *Conn) ReadFrame() ([]byte, error) {
	c.rmu.Lock()
	defer c.rmu.Unlock()
	if c.Timeout > 0 {
		_ = c.C.SetReadDeadline(time.Now().Add(c.Timeout))
	} else {
		_ = c.C.SetReadDeadline(time.Time{}) // no timeout: clear a deadline armed by an earlier read
	}
	n, _, err := ReadVarInt(rawByteReader{c})
	if err != nil {
		return nil, err
	}
	if n < 0 || n > 1<<23 {
		return nil, fmt.Errorf("mcwire: bad frame length %d", n)
	}
	body := make([]byte, n)
	if _, err := io.ReadFull(c.C, body); err != nil {
		return nil, err
	}
	if c.dec != nil {
		c.dec.XORKeyStream(body, body)
	}
	if c.thr < 0 {
		return body, nil
	}
	rd := NewRd(body)
	dl := rd.VarInt()
	if rd.Err != nil {
		return nil, rd.Err
	}
	if dl == 0 {
		return rd.Rest(), nil
	}
	zr, err := zlib.NewReader(bytes.NewReader(body[rd.Off:]))
	if err != nil {
		return nil, err
	}
	out, err := io.ReadAll(zr)
	if err != nil {
		return nil, err
	}
	if len(out) != dl {
		return nil, fmt.Errorf("mcwire: inflated %d bytes, claimed %d", len(out), dl)
	}
	return out, nil
}

// ReadPacket reads one frame and splits off the packet id.
func (c *Conn) ReadPacket() (Packet, error) {
	for {
		p, err := c.ReadFrame()
		if err != nil {
			return Packet{}, err
		}
		if len(p) == 0 {
			continue
		}
		rd := NewRd(p)
		id := rd.VarInt()
		if rd.Err != nil {
			return Packet{}, rd.Err
		}
		pk := Packet{ID: id, Data: rd.Rest()}
		if c.Tap != nil {
			c.Tap(false, pk)
		}
		return pk, nil
	}
}

// FramePayload builds the wire bytes (before encryption) of a payload under threshold thr.
func FramePayload(payload []byte, thr int) []byte {
	var inner []byte
	if thr < 0 {
		inner = payload
	} else if len(payload) < thr {
		inner = append(AppendVarInt(nil, 0), payload...)
	} else {
		var z bytes.Buffer
		zw := zlib.NewWriter(&z)
		zw.Write(payload)
		zw.Close()
		inner = append(AppendVarInt(nil, int32(len(payload))), z.Bytes()...)
	}
	return append(AppendVarInt(nil, int32(len(inner))), inner...)
}

// WriteFrame writes one payload (id + body already concatenated).
func (c *Conn) WriteFrame(payload []byte) error {
	c.wmu.Lock()
	defer c.wmu.Unlock()
	out := FramePayload(payload, c.thr)
	if c.enc != nil {
		c.enc.XORKeyStream(out, out)
	}
	_ = c.C.SetWriteDeadline(time.Now().Add(10 * time.Second))
	_, err := c.C.Write(out)
	return err
}

// WritePacket writes id + data as one frame.
func (c *Conn) WritePacket(id int, data []byte) error {
	if c.Tap != nil {
		c.Tap(true, Packet{ID: id, Data: data})
	}
	return c.WriteFrame(append(AppendVarInt(nil, int32(id)), data...))
}

// Close closes the underlying connection.
func (c *Conn) Close() error { return c.C.Close() }

// ReadUntilClosed drains packets until the peer closes or a read error/timeout happens.
// It returns the packets read and whether the end was a clean EOF / reset.
func (c *Conn) ReadUntilClosed(max int) (pkts []Packet, closed bool) {
	for len(pkts) < max {
		p, err := c.ReadPacket()
		if err != nil {
			var ne net.Error
			if errors.As(err, &ne) && ne.Timeout() {
				return pkts, false
			}
			return pkts, true
		}
		pkts = append(pkts, p)
	}
	return pkts, false
}
