//go:build verif

// C03 harness: drives the real util.Write* / util.Read* primitives with the vectors
// exported by TLC from Codec.tla (boundary values, hostile length prefixes) and with
// seeded random values, and records what the real code did:
//
//	enc   the bytes a writer produced for a value
//	dec   what a reader returned for given input bytes (value, bytes consumed, error,
//	      panic, allocation) -- full encodings with trailing junk, every strict prefix,
//	      hostile length prefixes -- from a bytes.Reader, a one-byte-at-a-time reader, a bytes.Buffer,
//	      a bufio.Reader and an io.LimitedReader
//	big   the same for arrays too long to log byte by byte (header bytes + lengths)
//
// No verdicts here: Codec_Trace.tla re-evaluates Enc/Dec of lib/Wire.tla on every line.
package c03

import (
	"bufio"
	"bytes"
	"encoding/json"
	"fmt"
	"io"
	"math"
	"math/rand"
	"os"
	"path/filepath"
	"runtime"
	"testing"

	"go.minekube.com/common/minecraft/key"
	"go.minekube.com/gate/pkg/edition/java/profile"
	"go.minekube.com/gate/pkg/edition/java/proto/util"
	"go.minekube.com/gate/pkg/util/uuid"

	"verif/harness/tracefmt"
)

// ---------------------------------------------------------------- value forms

type propJ struct {
	Name  []int `json:"name"`
	Value []int `json:"value"`
	Sig   []int `json:"sig"`
}

type keyJ struct {
	Ns  []int `json:"ns"`
	Val []int `json:"val"`
}

func toBytes(a []int) []byte {
	b := make([]byte, len(a))
	for i, x := range a {
		b[i] = byte(x)
	}
	return b
}

func ints(b []byte) []int { return tracefmt.Bytes(b) }

func limbs64(v uint64) []int {
	return []int{int(v >> 48 & 0xffff), int(v >> 32 & 0xffff), int(v >> 16 & 0xffff), int(v & 0xffff)}
}
func fromLimbs(l []int) uint64 {
	var v uint64
	for _, x := range l {
		v = v<<16 | uint64(x&0xffff)
	}
	return v
}
func limbs32(v uint32) []int { return []int{int(v >> 16), int(v & 0xffff)} }

func keyOf(k keyJ) key.Key { return key.New(string(toBytes(k.Ns)), string(toBytes(k.Val))) }
func keyTo(k key.Key) keyJ {
	return keyJ{Ns: ints([]byte(k.Namespace())), Val: ints([]byte(k.Value()))}
}

func un[T any](raw json.RawMessage) T {
	var v T
	if err := json.Unmarshal(raw, &v); err != nil {
		panic(fmt.Sprintf("harness: bad value %s: %v", raw, err))
	}
	return v
}

// codec binds one spec kind to one pair of real functions. fn names the real functions.
type codec struct {
	k     string
	fn    string
	write func(w io.Writer, raw json.RawMessage) error // nil: read-only
	read  func(r io.Reader, max int) (any, error)
	rn    *int // set by read when the real function reports a byte count itself
}

var reportedN int

func codecs() []codec {
	return []codec{
		{k: "varint", fn: "WriteVarInt/ReadVarIntReturnN",
			write: func(w io.Writer, raw json.RawMessage) error { return util.WriteVarInt(w, un[int](raw)) },
			read: func(r io.Reader, _ int) (any, error) {
				v, n, err := util.ReadVarIntReturnN(r)
				reportedN = n
				return v, err
			}, rn: &reportedN},
		{k: "u8", fn: "WriteUint8/ReadUint8",
			write: func(w io.Writer, raw json.RawMessage) error { return util.WriteUint8(w, uint8(un[int](raw))) },
			read:  func(r io.Reader, _ int) (any, error) { v, err := util.ReadUint8(r); return int(v), err }},
		{k: "u8", fn: "WriteByte/ReadByte",
			write: func(w io.Writer, raw json.RawMessage) error { return util.WriteByte(w, byte(un[int](raw))) },
			read:  func(r io.Reader, _ int) (any, error) { v, err := util.ReadByte(r); return int(v), err }},
		{k: "i8", fn: "WriteInt8/ReadInt8",
			write: func(w io.Writer, raw json.RawMessage) error { return util.WriteInt8(w, int8(un[int](raw))) },
			read:  func(r io.Reader, _ int) (any, error) { v, err := util.ReadInt8(r); return int(v), err }},
		{k: "bool", fn: "WriteBool/ReadBool",
			write: func(w io.Writer, raw json.RawMessage) error { return util.WriteBool(w, un[bool](raw)) },
			read:  func(r io.Reader, _ int) (any, error) { return util.ReadBool(r) }},
		{k: "u16", fn: "WriteUint16/ReadUint16",
			write: func(w io.Writer, raw json.RawMessage) error { return util.WriteUint16(w, uint16(un[int](raw))) },
			read:  func(r io.Reader, _ int) (any, error) { v, err := util.ReadUint16(r); return int(v), err }},
		{k: "i16", fn: "WriteInt16/ReadInt16",
			write: func(w io.Writer, raw json.RawMessage) error { return util.WriteInt16(w, int16(un[int](raw))) },
			read:  func(r io.Reader, _ int) (any, error) { v, err := util.ReadInt16(r); return int(v), err }},
		{k: "i32", fn: "WriteInt32/ReadInt32",
			write: func(w io.Writer, raw json.RawMessage) error { return util.WriteInt32(w, int32(un[int](raw))) },
			read:  func(r io.Reader, _ int) (any, error) { v, err := util.ReadInt32(r); return int(v), err }},
		{k: "i32", fn: "WriteInt/ReadInt",
			write: func(w io.Writer, raw json.RawMessage) error { return util.WriteInt(w, un[int](raw)) },
			read:  func(r io.Reader, _ int) (any, error) { return util.ReadInt(r) }},
		{k: "u32", fn: "WriteUint32/ReadUint32",
			write: func(w io.Writer, raw json.RawMessage) error {
				return util.WriteUint32(w, uint32(fromLimbs(un[[]int](raw))))
			},
			read: func(r io.Reader, _ int) (any, error) { v, err := util.ReadUint32(r); return limbs32(v), err }},
		{k: "u32", fn: "WriteFloat32/ReadFloat32",
			write: func(w io.Writer, raw json.RawMessage) error {
				return util.WriteFloat32(w, math.Float32frombits(uint32(fromLimbs(un[[]int](raw)))))
			},
			read: func(r io.Reader, _ int) (any, error) {
				v, err := util.ReadFloat32(r)
				return limbs32(math.Float32bits(v)), err
			}},
		{k: "u64", fn: "WriteUint64/ReadUint64",
			write: func(w io.Writer, raw json.RawMessage) error { return util.WriteUint64(w, fromLimbs(un[[]int](raw))) },
			read:  func(r io.Reader, _ int) (any, error) { v, err := util.ReadUint64(r); return limbs64(v), err }},
		{k: "u64", fn: "WriteInt64/ReadInt64",
			write: func(w io.Writer, raw json.RawMessage) error {
				return util.WriteInt64(w, int64(fromLimbs(un[[]int](raw))))
			},
			read: func(r io.Reader, _ int) (any, error) { v, err := util.ReadInt64(r); return limbs64(uint64(v)), err }},
		{k: "u64", fn: "WriteFloat64/ReadFloat64",
			write: func(w io.Writer, raw json.RawMessage) error {
				return util.WriteFloat64(w, math.Float64frombits(fromLimbs(un[[]int](raw))))
			},
			read: func(r io.Reader, _ int) (any, error) {
				v, err := util.ReadFloat64(r)
				return limbs64(math.Float64bits(v)), err
			}},
		{k: "u64", fn: "-/ReadUnixMilli",
			read: func(r io.Reader, _ int) (any, error) {
				v, err := util.ReadUnixMilli(r)
				return limbs64(uint64(v.UnixMilli())), err
			}},
		{k: "uuid", fn: "WriteUUID/ReadUUID",
			write: func(w io.Writer, raw json.RawMessage) error {
				var id uuid.UUID
				copy(id[:], toBytes(un[[]int](raw)))
				return util.WriteUUID(w, id)
			},
			read: func(r io.Reader, _ int) (any, error) { v, err := util.ReadUUID(r); return ints(v[:]), err }},
		{k: "uuidints", fn: "WriteUUIDIntArray/ReadUUIDIntArray",
			write: func(w io.Writer, raw json.RawMessage) error {
				var id uuid.UUID
				copy(id[:], toBytes(un[[]int](raw)))
				return util.WriteUUIDIntArray(w, id)
			},
			read: func(r io.Reader, _ int) (any, error) { v, err := util.ReadUUIDIntArray(r); return ints(v[:]), err }},
		{k: "string", fn: "WriteString/ReadStringMax",
			write: func(w io.Writer, raw json.RawMessage) error {
				return util.WriteString(w, string(toBytes(un[[]int](raw))))
			},
			read: func(r io.Reader, max int) (any, error) {
				if max == util.DefaultMaxStringSize {
					v, err := util.ReadString(r)
					return ints([]byte(v)), err
				}
				v, err := util.ReadStringMax(r, max)
				return ints([]byte(v)), err
			}},
		{k: "bytes", fn: "WriteBytes/ReadBytesLen",
			write: func(w io.Writer, raw json.RawMessage) error { return util.WriteBytes(w, toBytes(un[[]int](raw))) },
			read: func(r io.Reader, max int) (any, error) {
				if max == util.DefaultMaxStringSize {
					v, err := util.ReadBytes(r)
					return ints(v), err
				}
				v, err := util.ReadBytesLen(r, max)
				return ints(v), err
			}},
		{k: "bytes17", fn: "WriteBytes17(false)/ReadBytes17",
			write: func(w io.Writer, raw json.RawMessage) error {
				return util.WriteBytes17(w, toBytes(un[[]int](raw)), false)
			},
			read: func(r io.Reader, _ int) (any, error) { v, err := util.ReadBytes17(r); return ints(v), err }},
		{k: "bytes17x", fn: "WriteBytes17(true)/ReadBytes17",
			write: func(w io.Writer, raw json.RawMessage) error {
				return util.WriteBytes17(w, toBytes(un[[]int](raw)), true)
			},
			read: func(r io.Reader, _ int) (any, error) { v, err := util.ReadBytes17(r); return ints(v), err }},
		{k: "utf", fn: "WriteUTF/ReadUTF",
			write: func(w io.Writer, raw json.RawMessage) error { return util.WriteUTF(w, string(toBytes(un[[]int](raw)))) },
			read:  func(r io.Reader, _ int) (any, error) { v, err := util.ReadUTF(r); return ints([]byte(v)), err }},
		{k: "strarr", fn: "WriteStrings/ReadStringArray",
			write: func(w io.Writer, raw json.RawMessage) error {
				var a []string
				for _, s := range un[[][]int](raw) {
					a = append(a, string(toBytes(s)))
				}
				return util.WriteStrings(w, a)
			},
			read: func(r io.Reader, _ int) (any, error) {
				v, err := util.ReadStringArray(r)
				out := [][]int{}
				for _, s := range v {
					out = append(out, ints([]byte(s)))
				}
				return out, err
			}},
		{k: "viarr", fn: "WriteVarIntArray/ReadVarIntArray",
			write: func(w io.Writer, raw json.RawMessage) error { return util.WriteVarIntArray(w, un[[]int](raw)) },
			read: func(r io.Reader, _ int) (any, error) {
				v, err := util.ReadVarIntArray(r)
				return append([]int{}, v...), err
			}},
		{k: "viarr", fn: "WriteVarIntArray/ReadIntArray",
			write: func(w io.Writer, raw json.RawMessage) error { return util.WriteVarIntArray(w, un[[]int](raw)) },
			read: func(r io.Reader, _ int) (any, error) {
				v, err := util.ReadIntArray(r)
				return append([]int{}, v...), err
			}},
		{k: "props", fn: "WriteProperties/ReadProperties",
			write: func(w io.Writer, raw json.RawMessage) error {
				var ps []profile.Property
				for _, p := range un[[]propJ](raw) {
					ps = append(ps, profile.Property{Name: string(toBytes(p.Name)), Value: string(toBytes(p.Value)),
						Signature: string(toBytes(p.Sig))})
				}
				return util.WriteProperties(w, ps)
			},
			read: func(r io.Reader, _ int) (any, error) {
				v, err := util.ReadProperties(r)
				out := []propJ{}
				for _, p := range v {
					out = append(out, propJ{ints([]byte(p.Name)), ints([]byte(p.Value)), ints([]byte(p.Signature))})
				}
				return out, err
			}},
		{k: "key", fn: "WriteKey/ReadKey",
			write: func(w io.Writer, raw json.RawMessage) error { return util.WriteKey(w, keyOf(un[keyJ](raw))) },
			read: func(r io.Reader, _ int) (any, error) {
				v, err := util.ReadKey(r)
				if err != nil || v == nil {
					return 0, err
				}
				return keyTo(v), nil
			}},
		{k: "minkey", fn: "WriteMinimalKey/ReadMinimalKey",
			write: func(w io.Writer, raw json.RawMessage) error { return util.WriteMinimalKey(w, keyOf(un[keyJ](raw))) },
			read: func(r io.Reader, _ int) (any, error) {
				v, err := util.ReadMinimalKey(r)
				if err != nil || v == nil {
					return 0, err
				}
				return keyTo(v), nil
			}},
		{k: "keyarr", fn: "WriteKeyArray/ReadKeyArray",
			write: func(w io.Writer, raw json.RawMessage) error {
				var ks []key.Key
				for _, k := range un[[]keyJ](raw) {
					ks = append(ks, keyOf(k))
				}
				return util.WriteKeyArray(w, ks)
			},
			read: func(r io.Reader, _ int) (any, error) {
				v, err := util.ReadKeyArray(r)
				out := []keyJ{}
				for _, k := range v {
					out = append(out, keyTo(k))
				}
				return out, err
			}},
	}
}

// ---------------------------------------------------------------- readers

// oneByte hands out one byte per Read and is not an io.ByteReader.
type oneByte struct {
	b []byte
	n int
}

func (o *oneByte) Read(p []byte) (int, error) {
	if len(p) == 0 {
		return 0, nil
	}
	if o.n >= len(o.b) {
		return 0, io.EOF
	}
	p[0] = o.b[o.n]
	o.n++
	return 1, nil
}

type result struct {
	v        any
	ok       bool
	n        int
	panicked bool
	alloc    int64
	rn       int
}

func runRead(c codec, in []byte, max int, rd string, measure bool) (res result) {
	// reader kinds: the concrete io.Reader types the decoders meet in gate (and special-case)
	//   buf   *bytes.Reader          one   one byte per Read, no io.ByteReader
	//   bbuf  *bytes.Buffer          bufio *bufio.Reader over a bytes.Reader
	//   lim   *io.LimitedReader over a bytes.Reader
	var src io.Reader
	var consumed func() int
	switch rd {
	case "buf":
		br := bytes.NewReader(in)
		src, consumed = br, func() int { return len(in) - br.Len() }
	case "one":
		ob := &oneByte{b: in}
		src, consumed = ob, func() int { return ob.n }
	case "bbuf":
		bb := bytes.NewBuffer(append([]byte{}, in...))
		src, consumed = bb, func() int { return len(in) - bb.Len() }
	case "bufio":
		br := bytes.NewReader(in)
		bf := bufio.NewReaderSize(br, 16)
		src, consumed = bf, func() int { return len(in) - br.Len() - bf.Buffered() }
	case "lim":
		lr := &io.LimitedReader{R: bytes.NewReader(in), N: int64(len(in))}
		src, consumed = lr, func() int { return len(in) - int(lr.N) }
	default:
		panic("reader kind " + rd)
	}
	res.alloc = -1
	res.rn = -1
	var m0, m1 runtime.MemStats
	if measure {
		runtime.ReadMemStats(&m0)
	}
	func() {
		defer func() {
			if r := recover(); r != nil {
				res.panicked = true
			}
		}()
		reportedN = -1
		v, err := c.read(src, max)
		res.ok = err == nil
		if err == nil {
			res.v = v
			if c.rn != nil {
				res.rn = *c.rn
			}
		}
	}()
	if measure {
		runtime.ReadMemStats(&m1)
		res.alloc = int64(m1.TotalAlloc - m0.TotalAlloc)
	}
	res.n = consumed()
	if !res.ok {
		res.v = 0
	}
	return
}

// ---------------------------------------------------------------- driver

type vec struct {
	K   string          `json:"k"`
	V   json.RawMessage `json:"v"`
	Max int             `json:"max"`
	Enc []int           `json:"enc"`
}
type lvec struct {
	K    string `json:"k"`
	Fill int    `json:"fill"`
	Len  int    `json:"len"`
	Max  int    `json:"max"`
}
type hvec struct {
	K   string `json:"k"`
	B   []int  `json:"b"`
	Max int    `json:"max"`
}
type vectors struct {
	Vec  []vec  `json:"vec"`
	LVec []lvec `json:"lvec"`
	HVec []hvec `json:"hvec"`
}

type stats struct {
	Enc, Dec, Big  int
	Vectors        int
	Random         int
	Prefixes       int
	Hostile        int
	ByKind         map[string]int
	Functions      []string
	Samples        []any
	DistinctInputs int
}

const fullLogLimit = 2048 // longer byte strings are logged in "big" form

type driver struct {
	tw    *tracefmt.Writer
	st    *stats
	seen  map[string]bool
	cur   string
	turn  int
	order []string
	buf   map[string][]tracefmt.Rec
}

// Records are grouped per (real function pair, class) so that one rejected group does not
// hide the others: each group is one "run" of the concatenated trace.
func (d *driver) group(c codec, cls string) {
	d.cur = c.fn + " " + cls
	if _, ok := d.buf[d.cur]; !ok {
		d.order = append(d.order, d.cur)
		d.buf[d.cur] = []tracefmt.Rec{{"ev": "reset", "k": c.k, "fn": c.fn, "cls": cls}}
	}
}

func (d *driver) emit(r tracefmt.Rec) { d.buf[d.cur] = append(d.buf[d.cur], r) }

func (d *driver) flush() {
	for _, g := range d.order {
		for _, r := range d.buf[g] {
			d.tw.Emit(r)
		}
	}
	d.order, d.buf = nil, map[string][]tracefmt.Rec{}
}

var extraKinds = []string{"bbuf", "bufio", "lim"}

// readerKinds: every input goes through a bytes.Reader and the one-byte reader; the other
// concrete reader types all see it in the thorough tier, in the quick tier they take turns
// (so every function sees every kind on every input class, on a third of the inputs each).
func (d *driver) readerKinds(measure bool) []string {
	if measure {
		return []string{"buf", "one"}
	}
	if tracefmt.Thorough() {
		return []string{"buf", "one", "bbuf", "bufio", "lim"}
	}
	d.turn++
	return []string{"buf", "one", extraKinds[d.turn%3]}
}

func (d *driver) dec(c codec, cls string, in []byte, max int, measure bool) {
	for _, rd := range d.readerKinds(measure) {
		r := runRead(c, in, max, rd, measure)
		rec := tracefmt.Rec{"ev": "dec", "k": c.k, "fn": c.fn, "cls": cls, "in": ints(in), "max": max, "rd": rd,
			"ok": r.ok, "v": r.v, "n": r.n, "panic": r.panicked, "alloc": r.alloc, "rn": r.rn}
		d.emit(rec)
		d.st.Dec++
		d.st.ByKind[c.k+"/"+cls]++
		if len(d.st.Samples) < 4 && (cls == "prefix" || cls == "hostile") && len(in) > 0 && rd == "buf" {
			d.st.Samples = append(d.st.Samples, map[string]any{"fn": c.fn, "cls": cls, "in": ints(in), "ok": r.ok, "n": r.n})
		}
	}
	key := c.k + fmt.Sprint(max, in)
	if len(in) < 64 && !d.seen[key] {
		d.seen[key] = true
		d.st.DistinctInputs++
	}
}

var junk = []byte{0xff, 0x00, 0x80}

// one value through writer and reader: enc, full decode (with trailing junk), strict prefixes.
// given != nil: the reader is fed the spec's encoding instead of the writer's output.
func (d *driver) value(c codec, raw json.RawMessage, max int, given []byte) {
	var enc []byte
	if c.write != nil {
		d.group(c, "enc")
		var buf bytes.Buffer
		var werr error
		panicked := false
		func() {
			defer func() {
				if r := recover(); r != nil {
					panicked = true
				}
			}()
			werr = c.write(&buf, raw)
		}()
		enc = buf.Bytes()
		d.emit(tracefmt.Rec{"ev": "enc", "k": c.k, "fn": c.fn, "v": raw, "out": ints(enc),
			"err": werr != nil, "panic": panicked})
		d.st.Enc++
		d.st.ByKind[c.k+"/enc"]++
	}
	if given != nil {
		enc = given
	}
	if enc == nil {
		return
	}
	d.group(c, "full")
	d.dec(c, "full", enc, max, false)
	d.dec(c, "full", append(append([]byte{}, enc...), junk...), max, false)
	d.group(c, "prefix")
	for _, n := range prefixLens(len(enc)) {
		d.dec(c, "prefix", enc[:n], max, false)
		d.st.Prefixes++
	}
}

func prefixLens(n int) []int {
	var out []int
	if n <= 40 {
		for i := 0; i < n; i++ {
			out = append(out, i)
		}
		return out
	}
	for i := 0; i <= 6; i++ {
		out = append(out, i)
	}
	return append(out, n/2, n-2, n-1)
}

func lenPrefixKind(k string) bool {
	switch k {
	case "string", "bytes", "bytes17", "bytes17x", "utf":
		return true
	}
	return false
}

// long byte strings: header + lengths only
func (d *driver) big(c codec, fill byte, n, max int) {
	d.group(c, "big")
	val := bytes.Repeat([]byte{fill}, n)
	for i := range val {
		if i%251 == 0 {
			val[i] = byte(i / 251)
		}
	}
	raw, _ := json.Marshal(ints(val))
	var buf bytes.Buffer
	werr := c.write(&buf, raw)
	enc := buf.Bytes()
	hdrLen := len(enc) - n
	if hdrLen < 0 || hdrLen > 8 {
		hdrLen = min(len(enc), 8)
	}
	for _, cut := range []int{len(enc), len(enc) - 1, hdrLen, hdrLen + n/2} {
		if cut < 0 || cut > len(enc) {
			continue
		}
		for _, rd := range []string{"buf", "one", "bbuf"} {
			r := runRead(c, enc[:cut], max, rd, false)
			rlen, same := -1, false
			if r.ok {
				got := toBytes(r.v.([]int))
				rlen = len(got)
				same = bytes.Equal(got, val)
			}
			d.emit(tracefmt.Rec{"ev": "big", "k": c.k, "fn": c.fn, "len": n, "max": max, "hdr": ints(enc[:hdrLen]),
				"wrote": len(enc), "werr": werr != nil, "bodysame": bytes.Equal(enc[hdrLen:], val),
				"cut": cut, "rd": rd, "rok": r.ok, "rlen": rlen, "rn": r.n, "same": same, "panic": r.panicked})
			d.st.Big++
			d.st.ByKind[c.k+"/big"]++
		}
	}
}

func TestTrace(t *testing.T) {
	b, err := os.ReadFile(filepath.Join(tracefmt.OutDir(), "vectors.json"))
	if err != nil {
		t.Fatal(err)
	}
	var vs vectors
	if err := json.Unmarshal(b, &vs); err != nil {
		t.Fatal(err)
	}
	tw, err := tracefmt.Create("trace.ndjson")
	if err != nil {
		t.Fatal(err)
	}
	st := &stats{ByKind: map[string]int{}}
	d := &driver{tw: tw, st: st, seen: map[string]bool{}, buf: map[string][]tracefmt.Rec{}}
	cs := codecs()
	byKind := map[string][]codec{}
	for _, c := range cs {
		byKind[c.k] = append(byKind[c.k], c)
		st.Functions = append(st.Functions, c.fn)
	}
	rng := rand.New(rand.NewSource(tracefmt.Seed()))
	nRandom := tracefmt.EnvInt("VERIF_N", 40)

	firstOfKind := map[string]string{}
	for _, c := range cs {
		if _, ok := firstOfKind[c.k]; !ok {
			firstOfKind[c.k] = c.fn
		}
		// 1. spec vectors: the reader is fed the SPEC's encoding.  Further function pairs of a
		// kind (Int64/Float64 over Uint64 ...) get every 4th vector in the quick tier.
		for i, v := range vs.Vec {
			if v.K != c.k {
				continue
			}
			if firstOfKind[c.k] != c.fn && !tracefmt.Thorough() && i%4 != 0 {
				continue
			}
			d.value(c, v.V, v.Max, toBytes(v.Enc))
			st.Vectors++
		}
		for _, v := range vs.LVec {
			if v.K != c.k || c.write == nil {
				continue
			}
			if v.Len <= fullLogLimit {
				raw, _ := json.Marshal(ints(bytes.Repeat([]byte{byte(v.Fill)}, v.Len)))
				d.value(c, raw, v.Max, nil)
			} else {
				d.big(c, byte(v.Fill), v.Len, v.Max)
			}
			st.Vectors++
		}
		// 2. random values: the reader is fed the real writer's output
		if c.write != nil {
			for i := 0; i < nRandom; i++ {
				raw, max := randomValue(rng, c.k)
				d.value(c, raw, max, nil)
				st.Random++
			}
		}
		// 3. hostile length prefixes
		for _, h := range vs.HVec {
			if h.K != c.k && !(h.K == "bytes17" && c.k == "bytes17x") {
				continue
			}
			d.group(c, "hostile")
			d.dec(c, "hostile", toBytes(h.B), h.Max, true)
			st.Hostile++
		}
		// counted arrays claiming far more elements than bytes present: truncated input,
		// and the pre-allocation must stay capped
		switch c.k {
		case "strarr", "viarr", "props", "keyarr":
			d.group(c, "hugecount")
			for _, cnt := range []int{math.MaxInt32, 1 << 28, 1 << 20, 40000} {
				var hb bytes.Buffer
				writeVarInt(&hb, cnt)
				d.dec(c, "hugecount", hb.Bytes(), -1, true)
				d.dec(c, "hugecount", append(hb.Bytes(), 0, 0, 0, 0), -1, true)
				st.Hostile++
			}
		}
	}
	d.flush()
	// 4. boundary sizes of long arrays (limits of each format)
	for _, c := range cs {
		var lens []int
		max := -1
		switch c.k {
		case "string":
			lens, max = []int{16383, 16384, 262143, 262144}, util.DefaultMaxStringSize
		case "bytes":
			lens, max = []int{16384, 65535, 65536}, util.DefaultMaxStringSize
		case "bytes17":
			lens = []int{32766, 32767}
		case "bytes17x":
			lens = []int{32767, 32768, 32769, 65535, 65536, 0x1FFF9A - 1, 0x1FFF9A}
			if !tracefmt.Thorough() {
				lens = []int{32768, 65536, 0x1FFF9A}
			}
		case "utf":
			lens = []int{32768, 65535}
		}
		for _, n := range lens {
			d.big(c, 0x5a, n, max)
		}
		if c.k == "bytes" && tracefmt.Thorough() {
			d.big(c, 1, 1<<21, 1<<21)
		}
	}
	d.flush()
	if err := tw.Close(); err != nil {
		t.Fatal(err)
	}
	if err := tracefmt.WriteJSON("stats.json", st); err != nil {
		t.Fatal(err)
	}
}

// own VarInt writer for hostile inputs (never gate's)
func writeVarInt(w *bytes.Buffer, v int) {
	u := uint32(int32(v))
	for u >= 0x80 {
		w.WriteByte(byte(u) | 0x80)
		u >>= 7
	}
	w.WriteByte(byte(u))
}

// ---------------------------------------------------------------- random values

func randInt32(rng *rand.Rand) int {
	bits := rng.Intn(32) + 1
	v := int64(rng.Uint32()) & (1<<bits - 1)
	if rng.Intn(2) == 0 {
		v = -v
	}
	if v < math.MinInt32 {
		v = math.MinInt32
	}
	if v > math.MaxInt32 {
		v = math.MaxInt32
	}
	return int(v)
}

var utf8Alphabet = []rune{'a', 'Z', '0', ' ', 0, 'é', 'ß', '€', '中', '𝄞', '😀', 0x7f, 0x80, 0x7ff, 0x800, 0xffff}

func randText(rng *rand.Rand, maxRunes int) []byte {
	n := rng.Intn(maxRunes + 1)
	var rs []rune
	for i := 0; i < n; i++ {
		rs = append(rs, utf8Alphabet[rng.Intn(len(utf8Alphabet))])
	}
	return []byte(string(rs))
}

func randBytes(rng *rand.Rand, maxLen int) []byte {
	b := make([]byte, rng.Intn(maxLen+1))
	rng.Read(b)
	return b
}

const nsChars = "abcdefghijklmnopqrstuvwxyz0123456789_-."

func randKey(rng *rand.Rand) keyJ {
	mk := func(chars string, lo, hi int) []int {
		n := lo + rng.Intn(hi-lo+1)
		b := make([]byte, n)
		for i := range b {
			b[i] = chars[rng.Intn(len(chars))]
		}
		return ints(b)
	}
	k := keyJ{Ns: mk(nsChars, 1, 8), Val: mk(nsChars+"/", 0, 12)}
	if rng.Intn(3) == 0 {
		k.Ns = ints([]byte("minecraft"))
	}
	if string(toBytes(k.Ns)) == ".." {
		k.Ns = ints([]byte("a"))
	}
	return k
}

func randomValue(rng *rand.Rand, k string) (json.RawMessage, int) {
	var v any
	max := -1
	lens := []int{0, 1, 2, 5, 20, 126, 127, 128, 129, 300, 1000}
	pickLen := func() int { return lens[rng.Intn(len(lens))] }
	switch k {
	case "varint", "i32":
		v = randInt32(rng)
	case "u8":
		v = rng.Intn(256)
	case "i8":
		v = rng.Intn(256) - 128
	case "bool":
		v = rng.Intn(2) == 0
	case "u16":
		v = rng.Intn(65536)
	case "i16":
		v = rng.Intn(65536) - 32768
	case "u32":
		x := rng.Uint32() >> uint(rng.Intn(32))
		if x&0x7f800000 == 0x7f800000 && x&0x007fffff != 0 {
			x = 0x7fc00000 // keep NaNs canonical (float32 kinds share these values)
		}
		v = limbs32(x)
	case "u64":
		x := rng.Uint64() >> uint(rng.Intn(64))
		if x&0x7ff0000000000000 == 0x7ff0000000000000 && x&0x000fffffffffffff != 0 {
			x = 0x7ff8000000000000
		}
		v = limbs64(x)
	case "uuid", "uuidints":
		b := make([]byte, 16)
		rng.Read(b)
		v = ints(b)
	case "string":
		max = util.DefaultMaxStringSize
		t := randText(rng, pickLen())
		if rng.Intn(3) == 0 { // a caller-given limit the string just fits (code points)
			max = len([]rune(string(t))) + rng.Intn(2)
			if max == 0 {
				max = 1
			}
		}
		v = ints(t)
	case "bytes":
		max = util.DefaultMaxStringSize
		b := randBytes(rng, pickLen())
		if rng.Intn(3) == 0 {
			max = len(b) + rng.Intn(2)
		}
		v = ints(b)
	case "bytes17", "bytes17x":
		v = ints(randBytes(rng, pickLen()))
	case "utf":
		v = ints(randText(rng, pickLen()/4))
	case "strarr":
		a := [][]int{}
		for i := rng.Intn(5); i > 0; i-- {
			a = append(a, ints(randText(rng, 40)))
		}
		v = a
	case "viarr":
		a := []int{}
		for i := rng.Intn(8); i > 0; i-- {
			a = append(a, randInt32(rng))
		}
		v = a
	case "props":
		a := []propJ{}
		for i := rng.Intn(4); i > 0; i-- {
			p := propJ{Name: ints(randText(rng, 10)), Value: ints(randText(rng, 200)), Sig: []int{}}
			if rng.Intn(2) == 0 {
				p.Sig = ints(append([]byte{'s'}, randText(rng, 100)...))
			}
			a = append(a, p)
		}
		v = a
	case "key", "minkey":
		v = randKey(rng)
	case "keyarr":
		a := []keyJ{}
		for i := rng.Intn(4); i > 0; i-- {
			a = append(a, randKey(rng))
		}
		v = a
	default:
		panic("no random generator for " + k)
	}
	raw, err := json.Marshal(v)
	if err != nil {
		panic(err)
	}
	return raw, max
}
