//go:build verif

// Package playfix is the play-state fixture shared by the C21 / C22 / C23 harnesses:
// a real gate Proxy (real event + command managers, real config), a real
// connectedPlayer over a real netmc.MinecraftConn whose raw socket captures what is
// written to the client, and a backend connection that records the packets the
// proxy writes to the backend.  Nothing here judges anything.
package playfix

import (
	"context"
	"net"
	"sync"
	"time"

	"github.com/robinbraemer/event"
	"go.minekube.com/gate/pkg/edition/java/auth"
	"go.minekube.com/gate/pkg/edition/java/config"
	"go.minekube.com/gate/pkg/edition/java/netmc"
	"go.minekube.com/gate/pkg/edition/java/profile"
	"go.minekube.com/gate/pkg/edition/java/proto/state"
	"go.minekube.com/gate/pkg/edition/java/proxy"
	"go.minekube.com/gate/pkg/edition/java/proxy/phase"
	"go.minekube.com/gate/pkg/gate/proto"
	"go.minekube.com/gate/pkg/util/permission"
	"go.minekube.com/gate/pkg/util/uuid"
)

type addr string

func (a addr) Network() string { return "verif" }
func (a addr) String() string  { return string(a) }

// CaptureConn is a raw socket: reads block until Close, writes are captured.
type CaptureConn struct {
	name    string
	mu      sync.Mutex
	buf     []byte
	once    sync.Once
	closed  chan struct{}
	OnClose func() // called once, synchronously inside the first Close
}

// NewCaptureConn creates a capture socket.
func NewCaptureConn(name string) *CaptureConn {
	return &CaptureConn{name: name, closed: make(chan struct{})}
}

func (c *CaptureConn) Read([]byte) (int, error) {
	<-c.closed
	return 0, net.ErrClosed
}

func (c *CaptureConn) Write(b []byte) (int, error) {
	select {
	case <-c.closed:
		return 0, net.ErrClosed
	default:
	}
	c.mu.Lock()
	c.buf = append(c.buf, b...)
	c.mu.Unlock()
	return len(b), nil
}

// Take returns and clears what was written so far.
func (c *CaptureConn) Take() []byte {
	c.mu.Lock()
	defer c.mu.Unlock()
	b := c.buf
	c.buf = nil
	return b
}

func (c *CaptureConn) Close() error {
	c.once.Do(func() {
		if c.OnClose != nil {
			c.OnClose()
		}
		close(c.closed)
	})
	return nil
}

// IsClosed reports whether Close was called.
func (c *CaptureConn) IsClosed() bool {
	select {
	case <-c.closed:
		return true
	default:
		return false
	}
}
func (c *CaptureConn) LocalAddr() net.Addr              { return addr("proxy") }
func (c *CaptureConn) RemoteAddr() net.Addr             { return addr(c.name) }
func (c *CaptureConn) SetDeadline(time.Time) error      { return nil }
func (c *CaptureConn) SetReadDeadline(time.Time) error  { return nil }
func (c *CaptureConn) SetWriteDeadline(time.Time) error { return nil }

// Backend is the proxy's connection to the backend server: a real netmc.MinecraftConn
// (never read from) whose WritePacket hands the decoded packet to OnWrite instead of
// the wire.
type Backend struct {
	netmc.MinecraftConn
	Raw     *CaptureConn
	OnWrite func(p proto.Packet) // may block (schedule gate)
}

// NewBackend builds the backend connection in the play state.
func NewBackend(protocol proto.Protocol) *Backend {
	raw := NewCaptureConn("backend")
	conn, _ := netmc.NewMinecraftConn(context.Background(), raw, proto.ClientBound,
		30*time.Second, 30*time.Second, -1, nil)
	conn.SetProtocol(protocol)
	conn.SetType(phase.Vanilla)
	conn.SetState(state.Play)
	return &Backend{MinecraftConn: conn, Raw: raw}
}

// WritePacket records the packet.
func (b *Backend) WritePacket(p proto.Packet) error {
	if b.OnWrite != nil {
		b.OnWrite(p)
	}
	return nil
}

// BufferPacket records the packet.
func (b *Backend) BufferPacket(p proto.Packet) error { return b.WritePacket(p) }

// Env is a proxy shared by many players.
type Env struct {
	Proxy  *proxy.Proxy
	Events event.Manager
	Server proxy.RegisteredServer
}

var sharedAuth auth.Authenticator
var authOnce sync.Once

// NewEnv builds a proxy (not listening) with one registered server "lobby".
func NewEnv(mutate func(*config.Config)) (*Env, error) {
	var err error
	authOnce.Do(func() { sharedAuth, err = auth.New(auth.Options{}) })
	if err != nil {
		return nil, err
	}
	cfg := config.DefaultConfig
	cfg.OnlineMode = false
	if mutate != nil {
		mutate(&cfg)
	}
	mgr := event.New()
	px, err := proxy.New(proxy.Options{Config: &cfg, EventMgr: mgr, Authenticator: sharedAuth})
	if err != nil {
		return nil, err
	}
	srv, err := px.Register(proxy.NewServerInfo("lobby", &net.TCPAddr{IP: net.IPv4(127, 0, 0, 1), Port: 25566}))
	if err != nil {
		return nil, err
	}
	return &Env{Proxy: px, Events: mgr, Server: srv}, nil
}

// Play is one player in the play state.
type Play struct {
	*proxy.VerifPlay
	Client  *CaptureConn
	Backend *Backend
}

// NewPlay creates a player named name speaking protocol, joined to the env's server.
func (e *Env) NewPlay(name string, protocol proto.Protocol, perm permission.Func) (*Play, error) {
	raw := NewCaptureConn(name)
	be := NewBackend(protocol)
	prof := &profile.GameProfile{ID: uuid.OfflinePlayerUUID(name), Name: name}
	vp, err := proxy.VerifNewPlay(e.Proxy, raw, prof, protocol, perm, e.Server, be)
	if err != nil {
		return nil, err
	}
	return &Play{VerifPlay: vp, Client: raw, Backend: be}, nil
}

// WaitChatIdle waits until every chat-queue task queued so far completed.
func (p *Play) WaitChatIdle(d time.Duration) bool {
	ch := make(chan struct{}, 1)
	p.ChatIdle(func() { ch <- struct{}{} })
	select {
	case <-ch:
		return true
	case <-time.After(d):
		return false
	}
}
