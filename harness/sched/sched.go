//go:build verif

// Package sched forces thread schedules on the real gate code through the
// verif-tagged verifhook.Point gates, and records every hook invocation.
//
// A "thread" is a goroutine started with Controller.Go. Each thread runs in
// segments separated by gate points: a thread that reaches a gate point parks
// there until the controller releases it. A schedule is a sequence of thread
// names; step "T" means "let T run its next segment". A thread that neither
// parks again nor finishes within the step timeout is blocked on a real lock /
// channel (the requested order is infeasible); the controller then moves on and
// the thread continues whenever the real code lets it. Gates only delay, they
// can not create an interleaving the real code forbids.
package sched

import (
	"bytes"
	"fmt"
	"runtime"
	"strconv"
	"sync"
	"time"

	"go.minekube.com/gate/pkg/verifexport"

	"verif/harness/tracefmt"
)

// Status of a thread after a step.
type Status string

const (
	Parked  Status = "parked"
	Done    Status = "done"
	Blocked Status = "blocked" // did not reach a gate nor finish within the timeout
	Unknown Status = "unknown" // no such thread
)

type thread struct {
	name    string
	state   Status // Parked, Done, or "" while running
	at      string
	release chan struct{}
	stuck   bool // timed out on the previous step and has not settled since
}

// Controller is the schedule controller and hook recorder.
type Controller struct {
	mu      sync.Mutex
	cond    *sync.Cond
	threads map[string]*thread
	byGid   map[uint64]*thread
	gates   map[string]bool // nil: every Point is a gate
	free    bool            // free-run: gates do not block
	Trace   *tracefmt.Writer
	// OnEvent, if set, is called (outside the controller lock) for every hook invocation.
	OnEvent func(thread, name string, kv []any)
	wg      sync.WaitGroup
	Log     []string // "thread@point" in arrival order
}

// New creates a controller. gates lists the Point names that block; nil means all.
func New(trace *tracefmt.Writer, gates ...string) *Controller {
	c := &Controller{threads: map[string]*thread{}, byGid: map[uint64]*thread{}, Trace: trace}
	c.cond = sync.NewCond(&c.mu)
	if len(gates) > 0 {
		c.gates = map[string]bool{}
		for _, g := range gates {
			c.gates[g] = true
		}
	}
	return c
}

// Install makes the controller the process-wide hook receiver.
func (c *Controller) Install() { verifexport.InstallHook(c.hook) }

// Uninstall removes the hook receiver.
func (c *Controller) Uninstall() { verifexport.InstallHook(nil) }

func gid() uint64 {
	var buf [64]byte
	b := buf[:runtime.Stack(buf[:], false)]
	b = bytes.TrimPrefix(b, []byte("goroutine "))
	i := bytes.IndexByte(b, ' ')
	n, _ := strconv.ParseUint(string(b[:i]), 10, 64)
	return n
}

// KV converts hook key/values to a record.
func KV(kv []any) tracefmt.Rec {
	r := tracefmt.Rec{}
	for i := 0; i+1 < len(kv); i += 2 {
		r[fmt.Sprint(kv[i])] = kv[i+1]
	}
	return r
}

func (c *Controller) hook(gate bool, name string, kv []any) {
	g := gid()
	c.mu.Lock()
	t := c.byGid[g]
	tn := "?"
	if t != nil {
		tn = t.name
	}
	if c.Trace != nil {
		r := KV(kv)
		r["ev"] = name
		r["thread"] = tn
		c.Trace.Emit(r)
	}
	c.Log = append(c.Log, tn+"@"+name)
	cb := c.OnEvent
	if !gate || t == nil || c.free || (c.gates != nil && !c.gates[name]) {
		c.mu.Unlock()
		if cb != nil {
			cb(tn, name, kv)
		}
		return
	}
	t.state, t.at = Parked, name
	rel := make(chan struct{})
	t.release = rel
	c.cond.Broadcast()
	c.mu.Unlock()
	if cb != nil {
		cb(tn, name, kv)
	}
	<-rel
}

// Go starts fn as thread name. The thread parks at the virtual gate "start" first.
func (c *Controller) Go(name string, fn func()) {
	t := &thread{name: name}
	c.mu.Lock()
	c.threads[name] = t
	c.mu.Unlock()
	c.wg.Add(1)
	ready := make(chan struct{})
	go func() {
		defer c.wg.Done()
		g := gid()
		c.mu.Lock()
		c.byGid[g] = t
		free := c.free
		rel := make(chan struct{})
		if !free {
			t.state, t.at, t.release = Parked, "start", rel
		}
		c.cond.Broadcast()
		c.mu.Unlock()
		close(ready)
		if !free {
			<-rel
		}
		defer func() {
			c.mu.Lock()
			t.state, t.at = Done, ""
			delete(c.byGid, g)
			c.cond.Broadcast()
			c.mu.Unlock()
		}()
		fn()
	}()
	<-ready
}

// Adopt registers the calling goroutine as thread name without parking it.
func (c *Controller) Adopt(name string) func() {
	t := &thread{name: name}
	g := gid()
	c.mu.Lock()
	c.threads[name] = t
	c.byGid[g] = t
	c.mu.Unlock()
	return func() {
		c.mu.Lock()
		delete(c.byGid, g)
		t.state = Done
		c.cond.Broadcast()
		c.mu.Unlock()
	}
}

// waitSettled waits until t is parked or done, or the timeout passes.
func (c *Controller) waitSettled(t *thread, d time.Duration) Status {
	deadline := time.Now().Add(d)
	timer := time.AfterFunc(d, func() {
		c.mu.Lock()
		c.cond.Broadcast()
		c.mu.Unlock()
	})
	defer timer.Stop()
	c.mu.Lock()
	defer c.mu.Unlock()
	for t.state != Parked && t.state != Done {
		if !time.Now().Before(deadline) {
			return Blocked
		}
		c.cond.Wait()
	}
	return t.state
}

// At returns where the thread is parked ("" if not parked).
func (c *Controller) At(name string) string {
	c.mu.Lock()
	defer c.mu.Unlock()
	if t := c.threads[name]; t != nil && t.state == Parked {
		return t.at
	}
	return ""
}

// Step lets thread name run its next segment.
func (c *Controller) Step(name string, timeout time.Duration) Status {
	c.mu.Lock()
	t := c.threads[name]
	c.mu.Unlock()
	if t == nil {
		return Unknown
	}
	d := timeout
	if t.stuck {
		// it was blocked on a real lock a moment ago: only glance at it again
		d = timeout / 8
	}
	st := c.waitSettled(t, d)
	if st != Parked {
		t.stuck = st == Blocked
		return st
	}
	c.mu.Lock()
	rel := t.release
	t.state, t.release = "", nil
	c.mu.Unlock()
	close(rel)
	st = c.waitSettled(t, timeout)
	t.stuck = st == Blocked
	return st
}

// Result of running a schedule.
type Result struct {
	Steps    []string `json:"steps"`    // "thread:status[@point]"
	Blocked  int      `json:"blocked"`  // steps that timed out
	Finished bool     `json:"finished"` // all threads finished after draining
}

// Run forces the schedule, then frees all threads and waits for them.
func (c *Controller) Run(schedule []string, stepTimeout, drainTimeout time.Duration) Result {
	var res Result
	for _, s := range schedule {
		st := c.Step(s, stepTimeout)
		if st == Blocked {
			res.Blocked++
		}
		res.Steps = append(res.Steps, s+":"+string(st)+"@"+c.At(s))
	}
	res.Finished = c.Drain(drainTimeout)
	return res
}

// Drain switches to free-run, releases every parked thread and waits for all threads.
func (c *Controller) Drain(timeout time.Duration) bool {
	c.mu.Lock()
	c.free = true
	for _, t := range c.threads {
		if t.state == Parked && t.release != nil {
			close(t.release)
			t.state, t.release = "", nil
		}
	}
	c.mu.Unlock()
	done := make(chan struct{})
	go func() { c.wg.Wait(); close(done) }()
	select {
	case <-done:
		return true
	case <-time.After(timeout):
		return false
	}
}
