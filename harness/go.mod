module verif/harness

go 1.26

require go.minekube.com/gate v0.0.0

replace go.minekube.com/gate => /repo
