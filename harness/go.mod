module verif/harness

go 1.26

require go.minekube.com/gate v0.0.0

require (
	buf.build/gen/go/minekube/connect/protocolbuffers/go v1.36.10-20240220124425-904ce30425c9.1 // indirect
	connectrpc.com/connect v1.20.0 // indirect
	connectrpc.com/otelconnect v0.9.0 // indirect
	github.com/Tnze/go-mc v1.20.2
	github.com/agext/levenshtein v1.2.3 // indirect
	github.com/cenkalti/backoff/v5 v5.0.3 // indirect
	github.com/cespare/xxhash/v2 v2.3.0 // indirect
	github.com/coder/websocket v1.8.15 // indirect
	github.com/cpuguy83/go-md2man/v2 v2.0.7 // indirect
	github.com/davecgh/go-spew v1.1.2-0.20180830191138-d8f796af33cc // indirect
	github.com/dboslee/lru v0.0.1 // indirect
	github.com/ebitengine/purego v0.10.2 // indirect
	github.com/edwingeng/deque/v2 v2.1.1 // indirect
	github.com/emirpasic/gods v1.18.1 // indirect
	github.com/felixge/httpsnoop v1.0.4 // indirect
	github.com/francoispqt/gojay v1.2.13 // indirect
	github.com/fsnotify/fsnotify v1.9.0
	github.com/gammazero/deque v1.2.1 // indirect
	github.com/go-faker/faker/v4 v4.9.0 // indirect
	github.com/go-gl/mathgl v1.1.0 // indirect
	github.com/go-logr/logr v1.4.3
	github.com/go-logr/stdr v1.2.2 // indirect
	github.com/go-logr/zapr v1.3.0 // indirect
	github.com/go-ole/go-ole v1.3.0 // indirect
	github.com/go-viper/mapstructure/v2 v2.4.0 // indirect
	github.com/golang/groupcache v0.0.0-20241129210726-2c02b8208cf8 // indirect
	github.com/golang/snappy v0.0.4 // indirect
	github.com/google/uuid v1.6.0 // indirect
	github.com/gookit/color v1.6.1 // indirect
	github.com/grpc-ecosystem/grpc-gateway/v2 v2.27.3 // indirect
	github.com/honeycombio/otel-config-go v1.17.0 // indirect
	github.com/jellydator/ttlcache/v3 v3.4.1 // indirect
	github.com/klauspost/compress v1.18.0 // indirect
	github.com/lucasb-eyer/go-colorful v1.4.0 // indirect
	github.com/lufia/plan9stats v0.0.0-20250827001030-24949be3fa54 // indirect
	github.com/nfnt/resize v0.0.0-20180221191011-83c6a9932646 // indirect
	github.com/pelletier/go-toml/v2 v2.2.4 // indirect
	github.com/pires/go-proxyproto v0.13.0 // indirect
	github.com/pmezard/go-difflib v1.0.1-0.20181226105442-5d4384ee4fb2 // indirect
	github.com/power-devops/perfstat v0.0.0-20240221224432-82ca36839d55 // indirect
	github.com/robinbraemer/event v0.1.1
	github.com/rs/xid v1.6.0 // indirect
	github.com/russross/blackfriday/v2 v2.1.0 // indirect
	github.com/sagikazarmark/locafero v0.12.0 // indirect
	github.com/sandertv/go-raknet v1.13.0 // indirect
	github.com/sandertv/gophertunnel v1.37.0 // indirect
	github.com/segmentio/fasthash v1.0.3 // indirect
	github.com/sethvargo/go-envconfig v1.3.0 // indirect
	github.com/shirou/gopsutil/v4 v4.25.9 // indirect
	github.com/spf13/afero v1.15.0 // indirect
	github.com/spf13/cast v1.10.0 // indirect
	github.com/spf13/pflag v1.0.10 // indirect
	github.com/spf13/viper v1.21.0
	github.com/stretchr/testify v1.11.1 // indirect
	github.com/subosito/gotenv v1.6.0 // indirect
	github.com/tklauser/go-sysconf v0.3.15 // indirect
	github.com/tklauser/numcpus v0.10.0 // indirect
	github.com/urfave/cli/v2 v2.27.7 // indirect
	github.com/xo/terminfo v0.0.0-20220910002029-abceb7e1c41e // indirect
	github.com/xrash/smetrics v0.0.0-20250705151800-55b8f293f342 // indirect
	github.com/yusufpapurcu/wmi v1.2.4 // indirect
	github.com/zyedidia/generic v1.2.1 // indirect
	go.minekube.com/brigodier v0.0.2
	go.minekube.com/common v0.4.0
	go.minekube.com/connect v0.6.3-0.20260803141147-8001cda93b1d
	go.minekube.com/geyserlite v0.5.1 // indirect
	go.minekube.com/vialite v0.3.0 // indirect
	go.opentelemetry.io/auto/sdk v1.2.1 // indirect
	go.opentelemetry.io/contrib/instrumentation/host v0.63.0 // indirect
	go.opentelemetry.io/contrib/instrumentation/net/http/otelhttp v0.69.0 // indirect
	go.opentelemetry.io/contrib/instrumentation/runtime v0.63.0 // indirect
	go.opentelemetry.io/contrib/propagators/b3 v1.38.0 // indirect
	go.opentelemetry.io/contrib/propagators/ot v1.38.0 // indirect
	go.opentelemetry.io/otel v1.44.0 // indirect
	go.opentelemetry.io/otel/exporters/otlp/otlpmetric/otlpmetricgrpc v1.38.0 // indirect
	go.opentelemetry.io/otel/exporters/otlp/otlpmetric/otlpmetrichttp v1.38.0 // indirect
	go.opentelemetry.io/otel/exporters/otlp/otlptrace v1.38.0 // indirect
	go.opentelemetry.io/otel/exporters/otlp/otlptrace/otlptracegrpc v1.38.0 // indirect
	go.opentelemetry.io/otel/exporters/otlp/otlptrace/otlptracehttp v1.38.0 // indirect
	go.opentelemetry.io/otel/metric v1.44.0 // indirect
	go.opentelemetry.io/otel/sdk v1.44.0 // indirect
	go.opentelemetry.io/otel/sdk/metric v1.44.0 // indirect
	go.opentelemetry.io/otel/trace v1.44.0 // indirect
	go.opentelemetry.io/proto/otlp v1.8.0 // indirect
	go.uber.org/atomic v1.11.0 // indirect
	go.uber.org/multierr v1.11.0 // indirect
	go.uber.org/zap v1.28.0 // indirect
	go.yaml.in/yaml/v3 v3.0.4 // indirect
	golang.org/x/exp v0.0.0-20260611194520-c48552f49976 // indirect
	golang.org/x/image v0.18.0 // indirect
	golang.org/x/net v0.53.0 // indirect
	golang.org/x/sync v0.21.0
	golang.org/x/sys v0.45.0 // indirect
	golang.org/x/text v0.38.0 // indirect
	golang.org/x/time v0.14.0 // indirect
	google.golang.org/genproto/googleapis/api v0.0.0-20260414002931-afd174a4e478 // indirect
	google.golang.org/genproto/googleapis/rpc v0.0.0-20260414002931-afd174a4e478 // indirect
	google.golang.org/grpc v1.82.1 // indirect
	google.golang.org/protobuf v1.36.11
	gopkg.in/yaml.v3 v3.0.1
	pgregory.net/rapid v1.3.0
)

replace go.minekube.com/gate => /repo
