//go:build verif

// C26 harness, part 1: feeds TLC-enumerated (proxy state, BungeeCord request) pairs to the
// real message responder (bungeecord.NewMessageResponder) whose dependencies are
// recording fakes built from the state, and logs everything the fakes saw.
// Bungee_Trace.tla compares the log with Respond(st, rq); nothing is asserted here.
package c26

import (
	"encoding/hex"
	"encoding/json"
	"fmt"
	"net"
	"os"
	"path/filepath"
	"sync"
	"testing"

	"go.minekube.com/common/minecraft/component"

	"go.minekube.com/gate/pkg/command"
	"go.minekube.com/gate/pkg/edition/java/proto/packet/plugin"
	"go.minekube.com/gate/pkg/edition/java/proto/version"
	"go.minekube.com/gate/pkg/edition/java/proxy/bungeecord"
	"go.minekube.com/gate/pkg/edition/java/proxy/message"
	"go.minekube.com/gate/pkg/gate/proto"
	"go.minekube.com/gate/pkg/util/uuid"

	"verif/harness/tracefmt"
)

type bstr []int // a byte string as TLC exports it

func (b bstr) s() string {
	out := make([]byte, len(b))
	for i, x := range b {
		out[i] = byte(x)
	}
	return string(out)
}

type playerSt struct {
	Name   bstr `json:"name"`
	UUID   bstr `json:"uuid"`
	Host   bstr `json:"host"`
	Port   int  `json:"port"`
	Server bstr `json:"server"`
	Modern bool `json:"modern"`
}
type serverSt struct {
	Name bstr `json:"name"`
	Host bstr `json:"host"`
	Port int  `json:"port"`
}
type stateSt struct {
	Players []playerSt `json:"players"`
	Servers []serverSt `json:"servers"`
}
type reqCase struct {
	St    stateSt         `json:"-"`
	StRaw json.RawMessage `json:"st"`
	Rq    json.RawMessage `json:"rq"`
	Data  bstr            `json:"data"`
}

// world is the fake proxy behind the responder.
type world struct {
	st   stateSt
	mu   sync.Mutex
	outs []map[string]any
}

func (w *world) emit(kind, who, where, chanName string, data []byte) {
	w.mu.Lock()
	defer w.mu.Unlock()
	w.outs = append(w.outs, map[string]any{"kind": kind, "who": tracefmt.Bytes([]byte(who)),
		"where": tracefmt.Bytes([]byte(where)), "chan": chanName, "data": tracefmt.Bytes(data)})
}

// protocol of player i and of its server connection (each side of the 1.13 channel rename)
func (w *world) protocol(i int) proto.Protocol {
	if w.st.Players[i].Modern {
		return version.Minecraft_1_20.Protocol
	}
	return version.Minecraft_1_12_2.Protocol
}

// text flattens a component to its plain text (own walk over Text nodes).
func text(c component.Component) string {
	if c == nil {
		return ""
	}
	s := ""
	if t, ok := c.(*component.Text); ok {
		s = t.Content
	} else {
		s = fmt.Sprintf("<%T>", c)
	}
	for _, ch := range c.Children() {
		s += text(ch)
	}
	return s
}

type fakePlayer struct {
	w *world
	i int
}

func (p *fakePlayer) st() playerSt { return p.w.st.Players[p.i] }
func (p *fakePlayer) ID() uuid.UUID {
	var u uuid.UUID
	b, _ := hex.DecodeString(p.st().UUID.s())
	copy(u[:], b)
	return u
}
func (p *fakePlayer) Username() string { return p.st().Name.s() }
func (p *fakePlayer) RemoteAddr() net.Addr {
	return &net.TCPAddr{IP: net.ParseIP(p.st().Host.s()), Port: p.st().Port}
}
func (p *fakePlayer) Disconnect(reason component.Component) {
	p.w.emit("kick", p.Username(), "", "", []byte(text(reason)))
}
func (p *fakePlayer) Protocol() proto.Protocol { return p.w.protocol(p.i) }
func (p *fakePlayer) SendMessage(msg component.Component, _ ...command.MessageOption) error {
	p.w.emit("msg", p.Username(), "", "", []byte(text(msg)))
	return nil
}

type fakeServer struct {
	w *world
	i int
}

func (s *fakeServer) st() serverSt { return s.w.st.Servers[s.i] }
func (s *fakeServer) Name() string { return s.st().Name.s() }
func (s *fakeServer) Players() []bungeecord.Player {
	var out []bungeecord.Player
	for i, p := range s.w.st.Players {
		if p.Server.s() == s.Name() && len(p.Server) > 0 {
			out = append(out, &fakePlayer{s.w, i})
		}
	}
	return out
}
func (s *fakeServer) PlayerCount() int { return len(s.Players()) }
func (s *fakeServer) BroadcastPluginMessage(id message.ChannelIdentifier, data []byte) {
	ch := id.ID()
	if ch == "BungeeCord" || ch == "bungeecord:main" {
		ch = "bungee"
	}
	s.w.emit("forward", "", s.Name(), ch, data)
}
func (s *fakeServer) Connect(p bungeecord.Player) { s.w.emit("connect", p.Username(), s.Name(), "", nil) }
func (s *fakeServer) BroadcastMessage(c component.Component) {
	s.w.emit("srvmsg", "", s.Name(), "", []byte(text(c)))
}
func (s *fakeServer) Addr() net.Addr {
	return &net.TCPAddr{IP: net.ParseIP(s.st().Host.s()), Port: s.st().Port}
}

// fakeConn is the server connection of one player.
type fakeConn struct {
	w     *world
	owner int
}

func (c *fakeConn) Name() string             { return c.w.st.Players[c.owner].Server.s() }
func (c *fakeConn) Protocol() proto.Protocol { return c.w.protocol(c.owner) }
func (c *fakeConn) WritePacket(p proto.Packet) error {
	who := c.w.st.Players[c.owner].Name.s()
	if m, ok := p.(*plugin.Message); ok {
		c.w.emit("resp", who, "", m.Channel, m.Data)
	} else {
		c.w.emit("resp", who, "", fmt.Sprintf("<%T>", p), nil)
	}
	return nil
}

type providers struct{ w *world }

func (pr providers) PlayerByName(n string) bungeecord.Player {
	for i, p := range pr.w.st.Players {
		if p.Name.s() == n {
			return &fakePlayer{pr.w, i}
		}
	}
	return nil
}
func (pr providers) PlayerCount() int { return len(pr.w.st.Players) }
func (pr providers) Players() []bungeecord.Player {
	var out []bungeecord.Player
	for i := range pr.w.st.Players {
		out = append(out, &fakePlayer{pr.w, i})
	}
	return out
}
func (pr providers) BroadcastMessage(c component.Component) {
	pr.w.emit("broadcast", "", "", "", []byte(text(c)))
}
func (pr providers) Server(n string) bungeecord.Server {
	for i, s := range pr.w.st.Servers {
		if s.Name.s() == n {
			return &fakeServer{pr.w, i}
		}
	}
	return nil
}
func (pr providers) Servers() []bungeecord.Server {
	var out []bungeecord.Server
	for i := range pr.w.st.Servers {
		out = append(out, &fakeServer{pr.w, i})
	}
	return out
}
func (pr providers) connOf(i int) bungeecord.ServerConnection {
	if len(pr.w.st.Players[i].Server) == 0 {
		return nil
	}
	return &fakeConn{pr.w, i}
}
func (pr providers) ConnectedServer() bungeecord.ServerConnection { return pr.connOf(0) }

// ConnectedServerOf is the server connection of an arbitrary player.
func (pr providers) ConnectedServerOf(p bungeecord.Player) bungeecord.ServerConnection {
	if fp, ok := p.(*fakePlayer); ok {
		return pr.connOf(fp.i)
	}
	return nil
}

var _ bungeecord.Providers = providers{}

func TestResponder(t *testing.T) {
	b, err := os.ReadFile(filepath.Join(tracefmt.OutDir(), "reqs.json"))
	if err != nil {
		t.Fatal(err)
	}
	var cases []reqCase
	if err := json.Unmarshal(b, &cases); err != nil {
		t.Fatal(err)
	}
	tw, err := tracefmt.Create("trace.ndjson")
	if err != nil {
		t.Fatal(err)
	}
	var samples []any
	panics, withOuts := 0, 0
	for _, c := range cases {
		if err := json.Unmarshal(c.StRaw, &c.St); err != nil {
			t.Fatal(err)
		}
		w := &world{st: c.St}
		pr := providers{w}
		r := bungeecord.NewMessageResponder(&fakePlayer{w, 0}, pr)
		data := []byte(c.Data.s())
		chName := bungeecord.Channel(w.protocol(0))
		panicked, panicMsg := false, ""
		func() {
			defer func() {
				if x := recover(); x != nil {
					panicked, panicMsg = true, fmt.Sprint(x)
				}
			}()
			r.Process(&plugin.Message{Channel: chName, Data: data})
		}()
		w.mu.Lock()
		outs := w.outs
		w.mu.Unlock()
		if outs == nil {
			outs = []map[string]any{}
		}
		var st, rq any
		_ = json.Unmarshal(c.StRaw, &st)
		_ = json.Unmarshal(c.Rq, &rq)
		rec := tracefmt.Rec{"ev": "req", "st": st, "rq": rq, "data": c.Data, "panicked": panicked, "outs": outs}
		if panicked {
			rec["panic"] = panicMsg
			panics++
		}
		if len(outs) > 0 {
			withOuts++
		}
		tw.Emit(rec)
		if len(samples) < 3 && len(outs) > 0 && len(c.St.Players) > 1 {
			samples = append(samples, map[string]any{"rq": rq, "data": c.Data, "outs": outs})
		}
	}
	if err := tw.Close(); err != nil {
		t.Fatal(err)
	}
	tracefmt.WriteJSON("stats.json", map[string]any{"requests": len(cases), "panics": panics,
		"with_outputs": withOuts, "samples": samples})
}
