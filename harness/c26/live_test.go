//go:build verif

// C26 harness, part 2 (adapter): a real proxy with the BungeeCord plugin channel enabled,
// Al and Bob on backend "lobby", Cy on backend "games"; a third backend "empty" has no
// connection at all, but Cy is still in its player list -- the state in the middle of a
// server switch empty -> games, before the old connection's Disconnected() has run. The fake backend sends BungeeCord
// requests on Al's connection; the harness records which backend connections and which
// CLIENTS receive a BungeeCord plugin message. Forwarded payloads carry a nonce, so every
// observation is attributed to its request by content, not by timing; responses on Al's own
// connection are delimited by a fence request processed in order by the same read loop.
package c26

import (
	"encoding/binary"
	"encoding/hex"
	"encoding/json"
	"net"
	"os"
	"path/filepath"
	"strconv"
	"sync"
	"testing"
	"time"

	"go.minekube.com/gate/pkg/edition/java/config"

	"verif/harness/mcwire"
	"verif/harness/rig"
	"verif/harness/tracefmt"
)

type liveRq struct {
	Sub   string `json:"sub"`
	A     bstr   `json:"a"`
	B     bstr   `json:"b"`
	Ch    bstr   `json:"ch"`
	Pay   bstr   `json:"pay"`
	Trunc int    `json:"trunc"`
}

type obs struct {
	side  string // "srv" | "cli"
	who   string
	where string
	ch    string
	data  []byte
	t     time.Time
}

type recorder struct {
	mu  sync.Mutex
	all []obs
}

func (r *recorder) add(o obs) { o.t = time.Now(); r.mu.Lock(); r.all = append(r.all, o); r.mu.Unlock() }
func (r *recorder) snapshot() []obs {
	r.mu.Lock()
	defer r.mu.Unlock()
	return append([]obs(nil), r.all...)
}

func isBungee(ch string) bool { return ch == "bungeecord:main" || ch == "BungeeCord" }

func utf(b *mcwire.Buf, s string) { b.U16(uint16(len(s))).Raw([]byte(s)) }

// wire builds the request bytes from its fields (Bungee_Trace checks them against ReqBytes).
func wire(rq liveRq) []byte {
	b := &mcwire.Buf{}
	utf(b, rq.Sub)
	switch rq.Sub {
	case "IP", "UUID", "GetServers", "GetServer", "Bogus":
	case "Forward", "ForwardToPlayer":
		utf(b, rq.A.s())
		utf(b, rq.Ch.s())
		b.U16(uint16(len(rq.Pay))).Raw([]byte(rq.Pay.s()))
	default:
		utf(b, rq.A.s())
	}
	return b.B
}

func hostPort(a net.Addr) (string, int) {
	h, p, _ := net.SplitHostPort(a.String())
	n, _ := strconv.Atoi(p)
	return h, n
}

func TestAdapter(t *testing.T) {
	b, err := os.ReadFile(filepath.Join(tracefmt.OutDir(), "live_reqs.json"))
	if err != nil {
		t.Fatal(err)
	}
	var rqs []liveRq
	if err := json.Unmarshal(b, &rqs); err != nil {
		t.Fatal(err)
	}
	const P = rig.P1_20
	rec := &recorder{}
	backends := map[string]*rig.Backend{}
	for _, n := range []string{"lobby", "games", "empty"} {
		be, err := rig.NewBackend(nil)
		if err != nil {
			t.Fatal(err)
		}
		defer be.Close()
		be.OnPacket = func(bc *rig.BackendConn, p mcwire.Packet) {
			if p.ID != rig.SBPluginID(P, false) {
				return
			}
			ch, data, err := rig.ParsePlugin(p.Data)
			if err == nil && isBungee(ch) {
				rec.add(obs{side: "srv", who: bc.Name, where: bc.B.Name, ch: ch, data: data})
			}
		}
		backends[n] = be
	}
	r, err := rig.New(rig.Options{Backends: backends, Try: []string{"lobby"}, Mutate: func(c *config.Config) {
		c.BungeePluginChannelEnabled = true
		c.ForcedHosts = map[string][]string{"games.test": {"games"}}
	}})
	if err != nil {
		t.Fatal(err)
	}
	defer r.Close()

	type pl struct {
		name, host, server string
		c                  *rig.Client
	}
	players := []*pl{{name: "Al", host: "localhost", server: "lobby"}, {name: "Bob", host: "localhost", server: "lobby"},
		{name: "Cy", host: "games.test", server: "games"}}
	for _, p := range players {
		c, err := r.NewClient(P)
		if err != nil {
			t.Fatal(err)
		}
		defer c.Close()
		if err := c.JoinFully(p.host, p.name); err != nil {
			t.Fatalf("join %s: %v", p.name, err)
		}
		p.c = c
		name := p.name
		go func() {
			c.Conn.Timeout = 0
			_ = c.Conn.C.SetReadDeadline(time.Time{})
			for {
				pk, err := c.ReadPacket()
				if err != nil {
					return
				}
				if pk.ID == rig.CBPluginID(P, false) {
					ch, data, err := rig.ParsePlugin(pk.Data)
					if err == nil && isBungee(ch) {
						rec.add(obs{side: "cli", who: name, ch: ch, data: data})
					}
				}
			}
		}()
	}
	// everybody is registered on their server (the backend play handler adds them on activation)
	ok := rig.WaitFor(10*time.Second, func() bool {
		l, g := r.P.Server("lobby"), r.P.Server("games")
		return r.P.PlayerCount() == 3 && l != nil && g != nil && l.Players().Len() == 2 && g.Players().Len() == 1
	})
	if !ok {
		t.Fatal("players never settled on their servers")
	}
	// stale membership: Cy (connected to games) is still listed on "empty"
	if !r.P.VerifListPlayerOnServer("empty", "Cy") {
		t.Fatal("cannot list Cy on server empty")
	}
	var alConn *rig.BackendConn
	for _, bc := range backends["lobby"].Conns() {
		if bc.Name == "Al" {
			alConn = bc
		}
	}
	if alConn == nil {
		t.Fatal("no backend connection for Al")
	}

	// the proxy state as the spec's record (addresses and uuids as the harness knows them)
	bs := func(s string) []int { return tracefmt.Bytes([]byte(s)) }
	var stPlayers, stServers []any
	for _, p := range players {
		h, port := hostPort(p.c.Conn.C.LocalAddr())
		u := rig.OfflineUUID(p.name)
		stPlayers = append(stPlayers, map[string]any{"name": bs(p.name), "uuid": bs(hex.EncodeToString(u[:])),
			"host": bs(h), "port": port, "server": bs(p.server), "modern": true})
	}
	for _, n := range []string{"lobby", "games", "empty"} {
		h, p, _ := net.SplitHostPort(backends[n].Addr())
		port, _ := strconv.Atoi(p)
		stServers = append(stServers, map[string]any{"name": bs(n), "host": bs(h), "port": port})
	}
	st := map[string]any{"players": stPlayers, "servers": stServers}

	send := func(data []byte) error {
		return alConn.WritePacket(rig.CBPluginID(P, false), rig.PluginPayload("bungeecord:main", data))
	}
	fenceData := wire(liveRq{Sub: "GetServer"})
	fenceResp := append(append([]byte{}, fenceData...), 0, 5, 'l', 'o', 'b', 'b', 'y')
	isFence := func(o obs) bool { return o.side == "srv" && o.who == "Al" && string(o.data) == string(fenceResp) }
	alEvents := func() (out []obs) {
		for _, o := range rec.snapshot() {
			if o.side == "srv" && o.who == "Al" {
				out = append(out, o)
			}
		}
		return
	}

	type pending struct {
		rq    liveRq
		data  []byte
		nonce int
		own   []obs // responses on Al's connection before the fence response
		lost  bool
	}
	var done []*pending
	aborted := false
	for i, rq := range rqs {
		p := &pending{rq: rq, nonce: -1}
		if rq.Sub == "Forward" || rq.Sub == "ForwardToPlayer" {
			p.nonce = i + 1
			pay := make([]byte, 4)
			binary.BigEndian.PutUint16(pay, uint16(p.nonce))
			pay[2], pay[3] = 0, 255
			p.rq.Pay = tracefmt.Bytes(pay)
		}
		p.data = wire(p.rq)
		before := len(alEvents())
		wantFences := 1
		if rq.Sub == "GetServer" {
			wantFences = 2
		}
		if err := send(p.data); err != nil {
			p.lost = true
		} else if err := send(fenceData); err != nil {
			p.lost = true
		}
		if !p.lost {
			got := rig.WaitFor(10*time.Second, func() bool {
				ev := alEvents()[before:]
				n := 0
				for _, o := range ev {
					if isFence(o) {
						n++
					}
				}
				return n >= wantFences
			})
			if !got {
				p.lost = true
			}
		}
		if !p.lost {
			ev := alEvents()[before:]
			lastFence := -1
			for i, o := range ev {
				if isFence(o) {
					lastFence = i
				}
			}
			for _, o := range ev[:lastFence] { // everything answered before the fence's own response
				if nonceOf(o.data) < 0 {
					p.own = append(p.own, o)
				}
			}
		}
		done = append(done, p)
		if p.lost {
			aborted = true
			break
		}
	}
	// let asynchronous deliveries arrive: quiet for a while, generously bounded
	last := len(rec.snapshot())
	for i := 0; i < 20; i++ {
		time.Sleep(300 * time.Millisecond)
		n := len(rec.snapshot())
		if n == last && i >= 3 {
			break
		}
		last = n
	}
	all := rec.snapshot()
	tw, err := tracefmt.Create("live.ndjson")
	if err != nil {
		t.Fatal(err)
	}
	toRec := func(o obs) map[string]any {
		return map[string]any{"who": bs(o.who), "where": bs(o.where), "chan": o.ch, "data": tracefmt.Bytes(o.data)}
	}
	unattributed := 0
	known := map[int]bool{}
	for _, p := range done {
		if p.nonce >= 0 {
			known[p.nonce] = true
		}
	}
	for _, o := range all {
		if n := nonceOf(o.data); n >= 0 && !known[n] {
			unattributed++
		}
	}
	var samples []any
	srvSeen, cliSeen := 0, 0
	for _, p := range done {
		srv, cli := []map[string]any{}, []map[string]any{}
		for _, o := range p.own {
			srv = append(srv, toRec(o))
		}
		if p.nonce >= 0 {
			for _, o := range all {
				if nonceOf(o.data) == p.nonce {
					if o.side == "srv" {
						srv = append(srv, toRec(o))
					} else {
						cli = append(cli, toRec(o))
					}
				}
			}
		}
		srvSeen += len(srv)
		cliSeen += len(cli)
		nn := func(b bstr) []int { return append([]int{}, b...) }
		rqj := map[string]any{"sub": p.rq.Sub, "a": nn(p.rq.A), "b": nn(p.rq.B), "ch": nn(p.rq.Ch), "pay": nn(p.rq.Pay), "trunc": 0}
		r := tracefmt.Rec{"ev": "live", "st": st, "rq": rqj, "data": tracefmt.Bytes(p.data), "lost": p.lost,
			"srv": srv, "cli": cli}
		tw.Emit(r)
		if len(samples) < 3 && len(srv) > 0 && p.nonce >= 0 {
			samples = append(samples, map[string]any{"rq": rqj, "srv": srv, "cli": cli})
		}
	}
	if err := tw.Close(); err != nil {
		t.Fatal(err)
	}
	tracefmt.WriteJSON("live_stats.json", map[string]any{"requests": len(done), "aborted": aborted,
		"unattributed": unattributed, "srv_messages": srvSeen, "cli_messages": cliSeen, "samples": samples})
}

// nonceOf extracts the request nonce from a forwarded payload (.. nonce_hi nonce_lo 0 255), -1 if none.
func nonceOf(data []byte) int {
	n := len(data)
	if n >= 6 && data[n-1] == 255 && data[n-2] == 0 && data[n-6] == 0 && data[n-5] == 4 {
		return int(binary.BigEndian.Uint16(data[n-4:]))
	}
	return -1
}
