//go:build verif

// C22 harness: types TLC-enumerated command lines (client family x permission x
// event result x signedness) into the real play session handler of a player whose
// proxy has real registered commands, and records which proxy command handlers ran
// and what the backend connection received.  CommandDispatch_Trace.tla judges.
package c22

import (
	"encoding/json"
	"errors"
	"fmt"
	"os"
	"path/filepath"
	"sync"
	"testing"
	"time"

	"github.com/robinbraemer/event"
	"go.minekube.com/brigodier"
	"go.minekube.com/gate/pkg/command"
	"go.minekube.com/gate/pkg/edition/java/config"
	"go.minekube.com/gate/pkg/edition/java/proto/packet/chat"
	"go.minekube.com/gate/pkg/edition/java/proto/version"
	"go.minekube.com/gate/pkg/edition/java/proxy"
	"go.minekube.com/gate/pkg/gate/proto"
	"go.minekube.com/gate/pkg/util/permission"

	"verif/harness/playfix"
	"verif/harness/tracefmt"
)

type step struct {
	Line   string `json:"line"`
	To     string `json:"to"`
	Deny   bool   `json:"deny"`
	Fwd    bool   `json:"fwd"`
	Signed bool   `json:"signed"`
}

type tcase struct {
	Fam    string `json:"fam"`
	Perm   bool   `json:"perm"`
	Steps  []step `json:"steps"`
	Origin string `json:"origin"`
}

type stats struct {
	Cases    int            `json:"cases"`
	Lines    int            `json:"lines"`
	Execs    map[string]int `json:"execs"`
	Backend  map[string]int `json:"backend"`
	Nothing  int            `json:"nothing"`
	Discs    int            `json:"disconnects"`
	Hung     int            `json:"hung"`
	ByFam    map[string]int `json:"by_family"`
	Samples  []any          `json:"samples"`
	Distinct int            `json:"distinct_rows"`
}

type env struct {
	*playfix.Env
	mu    sync.Mutex
	cur   *step
	execs []string
}

func (e *env) ran(name string) {
	e.mu.Lock()
	e.execs = append(e.execs, name)
	e.mu.Unlock()
}

func newEnv(fka bool) (*env, error) {
	pe, err := playfix.NewEnv(func(c *config.Config) { c.ForceKeyAuthentication = fka })
	if err != nil {
		return nil, err
	}
	e := &env{Env: pe}
	event.Subscribe(pe.Events, 0, func(ev *proxy.CommandExecuteEvent) {
		e.mu.Lock()
		s := e.cur
		e.mu.Unlock()
		if s == nil {
			return
		}
		if s.To != "" {
			ev.SetCommand(s.To)
		}
		if s.Fwd {
			ev.SetForward(true)
		}
		if s.Deny {
			ev.SetAllowed(false)
		}
	})
	mgr := pe.Proxy.Command()
	mgr.RegisterWithAliases(brigodier.Literal("vopen").Executes(command.Command(func(c *command.Context) error {
		e.ran("vopen")
		return nil
	})), "valias")
	mgr.Register(brigodier.Literal("vperm").
		Requires(command.Requires(func(c *command.RequiresContext) bool { return c.Source.HasPermission("verif.use") })).
		Executes(command.Command(func(c *command.Context) error {
			e.ran("vperm")
			return nil
		})))
	mgr.Register(brigodier.Literal("verr").Executes(command.Command(func(c *command.Context) error {
		e.ran("verr")
		return errors.New("verif: handler failed")
	})))
	mgr.Register(brigodier.Literal("VMix").Executes(command.Command(func(c *command.Context) error {
		e.ran("vmix")
		return nil
	})))
	mgr.Register(brigodier.Literal("vargs").Then(
		brigodier.Argument("word", brigodier.StringWord).Executes(command.Command(func(c *command.Context) error {
			e.ran("vargs")
			return nil
		}))))
	return e, nil
}

func protoFor(fam string, signed bool, n int) proto.Protocol {
	switch fam {
	case "legacy":
		return []proto.Protocol{version.Minecraft_1_18_2.Protocol, version.Minecraft_1_16_4.Protocol}[n%2]
	case "keyed":
		return []proto.Protocol{version.Minecraft_1_19_1.Protocol, version.Minecraft_1_19.Protocol}[n%2]
	case "session":
		return []proto.Protocol{version.Minecraft_1_19_4.Protocol, version.Minecraft_1_20_3.Protocol, version.Minecraft_1_19_3.Protocol}[n%3]
	}
	return []proto.Protocol{version.Minecraft_1_20_5.Protocol, version.Minecraft_1_21_4.Protocol}[n%2]
}

func TestDispatch(t *testing.T) {
	b, err := os.ReadFile(filepath.Join(tracefmt.OutDir(), "cases.json"))
	if err != nil {
		t.Fatal(err)
	}
	var cases []tcase
	if err := json.Unmarshal(b, &cases); err != nil {
		t.Fatal(err)
	}
	tw, err := tracefmt.Create("trace.ndjson")
	if err != nil {
		t.Fatal(err)
	}
	st := &stats{Execs: map[string]int{}, Backend: map[string]int{}, ByFam: map[string]int{}}
	envs := map[bool]*env{}
	for _, fka := range []bool{false, true} {
		e, err := newEnv(fka)
		if err != nil {
			t.Fatal(err)
		}
		envs[fka] = e
	}
	idleTO := time.Duration(tracefmt.EnvInt("VERIF_SETTLE_MS", 5000)) * time.Millisecond
	rows := map[string]bool{}

	for n, tc := range cases {
		anySigned := false
		for _, s := range tc.Steps {
			anySigned = anySigned || s.Signed
		}
		// a signed command the proxy must consume / rewrite disconnects under
		// forceKeyAuthentication (outside the statement): those histories run with it off
		fka := !anySigned && n%2 == 0
		e := envs[fka]
		first := tc.Steps[0]
		pv := protoFor(tc.Fam, first.Signed, n)
		tw.Emit(tracefmt.Rec{"ev": "reset", "n": n, "fam": tc.Fam, "perm": tc.Perm, "proto": int(pv), "fka": fka, "origin": tc.Origin})
		st.Cases++
		st.ByFam[tc.Fam]++
		var perm permission.Func
		if tc.Perm {
			perm = func(p string) permission.TriState {
				if p == "verif.use" {
					return permission.True
				}
				return permission.Undefined
			}
		}
		pl, err := e.NewPlay(fmt.Sprintf("q%d", n), pv, perm)
		if err != nil {
			t.Fatal(err)
		}
		var bmu sync.Mutex
		var back []map[string]any
		pl.Backend.OnWrite = func(p proto.Packet) {
			r := map[string]any{"k": fmt.Sprintf("other:%T", p), "txt": "", "signed": false}
			switch x := p.(type) {
			case *chat.LegacyChat:
				r["k"], r["txt"] = "legacy", x.Message
			case *chat.KeyedPlayerCommand:
				r["k"], r["txt"], r["signed"] = "keyed", x.Command, !x.Unsigned
			case *chat.SessionPlayerCommand:
				r["k"], r["txt"], r["signed"] = "scmd", x.Command, x.Signed()
			case *chat.UnsignedPlayerCommand:
				r["k"], r["txt"] = "ucmd", x.Command
			}
			bmu.Lock()
			back = append(back, r)
			bmu.Unlock()
		}
		base := time.Now()
		for i, s := range tc.Steps {
			s := s
			e.mu.Lock()
			e.cur = &s
			e.execs = nil
			e.mu.Unlock()
			bmu.Lock()
			back = nil
			bmu.Unlock()
			ts := base.Add(time.Duration(i+1) * time.Millisecond)
			var p proto.Packet
			switch tc.Fam {
			case "legacy":
				p = &chat.LegacyChat{Message: "/" + s.Line}
			case "keyed":
				k := &chat.KeyedPlayerCommand{Unsigned: !s.Signed, Command: s.Line, Timestamp: ts}
				if s.Signed {
					k.Salt = 7
					k.Arguments = map[string][]byte{"word": make([]byte, 256)}
				}
				p = k
			case "session":
				sc := &chat.SessionPlayerCommand{Command: s.Line, Timestamp: ts, Salt: 7}
				if s.Signed {
					sc.ArgumentSignatures.Entries = []chat.ArgumentSignature{{Name: "word", Signature: make([]byte, 256)}}
				}
				p = sc
			default:
				p = &chat.UnsignedPlayerCommand{SessionPlayerCommand: chat.SessionPlayerCommand{Command: s.Line, Timestamp: ts}}
			}
			pl.FromClient(p)
			hung := !pl.WaitChatIdle(idleTO)
			e.mu.Lock()
			execs := append([]string{}, e.execs...)
			e.cur = nil
			e.mu.Unlock()
			bmu.Lock()
			got := append([]map[string]any{}, back...)
			bmu.Unlock()
			if hung {
				st.Hung++
				tw.Emit(tracefmt.Rec{"ev": "hung", "n": n, "i": i})
				break
			}
			disc := pl.Closed()
			tw.Emit(tracefmt.Rec{"ev": "cmd", "i": i + 1, "line": s.Line, "to": s.To, "deny": s.Deny, "fwd": s.Fwd,
				"signed": s.Signed, "execs": execs, "back": got, "disc": disc})
			st.Lines++
			rows[fmt.Sprint(tc.Fam, tc.Perm, s)] = true
			for _, x := range execs {
				st.Execs[x]++
			}
			for _, x := range got {
				st.Backend[x["k"].(string)]++
			}
			if len(execs) == 0 && len(got) == 0 {
				st.Nothing++
			}
			if disc {
				st.Discs++
				break
			}
		}
		pl.Backend.OnWrite = func(proto.Packet) {}
		_ = pl.Close()
		if n%997 == 0 && len(st.Samples) < 3 {
			st.Samples = append(st.Samples, tc)
		}
	}
	st.Distinct = len(rows)
	if err := tw.Close(); err != nil {
		t.Fatal(err)
	}
	if err := tracefmt.WriteJSON("stats.json", st); err != nil {
		t.Fatal(err)
	}
}
