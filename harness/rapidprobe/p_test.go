package rapidprobe

import (
	"testing"

	"pgregory.net/rapid"
)

func TestProbe(t *testing.T) {
	rapid.Check(t, func(t *rapid.T) { _ = rapid.Int().Draw(t, "x") })
}
