//go:build verif

// C25 harness (live rig): an event manager subscribed to PlayerChannelRegisterEvent and
// PluginMessageEvent, a channel registered with the proxy's ChannelRegistrar, fake clients
// at 1.20.1 and 1.20.4 and a scripted backend, so that the client play, client config,
// backend play and backend config handlers each see every row of the TLC-exported
// decision table.  Events and forwarded packets are logged per row; PluginEvents_Trace.tla
// judges.
package c25

import (
	"encoding/json"
	"fmt"
	"os"
	"path/filepath"
	"runtime"
	"sync"
	"testing"
	"time"

	"github.com/robinbraemer/event"

	"go.minekube.com/gate/pkg/edition/java/proxy"
	"go.minekube.com/gate/pkg/edition/java/proxy/message"

	"verif/harness/mcwire"
	"verif/harness/rig"
	"verif/harness/tracefmt"
)

type row struct {
	Phase   string `json:"phase"`
	Kind    string `json:"kind"`
	Action  string `json:"action"`
	Shape   string `json:"shape"`
	Overlap bool   `json:"overlap"`
}

const (
	regChannel       = "verif:reg"
	legacyRegChannel = "VerifReg"
	unregChannel     = "verif:unreg"
)

// per-player event log
type plog struct {
	mu     sync.Mutex
	reg    int
	pm     [][]byte
	action string
	// overlap rows: the subscriber keeps the first event until the next one has come in
	hold    bool
	entered chan struct{} // closed when the held event is in the subscriber
	second  chan struct{} // closed when the next event is in the subscriber
	first   [][]byte      // Data() of the held event at entry and at exit
}

type world struct {
	mu sync.Mutex
	pl map[string]*plog
}

func (w *world) get(name string) *plog {
	w.mu.Lock()
	defer w.mu.Unlock()
	p := w.pl[name]
	if p == nil {
		p = &plog{action: "none"}
		w.pl[name] = p
	}
	return p
}

func playerOf(x any) string {
	switch v := x.(type) {
	case proxy.Player:
		return v.Username()
	case proxy.ServerConnection:
		if p := v.Player(); p != nil {
			return p.Username()
		}
	}
	return ""
}

func body(r row, n int) []byte {
	switch r.Kind {
	case "register", "unregister":
		switch r.Shape {
		case "empty":
			return []byte{}
		case "same":
			return []byte("verif:same\x00verif:again")
		case "one":
			return []byte(fmt.Sprintf("verif:one%d", n))
		case "many":
			return []byte(fmt.Sprintf("verif:a%d\x00verif:b%d\x00verif:c%d", n, n, n))
		default:
			return []byte(fmt.Sprintf("Bad Channel %d!\x00nonamespace%d", n, n))
		}
	}
	switch r.Shape {
	case "empty":
		return []byte{}
	case "one":
		return []byte{byte(n)}
	}
	b := make([]byte, 300)
	for i := range b {
		b[i] = byte(i*7 + n)
	}
	return b
}

// channelOf: pre-1.13 clients and their backends use the legacy channel names.
func channelOf(r row, protoV int) string {
	old := protoV < 393
	switch r.Kind {
	case "register":
		if old {
			return "REGISTER"
		}
		return "minecraft:register"
	case "unregister":
		if old {
			return "UNREGISTER"
		}
		return "minecraft:unregister"
	case "registered":
		if old {
			return legacyRegChannel
		}
		return regChannel
	}
	if old {
		return "VerifUnreg"
	}
	return unregChannel
}

type conn struct {
	w    *world
	c    *rig.SClient
	bc   *rig.SBackendConn
	name string
	n    int
}

// arrived returns the data of the copies of channel that reached the other side.
func (x *conn) arrived(fromClient bool, channel string) (out [][]byte) {
	if fromClient {
		for _, p := range rig.Plugins(x.bc.Log(), x.bc.Proto) {
			if p.Channel == channel {
				out = append(out, p.Data)
			}
		}
		return
	}
	for _, r := range x.c.Log() {
		if r.State == "login" || r.ID != rig.CBPluginID(x.c.Proto, r.State == "config") {
			continue
		}
		ch, data, err := rig.ParsePlugin(r.Data)
		if err == nil && ch == channel {
			out = append(out, data)
		}
	}
	return
}

func ints(bs [][]byte) [][]int {
	out := make([][]int, 0, len(bs))
	for _, b := range bs {
		out = append(out, tracefmt.Bytes(b))
	}
	return out
}

// overlap sends two different messages of one size so that the second is taken in while
// the subscriber still holds the first one's event; both are recorded as rows.
func (x *conn) overlap(r row) []tracefmt.Rec {
	x.n++
	pl := x.w.get(x.name)
	a := body(r, x.n)
	x.n++
	b := body(r, x.n)
	ch := channelOf(r, x.c.Proto)
	fromClient := r.Phase == "clientPlay"
	entered, second := make(chan struct{}), make(chan struct{})
	pl.mu.Lock()
	pl.action, pl.hold, pl.entered, pl.second, pl.first = r.Action, true, entered, second, nil
	pm0 := len(pl.pm)
	pl.mu.Unlock()
	fwd0 := len(x.arrived(fromClient, ch))
	send := func(data []byte) {
		if fromClient {
			_ = x.c.SendPlugin(ch, data)
		} else {
			_ = x.bc.WritePacket(rig.CBPluginID(x.bc.Proto, false), rig.PluginPayload(ch, data))
		}
	}
	send(a)
	select {
	case <-entered:
	case <-time.After(3 * time.Second):
	}
	send(b)
	rig.WaitFor(3*time.Second, func() bool {
		pl.mu.Lock()
		done := len(pl.first) == 2 && len(pl.pm) > pm0
		pl.mu.Unlock()
		return done && len(x.arrived(fromClient, ch)) >= fwd0+2
	})
	time.Sleep(40 * time.Millisecond)
	pl.mu.Lock()
	first := append([][]byte(nil), pl.first...)
	rest := append([][]byte(nil), pl.pm[pm0:]...)
	pl.action, pl.hold, pl.second = "none", false, nil
	pl.mu.Unlock()
	// forwarded copies are attributed by content; anything else counts against the first message
	var fa, fb [][]byte
	for _, d := range x.arrived(fromClient, ch)[fwd0:] {
		if string(d) == string(b) {
			fb = append(fb, d)
		} else {
			fa = append(fa, d)
		}
	}
	mk := func(data []byte, pm, fwd [][]byte, which string) tracefmt.Rec {
		return tracefmt.Rec{"ev": "row", "phase": r.Phase, "kind": r.Kind, "action": r.Action, "shape": r.Shape,
			"overlap": true, "which": which, "proto": x.c.Proto, "body": tracefmt.Bytes(data), "regEvents": 0,
			"pm": ints(pm), "fwd": ints(fwd)}
	}
	return []tracefmt.Rec{mk(a, first, fa, "first"), mk(b, rest, fb, "second")}
}

// do sends one row's message and records what was observed.
func (x *conn) do(r row) tracefmt.Rec {
	x.n++
	pl := x.w.get(x.name)
	data := body(r, x.n)
	ch := channelOf(r, x.c.Proto)
	fromClient := r.Phase == "clientPlay" || r.Phase == "clientConfig"
	pl.mu.Lock()
	pl.action = r.Action
	reg0, pm0 := pl.reg, len(pl.pm)
	pl.mu.Unlock()
	fwd0 := len(x.arrived(fromClient, ch))
	if fromClient {
		_ = x.c.SendPlugin(ch, data)
	} else {
		_ = x.bc.WritePacket(rig.CBPluginID(x.bc.Proto, r.Phase == "backendConfig"), rig.PluginPayload(ch, data))
	}
	// wait (generously) for what this row is expected to cause, then a little for anything extra
	wantEvent := r.Kind == "registered"
	wantFwd := r.Action != "deny" && !(r.Action == "none" && r.Kind == "registered" &&
		(r.Phase == "clientConfig" || r.Phase == "backendConfig"))
	rig.WaitFor(3*time.Second, func() bool {
		pl.mu.Lock()
		ev := len(pl.pm) > pm0
		pl.mu.Unlock()
		return (!wantEvent || ev) && (!wantFwd || len(x.arrived(fromClient, ch)) > fwd0)
	})
	if r.Kind == "register" && fromClient {
		// the register event is fired right after the forwarding write: give it time
		// (generously; load must not turn into a missing event)
		rig.WaitFor(1500*time.Millisecond, func() bool {
			pl.mu.Lock()
			defer pl.mu.Unlock()
			return pl.reg > reg0
		})
	}
	time.Sleep(40 * time.Millisecond)
	pl.mu.Lock()
	regN := pl.reg - reg0
	pm := append([][]byte(nil), pl.pm[pm0:]...)
	pl.action = "none"
	pl.mu.Unlock()
	fwd := x.arrived(fromClient, ch)[fwd0:]
	return tracefmt.Rec{"ev": "row", "phase": r.Phase, "kind": r.Kind, "action": r.Action, "shape": r.Shape,
		"overlap": false, "proto": x.c.Proto, "body": tracefmt.Bytes(data), "regEvents": regN, "pm": ints(pm), "fwd": ints(fwd)}
}

func TestRows(t *testing.T) {
	b, err := os.ReadFile(filepath.Join(tracefmt.OutDir(), "rows.json"))
	if err != nil {
		t.Fatal(err)
	}
	var rows []row
	if err := json.Unmarshal(b, &rows); err != nil {
		t.Fatal(err)
	}
	w := &world{pl: map[string]*plog{}}
	mgr := event.New()
	event.Subscribe(mgr, 0, func(e *proxy.PlayerChannelRegisterEvent) {
		pl := w.get(e.Player().Username())
		pl.mu.Lock()
		pl.reg++
		pl.mu.Unlock()
	})
	event.Subscribe(mgr, 0, func(e *proxy.PluginMessageEvent) {
		name := playerOf(e.Source())
		if name == "" {
			name = playerOf(e.Target())
		}
		pl := w.get(name)
		pl.mu.Lock()
		switch pl.action {
		case "allow":
			e.SetForward(true)
		case "deny":
			e.SetForward(false)
		}
		if pl.hold {
			// first message of an overlap row: what does this event show now, and what
			// does it show once the next message has been taken in by the proxy?
			pl.hold = false
			pl.first = [][]byte{append([]byte{}, e.Data()...)}
			entered, second := pl.entered, pl.second
			pl.mu.Unlock()
			close(entered)
			select {
			case <-second:
			case <-time.After(2 * time.Second):
			}
			pl.mu.Lock()
			pl.first = append(pl.first, append([]byte{}, e.Data()...))
			pl.mu.Unlock()
			return
		}
		if pl.second != nil {
			close(pl.second)
			pl.second = nil
		}
		pl.pm = append(pl.pm, append([]byte{}, e.Data()...))
		pl.mu.Unlock()
	})
	sb, err := rig.NewSBackend()
	if err != nil {
		t.Fatal(err)
	}
	defer sb.Close()
	r, err := rig.New(rig.Options{EventMgr: mgr, Backends: map[string]*rig.Backend{"a": sb.Backend}, Try: []string{"a"}})
	if err != nil {
		t.Fatal(err)
	}
	defer r.Close()
	id, err := message.ChannelIdentifierFrom(regChannel)
	if err != nil {
		t.Fatal(err)
	}
	r.P.ChannelRegistrar().Register(id, message.NewLegacyChannelIdentifier(legacyRegChannel))
	rt := rig.NewRouter(map[string]*rig.SBackend{"a": sb})
	tw, err := tracefmt.Create("trace.ndjson")
	if err != nil {
		t.Fatal(err)
	}
	seed := tracefmt.Seed()
	clients := tracefmt.EnvInt("VERIF_CLIENTS", 2) // per protocol
	long := 6 * time.Second
	var mu sync.Mutex
	var wg sync.WaitGroup
	total, aborted := 0, 0
	abortWhy := []string{}
	perPhase := map[string]int{}
	var samples []any
	protos := []int{rig.P1_20_3, rig.P1_20, rig.P1_12_2, rig.P1_8}
	for ci := 0; ci < len(protos)*clients; ci++ {
		ci := ci
		wg.Add(1)
		go func() {
			defer wg.Done()
			protoV := protos[ci%len(protos)]
			name := fmt.Sprintf("e%d_%d", seed%1000, ci)
			fail := func(why string) {
				mu.Lock()
				aborted++
				abortWhy = append(abortWhy, name+": "+why)
				mu.Unlock()
			}
			c, err := r.NewSClient(protoV)
			if err != nil {
				fail(err.Error())
				return
			}
			defer c.Close()
			if c.Start("localhost", name) != nil || !c.AwaitLoginSuccess(long) {
				fail("no login success")
				return
			}
			if protoV >= rig.P1_20_2 {
				_ = c.AckLogin()
			}
			bc, err := rt.Await("a", name, long)
			if err != nil {
				fail(err.Error())
				return
			}
			x := &conn{w: w, c: c, bc: bc, name: name, n: 16 * ci}
			_ = bc.SendLoginSuccess()
			var recs []tracefmt.Rec
			defer func() {
				mu.Lock()
				for _, rec := range recs {
					tw.Emit(rec)
					total++
					perPhase[rec["phase"].(string)]++
				}
				if len(samples) < 2 && len(recs) > 0 {
					samples = append(samples, recs[len(recs)/2])
				}
				mu.Unlock()
			}()
			// rows are dealt to the clients of a protocol round-robin, rotated by the seed
			mine := func(i int) bool { return (i+int(seed))%clients == ci/len(protos) }
			if protoV >= rig.P1_20_2 {
				if !bc.AwaitLoginAck(long) {
					fail("no login ack")
					return
				}
				time.Sleep(20 * time.Millisecond) // the flush that makes the backend ready follows the ack
				for i, rw := range rows {
					if (rw.Phase == "clientConfig" || rw.Phase == "backendConfig") && mine(i) {
						recs = append(recs, x.do(rw))
						if rw.Shape == "same" {
							recs = append(recs, x.do(rw))
						}
					}
				}
				_ = bc.SendFinishConfig()
				if !c.AwaitFinishConfig(1, long) {
					fail("no finish configuration")
					return
				}
				_ = c.AckFinishConfig()
				bc.AwaitFinishAck(1, long)
			}
			_ = bc.SendJoinGame()
			if !c.AwaitJoinGame(1, long) {
				fail("no JoinGame")
				return
			}
			p := r.P.PlayerByName(name)
			if !rig.WaitFor(long, func() bool { return p != nil && p.CurrentServer() != nil }) {
				why := fmt.Sprintf("never connected (player found: %v, client closed: %v)", p != nil, c.Closed())
				for _, rc := range c.Log() {
					if rc.State == "play" && rc.ID == rig.CBPlayDisconnectID(protoV) && protoV >= 393 {
						why += fmt.Sprintf(" disconnect: %q", rc.Data)
					}
				}
				if os.Getenv("VERIF_DEBUG") != "" {
					buf := make([]byte, 4<<20)
					_ = os.WriteFile(filepath.Join(tracefmt.OutDir(), "stacks.txt"), buf[:runtime.Stack(buf, true)], 0o644)
				}
				fail(why)
				return
			}
			// what the proxy itself sent to the backend at JoinGame (its own channel
			// registrations) must have arrived before rows are observed: a play packet the
			// proxy does not know is forwarded as is, after everything written before it
			want := (&mcwire.Buf{}).VarInt(900000 + ci).B
			bid := rig.UnknownPlayPacketID(protoV)
			_ = c.WritePacket(bid, want)
			if !bc.Wait(long, func(l []rig.Recv, closed bool) bool {
				for _, r := range l {
					if r.State == "play" && r.ID == bid && string(r.Data) == string(want) {
						return true
					}
				}
				return closed
			}) {
				fail("barrier never arrived")
				return
			}
			for i, rw := range rows {
				if (rw.Phase == "clientPlay" || rw.Phase == "backendPlay") && mine(i) {
					if rw.Overlap {
						recs = append(recs, x.overlap(rw)...)
					} else {
						recs = append(recs, x.do(rw))
						if rw.Shape == "same" {
							recs = append(recs, x.do(rw)) // the very same payload once more
						}
					}
				}
			}
		}()
	}
	wg.Wait()
	if err := tw.Close(); err != nil {
		t.Fatal(err)
	}
	tracefmt.WriteJSON("stats.json", map[string]any{"rows": total, "aborted": aborted, "abort_reasons": abortWhy, "per_phase": perPhase, "samples": samples})
}
