//go:build verif

// C06 harness. It only drives and records; every verdict is TLC's (Registry_Trace.tla).
//
//	TestDump  dumps the COMPLETE packet id tables of gate's five state registries for both
//	          directions and every supported protocol, observed through the exported API
//	          (ProtocolRegistry(p).PacketID(of) for every packet type, CreatePacket(id) for every
//	          id 0..MaxID), the resolution of protocols gate does not know, and the independent
//	          1.20.2 id table generated into github.com/Tnze/go-mc/data/packetid.
//	TestToy   replays TLC-enumerated mapping lists into fresh real PacketRegistry.Register calls
//	          and dumps what they registered.
package c06

import (
	"fmt"
	"path/filepath"
	"reflect"
	"runtime"
	"sort"
	"sync"
	"sync/atomic"
	"testing"
	"time"

	"github.com/Tnze/go-mc/data/packetid"

	"go.minekube.com/gate/pkg/edition/java/proto/packet"
	"go.minekube.com/gate/pkg/edition/java/proto/packet/plugin"
	"go.minekube.com/gate/pkg/edition/java/proto/state"
	"go.minekube.com/gate/pkg/edition/java/proto/state/states"
	"go.minekube.com/gate/pkg/edition/java/proto/version"
	"go.minekube.com/gate/pkg/gate/proto"

	"verif/harness/tracefmt"
)

const maxID = 0x140 // ids probed through CreatePacket: 0..maxID (the highest vanilla id is < 0x90)

type reg struct {
	state string
	dir   string
	r     *state.PacketRegistry
}

func registries() []reg {
	var out []reg
	for _, s := range []struct {
		n string
		r *state.Registry
	}{{"handshake", state.Handshake}, {"status", state.Status}, {"login", state.Login},
		{"config", state.Config}, {"play", state.Play}} {
		out = append(out, reg{s.n, "sb", s.r.ServerBound}, reg{s.n, "cb", s.r.ClientBound})
	}
	return out
}

type cell struct {
	T  string `json:"t"`
	ID int    `json:"id"`
}

// allTypes is every packet type registered anywhere in pr (exported map), sorted by name.
func allTypes(pr *state.PacketRegistry) []proto.PacketType {
	seen := map[proto.PacketType]bool{}
	for _, r := range pr.Protocols {
		for t := range r.PacketTypes {
			seen[t] = true
		}
		for _, t := range r.PacketIDs {
			seen[t] = true
		}
	}
	var ts []proto.PacketType
	for t := range seen {
		ts = append(ts, t)
	}
	sort.Slice(ts, func(i, j int) bool { return ts[i].String() < ts[j].String() })
	return ts
}

// observe reads one protocol table through the methods the proxy itself uses.
func observe(r *state.ProtocolRegistry, types []proto.PacketType) (byType, byID []cell) {
	byType, byID = []cell{}, []cell{}
	for _, t := range types {
		p := reflect.New(t).Interface().(proto.Packet)
		if id, ok := r.PacketID(p); ok {
			byType = append(byType, cell{t.String(), int(id)})
		}
	}
	for id := -2; id <= maxID; id++ {
		if p := r.CreatePacket(proto.PacketID(id)); p != nil {
			byID = append(byID, cell{proto.TypeOf(p).String(), id})
		}
	}
	return
}

func TestDump(t *testing.T) {
	tw, err := tracefmt.Create("trace.ndjson")
	if err != nil {
		t.Fatal(err)
	}
	var sup []int
	for _, v := range version.SupportedVersions {
		sup = append(sup, int(v.Protocol))
	}
	tw.Emit(tracefmt.Rec{"ev": "versions", "supported": sup,
		"min": int(version.MinimumVersion.Protocol), "max": int(version.MaximumVersion.Protocol)})

	// the independent 1.20.2 table (go-mc, generated from the vanilla jar's registries)
	var gm []map[string]any
	add := func(st, dir, name string, id int) {
		gm = append(gm, map[string]any{"state": st, "dir": dir, "name": name, "id": id})
	}
	for i, n := range []string{"LoginDisconnect", "LoginEncryptionRequest", "LoginSuccess", "LoginCompression", "LoginPluginRequest"} {
		if int(gomcLoginCB[i]) != i {
			t.Fatalf("go-mc login table changed")
		}
		add("login", "cb", n, i)
	}
	for i, n := range []string{"LoginStart", "LoginEncryptionResponse", "LoginPluginResponse", "LoginAcknowledged"} {
		if int(gomcLoginSB[i]) != i {
			t.Fatalf("go-mc login table changed")
		}
		add("login", "sb", n, i)
	}
	add("status", "cb", "StatusResponse", int(packetid.ClientboundStatusResponse))
	add("status", "cb", "StatusPongResponse", int(packetid.ClientboundStatusPongResponse))
	add("status", "sb", "StatusRequest", int(packetid.ServerboundStatusRequest))
	add("status", "sb", "StatusPingRequest", int(packetid.ServerboundStatusPingRequest))
	for i, n := range gomcConfigCB {
		add("config", "cb", n, i)
	}
	for i, n := range gomcConfigSB {
		add("config", "sb", n, i)
	}
	// play: the stringer tables give the name of every id
	for id := 0; id < int(packetid.ClientboundPacketIDGuard); id++ {
		add("play", "cb", packetid.ClientboundPacketID(id).String(), id)
	}
	for id := 0; id < int(packetid.ServerboundPacketIDGuard); id++ {
		add("play", "sb", packetid.ServerboundPacketID(id).String(), id)
	}
	tw.Emit(tracefmt.Rec{"ev": "gomc", "proto": 764, "cells": gm})

	unknown := []int{-5, -2, -1, 0, 3, 6, 46, 48, 106, 400, 762 + 1000, 777, 9999, 1 << 30}
	stats := map[string]any{}
	ncells, ntables, nabsent := 0, 0, 0
	var samples []any
	for _, rg := range registries() {
		types := allTypes(rg.r)
		for _, p := range sup {
			pr := rg.r.ProtocolRegistry(proto.Protocol(p))
			if pr == nil {
				t.Fatalf("%s/%s: no table for supported protocol %d", rg.state, rg.dir, p)
			}
			bt, bi := observe(pr, types)
			tw.Emit(tracefmt.Rec{"ev": "table", "state": rg.state, "dir": rg.dir, "proto": p,
				"reports": int(pr.Protocol), "byType": bt, "byId": bi})
			// one line per (type registered anywhere in this state and direction, protocol): its id or -1
			have := map[string]int{}
			for _, c := range bt {
				have[c.T] = c.ID
			}
			for _, ty := range types {
				id, ok := have[ty.String()]
				if !ok {
					id = -1
					nabsent++
				}
				tw.Emit(tracefmt.Rec{"ev": "cell", "state": rg.state, "dir": rg.dir, "proto": p, "t": ty.String(), "id": id})
			}
			ncells += len(bt)
			ntables++
			if rg.state == "play" && rg.dir == "cb" && p == 764 && len(bt) > 2 {
				samples = append(samples, map[string]any{"state": rg.state, "dir": rg.dir, "proto": p, "cells": bt[:3]})
			}
		}
		for _, p := range unknown {
			pr := rg.r.ProtocolRegistry(proto.Protocol(p))
			rec := tracefmt.Rec{"ev": "unknown", "state": rg.state, "dir": rg.dir, "proto": p,
				"fallback": rg.r.Fallback, "none": pr == nil}
			if pr != nil {
				bt, bi := observe(pr, types)
				rec["byType"], rec["byId"], rec["reports"] = bt, bi, int(pr.Protocol)
			}
			tw.Emit(rec)
		}
	}
	nct, nlook := concurrentPhase(tw, sup)
	stats["concurrent_tables"], stats["concurrent_lookups"] = nct, nlook
	if err := tw.Close(); err != nil {
		t.Fatal(err)
	}
	stats["cells"], stats["tables"], stats["unknown_probes"], stats["absent_cells"] = ncells, ntables, len(unknown)*10, nabsent
	stats["versions"], stats["samples"], stats["gomc_cells"] = len(sup), samples, len(gm)
	tracefmt.WriteJSON("stats.json", stats)
}

// concurrentPhase: for each state and direction, one goroutine first alternates between protocols, then
// several goroutines resolve different protocols at the same moment. Every distinct (requested protocol,
// table handed out) pair is remembered (not judged) and afterwards read and logged like a sequential table.
func concurrentPhase(tw *tracefmt.Writer, sup []int) (tables int, lookups int64) {
	type pair struct {
		p  int
		pr *state.ProtocolRegistry
	}
	budget := time.Duration(tracefmt.EnvInt("VERIF_CONC_MS", 150)) * time.Millisecond
	const workers = 8
	for _, rg := range registries() {
		// protocols spread over the supported range (the newest and oldest included), one per goroutine
		var ps []int
		for i := 0; i < workers; i++ {
			ps = append(ps, sup[(len(sup)-1)*i/(workers-1)])
		}
		seen := make([]map[pair]bool, workers+1)
		// alternating lookups by one goroutine
		seen[workers] = map[pair]bool{}
		for i := 0; i < 4*len(sup); i++ {
			p := sup[(i*7)%len(sup)]
			seen[workers][pair{p, rg.r.ProtocolRegistry(proto.Protocol(p))}] = true
			q := sup[len(sup)-1-(i%len(sup))]
			seen[workers][pair{q, rg.r.ProtocolRegistry(proto.Protocol(q))}] = true
			lookups += 2
		}
		var wg sync.WaitGroup
		var n atomic.Int64
		start := make(chan struct{})
		for w := 0; w < workers; w++ {
			seen[w] = map[pair]bool{}
			wg.Add(1)
			go func(w int) {
				defer wg.Done()
				p := ps[w]
				<-start
				deadline := time.Now().Add(budget)
				for k := 0; ; k++ {
					pr := rg.r.ProtocolRegistry(proto.Protocol(p))
					if pr == nil || pr.Protocol != proto.Protocol(p) || k&1023 == 0 {
						seen[w][pair{p, pr}] = true // (the comparison only limits what is remembered)
					}
					if k&255 == 0 {
						if time.Now().After(deadline) {
							n.Add(int64(k))
							return
						}
						runtime.Gosched()
					}
				}
			}(w)
		}
		close(start)
		wg.Wait()
		lookups += n.Load()
		all := map[pair]bool{}
		for _, m := range seen {
			for k := range m {
				all[k] = true
			}
		}
		var keys []pair
		for k := range all {
			keys = append(keys, k)
		}
		sort.Slice(keys, func(i, j int) bool {
			if keys[i].p != keys[j].p {
				return keys[i].p < keys[j].p
			}
			return keys[i].pr != nil && (keys[j].pr == nil || keys[i].pr.Protocol < keys[j].pr.Protocol)
		})
		types := allTypes(rg.r)
		for _, k := range keys {
			if k.pr == nil {
				tw.Emit(tracefmt.Rec{"ev": "ctable", "state": rg.state, "dir": rg.dir, "proto": k.p, "reports": -1,
					"byType": []cell{}, "byId": []cell{}})
				tables++
				continue
			}
			bt, bi := observe(k.pr, types)
			tw.Emit(tracefmt.Rec{"ev": "ctable", "state": rg.state, "dir": rg.dir, "proto": k.p,
				"reports": int(k.pr.Protocol), "byType": bt, "byId": bi})
			tables++
			have := map[string]int{}
			for _, c := range bt {
				have[c.T] = c.ID
			}
			for _, ty := range types {
				id, ok := have[ty.String()]
				if !ok {
					id = -1
				}
				tw.Emit(tracefmt.Rec{"ev": "ccell", "state": rg.state, "dir": rg.dir, "proto": k.p, "t": ty.String(), "id": id})
			}
		}
	}
	return
}

// The go-mc constants of the non-play states are iota blocks without stringer names.
var (
	gomcLoginCB = []packetid.ClientboundPacketID{packetid.ClientboundLoginDisconnect, packetid.ClientboundLoginEncryptionRequest,
		packetid.ClientboundLoginSuccess, packetid.ClientboundLoginCompression, packetid.ClientboundLoginPluginRequest}
	gomcLoginSB = []packetid.ServerboundPacketID{packetid.ServerboundLoginStart, packetid.ServerboundLoginEncryptionResponse,
		packetid.ServerboundLoginPluginResponse, packetid.ServerboundLoginAcknowledged}
	gomcConfigCB = func() []string {
		m := map[packetid.ClientboundPacketID]string{
			packetid.ClientboundConfigCustomPayload:         "ConfigCustomPayload",
			packetid.ClientboundConfigDisconnect:            "ConfigDisconnect",
			packetid.ClientboundConfigFinishConfiguration:   "ConfigFinishConfiguration",
			packetid.ClientboundConfigKeepAlive:             "ConfigKeepAlive",
			packetid.ClientboundConfigPing:                  "ConfigPing",
			packetid.ClientboundConfigRegistryData:          "ConfigRegistryData",
			packetid.ClientboundConfigResourcePack:          "ConfigResourcePack",
			packetid.ClientboundConfigUpdateEnabledFeatures: "ConfigUpdateEnabledFeatures",
			packetid.ClientboundConfigUpdateTags:            "ConfigUpdateTags",
		}
		out := make([]string, len(m))
		for id, n := range m {
			out[id] = n
		}
		return out
	}()
	gomcConfigSB = func() []string {
		m := map[packetid.ServerboundPacketID]string{
			packetid.ServerboundConfigClientInformation:   "ConfigClientInformation",
			packetid.ServerboundConfigCustomPayload:       "ConfigCustomPayload",
			packetid.ServerboundConfigFinishConfiguration: "ConfigFinishConfiguration",
			packetid.ServerboundConfigKeepAlive:           "ConfigKeepAlive",
			packetid.ServerboundConfigPong:                "ConfigPong",
			packetid.ServerboundConfigResourcePack:        "ConfigResourcePack",
		}
		out := make([]string, len(m))
		for id, n := range m {
			out[id] = n
		}
		return out
	}()
)

// ---------------------------------------------------------------- toy: Register's range semantics

type toyMapping struct {
	ID   int `json:"id"`
	From int `json:"from"`
	Last int `json:"last"` // 0 = none
}

type toyCase struct {
	A []toyMapping `json:"a"`
	B []toyMapping `json:"b"`
}

func mappings(ms []toyMapping) []*state.PacketMapping {
	var out []*state.PacketMapping
	for _, m := range ms {
		out = append(out, &state.PacketMapping{ID: proto.PacketID(m.ID), Protocol: proto.Protocol(m.From),
			LastValidProtocol: proto.Protocol(m.Last)})
	}
	return out
}

func register(r *state.PacketRegistry, p proto.Packet, ms []toyMapping) (panicked string) {
	defer func() {
		if e := recover(); e != nil {
			panicked = fmt.Sprint(e)
		}
	}()
	r.Register(p, mappings(ms)...)
	return ""
}

type protoID struct {
	P  int `json:"p"`
	ID int `json:"id"`
}

type invCell struct {
	P  int    `json:"p"`
	ID int    `json:"id"`
	W  string `json:"w"`
}

func TestToy(t *testing.T) {
	cases, err := tracefmt.ReadNDJSON[toyCase](filepath.Join(tracefmt.OutDir(), "toy.ndjson"))
	if err != nil {
		t.Fatal(err)
	}
	tw, err := tracefmt.Create("toytrace.ndjson")
	if err != nil {
		t.Fatal(err)
	}
	var sup []int
	for _, v := range version.SupportedVersions {
		sup = append(sup, int(v.Protocol))
	}
	tw.Emit(tracefmt.Rec{"ev": "versions", "supported": sup,
		"min": int(version.MinimumVersion.Protocol), "max": int(version.MaximumVersion.Protocol)})
	a, b := proto.Packet(&packet.KeepAlive{}), proto.Packet(&plugin.Message{})
	npanic := 0
	for _, c := range cases {
		r := state.NewPacketRegistry(states.PlayState, proto.ClientBound)
		pa := register(r, a, c.A)
		pb := ""
		if pa == "" && len(c.B) > 0 {
			pb = register(r, b, c.B)
		}
		rec := tracefmt.Rec{"ev": "reg", "a": c.A, "b": c.B, "panicA": pa != "", "panicB": pb != ""}
		if pa != "" || pb != "" {
			npanic++
		}
		// what the registry now says, through the lookup methods, per supported protocol
		ta, tb, ia := []protoID{}, []protoID{}, []invCell{}
		for _, p := range sup {
			pr := r.ProtocolRegistry(proto.Protocol(p))
			if id, ok := pr.PacketID(a); ok {
				ta = append(ta, protoID{p, int(id)})
			}
			if id, ok := pr.PacketID(b); ok {
				tb = append(tb, protoID{p, int(id)})
			}
			for id := 0; id <= 4; id++ {
				if q := pr.CreatePacket(proto.PacketID(id)); q != nil {
					n := "B"
					if proto.TypeOf(q) == proto.TypeOf(a) {
						n = "A"
					}
					ia = append(ia, invCell{p, id, n})
				}
			}
		}
		rec["tabA"], rec["tabB"], rec["inv"] = ta, tb, ia
		tw.Emit(rec)
	}
	if err := tw.Close(); err != nil {
		t.Fatal(err)
	}
	tracefmt.WriteJSON("toystats.json", map[string]any{"cases": len(cases), "panics": npanic})
}
