//go:build verif

// C33 harness: drives netutil.ParseTrustedNetworks / Contains / ContainsStr and the proxy's
// PROXY-protocol connection wrapper with TLC-exported (prefix, peer) cases and seeded random
// ones, over fake connections whose RemoteAddr is the case's peer. All addresses are logged
// as text; ProxyProto_Trace.tla reads them with its own grammar and judges.
package c33

import (
	"encoding/binary"
	"encoding/json"
	"fmt"
	"io"
	"math/rand"
	"net"
	"net/netip"
	"os"
	"path/filepath"
	"strconv"
	"strings"
	"testing"
	"time"

	"go.minekube.com/gate/pkg/edition/java/config"
	"go.minekube.com/gate/pkg/edition/java/proxy"
	"go.minekube.com/gate/pkg/util/netutil"

	"verif/harness/tracefmt"
)

type vecAddr struct {
	Fam   int   `json:"fam"`
	Bytes []int `json:"bytes"`
	N     int   `json:"n"`
	Zone  bool  `json:"zone"`
}

type vec struct {
	P    vecAddr `json:"p"`
	Peer vecAddr `json:"peer"`
}

func codes(s string) []int { return tracefmt.Bytes([]byte(s)) }

func codesList(ss []string) [][]int {
	out := make([][]int, len(ss))
	for i, s := range ss {
		out[i] = codes(s)
	}
	return out
}

func toBytes(v []int) []byte {
	b := make([]byte, len(v))
	for i, x := range v {
		b[i] = byte(x)
	}
	return b
}

// ipText formats an address; style selects among equivalent spellings.
func ipText(b []byte, zone bool, style int) string {
	var s string
	if len(b) == 4 {
		return netip.AddrFrom4([4]byte(b)).String()
	}
	a := netip.AddrFrom16([16]byte(b))
	switch style % 3 {
	case 0:
		s = a.String() // canonical, "::ffff:a.b.c.d" for mapped
	case 1:
		s = a.StringExpanded()
	default:
		s = strings.ToUpper(a.String())
		if a.Is4In6() { // hexadecimal spelling of a mapped address
			s = fmt.Sprintf("::FFFF:%x:%x", uint16(b[12])<<8|uint16(b[13]), uint16(b[14])<<8|uint16(b[15]))
		}
	}
	if zone {
		s += "%eth0"
	}
	return s
}

type fakeConn struct {
	net.Conn
	remote net.Addr
}

func (f *fakeConn) RemoteAddr() net.Addr { return f.remote }

var kinds = []string{"none", "noneP", "v1tcp4", "v1tcp6", "v2tcp4", "v2tcp6", "v1unknown", "v2local", "garbage"}

var sigV2 = []byte{0x0D, 0x0A, 0x0D, 0x0A, 0x00, 0x0D, 0x0A, 0x51, 0x55, 0x49, 0x54, 0x0A}

// header builds the first bytes of kind and returns them with the source address they claim.
func header(kind string, rng *rand.Rand) (hdr []byte, src string) {
	src4 := net.IPv4(198, 51, 100, byte(1+rng.Intn(250))).To4()
	dst4 := net.IPv4(192, 0, 2, 1).To4()
	src6 := net.ParseIP("2001:db8:ffff::1")
	src6[15] = byte(1 + rng.Intn(250))
	dst6 := net.ParseIP("2001:db8::2")
	sport, dport := 1024+rng.Intn(60000), 25565
	switch kind {
	case "v1tcp4":
		return []byte(fmt.Sprintf("PROXY TCP4 %s %s %d %d\r\n", src4, dst4, sport, dport)),
			(&net.TCPAddr{IP: src4, Port: sport}).String()
	case "v1tcp6":
		return []byte(fmt.Sprintf("PROXY TCP6 %s %s %d %d\r\n", src6, dst6, sport, dport)),
			(&net.TCPAddr{IP: src6, Port: sport}).String()
	case "v1unknown":
		return []byte("PROXY UNKNOWN\r\n"), ""
	case "v2tcp4":
		b := append([]byte(nil), sigV2...)
		b = append(b, 0x21, 0x11, 0, 12)
		b = append(b, src4...)
		b = append(b, dst4...)
		b = binary.BigEndian.AppendUint16(b, uint16(sport))
		b = binary.BigEndian.AppendUint16(b, uint16(dport))
		return b, (&net.TCPAddr{IP: src4, Port: sport}).String()
	case "v2tcp6":
		b := append([]byte(nil), sigV2...)
		b = append(b, 0x21, 0x21, 0, 36)
		b = append(b, src6...)
		b = append(b, dst6...)
		b = binary.BigEndian.AppendUint16(b, uint16(sport))
		b = binary.BigEndian.AppendUint16(b, uint16(dport))
		return b, (&net.TCPAddr{IP: src6, Port: sport}).String()
	case "v2local":
		b := append([]byte(nil), sigV2...)
		return append(b, 0x20, 0x00, 0, 0), ""
	case "garbage":
		return []byte("PROXY garbage\r\n"), ""
	}
	return nil, ""
}

type stats struct {
	Parse    int            `json:"parse"`
	ParseOK  int            `json:"parse_ok"`
	Contains int            `json:"contains"`
	Trusted  int            `json:"contains_true"`
	Wraps    int            `json:"wraps"`
	WrapErr  int            `json:"wrap_read_errors"`
	Changed  int            `json:"wrap_address_changed"`
	ByKind   map[string]int `json:"wraps_by_kind"`
	SeqWraps int            `json:"wraps_in_sequences"`
	CfgLists int            `json:"configured_lists"`
	CfgOK    int            `json:"configured_lists_accepted"`
	Vectors  int            `json:"vectors"`
	Random   int            `json:"random_cases"`
	Samples  []any          `json:"samples"`
}

type runner struct {
	t   *testing.T
	tw  *tracefmt.Writer
	st  *stats
	rng *rand.Rand
}

func (r *runner) parse(text string) bool {
	_, err := netutil.ParseTrustedNetworks([]string{text})
	r.tw.Emit(tracefmt.Rec{"ev": "parse", "text": codes(text), "ok": err == nil, "s": text})
	r.st.Parse++
	if err == nil {
		r.st.ParseOK++
	}
	return err == nil
}

func (r *runner) contains(nets []string, peer net.Addr, host string) {
	tn, err := netutil.ParseTrustedNetworks(nets)
	if err != nil {
		r.t.Fatalf("list %q rejected: %v", nets, err)
	}
	if peer != nil {
		res := tn.Contains(peer)
		r.tw.Emit(tracefmt.Rec{"ev": "contains", "nets": codesList(nets), "peer": codes(peer.String()), "via": "addr",
			"res": res, "s": fmt.Sprint(nets, " ", peer.String())})
		r.st.Contains++
		if res {
			r.st.Trusted++
		}
	}
	if host != "" {
		res := tn.ContainsStr(host)
		r.tw.Emit(tracefmt.Rec{"ev": "contains", "nets": codesList(nets), "peer": codes(host), "via": "str",
			"res": res, "s": fmt.Sprint(nets, " ", host)})
		r.st.Contains++
		if res {
			r.st.Trusted++
		}
	}
}

func (r *runner) wrap(nets []string, peer net.Addr, kind string) {
	r.wrapCfg(&config.Config{ProxyProtocolTrustedProxies: nets}, nets, peer, kind)
}

// wrapCfg wraps a connection under cfg; nets is the trusted list that configuration stands for.
func (r *runner) wrapCfg(cfg *config.Config, nets []string, peer net.Addr, kind string) {
	r.wrapWith(func(c net.Conn, d time.Duration) (net.Conn, error) { return proxy.VerifWrapProxyProtocol(cfg, c, d) }, nets, peer, kind)
}

// wrapWith wraps one connection through w (a fresh or a long-lived wrapper instance).
func (r *runner) wrapWith(w func(net.Conn, time.Duration) (net.Conn, error), nets []string, peer net.Addr, kind string) {
	first := kind
	payload := []byte{0x10, 0x00, 0xfd, 0x05, 0x09, 'l', 'o', 'c', 'a', 'l', 'h', 'o', 's', 't', 0x63, 0xdd, 0x02}
	if kind == "noneP" { // starts like "PROXY" without being a header
		payload = append([]byte("PING.."), payload...)
		first = "none"
	}
	hdr, src := header(kind, r.rng)
	client, server := net.Pipe()
	defer client.Close()
	defer server.Close()
	go func() {
		client.Write(append(append([]byte(nil), hdr...), payload...))
	}()
	c, err := w(&fakeConn{Conn: server, remote: peer}, 3*time.Second)
	if err != nil {
		r.t.Fatalf("list %q rejected: %v", nets, err)
	}
	remote := c.RemoteAddr().String()
	got := make([]byte, len(payload))
	c.SetReadDeadline(time.Now().Add(5 * time.Second))
	n, rerr := io.ReadFull(c, got)
	rec := tracefmt.Rec{"ev": "wrap", "nets": codesList(nets), "peer": codes(peer.String()), "first": first,
		"hdr": codes(src), "err": rerr != nil, "remote": codes(remote), "sent": tracefmt.Bytes(payload),
		"got": tracefmt.Bytes(got[:n]), "s": fmt.Sprint(nets, " ", peer.String(), " -> ", remote)}
	if rerr != nil {
		rec["msg"] = rerr.Error()
		r.st.WrapErr++
	} else if remote != peer.String() {
		r.st.Changed++
	}
	r.st.Wraps++
	r.st.ByKind[kind]++
	if len(r.st.Samples) < 3 && remote != peer.String() {
		r.st.Samples = append(r.st.Samples, map[string]any{"nets": nets, "peer": peer.String(), "first": kind, "remote": remote})
	}
	r.tw.Emit(rec)
}

var decoys = []string{"192.0.2.0/24", "2001:db8:dead::/48", "10.0.0.0/8", "fd00::/8", "198.18.0.1", "::1"}

// list places the case's prefix among decoys.
func (r *runner) list(prefix string) []string {
	out := []string{prefix}
	for k := r.rng.Intn(3); k > 0; k-- {
		d := decoys[r.rng.Intn(len(decoys))]
		if r.rng.Intn(2) == 0 {
			out = append(out, d)
		} else {
			out = append([]string{d}, out...)
		}
	}
	return out
}

// peerAddrs gives the net.Addr forms a peer can take.
func peerAddrs(b []byte, zone bool, style int) []net.Addr {
	z := ""
	if zone {
		z = "eth0"
	}
	text := ipText(b, zone, style)
	bracket := text
	if len(b) == 16 {
		bracket = "[" + text + "]"
	}
	return []net.Addr{
		&net.TCPAddr{IP: net.IP(b), Port: 40000 + style, Zone: z}, // what Accept returns
		netutil.NewAddr(bracket+":25565", "tcp"),                 // textual, keeps the mapped spelling
		netutil.NewAddr(text, "tcp"),                             // without port
	}
}

func (r *runner) runCase(i int, pb []byte, n int, peerb []byte, zone bool, wrapKinds []string) {
	ptext := ipText(pb, false, i) + fmt.Sprintf("/%d", n)
	if n == 8*len(pb) && i%2 == 0 {
		ptext = ipText(pb, false, i) // a plain address entry
	}
	if !r.parse(ptext) {
		return // judged by the parse event alone
	}
	nets := r.list(ptext)
	addrs := peerAddrs(peerb, zone, i/2)
	if tracefmt.Thorough() {
		for _, a := range addrs {
			r.contains(nets, a, "")
		}
	} else {
		r.contains(nets, addrs[i%len(addrs)], "")
	}
	r.contains(nets, nil, ipText(peerb, zone, i/3))
	for k, kind := range wrapKinds {
		r.wrap(nets, addrs[(i+k)%len(addrs)], kind)
	}
}

func TestTrace(t *testing.T) {
	tw, err := tracefmt.Create("trace.ndjson")
	if err != nil {
		t.Fatal(err)
	}
	st := &stats{ByKind: map[string]int{}}
	r := &runner{t: t, tw: tw, st: st, rng: rand.New(rand.NewSource(tracefmt.Seed()))}

	// 1. TLC-exported boundary cases, every first-bytes kind for each
	var vecs []vec
	vb, err := os.ReadFile(filepath.Join(tracefmt.OutDir(), "vectors.json"))
	if err != nil {
		t.Fatal(err)
	}
	if err := json.Unmarshal(vb, &vecs); err != nil {
		t.Fatal(err)
	}
	perVec := tracefmt.EnvInt("VERIF_KINDS_PER_VECTOR", 3)
	for i, v := range vecs {
		ks := make([]string, 0, perVec)
		for k := 0; k < perVec && k < len(kinds); k++ {
			ks = append(ks, kinds[(i*perVec+k)%len(kinds)])
		}
		r.runCase(i, toBytes(v.P.Bytes), v.P.N, toBytes(v.Peer.Bytes), v.Peer.Zone, ks)
		st.Vectors++
	}

	// 2. non-IP peers
	for i, name := range []string{"pipe", "@", "", "unix:/run/gate.sock", "localhost:25565", "example.com", "1.2.3:80", "300.1.1.1:1"} {
		nets := []string{"0.0.0.0/0", "::/0"}
		r.contains(nets, netutil.NewAddr(name, "pipe"), "")
		if name != "" {
			r.contains(nets, nil, name)
		}
		r.wrap(nets, netutil.NewAddr(name, "pipe"), kinds[i%len(kinds)])
		r.wrap(nets, netutil.NewAddr(name, "pipe"), "v2tcp4")
	}

	// 3. seeded random prefixes of every length with peers around the boundary
	n := tracefmt.EnvInt("VERIF_RANDOM", 300)
	for i := 0; i < n; i++ {
		w := 4
		if r.rng.Intn(2) == 0 {
			w = 16
		}
		pb := make([]byte, w)
		r.rng.Read(pb)
		plen := r.rng.Intn(8*w + 1)
		peerb := append([]byte(nil), pb...)
		switch r.rng.Intn(4) {
		case 0: // inside: change bits behind the prefix
			for k := plen; k < 8*w; k++ {
				if r.rng.Intn(2) == 0 {
					peerb[k/8] ^= 0x80 >> (k % 8)
				}
			}
		case 1: // just outside
			if plen > 0 {
				k := plen - 1
				peerb[k/8] ^= 0x80 >> (k % 8)
			}
		case 2: // a random address
			r.rng.Read(peerb)
		}
		zone := false
		if w == 4 && r.rng.Intn(2) == 0 { // as a mapped address
			m := make([]byte, 16)
			m[10], m[11] = 0xff, 0xff
			copy(m[12:], peerb)
			peerb = m
			zone = r.rng.Intn(4) == 0
		} else if w == 16 {
			zone = r.rng.Intn(3) == 0
		}
		r.runCase(r.rng.Intn(1000), pb, plen, peerb, zone, []string{kinds[r.rng.Intn(len(kinds))], "v1tcp4", "none"})
		st.Random++
	}

	// 3a. SEQUENCES of connections through one wrapper instance: a trusted upstream first, then
	// peers whose textual address merely starts like it (192.0.2.1 -> 192.0.2.10, 192.0.2.100),
	// the trusted one again, look-alikes again
	type seqCase struct {
		nets    []string
		trusted string
		alikes  []string
	}
	seqs := []seqCase{
		{[]string{"192.0.2.1"}, "192.0.2.1", []string{"192.0.2.10", "192.0.2.100", "192.0.2.19", "192.0.2.2"}},
		{[]string{"10.0.0.0/30", "2001:db8::/64"}, "10.0.0.2", []string{"10.0.0.20", "10.0.0.200", "10.0.0.25"}},
		{[]string{"198.51.100.1/32", "fd00::1"}, "198.51.100.1", []string{"198.51.100.12", "198.51.100.100", "198.51.100.199"}},
		{[]string{"2001:db8::1"}, "2001:db8::1", []string{"2001:db8::10", "2001:db8::1:1", "2001:db8::1f"}},
		{[]string{"172.16.5.0/24"}, "172.16.5.2", []string{"172.16.52.1", "172.16.50.2", "172.16.5.20"}},
	}
	for si, sc := range seqs {
		wf, err := proxy.VerifNewProxyProtocolWrapper(&config.Config{ProxyProtocolTrustedProxies: sc.nets})
		if err != nil {
			t.Fatalf("list %q rejected: %v", sc.nets, err)
		}
		w := func(c net.Conn, d time.Duration) (net.Conn, error) { return wf(c, d), nil }
		tcp := func(host string, port int) net.Addr {
			return &net.TCPAddr{IP: net.ParseIP(host), Port: port}
		}
		hk := []string{"v1tcp4", "v2tcp4", "v2tcp6", "v1tcp6"}
		step := 0
		do := func(host string, kind string) {
			step++
			var a net.Addr = tcp(host, 30000+step)
			if step%3 == 0 {
				a = netutil.NewAddr(net.JoinHostPort(host, strconv.Itoa(30000+step)), "tcp")
			}
			before := st.Wraps
			r.wrapWith(w, sc.nets, a, kind)
			st.SeqWraps += st.Wraps - before
		}
		for _, a := range sc.alikes { // cold instance: look-alikes first
			do(a, hk[(si+step)%4])
		}
		for round := 0; round < 2; round++ {
			do(sc.trusted, hk[(si+round)%4]) // the trusted upstream connects
			do(sc.trusted, "none")
			for _, a := range sc.alikes {
				do(a, hk[(si+step)%4])
				do(a, "none")
			}
		}
	}

	// 3b. whole configured lists (empty, blank and mixed entries included) through the
	// configuration path: proxy.New with ProxyProtocol on, and Config.Validate
	var lists []struct {
		List    [][]int `json:"list"`
		Verdict string  `json:"verdict"`
	}
	lb, err := os.ReadFile(filepath.Join(tracefmt.OutDir(), "lists.json"))
	if err != nil {
		t.Fatal(err)
	}
	if err := json.Unmarshal(lb, &lists); err != nil {
		t.Fatal(err)
	}
	// the documented built-in trust set that applies when nothing is configured
	documentedDefaults := []string{"127.0.0.0/8", "::1/128", "10.0.0.0/8", "172.16.0.0/12", "192.168.0.0/16",
		"169.254.0.0/16", "fc00::/7", "fe80::/10"}
	base := config.DefaultConfig
	base.ProxyProtocol = true
	if _, err := proxy.New(proxy.Options{Config: &base}); err != nil {
		t.Fatalf("proxy.New with the default configuration: %v", err)
	}
	for i, lv := range lists {
		list := make([]string, len(lv.List))
		for k, e := range lv.List {
			list[k] = string(toBytes(e))
		}
		cfg := config.DefaultConfig
		cfg.ProxyProtocol = true
		cfg.ProxyProtocolTrustedProxies = list
		// proxy.New generates a key pair each time: in quick every sixth list and all acceptable
		// ones go through it, the others through its newProxyProtocol step alone
		var nerr error
		if tracefmt.Thorough() || i%6 == 0 || lv.Verdict == "ok" {
			_, nerr = proxy.New(proxy.Options{Config: &cfg})
		} else {
			c1, c2 := net.Pipe()
			_, nerr = proxy.VerifWrapProxyProtocol(&cfg, c1, time.Second)
			c1.Close()
			c2.Close()
		}
		_, verrs := cfg.Validate()
		vok := true
		for _, e := range verrs {
			if strings.Contains(e.Error(), "proxyProtocolTrustedProxies") {
				vok = false
			}
		}
		tw.Emit(tracefmt.Rec{"ev": "cfglist", "list": lv.List, "new_ok": nerr == nil, "validate_ok": vok, "s": fmt.Sprintf("%q", list)})
		st.CfgLists++
		if nerr == nil {
			st.CfgOK++
		}
		if lv.Verdict != "ok" || nerr != nil {
			continue
		}
		// the trust decision such a configuration results in
		nets := list
		if len(nets) == 0 {
			nets = documentedDefaults
		}
		for k, peer := range []string{"10.20.30.40:40000", "192.0.2.10:40000", "203.0.113.5:40000", "[2001:db8::7]:40000"} {
			kind := []string{"v1tcp4", "none", "v2tcp6"}[(i+k)%3]
			r.wrapCfg(&cfg, nets, netutil.NewAddr(peer, "tcp"), kind)
		}
	}

	// 4. the trusted-list grammar: curated and mutated strings
	curated := []string{
		"10.1.2.3", "::1", "10.0.0.0/8", "fc00::/7", "0.0.0.0/0", "::/0", "1.2.3.4/32", "::1/128", "10.1.2.3/8",
		"::ffff:10.0.0.1", "::ffff:a00:1", "::ffff:10.0.0.0/104", "::ffff:0:0/96", "0:0:0:0:0:ffff:1.2.3.4",
		"::fffe:10.0.0.1", "::10.0.0.1", "64:ff9b::1.2.3.4",
		"", "/", "/8", "10.0.0.0/", "10.0.0.0/33", "::/129", "10.0.0.0/-1", "10.0.0.0/+8", "10.0.0.0/8/8", "10.0.0.0/a",
		"10.0.0/8", "10.0.0.0.0/8", "256.0.0.1", "1.2.3", "1.2.3.4.5", "1..3.4", "1.2.3.4.", ".1.2.3.4", "1.2.3.-4",
		"1.2.3.4 /8", "a.b.c.d", "0x10.0.0.1", "1.2.3.4:80", "[::1]", "[::1]/128",
		":", "::", ":::", "1::2::3", "1:2:3:4:5:6:7", "1:2:3:4:5:6:7:8", "1:2:3:4:5:6:7:8:9", "1:2:3:4:5:6:7::8", "1:2:3:4:5:6::8",
		"::1:2:3:4:5:6:7", "1:2:3:4:5:6:7::", "12345::", "g::", ":1::", "1::2:", "1:2:3:4:5:6:1.2.3.4", "1:2:3:4:5:1.2.3.4",
		"1:2:3:4:5:6:7:1.2.3.4", "::1.2.3.4", "::1.2.3", "1.2.3.4::", "::1.2.3.4:5", "FE80::ABCD", "fe80::1/64",
		"2001:db8::/32", "2001:db8::/0", "2001:0db8:0000:0000:0000:0000:0000:0001", "2001:db8:0:0:0:0:0:1/128",
		"fe80::%/64", "1.2.3.4%eth0", "localhost", "example.com/24", "10.0.0.0\\8",
	}
	for _, s := range curated {
		r.parse(s)
	}
	var okTexts []string
	for i, v := range vecs {
		if i%5 == 0 {
			okTexts = append(okTexts, ipText(toBytes(v.P.Bytes), false, i)+fmt.Sprintf("/%d", v.P.N))
		}
	}
	okTexts = append(okTexts, curated[:9]...)
	alphabet := []byte("0123456789abcdefABCDEFg:./%[]- ")
	m := tracefmt.EnvInt("VERIF_MUTATIONS", 1500)
	for i := 0; i < m; i++ {
		s := []byte(okTexts[r.rng.Intn(len(okTexts))])
		for k := 1 + r.rng.Intn(2); k > 0 && len(s) > 0; k-- {
			p := r.rng.Intn(len(s))
			c := alphabet[r.rng.Intn(len(alphabet)-1)] // no blank: entries are trimmed first
			switch r.rng.Intn(3) {
			case 0:
				s[p] = c
			case 1:
				s = append(s[:p:p], append([]byte{c}, s[p:]...)...)
			default:
				s = append(s[:p:p], s[p+1:]...)
			}
		}
		r.parse(string(s))
	}
	if err := tw.Close(); err != nil {
		t.Fatal(err)
	}
	if err := tracefmt.WriteJSON("stats.json", st); err != nil {
		t.Fatal(err)
	}
}
