//go:build verif

// C01 harness: runs the scenarios exported by TLC from FramingScen.tla on the real
// netmc.Writer / netmc.Reader pair (which wrap codec.Encoder / codec.Decoder and the
// CFB8 stream wrappers) over an in-memory connection that hands the written bytes to the
// reader in the scenario's chunking, and records
//
//	write  the payload written (length, hash) and what an independent parser finds on the
//	       wire for it (own VarInt, own CFB8 over crypto/aes, Go's compress/zlib -- never
//	       gate's code): length prefix bytes, claimed size, body length, inflation facts
//	read   every payload the real reader delivers (length, hash)
//	end    how the reader stopped
//
// No verdicts here: Framing_Trace.tla judges frames and deliveries with lib/FrameRules.tla.
package c01

import (
	"bytes"
	"compress/zlib"
	"crypto/aes"
	"crypto/cipher"
	"encoding/json"
	"errors"
	"fmt"
	"hash/fnv"
	"io"
	"math/rand"
	"net"
	"os"
	"path/filepath"
	"testing"
	"time"

	"github.com/go-logr/logr"

	"go.minekube.com/gate/pkg/edition/java/netmc"
	"go.minekube.com/gate/pkg/edition/java/proto/state"
	"go.minekube.com/gate/pkg/edition/java/proto/state/states"
	"go.minekube.com/gate/pkg/gate/proto"

	"verif/harness/tracefmt"
)

// ---------------------------------------------------------------- in-memory connections

type addr struct{}

func (addr) Network() string { return "mem" }
func (addr) String() string  { return "mem" }

// sink collects what the writer sends.
type sink struct{ buf bytes.Buffer }

func (s *sink) Read([]byte) (int, error)         { return 0, io.EOF }
func (s *sink) Write(p []byte) (int, error)      { return s.buf.Write(p) }
func (s *sink) Close() error                     { return nil }
func (s *sink) LocalAddr() net.Addr              { return addr{} }
func (s *sink) RemoteAddr() net.Addr             { return addr{} }
func (s *sink) SetDeadline(time.Time) error      { return nil }
func (s *sink) SetReadDeadline(time.Time) error  { return nil }
func (s *sink) SetWriteDeadline(time.Time) error { return nil }

// source hands out the wire bytes, never crossing a split point within one Read.
type source struct {
	sink
	wire   []byte
	pos    int
	splits []int // ascending absolute offsets; nil = no restriction
	si     int
	one    bool
	reads  int
}

func (s *source) Read(p []byte) (int, error) {
	if s.pos >= len(s.wire) {
		return 0, io.EOF
	}
	if len(p) == 0 {
		return 0, nil
	}
	limit := len(s.wire)
	if s.one {
		limit = s.pos + 1
	} else {
		for s.si < len(s.splits) && s.splits[s.si] <= s.pos {
			s.si++
		}
		if s.si < len(s.splits) {
			limit = s.splits[s.si]
		}
	}
	if limit > len(s.wire) {
		limit = len(s.wire)
	}
	n := copy(p, s.wire[s.pos:limit])
	s.pos += n
	s.reads++
	return n, nil
}

// ---------------------------------------------------------------- own primitives

func getVarInt(b []byte) (int, int, bool) {
	var u uint32
	for i := 0; i < 5 && i < len(b); i++ {
		u |= uint32(b[i]&0x7f) << (7 * uint(i))
		if b[i]&0x80 == 0 {
			return int(int32(u)), i + 1, true
		}
	}
	return 0, 0, false
}

// cfb8Decrypt: AES/CFB8 with IV = key, written from the definition.
func cfb8Decrypt(key, ct []byte) []byte {
	blk, err := aes.NewCipher(key)
	if err != nil {
		panic(err)
	}
	return cfb8(blk, key, ct)
}

func cfb8(blk cipher.Block, iv, ct []byte) []byte {
	sr := append([]byte{}, iv...)
	out := make([]byte, len(ct))
	var o [16]byte
	for i, c := range ct {
		blk.Encrypt(o[:], sr)
		out[i] = c ^ o[0]
		copy(sr, sr[1:])
		sr[15] = c
	}
	return out
}

func sum(b []byte) string {
	h := fnv.New64a()
	h.Write(b)
	return fmt.Sprintf("%016x", h.Sum64())
}

type zf struct {
	ok       bool
	n, trail int
	same     bool
}

func inflateFacts(body, want []byte) (z zf) {
	br := bytes.NewReader(body)
	zr, err := zlib.NewReader(br)
	if err != nil {
		return
	}
	var out bytes.Buffer
	out.Grow(len(want) + 16)
	n, err := io.CopyN(&out, zr, int64(len(want))+(9<<20))
	z.n = int(n)
	if err == io.EOF {
		z.ok = true
		z.trail = br.Len()
	}
	z.same = bytes.Equal(out.Bytes(), want)
	return
}

// ---------------------------------------------------------------- scenarios

type scen struct {
	Size    int    `json:"size"`
	Thr     int    `json:"thr"`
	Level   int    `json:"level"`
	Enc     bool   `json:"enc"`
	Late    bool   `json:"late"`
	Chunk   string `json:"chunk"`
	Content string `json:"content"`
	Mode    string `json:"mode"`
}

type stats struct {
	Scenarios int
	Writes    int
	Reads     int
	WireBytes int
	ConnReads int
	ByMode    map[string]int
	ByChunk   map[string]int
	Classes   map[string]int
	EndErrors int
	Samples   []any
}

var emptyRegistry = state.NewRegistry(states.HandshakeState)

func payload(rng *rand.Rand, n int, content string) []byte {
	p := make([]byte, n)
	if content == "random" {
		rng.Read(p)
	} else {
		for i := 0; i < n; i += 113 {
			p[i] = byte(i / 113) // long zero runs: highly compressible
		}
	}
	if n > 0 {
		p[0] = 0x7e // a one-byte packet id no registry knows
	}
	return p
}

type written struct {
	p       []byte
	off, to int
	thr     int // threshold in force for this write
	enc     bool
}

func runScenario(tw *tracefmt.Writer, sc scen, id int, rng *rand.Rand, st *stats) {
	dirName := []string{"cb", "sb"}[rng.Intn(2)]
	dir := proto.ClientBound
	if dirName == "sb" {
		dir = proto.ServerBound
	}
	secret := make([]byte, 16)
	rng.Read(secret)
	startThr := sc.Thr
	if sc.Late {
		startThr = -1
	}
	tw.Emit(tracefmt.Rec{"ev": "reset", "dir": dirName, "thr": startThr, "level": sc.Level, "enc": sc.Enc,
		"late": sc.Late, "chunk": sc.Chunk, "content": sc.Content, "size": sc.Size, "mode": sc.Mode, "n": id})
	st.Scenarios++
	st.ByMode[sc.Mode]++
	st.ByChunk[sc.Chunk]++
	st.Classes[fmt.Sprintf("%s/enc=%v/late=%v/%s", sc.Mode, sc.Enc, sc.Late, sc.Chunk)]++

	// payload sequence: the scenario's size twice (different contents), an empty one, small ones
	other := "zeros"
	if sc.Content == "zeros" {
		other = "random"
	}
	var seq [][]byte
	if sc.Size >= 1<<20 {
		seq = [][]byte{payload(rng, 5, "random"), payload(rng, sc.Size, sc.Content), payload(rng, 3, "zeros")}
	} else {
		seq = [][]byte{payload(rng, sc.Size, sc.Content), payload(rng, 5, "random"), {}, payload(rng, sc.Size, other),
			payload(rng, 1, "zeros"), payload(rng, min(sc.Size+1, 70000), sc.Content)}
		if sc.Late && sc.Size == 0 {
			// the switch is tied to the first delivered payload: it must not be empty
			seq = append([][]byte{payload(rng, 2, "zeros")}, seq...)
		}
	}

	// ---- writer side
	out := &sink{}
	w := netmc.NewWriter(out, dir, time.Second, sc.Level, logr.Discard())
	curThr, curEnc := -1, false
	encStart := -1
	apply := func() bool {
		if sc.Enc {
			if err := w.EnableEncryption(secret); err != nil {
				return false
			}
			curEnc = true
			encStart = out.buf.Len()
			tw.Emit(tracefmt.Rec{"ev": "setenc"})
		}
		if sc.Thr >= 0 {
			if err := w.SetCompressionThreshold(sc.Thr); err != nil {
				return false
			}
			curThr = sc.Thr
			tw.Emit(tracefmt.Rec{"ev": "setcomp", "thr": sc.Thr})
		}
		return true
	}
	if !sc.Late && !apply() {
		tw.Emit(tracefmt.Rec{"ev": "end", "err": "setup"})
		return
	}
	var ws []written
	var werrs []bool
	unflushed := false
	for i, p := range seq {
		off := out.buf.Len()
		_, err := w.Write(p)
		// every other late-switch connection leaves the first payload unflushed in the
		// writer's buffer while the settings change (write, switch, write more, flush)
		noFlush := sc.Late && i == 0 && id%2 == 0 && len(seq) > 1
		if err == nil && !noFlush {
			err = w.Flush()
		}
		unflushed = unflushed || noFlush
		ws = append(ws, written{p: p, off: off, to: out.buf.Len(), thr: curThr, enc: curEnc})
		werrs = append(werrs, err != nil)
		if sc.Late && i == 0 {
			// settings change behind the first payload, as after the login packets; the
			// setenc / setcomp events are emitted in stream order further down
			if sc.Enc {
				if err := w.EnableEncryption(secret); err == nil {
					curEnc = true
					encStart = out.buf.Len()
				}
			}
			if sc.Thr >= 0 {
				if err := w.SetCompressionThreshold(sc.Thr); err == nil {
					curThr = sc.Thr
				}
			}
		}
	}
	wire := append([]byte{}, out.buf.Bytes()...)
	if unflushed {
		// the first frame reached the wire together with the second write: it is plain (written
		// before the switch), its end is where its own length prefix says, the rest follows it
		end := ws[0].off
		if L, np, ok := getVarInt(wire[ws[0].off:]); ok && L >= 0 {
			end = min(ws[0].off+np+L, len(wire))
		}
		ws[0].to, ws[1].off = end, end
		if ws[1].to < end {
			ws[1].to = end
		}
		if encStart >= 0 {
			encStart = end
		}
	}
	plain := wire
	if encStart >= 0 {
		plain = append(append([]byte{}, wire[:encStart]...), cfb8Decrypt(secret, wire[encStart:])...)
	}
	st.WireBytes += len(wire)

	// ---- what is on the wire, per write
	var splits []int
	for i, x := range ws {
		region := plain[x.off:x.to]
		rec, np, nc := frameFacts(region, x.p, x.thr, werrs[i])
		rec["i"] = i
		tw.Emit(rec)
		st.Writes++
		if sc.Late && i == 0 {
			if sc.Enc {
				tw.Emit(tracefmt.Rec{"ev": "setenc"})
			}
			if sc.Thr >= 0 {
				tw.Emit(tracefmt.Rec{"ev": "setcomp", "thr": sc.Thr})
			}
		}
		// split points of this frame for the chunk policies
		switch sc.Chunk {
		case "lenvarint":
			splits = append(splits, x.off+1)
		case "datalen":
			if nc >= 2 {
				splits = append(splits, x.off+np+1)
			} else {
				splits = append(splits, x.off+np)
			}
		case "body":
			splits = append(splits, x.off+np+nc+(len(region)-np-nc)/2)
		}
	}
	if sc.Chunk == "random" {
		maxStep := 40
		if len(wire) > 1<<18 {
			maxStep = 60000
		}
		for p := 0; p < len(wire); {
			p += 1 + rng.Intn(maxStep)
			splits = append(splits, p)
		}
	}

	// ---- reader side
	src := &source{wire: wire, splits: splits, one: sc.Chunk == "one"}
	r := netmc.NewReader(src, dir, time.Second, logr.Discard())
	r.SetState(emptyRegistry)
	applyR := func() {
		if sc.Enc {
			_ = r.EnableEncryption(secret)
		}
		if sc.Thr >= 0 {
			_ = r.SetCompressionThreshold(sc.Thr)
		}
	}
	if !sc.Late {
		applyR()
	}
	reads := 0
	endErr := ""
	// delivered payloads are kept WITHOUT copying and re-hashed after the whole stream was
	// read: the sequence a caller collected must still be the sequence that was written
	type heldPayload struct {
		p    []byte
		then string
	}
	var held []heldPayload
	for guard := 0; guard < len(seq)+3; guard++ {
		ctx, err := r.ReadPacket()
		if errors.Is(err, netmc.ErrReadPacketRetry) {
			continue
		}
		if err != nil {
			if errors.Is(err, io.EOF) && !errors.Is(err, io.ErrUnexpectedEOF) {
				endErr = "eof"
			} else {
				endErr = "error"
			}
			break
		}
		tw.Emit(tracefmt.Rec{"ev": "read", "len": len(ctx.Payload), "sum": sum(ctx.Payload)})
		held = append(held, heldPayload{ctx.Payload, sum(ctx.Payload)})
		reads++
		st.Reads++
		if sc.Late && reads == 1 {
			applyR()
		}
	}
	if endErr == "" {
		endErr = "noend"
	}
	if endErr != "eof" {
		st.EndErrors++
	}
	st.ConnReads += src.reads
	for k, h := range held {
		tw.Emit(tracefmt.Rec{"ev": "held", "k": k, "then": h.then, "now": sum(h.p)})
	}
	tw.Emit(tracefmt.Rec{"ev": "end", "err": endErr, "reads": reads})
	if len(st.Samples) < 3 && sc.Mode == "compressed" && sc.Enc {
		st.Samples = append(st.Samples, map[string]any{"scenario": sc, "payload_sizes": sizes(seq), "wire_bytes": len(wire),
			"delivered": reads, "end": endErr})
	}
}

// frameFacts: what the independent parser finds in the wire region of one write.
func frameFacts(region, p []byte, thr int, werr bool) (rec tracefmt.Rec, np, nc int) {
	outer, np, ok := getVarInt(region)
	rec = tracefmt.Rec{"ev": "write", "len": len(p), "sum": sum(p), "werr": werr,
		"span": len(region), "outer": outer, "claimed": -1, "cprefix": []int{},
		"z": map[string]any{"ok": false, "n": 0, "trail": 0}}
	if !ok {
		np = min(5, len(region))
	}
	rec["prefix"] = tracefmt.Bytes(region[:np])
	body := region[np:]
	same := false
	if thr < 0 {
		rec["rest"] = len(body)
		same = bytes.Equal(body, p)
	} else {
		claimed, n, ok := getVarInt(body)
		if !ok {
			n = min(5, len(body))
		}
		nc = n
		rec["claimed"] = claimed
		rec["cprefix"] = tracefmt.Bytes(body[:nc])
		rest := body[nc:]
		rec["rest"] = len(rest)
		if claimed == 0 {
			same = bytes.Equal(rest, p)
		} else if claimed > 0 {
			z := inflateFacts(rest, p)
			rec["z"] = map[string]any{"ok": z.ok, "n": z.n, "trail": z.trail}
			same = z.same
		}
	}
	rec["same"] = same
	return
}

// longRun: one writer/reader pair carrying n small compressed packets (state that builds up
// over a connection's life: buffer pools, zlib writer/reader re-use, cipher streams).  Runs of
// byte-identical observations are logged once with a repeat count "rep".
func longRun(tw *tracefmt.Writer, n int, rng *rand.Rand, st *stats) {
	const thr = 64
	secret := make([]byte, 16)
	rng.Read(secret)
	tw.Emit(tracefmt.Rec{"ev": "reset", "dir": "cb", "thr": thr, "level": -1, "enc": true, "late": false,
		"chunk": "random", "content": "zeros", "size": 180, "mode": "longrun", "n": n})
	st.Scenarios++
	st.ByMode["longrun"]++
	st.Classes["longrun/enc=true/late=false/random"]++
	out := &sink{}
	w := netmc.NewWriter(out, proto.ClientBound, time.Second, -1, logr.Discard())
	if w.EnableEncryption(secret) != nil || w.SetCompressionThreshold(thr) != nil {
		tw.Emit(tracefmt.Rec{"ev": "end", "err": "setup"})
		return
	}
	tw.Emit(tracefmt.Rec{"ev": "setenc"})
	tw.Emit(tracefmt.Rec{"ev": "setcomp", "thr": thr})
	small := payload(rng, 180, "zeros")
	type wr struct {
		p       []byte
		off, to int
		werr    bool
	}
	ws := make([]wr, 0, n)
	for i := 0; i < n; i++ {
		p := small
		if i%1000 == 999 {
			p = payload(rng, 3000, "random") // now and then a buffer has to grow
		}
		off := out.buf.Len()
		_, err := w.Write(p)
		if err == nil {
			err = w.Flush()
		}
		ws = append(ws, wr{p, off, out.buf.Len(), err != nil})
	}
	wire := out.buf.Bytes()
	plain := cfb8Decrypt(secret, wire)
	st.WireBytes += len(wire)
	var prev tracefmt.Rec
	var prevRegion, prevP []byte
	flush := func() {
		if prev != nil {
			tw.Emit(prev)
		}
	}
	for _, x := range ws {
		region := plain[x.off:x.to]
		st.Writes++
		if prev != nil && !x.werr && bytes.Equal(region, prevRegion) && bytes.Equal(x.p, prevP) {
			prev["rep"] = prev["rep"].(int) + 1
			continue
		}
		flush()
		prev, _, _ = frameFacts(region, x.p, thr, x.werr)
		prev["rep"] = 1
		prevRegion, prevP = region, x.p
	}
	flush()
	var splits []int
	for p := 0; p < len(wire); {
		p += 1 + rng.Intn(5000)
		splits = append(splits, p)
	}
	src := &source{wire: wire, splits: splits}
	r := netmc.NewReader(src, proto.ClientBound, time.Second, logr.Discard())
	r.SetState(emptyRegistry)
	_ = r.EnableEncryption(secret)
	_ = r.SetCompressionThreshold(thr)
	var last tracefmt.Rec
	reads, endErr := 0, "noend"
	for guard := 0; guard < n+3; guard++ {
		ctx, err := r.ReadPacket()
		if errors.Is(err, netmc.ErrReadPacketRetry) {
			continue
		}
		if err != nil {
			endErr = "error"
			if errors.Is(err, io.EOF) && !errors.Is(err, io.ErrUnexpectedEOF) {
				endErr = "eof"
			}
			break
		}
		reads++
		st.Reads++
		sm := sum(ctx.Payload)
		if last != nil && last["len"] == len(ctx.Payload) && last["sum"] == sm {
			last["rep"] = last["rep"].(int) + 1
			continue
		}
		if last != nil {
			tw.Emit(last)
		}
		last = tracefmt.Rec{"ev": "read", "len": len(ctx.Payload), "sum": sm, "rep": 1}
	}
	if last != nil {
		tw.Emit(last)
	}
	if endErr != "eof" {
		st.EndErrors++
	}
	st.ConnReads += src.reads
	tw.Emit(tracefmt.Rec{"ev": "end", "err": endErr, "reads": reads})
}

func sizes(seq [][]byte) []int {
	var out []int
	for _, p := range seq {
		out = append(out, len(p))
	}
	return out
}

func TestScenarios(t *testing.T) {
	raw, err := os.ReadFile(filepath.Join(tracefmt.OutDir(), "scenarios.json"))
	if err != nil {
		t.Fatal(err)
	}
	var scens []scen
	if err := json.Unmarshal(raw, &scens); err != nil {
		t.Fatal(err)
	}
	tw, err := tracefmt.Create("trace.ndjson")
	if err != nil {
		t.Fatal(err)
	}
	st := &stats{ByMode: map[string]int{}, ByChunk: map[string]int{}, Classes: map[string]int{}}
	rng := rand.New(rand.NewSource(tracefmt.Seed()))
	for i, sc := range scens {
		runScenario(tw, sc, i, rng, st)
	}
	if n := tracefmt.EnvInt("VERIF_LONG", 45000); n > 0 {
		longRun(tw, n, rng, st)
	}
	if err := tw.Close(); err != nil {
		t.Fatal(err)
	}
	if err := tracefmt.WriteJSON("stats.json", st); err != nil {
		t.Fatal(err)
	}
}
