//go:build verif

// C39 harness: a Floodgate-style reference encoder / decoder (written after Floodgate's
// AesCipher + Base64Topping + BedrockData.toString, over crypto/aes, cipher.NewGCM and
// encoding/base64) builds the hostnames of the TLC-exported cases for the real
// Floodgate.ReadHostname, sweeps single-byte replacements over valid hostnames, and reads
// back what the real WriteHostname produces. Floodgate_Trace.tla judges.
package c39

import (
	"bytes"
	"crypto/aes"
	"crypto/cipher"
	"encoding/base64"
	"encoding/json"
	"fmt"
	"math/rand"
	"os"
	"path/filepath"
	"strconv"
	"strings"
	"sync"
	"testing"

	"go.minekube.com/gate/pkg/edition/bedrock/geyser/floodgate"

	"verif/harness/tracefmt"
)

const header = "^Floodgate^>" // IDENTIFIER + (char)(VERSION + MAGIC), VERSION 0, MAGIC 0x3E

type tcase struct {
	Ks       int    `json:"ks"`
	KeyKind  string `json:"keykind"`
	WrongKey bool   `json:"wrongkey"`
	Mut      string `json:"mut"`
	Shape    string `json:"shape"`
}

func codes(s string) []int { return tracefmt.Bytes([]byte(s)) }

func codesList(ss []string) [][]int {
	out := make([][]int, len(ss))
	for i, s := range ss {
		out[i] = codes(s)
	}
	return out
}

func seal(key, iv, plain []byte) []byte {
	block, err := aes.NewCipher(key)
	if err != nil {
		panic(err)
	}
	gcm, err := cipher.NewGCM(block)
	if err != nil {
		panic(err)
	}
	return gcm.Seal(nil, iv, plain, nil)
}

func b64(b []byte) string { return base64.StdEncoding.EncodeToString(b) }

// refDecode is the reference reading of a hostname: orig NUL HEADER b64(iv) "!" b64(ct).
func refDecode(key []byte, hostname string) (orig string, fields []string, ok bool) {
	parts := strings.Split(hostname, "\x00")
	if len(parts) != 2 || !strings.HasPrefix(parts[1], header) {
		return "", nil, false
	}
	body := parts[1][len(header):]
	i := strings.IndexByte(body, '!')
	if i < 0 {
		return "", nil, false
	}
	iv, err1 := base64.StdEncoding.DecodeString(body[:i])
	ct, err2 := base64.StdEncoding.DecodeString(body[i+1:])
	if err1 != nil || err2 != nil || len(iv) != 12 {
		return "", nil, false
	}
	block, _ := aes.NewCipher(key)
	gcm, _ := cipher.NewGCM(block)
	plain, err := gcm.Open(nil, iv, ct, nil)
	if err != nil {
		return "", nil, false
	}
	return parts[0], strings.Split(string(plain), "\x00"), true
}

func fieldsFor(shape string, i int, rng *rand.Rand) []string {
	proxy := strconv.Itoa(i % 2)
	linked := ""
	if i%3 == 0 {
		linked = "JavaSteve;069a79f4-44e9-4726-a5be-fca90e38aaf5"
	}
	f := []string{"1.0.0-verif", fmt.Sprintf("Steve %d", i), strconv.FormatInt(2535400000000000+rng.Int63n(1<<40), 10),
		strconv.Itoa(i % 16), "en_US", strconv.Itoa(i % 2), strconv.Itoa(i % 4), "198.51.100.7", linked, proxy,
		"", ""}
	switch shape {
	case "unicode":
		f[1], f[4] = "Ünï côdé 名前 😀", "ja_JP"
	case "f11":
		f = f[:11]
	case "f13":
		f = append(f, "extra")
	case "nouser":
		f[1] = ""
	case "xuid0":
		f[2] = "0"
	case "xuidbad":
		f[2] = "12ab"
	case "osbad":
		f[3] = "x"
	case "os99":
		f[3] = "99"
	}
	return f
}

type stats struct {
	Reads    int            `json:"reads"`
	ReadOut  map[string]int `json:"read_outcomes"`
	Muts     int            `json:"byte_mutations"`
	MutOut   map[string]int `json:"mutation_outcomes"`
	Aliases  int            `json:"mutations_decoding_to_same_bytes"`
	Held     int            `json:"held_encodings"`
	ConcW    int            `json:"concurrent_writes"`
	Writes   int            `json:"writes"`
	WriteOut map[string]int `json:"write_outcomes"`
	Samples  []any          `json:"samples"`
}

// read calls the real ReadHostname, containing panics.
func read(f *floodgate.Floodgate, hostname string) (out string, orig string, d *floodgate.BedrockData, msg string) {
	defer func() {
		if p := recover(); p != nil {
			out, msg = "panic", fmt.Sprint(p)
		}
	}()
	o, data, err := f.ReadHostname(hostname)
	if err != nil {
		return "err", "", nil, err.Error()
	}
	return "ok", o, data, ""
}

func shown(d *floodgate.BedrockData) map[string]any {
	return map[string]any{
		"version": codes(d.Version), "username": codes(d.Username), "xuid": codes(strconv.FormatInt(d.Xuid, 10)),
		"os": d.DeviceOS.ID, "language": codes(d.Language), "ui": codes(strconv.Itoa(d.UIProfile)),
		"input": codes(strconv.Itoa(d.InputMode)), "ip": codes(d.IP), "linked": codes(d.LinkedPlayer),
		"proxy": d.Proxy, "subscribe": codes(d.SubscribeID), "verify": codes(d.VerifyCode),
	}
}

func TestTrace(t *testing.T) {
	tw, err := tracefmt.Create("trace.ndjson")
	if err != nil {
		t.Fatal(err)
	}
	st := &stats{ReadOut: map[string]int{}, MutOut: map[string]int{}, WriteOut: map[string]int{}}
	rng := rand.New(rand.NewSource(tracefmt.Seed()))
	randBytes := func(n int) []byte { b := make([]byte, n); rng.Read(b); return b }
	// keyOf makes a raw key of n bytes: random, all Base64 alphabet characters, or such text with "=="
	const b64abc = "ABCDEFGHIJKLMNOPQRSTUVWXYZabcdefghijklmnopqrstuvwxyz0123456789+/"
	keyOf := func(kind string, n int) []byte {
		if kind != "b64text" && kind != "b64pad" {
			return randBytes(n)
		}
		b := make([]byte, n)
		for i := range b {
			b[i] = b64abc[rng.Intn(64)]
		}
		if kind == "b64pad" {
			b[n-3] = b64abc[16*rng.Intn(4)] // the spare bits of the last quantum zero: canonical Base64 text
			b[n-2], b[n-1] = '=', '='
		}
		return b
	}

	var cases []tcase
	cb, err := os.ReadFile(filepath.Join(tracefmt.OutDir(), "cases.json"))
	if err != nil {
		t.Fatal(err)
	}
	if err := json.Unmarshal(cb, &cases); err != nil {
		t.Fatal(err)
	}

	// 1. the TLC cases
	for i, c := range cases {
		key := keyOf(c.KeyKind, c.Ks)
		fg, err := floodgate.NewFloodgate(key)
		if err != nil {
			t.Fatal(err)
		}
		sealKey := key
		if c.WrongKey {
			sealKey = randBytes([]int{c.Ks, 16, 24, 32}[i%4])
		}
		fields := fieldsFor(c.Shape, i, rng)
		plain := []byte(strings.Join(fields, "\x00"))
		iv := randBytes(12)
		ct := seal(sealKey, iv, plain)
		orig := []string{"play.example.com", "mc.example.org", "bedrock.example.net"}[i%3]
		ivText, ctText, split := b64(iv), b64(ct), "!"
		hdr, sep, tail := header, "\x00", ""
		swapB64 := func(s string, at int) string { // another valid base64 character at position at
			c := byte('A')
			if s[at] == 'A' {
				c = 'B'
			}
			return s[:at] + string(c) + s[at+1:]
		}
		switch c.Mut {
		case "port":
			tail = ":25565"
		case "header":
			p := (i / 7) % len(hdr) // every position, the version byte included
			hdr = hdr[:p] + string(hdr[p]^1) + hdr[p+1:]
		case "iv":
			ivText = swapB64(ivText, rng.Intn(len(ivText)))
		case "splitter":
			split = "A"
		case "ct":
			ctText = swapB64(ctText, rng.Intn(len(ctText)-24)) // in front of the tag, in a full quantum
		case "tag":
			ct2 := append([]byte(nil), ct...)
			ct2[len(ct2)-1-rng.Intn(16)] ^= byte(1 << rng.Intn(8))
			ctText = b64(ct2)
		case "nosplit":
			split = ""
		case "b64iv":
			p := rng.Intn(len(ivText))
			ivText = ivText[:p] + "*" + ivText[p+1:]
		case "b64ct":
			p := rng.Intn(len(ctText))
			ctText = ctText[:p] + "*" + ctText[p+1:]
		case "extranul":
			tail = "\x00extra"
		case "nonul":
			sep = "."
		case "shortiv":
			ivText = b64(iv[:3])
		case "longiv":
			ivText = b64(append(append([]byte(nil), iv...), 1, 2, 3))
		case "emptyct":
			ctText = ""
		case "trunc":
			ctText = b64(ct[:len(ct)-16])
		case "swapiv":
			ivText = b64(randBytes(12))
		}
		hostname := orig + sep + hdr + ivText + split + ctText + tail
		out, gotOrig, d, msg := read(fg, hostname)
		rec := tracefmt.Rec{"ev": "read", "case": c, "fields": codesList(fields), "orig": codes(orig), "out": out}
		if msg != "" {
			rec["msg"] = msg
		}
		if out == "ok" {
			rec["got"] = shown(d)
			rec["gotorig"] = codes(gotOrig)
			if len(st.Samples) < 2 && c.Mut == "none" {
				st.Samples = append(st.Samples, map[string]any{"hostname": hostname, "username": d.Username, "xuid": d.Xuid})
			}
		}
		tw.Emit(rec)
		st.Reads++
		st.ReadOut[out]++
	}

	// 2. every single-byte replacement of valid hostnames
	repl := func(b byte) []byte { return []byte{b ^ 1, b ^ 0x80, '!', ':', 0, 'A', '=', '\n', '>'} }
	for k, ks := range []int{16, 24, 32} {
		key := randBytes(ks)
		fg, _ := floodgate.NewFloodgate(key)
		fields := fieldsFor("ok", k, rng)
		if k == 1 {
			fields[1] = "ab" // a record length that leaves Base64 padding and spare bits
		}
		iv := randBytes(12)
		ct := seal(key, iv, []byte(strings.Join(fields, "\x00")))
		orig := "play.example.com"
		env := header + b64(iv) + "!" + b64(ct)
		tail := ""
		if k == 2 {
			tail = ":19132"
		}
		hostname := orig + "\x00" + env + tail
		if o, _, _, _ := read(fg, hostname); o != "ok" {
			t.Fatalf("reference hostname not accepted: %q", hostname)
		}
		ivStart := len(orig) + 1 + len(header)
		splitAt := ivStart + len(b64(iv))
		ctEnd := len(orig) + 1 + len(env)
		step := 1
		if !tracefmt.Thorough() && k > 0 {
			step = 2
		}
		for p := 0; p < len(hostname); p += step {
			region := "orig"
			switch {
			case p == len(orig):
				region = "nul"
			case p > len(orig) && p < ivStart:
				region = "header"
			case p >= ivStart && p < splitAt:
				region = "iv"
			case p == splitAt:
				region = "split"
			case p > splitAt && p < ctEnd:
				region = "ct"
			case p >= ctEnd:
				region = "port"
			}
			for _, nb := range repl(hostname[p]) {
				if nb == hostname[p] {
					continue
				}
				m := []byte(hostname)
				m[p] = nb
				alias := false
				if region == "iv" || region == "ct" { // does the changed text still decode to the same bytes?
					body := string(m[ivStart:ctEnd])
					if i := strings.IndexByte(body, '!'); i >= 0 {
						iv2, e1 := base64.StdEncoding.DecodeString(body[:i])
						ct2, e2 := base64.StdEncoding.DecodeString(body[i+1:])
						alias = e1 == nil && e2 == nil && bytes.Equal(iv2, iv) && bytes.Equal(ct2, ct)
					}
				}
				out, _, _, msg := read(fg, string(m))
				rec := tracefmt.Rec{"ev": "mut", "region": region, "pos": p, "byte": int(nb), "alias": alias, "out": out, "ks": ks}
				if msg != "" {
					rec["msg"] = msg
				}
				tw.Emit(rec)
				st.Muts++
				st.MutOut[region+":"+out]++
				if alias {
					st.Aliases++
				}
			}
		}
	}

	// 3. what the proxy writes, read by the reference decoder
	nw := tracefmt.EnvInt("VERIF_WRITES", 120)
	for i := 0; i < nw; i++ {
		key := keyOf([]string{"random", "b64text", "random", "b64pad", "b64text"}[i%5], []int{16, 24, 32}[i%3])
		fg, _ := floodgate.NewFloodgate(key)
		shape := []string{"ok", "unicode", "ok", "os99"}[i%4]
		f := fieldsFor(shape, i, rng)
		if shape == "os99" {
			f[3] = "13"
		}
		orig := "mc.example.org"
		nul := false
		switch i % 10 {
		case 7:
			f[1] = "bad\x00name"
			nul = true
		case 9:
			orig = "evil\x00host"
			nul = true
		}
		xuid, _ := strconv.ParseInt(f[2], 10, 64)
		if i%6 == 5 {
			xuid = -xuid
			f[2] = strconv.FormatInt(xuid, 10)
		}
		osID, _ := strconv.Atoi(f[3])
		ui, _ := strconv.Atoi(f[5])
		in, _ := strconv.Atoi(f[6])
		d := &floodgate.BedrockData{Version: f[0], Username: f[1], Xuid: xuid, DeviceOS: floodgate.DeviceOSFromID(osID),
			Language: f[4], UIProfile: ui, InputMode: in, IP: f[7], LinkedPlayer: f[8], Proxy: f[9] == "1",
			SubscribeID: f[10], VerifyCode: f[11]}
		out, hostname, msg := "ok", "", ""
		func() {
			defer func() {
				if p := recover(); p != nil {
					out, msg = "panic", fmt.Sprint(p)
				}
			}()
			h, err := fg.WriteHostname(orig, d)
			if err != nil {
				out, msg = "err", err.Error()
			}
			hostname = h
		}()
		rec := tracefmt.Rec{"ev": "write", "fields": codesList(f), "orig": codes(orig), "nul": nul, "out": out}
		if msg != "" {
			rec["msg"] = msg
		}
		if out == "ok" {
			ro, rf, ok := refDecode(key, hostname)
			rec["ref"] = map[string]any{"ok": ok, "orig": codes(ro), "fields": codesList(rf)}
		}
		tw.Emit(rec)
		st.Writes++
		st.WriteOut[out]++
	}
	// 4. encodings kept (not copied) across later encodes on the same Floodgate, decoded afterwards
	mkData := func(i int) (*floodgate.BedrockData, []string) {
		f := fieldsFor([]string{"ok", "unicode"}[i%2], i, rng)
		xuid, _ := strconv.ParseInt(f[2], 10, 64)
		osID, _ := strconv.Atoi(f[3])
		ui, _ := strconv.Atoi(f[5])
		in, _ := strconv.Atoi(f[6])
		return &floodgate.BedrockData{Version: f[0], Username: f[1], Xuid: xuid, DeviceOS: floodgate.DeviceOSFromID(osID),
			Language: f[4], UIProfile: ui, InputMode: in, IP: f[7], LinkedPlayer: f[8], Proxy: f[9] == "1",
			SubscribeID: f[10], VerifyCode: f[11]}, f
	}
	for round := 0; round < 6; round++ {
		key := randBytes([]int{16, 24, 32}[round%3])
		fg, _ := floodgate.NewFloodgate(key)
		type kept struct {
			enc    []byte
			fields []string
		}
		var ks []kept
		for i := 0; i < 5; i++ {
			_, f := mkData(round*10 + i)
			if i%2 == 1 {
				f[1] = f[1] + " with a longer name" // different lengths
			}
			enc, err := fg.Encrypt([]byte(strings.Join(f, "\x00")))
			if err != nil {
				t.Fatal(err)
			}
			ks = append(ks, kept{enc, f}) // the slice as returned
		}
		for _, k := range ks {
			ro, rf, ok := refDecode(key, "h\x00"+string(k.enc))
			tw.Emit(tracefmt.Rec{"ev": "write", "kind": "held", "fields": codesList(k.fields), "orig": codes("h"), "nul": false,
				"out": "ok", "ref": map[string]any{"ok": ok, "orig": codes(ro), "fields": codesList(rf)}})
			st.Held++
		}
	}
	// 5. several players written at the same time through one Floodgate
	cw := tracefmt.EnvInt("VERIF_CONC_WRITES", 40)
	for round := 0; round < cw; round++ {
		key := randBytes([]int{16, 24, 32}[round%3])
		fg, _ := floodgate.NewFloodgate(key)
		const g = 6
		var wg sync.WaitGroup
		hosts := make([]string, g)
		outs := make([]string, g)
		fs := make([][]string, g)
		start := make(chan struct{})
		for k := 0; k < g; k++ {
			d, f := mkData(round*g + k)
			fs[k] = f
			wg.Add(1)
			go func(k int) {
				defer wg.Done()
				defer func() {
					if p := recover(); p != nil {
						outs[k] = "panic"
					}
				}()
				<-start
				for rep := 0; rep < 20; rep++ { // the last one counts; the loop widens the overlap
					h, err := fg.WriteHostname("mc.example.org", d)
					if err != nil {
						outs[k] = "err"
						return
					}
					hosts[k], outs[k] = h, "ok"
				}
			}(k)
		}
		close(start)
		wg.Wait()
		for k := 0; k < g; k++ {
			rec := tracefmt.Rec{"ev": "write", "kind": "concurrent", "fields": codesList(fs[k]), "orig": codes("mc.example.org"),
				"nul": false, "out": outs[k]}
			if outs[k] == "ok" {
				ro, rf, ok := refDecode(key, hosts[k])
				rec["ref"] = map[string]any{"ok": ok, "orig": codes(ro), "fields": codesList(rf)}
			}
			tw.Emit(rec)
			st.ConcW++
		}
	}
	if err := tw.Close(); err != nil {
		t.Fatal(err)
	}
	if err := tracefmt.WriteJSON("stats.json", st); err != nil {
		t.Fatal(err)
	}
}
