//go:build verif

// C20 harness: Velocity modern forwarding.
//
//	neg    the real findForwardingVersion for requested 0..255 x every supported protocol x key revision
//	fwd    forwarding payloads: (live) a fake Paper backend requests forwarding from the live proxy in
//	       velocity mode and records the login plugin response; (shim) CreateForwardingData for fake
//	       players that carry keys. Each payload is MAC-checked with crypto/hmac and parsed by a parser
//	       written after Paper's VelocityProxy; both results are only logged.
//	noreq  a backend that sends login success without requesting forwarding.
//
// Forwarding_Trace.tla judges every line.
package c20

import (
	"crypto/hmac"
	"crypto/sha256"
	"encoding/binary"
	"encoding/json"
	"errors"
	"fmt"
	"math/rand"
	"net"
	"os"
	"path/filepath"
	"sort"
	"strings"
	"sync"
	"testing"
	"time"
	"unicode/utf8"

	"github.com/robinbraemer/event"

	"go.minekube.com/gate/pkg/edition/java/config"
	"go.minekube.com/gate/pkg/edition/java/profile"
	"go.minekube.com/gate/pkg/edition/java/proto/version"
	"go.minekube.com/gate/pkg/edition/java/proxy"
	"go.minekube.com/gate/pkg/util/uuid"

	"verif/harness/mcwire"
	"verif/harness/rig"
	"verif/harness/tracefmt"
)

// the live proxy's configured secret: leading and trailing white space belongs to it
const secret = " \ta velocity secret \x00 with ü \n"

// secrets for shim payloads (the MAC is verified under the secret exactly as configured)
var shimSecrets = []string{secret, "plain-secret", "trailing-newline\n", "trailing-crlf\r\n", " leading-space",
	"\tleading-tab", "trailing-space ", "trailing-tab\t", "   ", "\n", "in the middle"}

func supported() (list []int) {
	for _, v := range version.SupportedVersions {
		list = append(list, int(v.Protocol))
	}
	sort.Ints(list)
	return
}

// TestVersions dumps the proxy's own list of supported protocol numbers.
func TestVersions(t *testing.T) {
	if err := tracefmt.WriteJSON("versions.json", map[string]any{"supported": supported()}); err != nil {
		t.Fatal(err)
	}
}

func bs(s string) []int { return tracefmt.Bytes([]byte(s)) }

type propRec struct {
	Name  []int `json:"name"`
	Value []int `json:"value"`
	Sig   []int `json:"sig"`
}
type keyRec struct {
	Expiry []int `json:"expiry"` // four big-endian 16-bit limbs
	Pub    []int `json:"pub"`
	Sig    []int `json:"sig"`
	Holder []int `json:"holder"` // 16 bytes or empty
}

func noKey() keyRec {
	return keyRec{Expiry: []int{0, 0, 0, 0}, Pub: []int{}, Sig: []int{}, Holder: []int{}}
}

func limbs(v int64) []int {
	var b [8]byte
	binary.BigEndian.PutUint64(b[:], uint64(v))
	return []int{int(b[0])<<8 | int(b[1]), int(b[2])<<8 | int(b[3]), int(b[4])<<8 | int(b[5]), int(b[6])<<8 | int(b[7])}
}

type parsed struct {
	Version int       `json:"version"`
	IP      []int     `json:"ip"`
	UUID    []int     `json:"uuid"`
	Name    []int     `json:"name"`
	Props   []propRec `json:"props"`
	Key     keyRec    `json:"key"`
	Rest    int       `json:"rest"`
}

// readUtf is FriendlyByteBuf.readUtf(maxChars): VarInt byte length (at most 3*maxChars),
// UTF-8 text of at most maxChars characters.
func readUtf(rd *mcwire.Rd, maxChars int) (string, bool) {
	n := rd.VarInt()
	if rd.Err != nil || n < 0 || n > maxChars*3 {
		return "", false
	}
	b := rd.N(n)
	if rd.Err != nil || !utf8.Valid(b) || utf8.RuneCount(b) > maxChars {
		return "", false
	}
	return string(b), true
}

// parsePaper reads the bytes after the signature the way Paper's login listener does:
// version = readVarInt; readAddress; createProfile (readUUID, readUtf(16), readProperties);
// for versions 2/3 readForwardedKey (long, byte[<=512], byte[<=4096]) and for 3 the optional signer uuid.
func parsePaper(data []byte) (bool, parsed) {
	p := parsed{IP: []int{}, UUID: []int{}, Name: []int{}, Props: []propRec{}, Key: noKey()}
	rd := mcwire.NewRd(data)
	p.Version = rd.VarInt()
	ip, ok := readUtf(rd, 32767)
	if !ok {
		return false, p
	}
	p.IP = bs(ip)
	id := rd.UUID()
	p.UUID = tracefmt.Bytes(id[:])
	name, ok := readUtf(rd, 16)
	if !ok {
		return false, p
	}
	p.Name = bs(name)
	n := rd.VarInt()
	if rd.Err != nil || n < 0 {
		return false, p
	}
	for i := 0; i < n; i++ {
		pn, ok1 := readUtf(rd, 32767)
		pv, ok2 := readUtf(rd, 32767)
		if !ok1 || !ok2 {
			return false, p
		}
		r := propRec{Name: bs(pn), Value: bs(pv), Sig: []int{}}
		if rd.Bool() {
			ps, ok3 := readUtf(rd, 32767)
			if !ok3 || ps == "" { // an empty signature cannot be told from none afterwards
				return false, p
			}
			r.Sig = bs(ps)
		}
		p.Props = append(p.Props, r)
	}
	if p.Version == 2 || p.Version == 3 {
		p.Key.Expiry = limbs(rd.I64())
		kl := rd.VarInt()
		if rd.Err != nil || kl < 0 || kl > 512 {
			return false, p
		}
		p.Key.Pub = tracefmt.Bytes(rd.N(kl))
		sl := rd.VarInt()
		if rd.Err != nil || sl < 0 || sl > 4096 {
			return false, p
		}
		p.Key.Sig = tracefmt.Bytes(rd.N(sl))
		if p.Version == 3 && rd.Bool() {
			h := rd.UUID()
			p.Key.Holder = tracefmt.Bytes(h[:])
		}
	}
	if rd.Err != nil {
		return false, p
	}
	p.Rest = rd.Len()
	return true, p
}

func macOK(sec string, payload []byte) bool {
	if len(payload) < 32 {
		return false
	}
	m := hmac.New(sha256.New, []byte(sec))
	m.Write(payload[32:])
	return hmac.Equal(m.Sum(nil), payload[:32])
}

type want struct {
	IP    []int     `json:"ip"`
	UUID  []int     `json:"uuid"`
	Name  []int     `json:"name"`
	Props []propRec `json:"props"`
	Key   keyRec    `json:"key"`
}

func fwdRec(src, sec string, proto int, key string, req int, payload []byte, w want) tracefmt.Rec {
	rec := tracefmt.Rec{"ev": "fwd", "src": src, "proto": proto, "key": key, "req": req, "want": w,
		"macok": macOK(sec, payload), "macwrong": macOK(sec+"u", payload), "secret": bs(sec), "data": []int{}, "parsed": false}
	var p parsed
	ok := false
	if len(payload) >= 32 {
		rec["data"] = tracefmt.Bytes(payload[32:])
		ok, p = parsePaper(payload[32:])
	} else {
		_, p = parsePaper(nil)
	}
	rec["parsed"], rec["p"] = ok, p
	return rec
}

var propSets = [][]profile.Property{
	nil,
	{},
	{{Name: "textures", Value: "dmFsdWU9PQ==", Signature: "c2lnbmF0dXJl"}},
	{{Name: "textures", Value: "dmFsdWU9PQ=="}},
	{{Name: "textures", Value: strings.Repeat("QUJDRA0K+/", 120), Signature: strings.Repeat("c2ln", 170)}, {Name: "other", Value: ""}},
	{{Name: `na"me\`, Value: "a\x00b\x01c ü€😀", Signature: "s"}, {Name: "", Value: "<&>"}, {Name: "x", Value: "y", Signature: "z"}},
	// payloads beyond 2 KiB (a signed skin plus a second signed property) ...
	{{Name: "textures", Value: strings.Repeat("QUJDRA0K+/", 140), Signature: strings.Repeat("c2ln", 171)},
		{Name: "cape", Value: strings.Repeat("Y2FwZQ==", 60), Signature: strings.Repeat("c2ln", 171)}},
	// ... and beyond 4 KiB / 8 KiB (many properties, long values)
	manyProps(40, 90),
	{{Name: "textures", Value: strings.Repeat("QUJDRA0K+/", 500), Signature: strings.Repeat("c2ln", 700)}, {Name: "k", Value: strings.Repeat("v", 1200)}},
}

func manyProps(n, ln int) []profile.Property {
	var out []profile.Property
	for i := 0; i < n; i++ {
		p := profile.Property{Name: fmt.Sprintf("prop-%02d", i), Value: strings.Repeat(string(rune('a'+i%26)), ln)}
		if i%3 == 0 {
			p.Signature = strings.Repeat("S", 30)
		}
		out = append(out, p)
	}
	return out
}

func sizeClass(src string, n int) string {
	switch {
	case n > 8192:
		return src + "_payload>8192"
	case n > 4096:
		return src + "_payload>4096"
	case n > 2048:
		return src + "_payload>2048"
	}
	return src + "_payload<=2048"
}

func propRecs(ps []profile.Property) []propRec {
	out := []propRec{}
	for _, p := range ps {
		out = append(out, propRec{bs(p.Name), bs(p.Value), bs(p.Signature)})
	}
	return out
}

type scen struct {
	Req   int    `json:"req"`
	Proto int    `json:"proto"`
	Key   string `json:"key"`
}

type live struct {
	id    uuid.UUID
	props []profile.Property
	mode  string // "req" | "noreq" | "noreq-other" (asks a proxy plugin something on another channel, never forwarding)
	data  []byte // forwarding request data
	done  chan result
}
type result struct {
	resp   rig.VelocityResponse
	err    error
	other  bool // a proxy plugin answered the backend's other login plugin request successfully
	joined bool // the backend's side of the join went through
	closed bool // the proxy closed the backend connection
}

func TestTrace(t *testing.T) {
	b, err := os.ReadFile(filepath.Join(tracefmt.OutDir(), "scen.json"))
	if err != nil {
		t.Fatal(err)
	}
	var scens []scen
	if err := json.Unmarshal(b, &scens); err != nil {
		t.Fatal(err)
	}
	tw, err := tracefmt.Create("trace.ndjson")
	if err != nil {
		t.Fatal(err)
	}
	seed := tracefmt.Seed()
	rng := rand.New(rand.NewSource(seed))
	var samples []any
	stats := map[string]int{}

	// ---- (a) the negotiation table through the shim
	for _, p := range supported() {
		for _, k := range []string{"none", "v1", "v2"} {
			pl := &proxy.VerifC20Player{Proto: p}
			if k != "none" {
				pl.Key = &proxy.VerifC20Key{Rev: k}
			}
			row := make([]int, 256)
			for r := 0; r < 256; r++ {
				row[r] = proxy.VerifC20FindForwardingVersion(r, pl)
			}
			tw.Emit(tracefmt.Rec{"ev": "neg", "proto": p, "key": k, "got": row})
			stats["neg_rows"]++
		}
	}

	// ---- (b) payloads for fake players (the only way to reach key-carrying versions)
	ips := []string{"127.0.0.1", "192.168.1.77", "2001:db8::1", "::ffff:10.0.0.1", "fe80::1%eth0"}
	names := []string{"a", "Notch", "sixteen_chars_16", "_x_"}
	for i, s := range scens {
		pl := &proxy.VerifC20Player{Proto: s.Proto, Name: names[(i+int(seed))%len(names)], Props: propSets[(i+int(seed))%len(propSets)]}
		rng.Read(pl.UUID[:])
		if i%7 == 0 {
			pl.UUID[0], pl.UUID[1] = 0, 0
		}
		w := want{Key: noKey()}
		if s.Key != "none" {
			k := &proxy.VerifC20Key{Rev: s.Key, Pub: make([]byte, 294), Sig: make([]byte, []int{256, 512, 0}[i%3])}
			rng.Read(k.Pub)
			rng.Read(k.Sig)
			k.ExpiryMs = rng.Int63n(1<<42) - int64(i%2)*(1<<41)
			if i%3 != 0 {
				rng.Read(k.Holder[:])
			}
			pl.Key = k
			w.Key = keyRec{Expiry: limbs(k.ExpiryMs), Pub: tracefmt.Bytes(k.Pub), Sig: tracefmt.Bytes(k.Sig), Holder: []int{}}
			if k.Holder != uuid.Nil {
				w.Key.Holder = tracefmt.Bytes(k.Holder[:])
			}
		}
		ip := ips[(i/3)%len(ips)]
		w.IP, w.UUID, w.Name, w.Props = bs(ip), tracefmt.Bytes(pl.UUID[:]), bs(pl.Name), propRecs(pl.Props)
		sec := shimSecrets[(i+int(seed))%len(shimSecrets)]
		payload, err := proxy.VerifC20CreateForwardingData([]byte(sec), ip, pl, s.Req)
		if err != nil {
			t.Fatalf("CreateForwardingData(%+v): %v", s, err)
		}
		rec := fwdRec("shim", sec, s.Proto, s.Key, s.Req, payload, w)
		tw.Emit(rec)
		stats["shim_payloads"]++
		stats[sizeClass("shim", len(payload))]++
		if v := rec["p"].(parsed).Version; v == 2 || v == 3 {
			stats["shim_payloads_with_key"]++
			if len(samples) < 1 {
				samples = append(samples, map[string]any{"src": "shim", "proto": s.Proto, "key": s.Key, "requested": s.Req,
					"version": v, "payload_bytes": len(payload), "macok": rec["macok"]})
			}
		}
	}

	// ---- (c) the live proxy in velocity mode
	var mu sync.Mutex
	lives := map[string]*live{}
	get := func(name string) *live { mu.Lock(); defer mu.Unlock(); return lives[name] }
	be, err := rig.NewBackend(func(bc *rig.BackendConn) {
		if err := bc.ReadLogin(); err != nil {
			return
		}
		lv := get(bc.Name)
		if lv == nil {
			return
		}
		var res result
		if lv.mode == "req" {
			res.resp, res.err = bc.RequestVelocityForwarding(7, lv.data)
			if res.err != nil {
				lv.done <- res
				return
			}
		}
		if lv.mode == "noreq-other" {
			// a login plugin request on a channel that a proxy plugin (event subscriber) answers
			req := (&mcwire.Buf{}).VarInt(9).String("verif:other").Raw([]byte("verif-ping")).B
			if err := bc.WritePacket(rig.LoginPluginMsg, req); err != nil {
				return
			}
			for i := 0; i < 50; i++ {
				p, err := bc.ReadPacket()
				if err != nil {
					return
				}
				if p.ID == rig.SBLoginPluginResp {
					rd := mcwire.NewRd(p.Data)
					if rd.VarInt() == 9 {
						res.other = rd.Bool()
						break
					}
				}
			}
		}
		if bc.Proto >= rig.P1_20 && bc.Proto <= rig.P1_20_3 {
			res.joined = bc.CompleteJoin(-1) == nil
		} else {
			// no JoinGame layout for this version in the rig: send login success and watch what the proxy does
			id := bc.UUID
			if !bc.HasUUID {
				id = rig.OfflineUUID(bc.Name)
			}
			_ = bc.WritePacket(rig.LoginSuccessID, rig.LoginSuccessPayload(bc.Proto, id, bc.Name))
		}
		if lv.mode != "req" {
			// the proxy must refuse: wait (generously) for it to close this connection
			bc.Conn.Timeout = 10 * time.Second
			for {
				if _, err := bc.ReadPacket(); err != nil {
					var ne net.Error
					res.closed = !(errors.As(err, &ne) && ne.Timeout())
					break
				}
			}
		}
		lv.done <- res
		if lv.mode == "req" && res.joined {
			bc.Pump()
		}
	})
	if err != nil {
		t.Fatal(err)
	}
	defer be.Close()
	mgr := event.New()
	event.Subscribe(mgr, 0, func(e *proxy.GameProfileRequestEvent) {
		if lv := get(e.Original().Name); lv != nil {
			e.SetGameProfile(profile.GameProfile{ID: lv.id, Name: e.Original().Name, Properties: lv.props})
		}
	})
	// a proxy plugin that answers login plugin requests of backends (on whatever channel) whose body is verif-ping
	event.Subscribe(mgr, 0, func(e *proxy.ServerLoginPluginMessageEvent) {
		if string(e.Contents()) == "verif-ping" {
			e.Result().Response = []byte("verif-pong")
		}
	})
	r, err := rig.New(rig.Options{EventMgr: mgr, Backends: map[string]*rig.Backend{"paper": be}, Try: []string{"paper"},
		Mutate: func(c *config.Config) {
			c.Forwarding.Mode = config.VelocityForwardingMode
			c.Forwarding.VelocitySecret = secret
			c.ForceKeyAuthentication = false // let 1.19-1.19.2 clients without a signed key in
		}})
	if err != nil {
		t.Fatal(err)
	}
	defer r.Close()

	type job struct {
		proto int
		mode  string
		req   int
		data  []byte
	}
	var jobs []job
	liveProtos := map[int]bool{}
	for _, s := range scens {
		if s.Key != "none" || s.Proto < rig.P1_13 {
			continue
		}
		liveProtos[s.Proto] = true
		jobs = append(jobs, job{s.Proto, "req", s.Req, []byte{byte(s.Req)}})
	}
	for p := range liveProtos {
		jobs = append(jobs, job{p, "req", -1, nil}, job{p, "req", -1, []byte{4, 4}}, job{p, "noreq", 0, nil}, job{p, "noreq-other", 0, nil})
	}
	var wg sync.WaitGroup
	lostProtos := map[int]int{}
	sem := make(chan struct{}, 12)
	for i, j := range jobs {
		i, j := i, j
		wg.Add(1)
		sem <- struct{}{}
		go func() {
			defer wg.Done()
			defer func() { <-sem }()
			name := fmt.Sprintf("v%d_%d", seed%1000, i)
			lv := &live{mode: j.mode, data: j.data, done: make(chan result, 1), props: propSets[(i+int(seed))%len(propSets)]}
			for x := range lv.id {
				lv.id[x] = byte((i*37 + x*x*11 + int(seed)*3) % 256)
			}
			mu.Lock()
			lives[name] = lv
			mu.Unlock()
			ip := fmt.Sprintf("127.%d.%d.%d", 1+i%5, (i/200)%250, 2+i%200)
			c, err := r.DialFrom(ip)
			if err != nil {
				t.Errorf("dial from %s: %v", ip, err)
				return
			}
			defer c.Close()
			local, _, _ := net.SplitHostPort(c.C.LocalAddr().String())
			if err := c.WritePacket(0, rig.HandshakePayload(j.proto, "play.example.com", 25565, 2)); err != nil {
				t.Error(err)
				return
			}
			if err := c.WritePacket(rig.SBLoginStart, rig.LoginStartPayload(j.proto, name, rig.OfflineUUID(name))); err != nil {
				t.Error(err)
				return
			}
			gone := make(chan struct{})
			go func() { clientFollow(c, j.proto); close(gone) }()
			var res result
			got := false
			select {
			case res = <-lv.done:
				got = true
			case <-gone: // the proxy dropped the client: the backend's report, if any, is already on its way
				select {
				case res = <-lv.done:
					got = true
				case <-time.After(12 * time.Second):
				}
			case <-time.After(30 * time.Second):
			}
			mu.Lock()
			defer mu.Unlock()
			if !got {
				stats["live_unreached"]++
				lostProtos[j.proto]++
				return
			}
			switch j.mode {
			case "req":
				if res.err != nil {
					stats["live_no_response"]++
					return
				}
				w := want{IP: bs(local), UUID: tracefmt.Bytes(lv.id[:]), Name: bs(name), Props: propRecs(lv.props), Key: noKey()}
				rec := fwdRec("live", secret, j.proto, "none", j.req, res.resp.Data, w)
				rec["success"] = res.resp.Success
				tw.Emit(rec)
				stats["live_payloads"]++
				stats[sizeClass("live", len(res.resp.Data))]++
				if res.joined {
					stats["live_joined_after_request"]++
				}
				if len(samples) < 3 && j.req >= 4 {
					samples = append(samples, map[string]any{"src": "live", "proto": j.proto, "requested": j.req,
						"version": rec["p"].(parsed).Version, "ip": local, "macok": rec["macok"], "payload_bytes": len(res.resp.Data)})
				}
			case "noreq", "noreq-other":
				connected := false
				if pl := r.P.PlayerByName(name); pl != nil {
					if cs := pl.CurrentServer(); cs != nil && cs.Server().ServerInfo().Name() == "paper" {
						connected = true
					}
				}
				if !res.closed && !connected {
					stats["noreq_inconclusive"]++ // neither closed nor connected within the wait: no statement
					return
				}
				tw.Emit(tracefmt.Rec{"ev": "noreq", "proto": j.proto, "connected": connected, "closed": res.closed, "joined": res.joined,
					"otherchannel": j.mode == "noreq-other", "otheranswered": res.other})
				stats["noreq"]++
				if res.other {
					stats["noreq_after_plugin_answered_other_channel"]++
				}
			}
		}()
	}
	wg.Wait()
	if err := tw.Close(); err != nil {
		t.Fatal(err)
	}
	tracefmt.WriteJSON("stats.json", map[string]any{"stats": stats, "samples": samples, "events": tw.N, "live_protos": len(liveProtos),
		"unreached_protos": lostProtos})
}

// clientFollow plays the client side of a login: compression, login acknowledged, plugin
// requests answered "not understood", configuration finished when the proxy asks.
func clientFollow(c *mcwire.Conn, proto int) {
	c.Timeout = 30 * time.Second
	state := "login"
	for {
		p, err := c.ReadPacket()
		if err != nil {
			return
		}
		if state == "login" {
			switch p.ID {
			case rig.LoginSetCompress:
				c.SetCompression(mcwire.NewRd(p.Data).VarInt())
			case rig.LoginSuccessID:
				if proto >= rig.P1_20_2 {
					_ = c.WritePacket(rig.SBLoginAck, nil)
					state = "config"
				} else {
					state = "play"
				}
			case rig.LoginPluginMsg:
				id := mcwire.NewRd(p.Data).VarInt()
				_ = c.WritePacket(rig.SBLoginPluginResp, (&mcwire.Buf{}).VarInt(id).Bool(false).B)
			}
			continue
		}
		if state == "config" {
			fin := 0x02
			if proto >= rig.P1_20_5 {
				fin = 0x03
			}
			if p.ID == fin {
				_ = c.WritePacket(fin, nil)
				state = "play"
			}
		}
	}
}
