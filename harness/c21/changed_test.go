//go:build verif

package c21

import (
	"testing"
	"time"

	"github.com/robinbraemer/event"
	"go.minekube.com/gate/pkg/edition/java/config"
	"go.minekube.com/gate/pkg/edition/java/proto/packet/chat"
	"go.minekube.com/gate/pkg/edition/java/proto/version"
	"go.minekube.com/gate/pkg/edition/java/proxy"
	"go.minekube.com/gate/pkg/gate/proto"

	"verif/harness/playfix"
	"verif/harness/tracefmt"
)

// TestChangedSignedChat: a plugin changes a signed chat message while
// forceKeyAuthentication is on (the proxy must give up on the player).  Own process:
// the reaction runs in a chat queue goroutine, where a panic ends the process.
func TestChangedSignedChat(t *testing.T) {
	tw, err := tracefmt.Create("changed_begin.ndjson")
	if err != nil {
		t.Fatal(err)
	}
	env, err := playfix.NewEnv(func(c *config.Config) { c.ForceKeyAuthentication = true })
	if err != nil {
		t.Fatal(err)
	}
	event.Subscribe(env.Events, 0, func(e *proxy.PlayerChatEvent) { e.SetMessage("changed by plugin") })
	pl, err := env.NewPlay("chg", version.Minecraft_1_20_3.Protocol, nil)
	if err != nil {
		t.Fatal(err)
	}
	outs := 0
	pl.Backend.OnWrite = func(proto.Packet) { outs++ }
	tw.Emit(tracefmt.Rec{"ev": "begin", "mode": "changed-signed-chat"})
	_ = tw.Close()
	now := time.Now()
	// a command first, so that the chat task is started by the command's completion (asynchronously)
	pl.FromClient(&chat.SessionPlayerCommand{Command: "nosuchcommand", Timestamp: now})
	pl.FromClient(&chat.SessionPlayerChat{Message: "hello", Timestamp: now.Add(time.Millisecond), Signed: true,
		Signature: make([]byte, 256)})
	idle := pl.WaitChatIdle(3 * time.Second)
	tw2, _ := tracefmt.Create("changed_end.ndjson")
	tw2.Emit(tracefmt.Rec{"ev": "returned", "mode": "changed-signed-chat", "idle": idle, "disc": pl.Closed(), "bytes": 1 + outs})
	_ = tw2.Close()
}
