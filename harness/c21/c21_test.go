//go:build verif

// C21 harness: replays TLC-generated histories (client packet sequence x command
// outcomes x completion order of the asynchronous phases) on the real play session
// handler / chat handler / chat queue and records what the backend connection
// received.  Chat_Trace.tla judges; Go only drives and records.
package c21

import (
	"encoding/json"
	"fmt"
	"os"
	"path/filepath"
	"sync"
	"testing"
	"time"

	"github.com/robinbraemer/event"
	"go.minekube.com/brigodier"
	"go.minekube.com/gate/pkg/command"
	"go.minekube.com/gate/pkg/edition/java/config"
	"go.minekube.com/gate/pkg/edition/java/proto/packet/chat"
	"go.minekube.com/gate/pkg/edition/java/proto/version"
	"go.minekube.com/gate/pkg/edition/java/proxy"
	"go.minekube.com/gate/pkg/gate/proto"
	"go.minekube.com/gate/pkg/verifexport"

	"verif/harness/playfix"
	"verif/harness/tracefmt"
)

type pkt struct {
	K   string `json:"k"`
	Off int    `json:"off"`
	Out string `json:"out"`
	Sig bool   `json:"sig"`
}

type history struct {
	Sent   []pkt    `json:"sent"`
	Sched  []string `json:"sched"`
	Fka    bool     `json:"fka"`
	Ucmd   bool     `json:"ucmd"`
	Origin string   `json:"origin"`
}

type stats struct {
	Runs      int            `json:"runs"`
	Diverged  int            `json:"diverged_steps"`
	Hung      int            `json:"hung"`
	Discs     int            `json:"disconnects"`
	Outs      map[string]int `json:"outs"`
	Gates     map[string]int `json:"gate_arrivals"`
	Executed  int            `json:"proxy_command_runs"`
	Events    int            `json:"events"`
	Samples   []any          `json:"samples"`
	ByOrigin  map[string]int `json:"by_origin"`
	ParkedMax int            `json:"parked_max"`
}

// ticket is a goroutine parked at a gate.
type ticket struct {
	name    string
	release chan struct{}
}

// gates parks the asynchronous phases of the chat queue's running task.
type gates struct {
	mu     sync.Mutex
	on     bool
	arrive chan *ticket
	counts map[string]int
}

func (g *gates) park(name string) {
	g.mu.Lock()
	g.counts[name]++
	on := g.on
	g.mu.Unlock()
	if !on {
		return
	}
	t := &ticket{name: name, release: make(chan struct{})}
	g.arrive <- t
	<-t.release
}

type outcome struct {
	out  string
	rtxt string
	via  int
}

type env struct {
	*playfix.Env
	mu       sync.Mutex
	outcomes map[string]outcome
	runs     int
}

func newEnv(fka bool) (*env, error) {
	pe, err := playfix.NewEnv(func(c *config.Config) { c.ForceKeyAuthentication = fka })
	if err != nil {
		return nil, err
	}
	e := &env{Env: pe, outcomes: map[string]outcome{}}
	event.Subscribe(pe.Events, 0, func(ev *proxy.CommandExecuteEvent) {
		e.mu.Lock()
		o, ok := e.outcomes[ev.Command()]
		e.mu.Unlock()
		if !ok {
			return
		}
		switch o.out {
		case "forwarded":
			if o.via == 1 {
				ev.SetForward(true)
			} // else: no proxy command of that name exists
		case "rewritten":
			ev.SetCommand(o.rtxt)
			if o.via == 1 {
				ev.SetForward(true)
			}
		case "denied":
			ev.SetAllowed(false)
		case "consumed":
			// "vrun" is a registered proxy command
		}
	})
	pe.Proxy.Command().Register(brigodier.Literal("vrun").Executes(command.Command(func(c *command.Context) error {
		e.mu.Lock()
		e.runs++
		e.mu.Unlock()
		return nil
	})))
	return e, nil
}

func protoFor(ucmd bool, n int) proto.Protocol {
	if ucmd {
		return []proto.Protocol{version.Minecraft_1_21_4.Protocol, version.Minecraft_1_20_5.Protocol, version.Minecraft_1_21_5.Protocol}[n%3]
	}
	return []proto.Protocol{version.Minecraft_1_20_3.Protocol, version.Minecraft_1_19_4.Protocol, version.Minecraft_1_20_2.Protocol}[n%3]
}

func TestReplay(t *testing.T) {
	b, err := os.ReadFile(filepath.Join(tracefmt.OutDir(), "hist.json"))
	if err != nil {
		t.Fatal(err)
	}
	var hists []history
	if err := json.Unmarshal(b, &hists); err != nil {
		t.Fatal(err)
	}
	tw, err := tracefmt.Create("trace.ndjson")
	if err != nil {
		t.Fatal(err)
	}
	st := &stats{Outs: map[string]int{}, ByOrigin: map[string]int{}}
	g := &gates{arrive: make(chan *ticket, 64), counts: map[string]int{}}
	verifexport.InstallHook(func(gate bool, name string, kv []any) {
		if gate && name == "chat.create" {
			g.park(name)
		}
	})
	defer verifexport.InstallHook(nil)

	envs := map[bool]*env{}
	for _, fka := range []bool{false, true} {
		e, err := newEnv(fka)
		if err != nil {
			t.Fatal(err)
		}
		envs[fka] = e
	}
	settleTO := time.Duration(tracefmt.EnvInt("VERIF_SETTLE_MS", 5000)) * time.Millisecond

	for n, hs := range hists {
		e := envs[hs.Fka]
		pv := protoFor(hs.Ucmd, n)
		tw.Emit(tracefmt.Rec{"ev": "reset", "n": n, "fka": hs.Fka, "ucmd": hs.Ucmd, "proto": int(pv),
			"origin": hs.Origin, "sched": append([]string{}, hs.Sched...)})
		st.Runs++
		st.ByOrigin[hs.Origin]++
		pl, err := e.NewPlay(fmt.Sprintf("p%d", n), pv, nil)
		if err != nil {
			t.Fatal(err)
		}
		pl.Client.OnClose = func() { tw.Emit(tracefmt.Rec{"ev": "disc"}) }
		pl.Backend.OnWrite = func(p proto.Packet) {
			g.park("backend.write")
			r := tracefmt.Rec{"ev": "out"}
			switch x := p.(type) {
			case *chat.SessionPlayerChat:
				r["k"], r["off"], r["txt"] = "chat", x.LastSeenMessages.Offset, x.Message
			case *chat.SessionPlayerCommand:
				r["k"], r["off"], r["txt"] = "scmd", x.LastSeenMessages.Offset, x.Command
			case *chat.UnsignedPlayerCommand:
				r["k"], r["off"], r["txt"] = "ucmd", 0, x.Command
			case *chat.ChatAcknowledgement:
				r["k"], r["off"], r["txt"] = "ack", x.Offset, ""
			default:
				r["k"], r["off"], r["txt"] = fmt.Sprintf("other:%T", p), 0, ""
			}
			st.Outs[r["k"].(string)]++
			tw.Emit(r)
		}

		e.mu.Lock()
		e.outcomes = map[string]outcome{}
		e.mu.Unlock()
		g.mu.Lock()
		g.on = true
		g.mu.Unlock()

		var outstanding *ticket
		hung := false
		// waitSettle: the chain either parks at the next gate or runs dry.
		waitSettle := func() {
			idle := make(chan struct{}, 1)
			pl.ChatIdle(func() { idle <- struct{}{} })
			select {
			case tk := <-g.arrive:
				outstanding = tk
			case <-idle:
			case <-time.After(settleTO):
				hung = true
			}
		}
		base := time.Now()
		next := 0
		recv := func() {
			if next >= len(hs.Sent) || pl.Closed() {
				st.Diverged++
				next = len(hs.Sent)
				return
			}
			i := next + 1
			q := hs.Sent[next]
			next++
			via := (n + i) % 2
			rec := tracefmt.Rec{"ev": "recv", "i": i, "k": q.K, "off": q.Off, "out": q.Out, "sig": q.Sig, "txt": "", "rtxt": "", "via": via}
			var p proto.Packet
			ts := base.Add(time.Duration(i) * time.Millisecond)
			switch q.K {
			case "chat":
				txt := fmt.Sprintf("m%d", i)
				rec["txt"] = txt
				p = &chat.SessionPlayerChat{Message: txt, Timestamp: ts, Salt: int64(i),
					LastSeenMessages: chat.LastSeenMessages{Offset: q.Off}}
			case "ack":
				p = &chat.ChatAcknowledgement{Offset: q.Off}
			case "scmd", "ucmd":
				txt := fmt.Sprintf("%s%d x", q.Out[:3], i)
				rtxt := ""
				switch q.Out {
				case "consumed":
					txt = "vrun"
				case "rewritten":
					rtxt = fmt.Sprintf("new%d y", i)
				}
				rec["txt"], rec["rtxt"] = txt, rtxt
				e.mu.Lock()
				e.outcomes[txt] = outcome{out: q.Out, rtxt: rtxt, via: via}
				e.mu.Unlock()
				sc := chat.SessionPlayerCommand{Command: txt, Timestamp: ts, Salt: int64(i)}
				if q.K == "scmd" {
					sc.LastSeenMessages = chat.LastSeenMessages{Offset: q.Off}
					if q.Sig {
						sc.ArgumentSignatures.Entries = []chat.ArgumentSignature{{Name: "x", Signature: make([]byte, 256)}}
					}
					p = &sc
				} else {
					p = &chat.UnsignedPlayerCommand{SessionPlayerCommand: sc}
				}
			default:
				t.Fatalf("bad packet kind %q", q.K)
			}
			tw.Emit(rec)
			pl.FromClient(p)
			if outstanding == nil {
				waitSettle()
			}
		}
		fin := func() {
			if outstanding == nil {
				st.Diverged++
				return
			}
			tk := outstanding
			outstanding = nil
			close(tk.release)
			waitSettle()
		}
		for _, s := range hs.Sched {
			if hung {
				break
			}
			if s == "recv" {
				recv()
			} else {
				fin()
			}
		}
		for next < len(hs.Sent) && !hung && !pl.Closed() {
			recv()
		}
		// drain: let everything complete
		for outstanding != nil && !hung {
			fin()
		}
		g.mu.Lock()
		g.on = false
		g.mu.Unlock()
		if hung || !pl.WaitChatIdle(settleTO) {
			st.Hung++
			tw.Emit(tracefmt.Rec{"ev": "hung", "n": n})
			// free whatever is parked so goroutines do not pile up
			for {
				select {
				case tk := <-g.arrive:
					close(tk.release)
					continue
				default:
				}
				break
			}
		} else {
			tw.Emit(tracefmt.Rec{"ev": "end"})
		}
		if pl.Closed() {
			st.Discs++
		}
		pl.Backend.OnWrite = func(proto.Packet) {}
		pl.Client.OnClose = func() {}
		_ = pl.Close()
		if n < 2 {
			st.Samples = append(st.Samples, hs)
		}
	}
	st.Events = tw.N
	st.Gates = g.counts
	for _, e := range envs {
		st.Executed += e.runs
	}
	if err := tw.Close(); err != nil {
		t.Fatal(err)
	}
	if err := tracefmt.WriteJSON("stats.json", st); err != nil {
		t.Fatal(err)
	}
}
