//go:build verif

// C32 harness: forces TLC-generated gate-point schedules on the real lite
// pingStatusCache (fake clock, loaders blocked on gates), runs free-running stress
// against it, and drives the real ResolveStatusResponse / Proxy.ApplyLiveConfig path
// end to end through a Lite proxy on TCP loopback. It records the observable history
// (request start/answer, backend fetch begin/end, reset begin/end, tick begin/end)
// that PingCacheHist_Trace.tla judges. Nothing is judged here.
package c32

import (
	"bytes"
	"encoding/json"
	"fmt"
	"io"
	"math/rand"
	"net"
	"os"
	"path/filepath"
	"runtime"
	"strconv"
	"strings"
	"sync"
	"sync/atomic"
	"syscall"
	"testing"
	"time"

	"context"

	"github.com/go-logr/logr"
	"go.minekube.com/common/minecraft/component"
	"go.minekube.com/gate/pkg/edition/java/lite"
	"go.minekube.com/gate/pkg/edition/java/lite/config"
	"go.minekube.com/gate/pkg/edition/java/netmc"
	"go.minekube.com/gate/pkg/edition/java/ping"
	"go.minekube.com/gate/pkg/edition/java/proto/packet"
	"go.minekube.com/gate/pkg/gate/proto"
	"go.minekube.com/gate/pkg/util/configutil"
	"golang.org/x/sync/singleflight"

	"verif/harness/literig"
	"verif/harness/sched"
	"verif/harness/tracefmt"
)

type op struct {
	Op  string `json:"op"`
	Key string `json:"key"`
}

type schedule struct {
	Prog  map[string]op `json:"prog"`
	Sched []string      `json:"sched"`
}

type stats struct {
	Schedules   int                `json:"schedules"`
	Blocked     int                `json:"blocked_steps"`
	Unknown     int                `json:"unknown_steps"`
	Unfinished  int                `json:"unfinished"`
	Stress      int                `json:"stress_runs"`
	SlowFetch   int                `json:"slow_fetch_runs"`
	E2ERuns     int                `json:"e2e_runs"`
	E2EReq      int                `json:"e2e_requests"`
	E2EReloads  int                `json:"e2e_reloads"`
	Resolves    int                `json:"resolves"`
	Fallbacks   int                `json:"fallback_answers"`
	Gone        int                `json:"requester_gone_scenarios"`
	Hangs       int                `json:"dial_timeout_scenarios"`
	Events      int                `json:"events"`
	GateArrival map[string]int     `json:"gate_arrivals"`
	Stored      map[string]int     `json:"store_events"`
	Timing      map[string]float64 `json:"section_seconds"`
	Samples     []any              `json:"samples"`
}

func gid() uint64 {
	var buf [64]byte
	b := buf[:runtime.Stack(buf[:], false)]
	b = bytes.TrimPrefix(b, []byte("goroutine "))
	i := bytes.IndexByte(b, ' ')
	n, _ := strconv.ParseUint(string(b[:i]), 10, 64)
	return n
}

// flight group whose call goroutine becomes the schedulable thread <leader>f
type flightGroup struct {
	g     singleflight.Group
	c     *sched.Controller
	names sync.Map // goroutine id -> thread name
}

func (f *flightGroup) DoChan(key string, fn func() (any, error)) <-chan singleflight.Result {
	leader, _ := f.names.Load(gid())
	return f.g.DoChan(key, func() (any, error) {
		if f.c != nil && leader != nil {
			done := f.c.Adopt(leader.(string) + "f")
			defer done()
		}
		return fn()
	})
}

const (
	ttl      = time.Hour
	tickStep = 90 * time.Minute // one tick is more than the TTL: TTLTicks = 1
)

type cacheRig struct {
	cache   *lite.VerifPingCache
	fg      *flightGroup
	offset  atomic.Int64
	nextF   atomic.Int64
	tw      *tracefmt.Writer
	gate    bool
	inFetch func() // runs while the loader is fetching (between fbegin and fend)
}

func newCacheRig(tw *tracefmt.Writer, c *sched.Controller) *cacheRig {
	r := &cacheRig{tw: tw, fg: &flightGroup{c: c}, gate: c != nil}
	r.cache = lite.VerifNewPingCache(func() time.Time {
		return time.Now().Add(time.Duration(r.offset.Load()))
	}, r.fg)
	return r
}

// cacheKey maps the model's abstract keys to cache keys: "a" and "b" are the same backend asked
// with different client protocols, any other key is another backend.
func cacheKey(key string) (backend string, protocol int) {
	switch key {
	case "a":
		return "x.example:25565", 765
	case "b":
		return "x.example:25565", 47
	}
	return key + ".example:25565", 765
}

func (r *cacheRig) load(name, key string) {
	r.fg.names.Store(gid(), name)
	r.tw.Emit(tracefmt.Rec{"ev": "start", "r": name, "key": key})
	// the cache stamps expiry with the wall clock but compares it with the injected
	// clock (wall clock + offset): adding the current offset to the TTL keeps the two
	// consistent for entries stored after a tick
	ttlNow := ttl + time.Duration(r.offset.Load())
	backend, protocol := cacheKey(key)
	v, _ := r.cache.Load(backend, protocol, 0, ttlNow, func() (string, error) {
		f := int(r.nextF.Add(1))
		r.tw.Emit(tracefmt.Rec{"ev": "fbegin", "f": f, "key": key, "r": name})
		if r.gate {
			lite.VerifPoint("pc.loader")
		} else {
			runtime.Gosched()
		}
		if f := r.inFetch; f != nil {
			f()
		}
		r.tw.Emit(tracefmt.Rec{"ev": "fend", "f": f})
		return "v" + strconv.Itoa(f), nil
	})
	id, _ := strconv.Atoi(strings.TrimPrefix(v, "v"))
	r.tw.Emit(tracefmt.Rec{"ev": "end", "r": name, "v": id})
}

func (r *cacheRig) reset() {
	r.tw.Emit(tracefmt.Rec{"ev": "rbegin"})
	r.cache.Reset()
	r.tw.Emit(tracefmt.Rec{"ev": "rend"})
}

func (r *cacheRig) tick() {
	r.tw.Emit(tracefmt.Rec{"ev": "tbegin"})
	r.offset.Add(int64(tickStep))
	r.tw.Emit(tracefmt.Rec{"ev": "tend"})
}

func TestSchedules(t *testing.T) {
	b, err := os.ReadFile(filepath.Join(tracefmt.OutDir(), "sched.json"))
	if err != nil {
		t.Fatal(err)
	}
	var scheds []schedule
	if err := json.Unmarshal(b, &scheds); err != nil {
		t.Fatal(err)
	}
	tw, err := tracefmt.Create("trace.ndjson")
	if err != nil {
		t.Fatal(err)
	}
	st := stats{GateArrival: map[string]int{}, Stored: map[string]int{}, Timing: map[string]float64{}}
	lapT := time.Now()
	lap := func(name string) { st.Timing[name] = time.Since(lapT).Seconds(); lapT = time.Now() }
	step := time.Duration(tracefmt.EnvInt("VERIF_STEP_MS", 3)) * time.Millisecond

	for i, s := range scheds {
		tw.Emit(tracefmt.Rec{"ev": "reset", "n": i})
		c := sched.New(nil, "pc.miss", "pc.flight.enter", "pc.loader", "pc.flight.loaded", "pc.reset.enter", "pc.reset.mid")
		var mu sync.Mutex
		c.OnEvent = func(thread, name string, kv []any) {
			if name == "pc.store" {
				mu.Lock()
				st.Stored[fmt.Sprint(sched.KV(kv)["stored"])]++
				mu.Unlock()
			}
		}
		c.Install()
		rig := newCacheRig(tw, c)
		for name, p := range s.Prog {
			name, p := name, p
			c.Go(name, func() {
				switch p.Op {
				case "load":
					rig.load(name, p.Key)
				case "reset":
					rig.reset()
				case "tick":
					rig.tick()
				}
			})
		}
		var steps []string
		for _, name := range s.Sched {
			stt := c.Step(name, step)
			if strings.HasSuffix(name, "f") {
				// the flight goroutine registers itself when it starts: give it a moment
				for k := 0; k < 100 && stt == sched.Unknown; k++ {
					time.Sleep(200 * time.Microsecond)
					stt = c.Step(name, step)
				}
			}
			switch stt {
			case sched.Blocked:
				st.Blocked++
			case sched.Unknown:
				st.Unknown++
			}
			steps = append(steps, name+":"+string(stt)+"@"+c.At(name))
		}
		finished := c.Drain(30 * time.Second)
		c.Uninstall()
		st.Schedules++
		if !finished {
			st.Unfinished++
			tw.Emit(tracefmt.Rec{"ev": "hung", "n": i})
		} else {
			tw.Emit(tracefmt.Rec{"ev": "done"})
		}
		for _, e := range c.Log {
			if at := strings.IndexByte(e, '@'); at >= 0 {
				st.GateArrival[e[at+1:]]++
			}
		}
		if i < 2 {
			st.Samples = append(st.Samples, map[string]any{"prog": s.Prog, "sched": s.Sched, "steps": steps})
		}
	}

	lap("schedules")
	// free-running stress without gates (meaningful under -race)
	rng := rand.New(rand.NewSource(tracefmt.Seed()))
	nStress := tracefmt.EnvInt("VERIF_STRESS", 100)
	for i := 0; i < nStress; i++ {
		tw.Emit(tracefmt.Rec{"ev": "reset", "n": i})
		rig := newCacheRig(tw, nil)
		var wg sync.WaitGroup
		n := 3 + rng.Intn(8)
		for k := 0; k < n; k++ {
			name := "s" + strconv.Itoa(k)
			kind := rng.Intn(8)
			key := []string{"a", "a", "b", "c"}[rng.Intn(4)]
			delay := time.Duration(rng.Intn(300)) * time.Microsecond
			wg.Add(1)
			go func() {
				defer wg.Done()
				time.Sleep(delay)
				switch {
				case kind == 0:
					rig.reset()
				case kind == 1:
					rig.tick()
				default:
					rig.load(name, key)
				}
			}()
		}
		wg.Wait()
		tw.Emit(tracefmt.Rec{"ev": "done"})
		st.Stress++
	}

	lap("stress")
	// scripted histories: a fetch that takes longer than the TTL (the clock passes the TTL while the
	// loader runs), then requests after one to three further TTLs
	for during := 1; during <= 2; during++ {
		for after := 1; after <= 3; after++ {
			for _, key2 := range []string{"a", "b"} {
				tw.Emit(tracefmt.Rec{"ev": "reset", "kind": "slow-fetch", "n": during*10 + after})
				rig := newCacheRig(tw, nil)
				d := during
				rig.inFetch = func() {
					for k := 0; k < d; k++ {
						rig.tick()
					}
				}
				rig.load("q1", "a")
				rig.inFetch = nil
				for k := 0; k < after; k++ {
					rig.tick()
				}
				rig.load("q2", key2)
				rig.load("q3", "a")
				tw.Emit(tracefmt.Rec{"ev": "done"})
				st.SlowFetch++
			}
		}
	}
	lap("slow_fetch")
	e2eCache(t, tw, &st, rng, tracefmt.EnvInt("VERIF_E2E", 12))
	lap("e2e_cache")
	e2eFallback(t, tw, &st, rng, tracefmt.EnvInt("VERIF_RESOLVE", 40))
	lap("e2e_fallback")
	resolveGone(t, tw, &st, rng, tracefmt.EnvInt("VERIF_GONE", 8))
	lap("resolve_gone")

	st.Events = tw.N
	if err := tw.Close(); err != nil {
		t.Fatal(err)
	}
	if err := tracefmt.WriteJSON("stats.json", st); err != nil {
		t.Fatal(err)
	}
}

// ---------------------------------------------------------------- end to end

// readFrame reads one VarInt-framed packet payload.
func readFrame(c net.Conn) ([]byte, error) {
	var hdr []byte
	one := make([]byte, 1)
	for {
		if _, err := io.ReadFull(c, one); err != nil {
			return nil, err
		}
		hdr = append(hdr, one[0])
		if one[0]&0x80 == 0 {
			break
		}
		if len(hdr) > 5 {
			return nil, fmt.Errorf("bad frame length")
		}
	}
	n, _ := literig.ReadVarInt(hdr)
	p := make([]byte, n)
	_, err := io.ReadFull(c, p)
	return p, err
}

// handshakeHost extracts the server address of a handshake payload.
func handshakeHost(p []byte) string {
	if len(p) < 2 {
		return ""
	}
	i := 1
	_, n := literig.ReadVarInt(p[i:])
	i += n
	ln, n := literig.ReadVarInt(p[i:])
	i += n
	if n == 0 || i+int(ln) > len(p) {
		return ""
	}
	return string(p[i : i+int(ln)])
}

func statusJSON(text string) string {
	return `{"version":{"name":"verif","protocol":765},"players":{"max":1,"online":0},"description":{"text":"` + text + `"}}`
}

// statusClient sends handshake + status request and returns the description text of the
// answer ("" when the proxy closed the connection instead).
func statusClient(rig *literig.Rig, host string, protocol int32) (string, error) {
	c, err := rig.Dial()
	if err != nil {
		return "", err
	}
	defer c.Close()
	msg := literig.Frame(literig.HandshakePayload(protocol, host, 25565, 1, nil))
	msg = append(msg, literig.Frame([]byte{0x00})...)
	if _, err := c.Write(msg); err != nil {
		return "", err
	}
	_ = c.SetReadDeadline(time.Now().Add(30 * time.Second))
	p, err := readFrame(c)
	if err != nil {
		if ne, ok := err.(net.Error); ok && ne.Timeout() {
			return "", err
		}
		return "", nil // closed
	}
	if len(p) < 1 || p[0] != 0x00 {
		return "", fmt.Errorf("unexpected status answer %x", p)
	}
	ln, n := literig.ReadVarInt(p[1:])
	js := p[1+n:]
	if int(ln) != len(js) {
		return "", fmt.Errorf("bad status string length")
	}
	var sp struct {
		Description json.RawMessage `json:"description"`
	}
	if err := json.Unmarshal(js, &sp); err != nil {
		return "", fmt.Errorf("status json: %v: %s", err, js)
	}
	var d struct {
		Text string `json:"text"`
	}
	if json.Unmarshal(sp.Description, &d) != nil || d.Text == "" {
		var sdesc string
		_ = json.Unmarshal(sp.Description, &sdesc)
		d.Text = sdesc
	}
	return d.Text, nil
}

// e2eCache: histories of status requests and route reloads against one Lite proxy.
func e2eCache(t *testing.T, tw *tracefmt.Writer, st *stats, rng *rand.Rand, runs int) {
	for run := 0; run < runs; run++ {
		tw.Emit(tracefmt.Rec{"ev": "reset", "n": run, "kind": "e2e"})
		var nextF atomic.Int64
		slow := time.Duration(5+rng.Intn(25)) * time.Millisecond
		var bes []*literig.Backend
		for i := 0; i < 2; i++ {
			i := i
			be, err := literig.Listen("127.0.0.1:0")
			if err != nil {
				t.Fatal(err)
			}
			be.SetHandler(func(a *literig.Accepted) {
				defer a.Conn.Close()
				_ = a.Conn.SetDeadline(time.Now().Add(30 * time.Second))
				hs, err := readFrame(a.Conn)
				if err != nil {
					return
				}
				if _, err := readFrame(a.Conn); err != nil { // status request
					return
				}
				host := handshakeHost(hs)
				leader := strings.SplitN(host, ".", 2)[0]
				proto, _ := literig.ReadVarInt(hs[1:])
				f := int(nextF.Add(1))
				key := fmt.Sprintf("b%d/%d", i, proto)
				tw.Emit(tracefmt.Rec{"ev": "fbegin", "f": f, "key": key, "r": leader})
				time.Sleep(slow)
				tw.Emit(tracefmt.Rec{"ev": "fend", "f": f})
				js := statusJSON("v" + strconv.Itoa(f))
				_, _ = a.Conn.Write(literig.Frame(append([]byte{0x00}, literig.AppendString(nil, js)...)))
			})
			bes = append(bes, be)
		}
		mkRoutes := func(extra int) []config.Route {
			rs := []config.Route{
				{Host: []string{"*.s0.ex"}, Backend: []string{fmt.Sprintf("127.0.0.1:%d", bes[0].Port)},
					CachePingTTL: configutil.Duration(time.Hour)},
				{Host: []string{"*.s1.ex"}, Backend: []string{fmt.Sprintf("127.0.0.1:%d", bes[1].Port)},
					CachePingTTL: configutil.Duration(time.Hour)},
			}
			// a changing dummy route makes every reload a real route change
			rs = append(rs, config.Route{Host: []string{fmt.Sprintf("dummy%d.ex", extra)}, Backend: []string{"127.0.0.1:1"}})
			return rs
		}
		cfg := literig.NewConfig(mkRoutes(0), 5*time.Second)
		cfg.Bind = "127.0.0.1:25565"
		rig, err := literig.Start(cfg)
		if err != nil {
			t.Fatal(err)
		}
		reloads := 0
		var reqN atomic.Int64
		request := func(wg *sync.WaitGroup, be int, proto int32) {
			defer wg.Done()
			name := "r" + strconv.Itoa(int(reqN.Add(1)))
			key := fmt.Sprintf("b%d/%d", be, proto)
			tw.Emit(tracefmt.Rec{"ev": "start", "r": name, "key": key})
			text, err := statusClient(rig, fmt.Sprintf("%s.s%d.ex", name, be), proto)
			if err != nil {
				t.Errorf("status client: %v", err)
				return
			}
			if !strings.HasPrefix(text, "v") {
				tw.Emit(tracefmt.Rec{"ev": "closed", "r": name, "text": text})
				return
			}
			id, _ := strconv.Atoi(text[1:])
			tw.Emit(tracefmt.Rec{"ev": "end", "r": name, "v": id})
		}
		reload := func(wg *sync.WaitGroup) {
			defer wg.Done()
			reloads++
			cand := *rig.Cfg
			cand.Lite.Routes = mkRoutes(reloads)
			tw.Emit(tracefmt.Rec{"ev": "rbegin"})
			if err := rig.P.ApplyLiveConfig(&cand); err != nil {
				t.Errorf("ApplyLiveConfig: %v", err)
			}
			tw.Emit(tracefmt.Rec{"ev": "rend"})
			st.E2EReloads++
		}
		steps := 10 + rng.Intn(10)
		for s := 0; s < steps; s++ {
			var wg sync.WaitGroup
			switch k := rng.Intn(10); {
			case k < 4: // one request, sequential
				wg.Add(1)
				request(&wg, rng.Intn(2), []int32{765, 765, 47}[rng.Intn(3)])
				st.E2EReq++
			case k < 7: // burst of concurrent requests, possibly with a reload in the middle
				n := 2 + rng.Intn(4)
				be, proto := rng.Intn(2), []int32{765, 47}[rng.Intn(2)]
				withReload := rng.Intn(3) == 0
				for j := 0; j < n; j++ {
					wg.Add(1)
					b2, p2 := be, proto
					if rng.Intn(4) == 0 {
						b2 = 1 - be
					}
					if rng.Intn(3) == 0 {
						p2 = 765 + 47 - proto // same backend asked with the other client protocol
					}
					go request(&wg, b2, p2)
					st.E2EReq++
					if withReload && j == n/2 {
						time.Sleep(time.Duration(rng.Intn(int(slow))))
						wg.Add(1)
						go reload(&wg)
					}
				}
			default:
				wg.Add(1)
				reload(&wg)
			}
			wg.Wait()
		}
		tw.Emit(tracefmt.Rec{"ev": "done"})
		rig.Close()
		for _, be := range bes {
			be.Close()
		}
		st.E2ERuns++
	}
}

// hangingPort opens a listening socket with a full accept queue: further connection attempts get
// no answer and run into the dialer's timeout (a black-holed backend). Returns 0 if that cannot be
// arranged here.
func hangingPort() (port int, closeFn func()) {
	fd, err := syscall.Socket(syscall.AF_INET, syscall.SOCK_STREAM, 0)
	if err != nil {
		return 0, func() {}
	}
	cleanup := []func(){func() { _ = syscall.Close(fd) }}
	closeFn = func() {
		for _, f := range cleanup {
			f()
		}
	}
	_ = syscall.SetsockoptInt(fd, syscall.SOL_SOCKET, syscall.SO_REUSEADDR, 1)
	if err := syscall.Bind(fd, &syscall.SockaddrInet4{Addr: [4]byte{127, 0, 0, 1}}); err != nil {
		closeFn()
		return 0, func() {}
	}
	if err := syscall.Listen(fd, 0); err != nil {
		closeFn()
		return 0, func() {}
	}
	sa, err := syscall.Getsockname(fd)
	if err != nil {
		closeFn()
		return 0, func() {}
	}
	port = sa.(*syscall.SockaddrInet4).Port
	// fill the accept queue until a connect gets no answer
	for k := 0; k < 8; k++ {
		c, err := net.DialTimeout("tcp4", fmt.Sprintf("127.0.0.1:%d", port), 250*time.Millisecond)
		if err != nil {
			return port, closeFn
		}
		cleanup = append(cleanup, func() { _ = c.Close() })
	}
	closeFn()
	return 0, func() {}
}

// tryCounter counts the lb.try events per backend address (how often the code tried a backend).
type tryCounter struct {
	mu sync.Mutex
	n  map[string]int
}

func (c *tryCounter) onEvent(_ string, name string, kv []any) {
	if name != "lb.try" {
		return
	}
	c.mu.Lock()
	c.n[fmt.Sprint(sched.KV(kv)["backend"])]++
	c.mu.Unlock()
}

func (c *tryCounter) get(addr string) int {
	c.mu.Lock()
	defer c.mu.Unlock()
	return c.n[addr]
}

// e2eFallback: status requests against a route whose backends answer, fail (accept and close,
// answer garbage, say nothing) or never answer the connect (dial timeout).
func e2eFallback(t *testing.T, tw *tracefmt.Writer, st *stats, rng *rand.Rand, n int) {
	tc := &tryCounter{n: map[string]int{}}
	ctl := sched.New(nil)
	ctl.OnEvent = tc.onEvent
	ctl.Install()
	defer ctl.Uninstall()
	for i := 0; i < n; i++ {
		nb := 1 + rng.Intn(3)
		oks := make([]bool, nb)
		var bes []*literig.Backend
		var addrs []string
		var cleanups []func()
		hang := false
		// every fifth scenario: a backend that never answers the connect, ahead of the others
		wantHang := i%5 == 2
		for b := 0; b < nb; b++ {
			b := b
			if wantHang && b == 0 {
				if port, cl := hangingPort(); port != 0 {
					cleanups = append(cleanups, cl)
					oks[b] = false
					bes = append(bes, nil)
					addrs = append(addrs, fmt.Sprintf("127.0.0.1:%d", port))
					hang = true
					continue
				}
			}
			oks[b] = rng.Intn(3) == 0 || (hang && b == nb-1 && i%2 == 0)
			mode := rng.Intn(3)
			be, err := literig.Listen("127.0.0.1:0")
			if err != nil {
				t.Fatal(err)
			}
			be.SetHandler(func(a *literig.Accepted) {
				defer a.Conn.Close()
				_ = a.Conn.SetDeadline(time.Now().Add(30 * time.Second))
				if !oks[b] && mode == 0 {
					return // accept and close
				}
				if _, err := readFrame(a.Conn); err != nil {
					return
				}
				if _, err := readFrame(a.Conn); err != nil {
					return
				}
				if !oks[b] {
					if mode == 1 {
						_, _ = a.Conn.Write([]byte{0x05, 0x7f, 1, 2, 3, 4}) // not a status response
					}
					return
				}
				js := statusJSON("B" + strconv.Itoa(b+1))
				_, _ = a.Conn.Write(literig.Frame(append([]byte{0x00}, literig.AppendString(nil, js)...)))
			})
			bes = append(bes, be)
			addrs = append(addrs, fmt.Sprintf("127.0.0.1:%d", be.Port))
		}
		hasFallback := rng.Intn(3) != 0
		route := config.Route{Host: []string{"fb.ex"}, Backend: addrs,
			Strategy: []config.Strategy{"", config.StrategySequential, config.StrategyRoundRobin, config.StrategyRandom}[rng.Intn(4)]}
		if rng.Intn(2) == 0 {
			route.CachePingTTL = configutil.Duration(-1) // cache disabled
		}
		if hasFallback {
			route.Fallback = &config.Status{
				MOTD:    &configutil.Component{Value: &component.Text{Content: "FALLBACK"}},
				Version: ping.Version{Name: "fb", Protocol: 765},
			}
		}
		dialTimeout := 5 * time.Second
		if hang {
			dialTimeout = 400 * time.Millisecond
			st.Hangs++
		}
		rig, err := literig.Start(literig.NewConfig([]config.Route{route}, dialTimeout))
		if err != nil {
			t.Fatal(err)
		}
		reps := 1 + rng.Intn(2) // the second request meets cached results
		for k := 0; k < reps; k++ {
			text, err := statusClient(rig, "fb.ex", 765)
			if err != nil {
				t.Fatalf("status client: %v", err)
			}
			// how often each backend was tried so far: the code's own lb.try events
			tried := make([]int, nb)
			for b := range addrs {
				tried[b] = tc.get(addrs[b])
			}
			result, which := "closed", 0
			switch {
			case strings.Contains(text, "FALLBACK"):
				result = "fallback"
				st.Fallbacks++
			case strings.HasPrefix(text, "B"):
				result = "backend"
				which, _ = strconv.Atoi(text[1:])
			case text != "":
				t.Fatalf("unexpected status text %q", text)
			}
			tw.Emit(tracefmt.Rec{"ev": "resolve", "ok": oks, "tried": tried, "fallback": hasFallback,
				"result": result, "which": which, "strategy": string(route.Strategy), "dial_timeout_backend": hang})
			st.Resolves++
		}
		rig.Close()
		for _, be := range bes {
			if be != nil {
				be.Close()
			}
		}
		for _, f := range cleanups {
			f()
		}
	}
}

// resolveGone drives lite.ResolveStatusResponseWithGeneration directly (public API, real
// netmc connections over TCP loopback): the client whose request starts the shared, cached
// backend fetch is gone (its connection closed) before or while the fetch runs; afterwards a
// live client asks for the same status. The backend is healthy and slow; a fallback status is
// configured. Emits "resolve" records for the live clients.
func resolveGone(t *testing.T, tw *tracefmt.Writer, st *stats, rng *rand.Rand, n int) {
	ln, err := net.Listen("tcp4", "127.0.0.1:0")
	if err != nil {
		t.Fatal(err)
	}
	defer ln.Close()
	newConn := func() (netmc.MinecraftConn, net.Conn) {
		cl, err := net.Dial("tcp4", ln.Addr().String())
		if err != nil {
			t.Fatal(err)
		}
		srv, err := ln.Accept()
		if err != nil {
			t.Fatal(err)
		}
		mc, _ := netmc.NewMinecraftConn(context.Background(), srv, proto.ServerBound, 30*time.Second, 30*time.Second, -1, nil)
		return mc, cl
	}
	for i := 0; i < n; i++ {
		slow := time.Duration(60+rng.Intn(120)) * time.Millisecond
		accepted := make(chan struct{}, 16)
		be, err := literig.Listen("127.0.0.1:0")
		if err != nil {
			t.Fatal(err)
		}
		be.SetHandler(func(a *literig.Accepted) {
			defer a.Conn.Close()
			_ = a.Conn.SetDeadline(time.Now().Add(30 * time.Second))
			if _, err := readFrame(a.Conn); err != nil {
				return
			}
			if _, err := readFrame(a.Conn); err != nil {
				return
			}
			accepted <- struct{}{}
			time.Sleep(slow)
			js := statusJSON("B1")
			_, _ = a.Conn.Write(literig.Frame(append([]byte{0x00}, literig.AppendString(nil, js)...)))
		})
		route := config.Route{Host: []string{"gone.ex"}, Backend: []string{fmt.Sprintf("127.0.0.1:%d", be.Port)},
			Fallback: &config.Status{
				MOTD:    &configutil.Component{Value: &component.Text{Content: "FALLBACK"}},
				Version: ping.Version{Name: "fb", Protocol: 765},
			}}
		routes := []config.Route{route}
		sm := lite.NewStrategyManager()
		resolve := func(mc netmc.MinecraftConn) (string, error) {
			hs := &packet.Handshake{ProtocolVersion: 765, ServerAddress: "gone.ex", Port: 25565, NextStatus: 1}
			hctx := &proto.PacketContext{Direction: proto.ServerBound, Protocol: 765, PacketID: 0, Packet: hs,
				Payload: literig.HandshakePayload(765, "gone.ex", 25565, 1, nil)}
			sctx := &proto.PacketContext{Direction: proto.ServerBound, Protocol: 765, PacketID: 0,
				Packet: &packet.StatusRequest{}, Payload: []byte{0x00}}
			_, res, err := lite.ResolveStatusResponseWithGeneration(5*time.Second, 7, routes, logr.Discard(), mc, hs, hctx, sctx, sm)
			if err != nil || res == nil {
				return "", err
			}
			return res.Status, nil
		}
		// the requester that goes away
		mc1, cl1 := newConn()
		before := i%2 == 0
		if before {
			_ = mc1.Close() // already gone when its request is resolved
		}
		done1 := make(chan struct{})
		go func() { defer close(done1); _, _ = resolve(mc1) }()
		if !before {
			select {
			case <-accepted: // the shared fetch is in flight
			case <-time.After(10 * time.Second):
			}
			_ = mc1.Close()
		}
		<-done1
		_ = cl1.Close()
		// let a fetch that is still running finish (nothing is judged on time)
		time.Sleep(slow + 30*time.Millisecond)
		// live clients
		for k := 0; k < 2; k++ {
			mc2, cl2 := newConn()
			status, err := resolve(mc2)
			_ = be.Sync()
			result, which := "closed", 0
			switch {
			case err != nil:
			case strings.Contains(status, "FALLBACK"):
				result = "fallback"
				st.Fallbacks++
			case strings.Contains(status, "B1"):
				result, which = "backend", 1
			}
			tw.Emit(tracefmt.Rec{"ev": "resolve", "ok": []bool{true}, "tried": []int{be.Count()}, "fallback": true,
				"result": result, "which": which, "strategy": "", "kind": "requester-gone", "gone_before_request": before})
			st.Resolves++
			_ = mc2.Close()
			_ = cl2.Close()
		}
		st.Gone++
		be.Close()
	}
}
