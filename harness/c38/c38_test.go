//go:build verif

// C38 harness: the harness *is* the (lossy) filesystem event watcher of the real
// reload watch loop.  Each scenario exported by TLC (spec/ReloadWatch.tla) is a
// sequence of file operations with the fate of their notifications (deliver /
// drop / dup) interleaved with loop steps (ev / tick / fire); the harness
// performs the file operations on a real file and paces itself on the loop's
// verif-tagged events so that the requested order happens when the real code
// allows it.  What is recorded: file operations, the loop's reconcile / fire /
// callback events with the fingerprints they carry, what the callback read, and
// the moment the loop came to rest.  ReloadWatchObs_Trace.tla judges the record.
package c38

import (
	"context"
	"crypto/sha256"
	"encoding/json"
	"fmt"
	"os"
	"path/filepath"
	"sync"
	"testing"
	"time"

	"github.com/fsnotify/fsnotify"

	"go.minekube.com/gate/pkg/verifexport"

	"verif/harness/tracefmt"
)

type step struct {
	A    string `json:"a"`
	Kind string `json:"kind"`
	C    string `json:"c"`
	Fate string `json:"fate"`
}

type scenario struct {
	Steps   []step   `json:"steps"`
	Hazard  bool     `json:"hazard"`
	Rejects []string `json:"rejects"` // contents the callback rejects
}

// script: file operations the scenario places inside the window of one callback
type script struct {
	pre  []step // after the callback started, before it reads the file
	post []step // after it read the file, before it returns
}

// body is the file content for a content label; the label "empty" is the zero-byte file
func body(label string) []byte {
	if label == "empty" {
		return []byte{}
	}
	return []byte("config: " + label + "\n")
}

// fpString renders a fingerprint the way fmt prints reload.contentFingerprint{state, sum}.
func fpString(state int, content []byte) string {
	var sum [sha256.Size]byte
	if state == 1 {
		sum = sha256.Sum256(content)
	}
	return fmt.Sprintf("{%d %v}", state, sum)
}

var labels = func() map[string]string {
	m := map[string]string{fpString(2, nil): "missing", fpString(1, nil): "empty"}
	for _, l := range []string{"A", "B", "C"} {
		m[fpString(1, body(l))] = l
	}
	return m
}()

func fpLabel(v any) string {
	if l, ok := labels[fmt.Sprint(v)]; ok {
		return l
	}
	return "other"
}

type lossyWatcher struct {
	events chan fsnotify.Event
	errs   chan error
	once   sync.Once
}

func (w *lossyWatcher) Events() <-chan fsnotify.Event { return w.events }
func (w *lossyWatcher) Errors() <-chan error          { return w.errs }
func (w *lossyWatcher) Close() error                  { return nil }

type run struct {
	mu         sync.Mutex
	cond       *sync.Cond
	t0         time.Time
	lines      []tracefmt.Rec
	reconciles int
	changed    int
	fires      int
	callbacks  int
	armed      bool
	atFire     int // reconciles seen when the debounce last fired
	path       string
	dir        string
	script     *script
	cbDone     int
	pending    int // notifications queued by the environment, not yet delivered
	lastOpRec  int // reconciles seen when the last file operation ended
	tmpN       int
	broken     bool // the event watcher failed and cannot be created again
}

// perform does one file operation of the scenario (from the driver or from inside the callback).
func (r *run) perform(s step) {
	r.emit(tracefmt.Rec{"ev": "op.begin", "kind": s.Kind, "c": s.C})
	switch s.Kind {
	case "write": // in place: truncate, then write
		if err := os.WriteFile(r.path, body(s.C), 0o600); err != nil {
			panic(err)
		}
	case "replace": // atomic replacement
		r.mu.Lock()
		r.tmpN++
		tmp := filepath.Join(r.dir, fmt.Sprintf("config.yml.tmp%d", r.tmpN))
		r.mu.Unlock()
		if err := os.WriteFile(tmp, body(s.C), 0o600); err != nil {
			panic(err)
		}
		if err := os.Rename(tmp, r.path); err != nil {
			panic(err)
		}
	case "delete":
		if err := os.Remove(r.path); err != nil && !os.IsNotExist(err) {
			panic(err)
		}
	}
	r.emit(tracefmt.Rec{"ev": "op.end"})
	r.mu.Lock()
	r.lastOpRec = r.reconciles
	switch s.Fate {
	case "deliver":
		r.pending = min(r.pending+1, 2)
	case "dup":
		r.pending = 2
	}
	r.mu.Unlock()
}

func (r *run) now() int { return int(time.Since(r.t0) / time.Millisecond) }

func (r *run) emit(rec tracefmt.Rec) {
	r.mu.Lock()
	rec["t"] = r.now()
	r.lines = append(r.lines, rec)
	r.mu.Unlock()
}

func (r *run) onHook(name string, kv []any) {
	m := map[string]any{}
	for i := 0; i+1 < len(kv); i += 2 {
		m[fmt.Sprint(kv[i])] = kv[i+1]
	}
	r.mu.Lock()
	defer r.mu.Unlock()
	rec := tracefmt.Rec{"ev": name, "t": r.now()}
	switch name {
	case "rw.reconcile":
		rec["fp"] = fpLabel(m["fp"])
		ch, _ := m["changed"].(bool)
		rec["changed"] = ch
		r.reconciles++
		if ch {
			r.changed++
			r.armed = true
		}
	case "rw.fire":
		r.fires++
		r.armed = false
		r.atFire = r.reconciles
	case "rw.callback":
		rec["fp"] = fpLabel(m["fp"])
		r.callbacks++
	default:
		return
	}
	r.lines = append(r.lines, rec)
	r.cond.Broadcast()
}

func (r *run) isBroken() bool {
	r.mu.Lock()
	defer r.mu.Unlock()
	return r.broken
}

// waitFor blocks until pred holds (checked under the lock on every loop event) or d passed.
func (r *run) waitFor(d time.Duration, pred func() bool) bool {
	deadline := time.Now().Add(d)
	timer := time.AfterFunc(d, func() { r.mu.Lock(); r.cond.Broadcast(); r.mu.Unlock() })
	defer timer.Stop()
	r.mu.Lock()
	defer r.mu.Unlock()
	for !pred() {
		if !time.Now().Before(deadline) {
			return false
		}
		r.cond.Wait()
	}
	return true
}

var runs sync.Map // path -> *run

func hook(gate bool, name string, kv []any) {
	for i := 0; i+1 < len(kv); i += 2 {
		if kv[i] == "path" {
			if r, ok := runs.Load(kv[i+1]); ok {
				r.(*run).onHook(name, kv)
			}
			return
		}
	}
}

type result struct {
	lines   []tracefmt.Rec
	stalled bool
	skipped int // loop steps of the scenario the real loop did not take in time
}

func execute(dir string, sc scenario, interval time.Duration) result {
	path := filepath.Join(dir, "config.yml")
	init0 := sc.Steps[0].C
	if err := os.WriteFile(path, body(init0), 0o600); err != nil {
		panic(err)
	}
	r := &run{t0: time.Now(), path: path, dir: dir}
	r.cond = sync.NewCond(&r.mu)
	runs.Store(path, r)
	defer runs.Delete(path)
	w := &lossyWatcher{events: make(chan fsnotify.Event, 16), errs: make(chan error)}
	ctx, cancel := context.WithCancel(context.Background())
	defer cancel()
	debounce := verifexport.ReloadDebounce
	r.emit(tracefmt.Rec{"ev": "reset", "init": init0, "interval": int(interval / time.Millisecond),
		"debounce": int(debounce / time.Millisecond), "hazard": sc.Hazard, "rejects": append([]string{}, sc.Rejects...)})
	rejects := map[string]bool{}
	for _, c := range sc.Rejects {
		rejects[c] = true
	}
	cb := func() error {
		r.mu.Lock()
		sp := r.script
		r.script = nil
		r.mu.Unlock()
		if sp != nil {
			for _, s := range sp.pre {
				r.perform(s)
			}
		}
		b, err := os.ReadFile(path)
		read := "missing"
		if err == nil {
			read = fpLabel(fpString(1, b))
		} else if !os.IsNotExist(err) {
			read = "other"
		}
		accepted := err == nil && !rejects[read]
		r.emit(tracefmt.Rec{"ev": "cb", "read": read, "accepted": accepted})
		if sp != nil {
			for _, s := range sp.post {
				r.perform(s)
			}
		}
		r.mu.Lock()
		r.cbDone++
		r.cond.Broadcast()
		r.mu.Unlock()
		if !accepted {
			return fmt.Errorf("rejected")
		}
		return nil
	}
	err := verifexport.ReloadWatch(ctx, path, cb, interval,
		func(string) (verifexport.ReloadEventWatcher, error) {
			r.mu.Lock()
			defer r.mu.Unlock()
			if r.broken {
				return nil, fmt.Errorf("no watcher can be created")
			}
			return w, nil
		})
	if err != nil {
		panic(err)
	}
	res := result{}
	steps := sc.Steps[1:]
	for i := 0; i < len(steps); i++ {
		s := steps[i]
		switch s.A {
		case "op":
			r.perform(s)
		case "break": // the watcher fails at run time; every attempt to create a new one fails too
			r.mu.Lock()
			r.broken = true
			r.pending = 0
			r.mu.Unlock()
			r.emit(tracefmt.Rec{"ev": "break"})
			select {
			case w.errs <- fmt.Errorf("event queue overflow"): // taken by the loop's select
			case <-time.After(2 * time.Second):
				res.skipped++
			}
		case "ev": // a queued notification arrives now
			r.mu.Lock()
			if r.pending > 0 {
				r.pending--
			}
			n, broken := r.reconciles, r.broken
			r.mu.Unlock()
			if broken {
				continue
			}
			w.events <- fsnotify.Event{Name: path, Op: fsnotify.Write}
			if !r.waitFor(2*time.Second, func() bool { return r.reconciles > n }) {
				res.skipped++
			}
		case "tick": // a periodic reconciliation that sees the change
			r.mu.Lock()
			n, ch := r.reconciles, r.changed
			r.mu.Unlock()
			if !r.waitFor(2*interval+time.Second, func() bool { return r.changed > ch || r.reconciles >= n+2 }) {
				res.skipped++
			}
		case "fire": // the debounce timer expires
			// if the scenario has the callback start at this expiry, the file operations it places
			// inside the callback's window are handed to the callback before the timer can expire
			var sp *script
			end := i
			if i+1 < len(steps) && steps[i+1].A == "cbstart" {
				sp = &script{}
				read := false
				for end = i + 2; end < len(steps) && steps[end].A != "cbend"; end++ {
					switch {
					case steps[end].A == "cbread":
						read = true
					case steps[end].A == "op" && !read:
						sp.pre = append(sp.pre, steps[end])
					case steps[end].A == "op":
						sp.post = append(sp.post, steps[end])
					}
				}
			}
			r.mu.Lock()
			n, armed, done := r.fires, r.armed, r.cbDone
			r.script = sp
			r.mu.Unlock()
			fired := armed && r.waitFor(debounce+time.Second, func() bool { return r.fires > n })
			if !fired {
				res.skipped++
			}
			if sp != nil {
				// wait for the callback that took the script; if the real loop did not start one
				// here, the operations still happen, outside any callback
				took := fired && r.waitFor(time.Second, func() bool { return r.cbDone > done })
				r.mu.Lock()
				left := r.script
				r.script = nil
				r.mu.Unlock()
				if !took && left != nil {
					res.skipped++
					for _, o := range append(append([]step(nil), left.pre...), left.post...) {
						r.perform(o)
					}
				} else if !took {
					r.waitFor(5*time.Second, func() bool { return r.cbDone > done })
				}
				i = end
			}
		}
	}
	r.mu.Lock()
	pending := r.pending
	lastOpReconciles := r.lastOpRec
	r.mu.Unlock()
	for ; pending > 0 && !r.isBroken(); pending-- { // notifications still queued arrive at last
		w.events <- fsnotify.Event{Name: path, Op: fsnotify.Write}
	}
	// rest: two reconciliations were logged after the last operation (so one began after it), no
	// debounce is armed, and the loop logged two reconciliations after the last time the debounce
	// fired: the first may be the loop's own re-check at expiry, the second can only come from
	// the select loop again (one goroutine owns it), so that expiry's callback has returned
	ok := r.waitFor(20*time.Second, func() bool {
		return r.reconciles >= lastOpReconciles+2 && !r.armed && (r.fires == 0 || r.reconciles >= r.atFire+2)
	})
	if ok {
		r.emit(tracefmt.Rec{"ev": "settled"})
	} else {
		r.emit(tracefmt.Rec{"ev": "stalled"})
		res.stalled = true
	}
	cancel()
	r.mu.Lock()
	res.lines = append([]tracefmt.Rec(nil), r.lines...)
	r.mu.Unlock()
	return res
}

type stats struct {
	Scenarios  int            `json:"scenarios"`
	Hazard     int            `json:"hazard_scenarios"`
	Stalled    int            `json:"stalled"`
	Skipped    int            `json:"loop_steps_not_taken_in_time"`
	Events     map[string]int `json:"events"`
	Callbacks  int            `json:"callbacks"`
	Reconciles int            `json:"reconciles"`
	Samples    []any          `json:"samples"`
}

func TestScenarios(t *testing.T) {
	b, err := os.ReadFile(filepath.Join(tracefmt.OutDir(), "scen.json"))
	if err != nil {
		t.Fatal(err)
	}
	var scens []scenario
	if err := json.Unmarshal(b, &scens); err != nil {
		t.Fatal(err)
	}
	interval := time.Duration(tracefmt.EnvInt("VERIF_INTERVAL_MS", 250)) * time.Millisecond
	par := tracefmt.EnvInt("VERIF_PAR", 32)
	verifexport.InstallHook(hook)
	defer verifexport.InstallHook(nil)
	base := filepath.Join(tracefmt.OutDir(), "watch")
	results := make([]result, len(scens))
	var wg sync.WaitGroup
	sem := make(chan struct{}, par)
	for i := range scens {
		wg.Add(1)
		sem <- struct{}{}
		go func(i int) {
			defer wg.Done()
			defer func() { <-sem }()
			dir := filepath.Join(base, fmt.Sprintf("s%d", i))
			if err := os.MkdirAll(dir, 0o755); err != nil {
				panic(err)
			}
			results[i] = execute(dir, scens[i], interval)
			os.RemoveAll(dir)
		}(i)
	}
	wg.Wait()
	tw, err := tracefmt.Create("trace.ndjson")
	if err != nil {
		t.Fatal(err)
	}
	st := stats{Events: map[string]int{}}
	for i, res := range results {
		for k, l := range res.lines {
			if k == 0 {
				l["n"] = i
			}
			st.Events[l["ev"].(string)]++
			tw.Emit(l)
		}
		st.Scenarios++
		if scens[i].Hazard {
			st.Hazard++
		}
		if res.stalled {
			st.Stalled++
		}
		st.Skipped += res.skipped
		if i < 2 {
			st.Samples = append(st.Samples, map[string]any{"scenario": scens[i].Steps, "record": res.lines})
		}
	}
	st.Callbacks = st.Events["cb"]
	st.Reconciles = st.Events["rw.reconcile"]
	if err := tw.Close(); err != nil {
		t.Fatal(err)
	}
	tracefmt.WriteJSON("stats.json", st)
}
