//go:build verif

// C43 harness: replays TLC-generated status-phase histories on the live rig and
// records the proxy's reaction to every client packet; Status_Trace.tla judges.
package c43

import (
	"encoding/binary"
	"encoding/json"
	"errors"
	"fmt"
	"math/rand"
	"net"
	"os"
	"path/filepath"
	"sort"
	"sync"
	"testing"
	"time"

	"go.minekube.com/gate/pkg/edition/java/config"
	"go.minekube.com/gate/pkg/edition/java/proto/version"

	"verif/harness/mcwire"
	"verif/harness/rig"
	"verif/harness/tracefmt"
)

type step struct {
	K string `json:"k"`
	P int    `json:"p"`
}
type hist struct {
	CP int    `json:"cp"`
	H  []step `json:"h"`
}

func supported() (list []int, max int) {
	for _, v := range version.SupportedVersions {
		list = append(list, int(v.Protocol))
	}
	sort.Ints(list)
	return list, int(version.MaximumVersion.Protocol)
}

// TestVersions dumps the proxy's own list of supported protocol numbers.
func TestVersions(t *testing.T) {
	l, m := supported()
	if err := tracefmt.WriteJSON("versions.json", map[string]any{"supported": l, "max": m}); err != nil {
		t.Fatal(err)
	}
}

type reaction struct {
	got        string
	n          int
	protocol   int
	online     int
	wellformed bool
	echo       []byte
	closed     bool
	outs       []map[string]any
}

func isTimeout(err error) bool {
	var ne net.Error
	return errors.As(err, &ne) && ne.Timeout()
}

// classify decodes one clientbound status-phase frame into the reaction record.
func classify(p mcwire.Packet, frame []byte, r *reaction) map[string]any {
	switch {
	case p.ID == 0x00:
		r.got = "response"
		rd := mcwire.NewRd(p.Data)
		s := rd.Str()
		var doc struct {
			Version *struct {
				Name     *string `json:"name"`
				Protocol *int    `json:"protocol"`
			} `json:"version"`
			Players *struct {
				Online *int `json:"online"`
				Max    *int `json:"max"`
			} `json:"players"`
			Description json.RawMessage `json:"description"`
		}
		out := map[string]any{"got": "response", "wellformed": false, "protocol": 0, "online": 0, "echo": []int{}}
		if rd.Err == nil && rd.Len() == 0 && json.Unmarshal([]byte(s), &doc) == nil &&
			doc.Version != nil && doc.Version.Protocol != nil && doc.Version.Name != nil &&
			doc.Players != nil && doc.Players.Online != nil && doc.Players.Max != nil && len(doc.Description) > 0 {
			r.wellformed = true
			r.protocol = *doc.Version.Protocol
			r.online = *doc.Players.Online
			out["wellformed"], out["protocol"], out["online"] = true, r.protocol, r.online
		}
		return out
	case p.ID == 0x01:
		r.got = "pong"
		r.echo = frame
		return map[string]any{"got": "pong", "wellformed": true, "protocol": 0, "online": 0, "echo": tracefmt.Bytes(frame)}
	default:
		r.got = fmt.Sprintf("unexpected-0x%x", p.ID)
		return map[string]any{"got": r.got, "wellformed": false, "protocol": 0, "online": 0, "echo": []int{}}
	}
}

// react collects the proxy's reaction: packets until the connection is closed or quiet.
func react(c *mcwire.Conn) (r reaction, err error) {
	r.got = "none"
	for {
		// After a status response the connection legitimately stays open: probe briefly.
		// In every other situation wait (generously) for the proxy's packet or close.
		if r.got == "response" {
			c.Timeout = 50 * time.Millisecond
		} else {
			c.Timeout = 5 * time.Second
		}
		fr, e := c.ReadFrame()
		if e != nil {
			if isTimeout(e) {
				return r, nil
			}
			r.closed = true
			return r, nil
		}
		if len(fr) == 0 {
			continue
		}
		frd := mcwire.NewRd(fr)
		p := mcwire.Packet{ID: frd.VarInt()}
		p.Data = frd.Rest()
		r.n++
		r.outs = append(r.outs, classify(p, fr, &r))
		if r.n > 8 {
			return r, nil
		}
	}
}

// pingFrame builds the frame payload of a status ping: packet id 1 (sometimes encoded as a
// non-minimal VarInt, which vanilla accepts) followed by the 8-byte value.
func pingFrame(rng *rand.Rand, salt int) []byte {
	var v [8]byte
	binary.BigEndian.PutUint64(v[:], rng.Uint64()^uint64(salt))
	id := []byte{0x01}
	if rng.Intn(3) == 0 {
		id = []byte{0x81, 0x00}
	}
	return append(id, v[:]...)
}

func otherFrame(rng *rand.Rand) []byte {
	// ids that are no status-phase packet in any version
	if rng.Intn(2) == 0 {
		b := []byte{byte(0x02 + rng.Intn(40))}
		return append(b, make([]byte, rng.Intn(8))...)
	}
	return []byte{0x7f}
}

func TestReplay(t *testing.T) {
	b, err := os.ReadFile(filepath.Join(tracefmt.OutDir(), "hist.json"))
	if err != nil {
		t.Fatal(err)
	}
	var hists []hist
	if err := json.Unmarshal(b, &hists); err != nil {
		t.Fatal(err)
	}
	sup, max := supported()
	tw, err := tracefmt.Create("trace.ndjson")
	if err != nil {
		t.Fatal(err)
	}
	rng := rand.New(rand.NewSource(tracefmt.Seed()))
	be, err := rig.NewBackend(nil)
	if err != nil {
		t.Fatal(err)
	}
	defer be.Close()
	// a valid but unusual status configuration: fewer "max players" shown than players online
	r, err := rig.New(rig.Options{Backends: map[string]*rig.Backend{"lobby": be}, Try: []string{"lobby"},
		Mutate: func(c *config.Config) { c.Status.ShowMaxPlayers = 1 }})
	if err != nil {
		t.Fatal(err)
	}
	defer r.Close()
	var samples []any
	runs := 0
	// The number of online players is the harness's own ground truth (clients it joined and
	// has not closed), never a number read back from the proxy. Phases churn the registry
	// (join, rejected duplicate login, leave) before the pings.
	clients := map[string]*rig.Client{}
	join := func(name string) {
		c, err := r.NewClient(rig.P1_20_3)
		if err != nil {
			t.Fatal(err)
		}
		if err := c.JoinFully("localhost", name); err != nil {
			t.Fatalf("join %s: %v", name, err)
		}
		clients[name] = c
		if !rig.WaitFor(5*time.Second, func() bool { return r.P.PlayerByName(name) != nil }) {
			t.Fatalf("%s never became findable", name)
		}
	}
	leave := func(name string) {
		clients[name].Close()
		delete(clients, name)
		if !rig.WaitFor(10*time.Second, func() bool { return r.P.PlayerByName(name) == nil }) {
			t.Fatalf("%s still findable 10 s after its connection closed", name)
		}
	}
	duplicate := func(name string) {
		c, err := r.NewClient(rig.P1_20)
		if err != nil {
			t.Fatal(err)
		}
		_, _ = c.LoginOffline("localhost", name) // expected to be refused: already connected
		c.Conn.Timeout = 5 * time.Second
		c.ReadUntilClosed(50)
		c.Close()
		time.Sleep(20 * time.Millisecond)
	}
	defer func() {
		for _, c := range clients {
			c.Close()
		}
	}()
	type phase struct {
		name  string
		do    func()
		churn bool
	}
	phases := []phase{
		{"empty", func() {}, false},
		{"one-joined", func() { join("Player1") }, false},
		{"duplicate-login-rejected", func() { duplicate("Player1"); duplicate("player1") }, true},
		{"second-joined", func() { join("Player2") }, true},
		{"second-left", func() { leave("Player2") }, true},
		{"all-left", func() { duplicate("Player1"); leave("Player1") }, true},
	}
	full := tracefmt.Thorough()
	for pi, ph := range phases {
		// connections whose handshake is sent BEFORE the registry changes and whose request is
		// sent after it: the response counts the players online at the time of the request
		type heldConn struct {
			cp int
			c  *mcwire.Conn
		}
		var held []heldConn
		for _, cp := range []int{sup[len(sup)-1], sup[0], sup[len(sup)/2], 1} {
			c, err := r.Dial()
			if err != nil {
				t.Fatal(err)
			}
			if err := c.WritePacket(0, rig.HandshakePayload(cp, "localhost", 25565, 1)); err != nil {
				t.Fatal(err)
			}
			held = append(held, heldConn{cp, c})
		}
		time.Sleep(30 * time.Millisecond)
		ph.do()
		online := len(clients)
		_ = pi
		for _, hc := range held {
			rec := tracefmt.Rec{"ev": "step", "send": "req", "payload": []int{}, "echo": []int{}}
			if werr := hc.c.WritePacket(0x00, nil); werr != nil {
				t.Errorf("held connection: write failed: %v", werr)
				hc.c.Close()
				continue
			}
			re, _ := react(hc.c)
			rec["got"], rec["n"], rec["protocol"], rec["online"] = re.got, re.n, re.protocol, re.online
			rec["wellformed"], rec["closed"] = re.wellformed, re.closed
			if re.echo != nil {
				rec["echo"] = tracefmt.Bytes(re.echo)
			}
			tw.Emit(tracefmt.Rec{"ev": "reset", "cp": hc.cp, "online": online, "phase": ph.name, "supported": sup, "max": max, "hist": -1, "held": true})
			tw.Emit(rec)
			runs++
			hc.c.Close()
		}
		var mu sync.Mutex
		var wg sync.WaitGroup
		sem := make(chan struct{}, 8)
		for hi, h := range hists {
			hi, h := hi, h
			if ph.churn && !full && !(h.H[0].K == "req" && hi%5 == pi%5) {
				continue // quick tier: after churn only a sample of the request-first histories
			}
			seed := rng.Int63()
			wg.Add(1)
			sem <- struct{}{}
			go func() {
				defer wg.Done()
				defer func() { <-sem }()
				rng := rand.New(rand.NewSource(seed))
				c, err := r.Dial()
				if err != nil {
					t.Error(err)
					return
				}
				defer c.Close()
				if err := c.WritePacket(0, rig.HandshakePayload(h.CP, "localhost", 25565, 1)); err != nil {
					t.Error(err)
					return
				}
				recs := []tracefmt.Rec{{"ev": "reset", "cp": h.CP, "online": online, "phase": ph.name, "supported": sup, "max": max, "hist": hi}}
				var log []any
				for _, s := range h.H {
					var payload [8]byte
					rec := tracefmt.Rec{"ev": "step", "send": s.K, "payload": []int{}, "echo": []int{}}
					var werr error
					switch s.K {
					case "req":
						werr = c.WritePacket(0x00, nil)
					case "ping":
						frame := pingFrame(rng, s.P)
						rec["payload"] = tracefmt.Bytes(frame)
						werr = c.WriteFrame(frame)
					default:
						// ids that are no status-phase packet in any version
						if rng.Intn(2) == 0 {
							werr = c.WritePacket(0x02+rng.Intn(40), payload[:rng.Intn(8)])
						} else {
							werr = c.WritePacket(0x7f, nil)
						}
					}
					if werr != nil {
						// the proxy had already closed: the model never sends after close
						t.Errorf("write on a connection the model considers open failed: %v", werr)
						return
					}
					re, _ := react(c)
					rec["got"], rec["n"], rec["protocol"], rec["online"] = re.got, re.n, re.protocol, re.online
					rec["wellformed"], rec["closed"] = re.wellformed, re.closed
					if re.echo != nil {
						rec["echo"] = tracefmt.Bytes(re.echo)
					}
					recs = append(recs, rec)
					log = append(log, rec)
					if re.closed {
						break
					}
				}
				// the same history again, pipelined: every packet is written before anything is read
				if len(h.H) > 1 {
					c2, err := r.Dial()
					if err == nil {
						var sends []any
						buf := mcwire.FramePayload(append([]byte{0}, rig.HandshakePayload(h.CP, "localhost", 25565, 1)...), -1)
						for _, s := range h.H {
							var frame []byte
							switch s.K {
							case "req":
								frame = []byte{0x00}
							case "ping":
								frame = pingFrame(rng, s.P)
							default:
								frame = otherFrame(rng)
							}
							sends = append(sends, map[string]any{"k": s.K, "payload": tracefmt.Bytes(frame)})
							buf = append(buf, mcwire.FramePayload(frame, -1)...)
						}
						_, werr := c2.C.Write(buf)
						if werr == nil {
							var outs []any
							closed := false
							for len(outs) < 8 {
								c2.Timeout = 5 * time.Second
								fr, e := c2.ReadFrame()
								if e != nil {
									closed = !isTimeout(e)
									break
								}
								if len(fr) == 0 {
									continue
								}
								frd := mcwire.NewRd(fr)
								p := mcwire.Packet{ID: frd.VarInt()}
								p.Data = frd.Rest()
								var dummy reaction
								outs = append(outs, classify(p, fr, &dummy))
							}
							if outs == nil {
								outs = []any{}
							}
							recs = append(recs, tracefmt.Rec{"ev": "reset", "cp": h.CP, "online": online, "phase": ph.name, "supported": sup, "max": max, "hist": hi, "pipelined": true},
								tracefmt.Rec{"ev": "pipe", "sends": sends, "outs": outs, "closed": closed})
						}
						c2.Close()
					}
				}
				mu.Lock()
				for _, rc := range recs {
					tw.Emit(rc)
				}
				runs++
				if len(samples) < 3 && len(h.H) > 1 {
					samples = append(samples, map[string]any{"cp": h.CP, "online": online, "steps": log})
				}
				mu.Unlock()
			}()
		}
		wg.Wait()
	}
	if err := tw.Close(); err != nil {
		t.Fatal(err)
	}
	tracefmt.WriteJSON("stats.json", map[string]any{"runs": runs, "samples": samples, "events": tw.N})
}
