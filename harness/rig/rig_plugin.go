//go:build verif

package rig

// Extensions of the live rig for the plugin-message / keep-alive checks (C13, C18, C24,
// C25): wire ids of custom payload and keep-alive packets, step-wise scriptable fake
// clients and backends with a continuously recording reader, and a gate sequencer that
// forces the order in which goroutines of the real proxy pass verifhook points.

import (
	"errors"
	"fmt"
	"sync"
	"time"

	"go.minekube.com/gate/pkg/verifexport"

	"verif/harness/mcwire"
)

// ------------------------------------------------------------------ wire ids
// Taken from the vanilla protocol tables of 1.20.1 (763), 1.20.2 (764), 1.20.3/4 (765).

// Pre-1.13 protocols the scripted endpoints also speak: 1.12.2 (340) and 1.8 (47).
func legacy(proto int) bool { return proto < 393 }

// SBPluginID is the serverbound custom payload id.
func SBPluginID(proto int, config bool) int {
	if config {
		return 0x01
	}
	switch {
	case proto == P1_8:
		return 0x17
	case legacy(proto):
		return 0x09
	case proto >= P1_20_3:
		return 0x10
	case proto >= P1_20_2:
		return 0x0f
	}
	return 0x0d
}

// CBPluginID is the clientbound custom payload id.
func CBPluginID(proto int, config bool) int {
	if config {
		return 0x00
	}
	switch {
	case proto == P1_8:
		return 0x3f
	case legacy(proto):
		return 0x18
	case proto >= P1_20_2:
		return 0x18
	}
	return 0x17
}

// SBKeepAliveID is the serverbound keep-alive id.
func SBKeepAliveID(proto int, config bool) int {
	if config {
		return 0x03
	}
	switch {
	case proto >= P1_20_3:
		return 0x15
	case proto >= P1_20_2:
		return 0x14
	}
	return 0x12
}

// CBKeepAliveID is the clientbound keep-alive id.
func CBKeepAliveID(proto int, config bool) int {
	if config {
		return 0x03
	}
	if proto >= P1_20_2 {
		return 0x24
	}
	return 0x23
}

// CBStartConfigID is the clientbound play "start configuration" id (1.20.2+).
func CBStartConfigID(proto int) int {
	if proto >= P1_20_3 {
		return 0x67
	}
	return 0x65
}

// SBAckConfigID is the serverbound play "acknowledge configuration" id (764/765).
const SBAckConfigID = 0x0b

// CBFinishConfigID / SBFinishConfigID are the configuration-phase finish ids.
func CBFinishConfigID(proto int) int { return cbFinishConfig(proto) }
func SBFinishConfigID(proto int) int { return sbFinishConfig(proto) }

// CBPlayDisconnectID is the clientbound play disconnect id.
func CBPlayDisconnectID(proto int) int {
	switch {
	case proto == P1_8:
		return 0x40
	case legacy(proto):
		return 0x1a
	case proto >= P1_20_2:
		return 0x1b
	}
	return 0x1a
}

// PlayJoinGameID is JoinGameID extended by 1.12.2 and 1.8.
func PlayJoinGameID(proto int) int {
	switch {
	case proto == P1_8:
		return 0x01
	case legacy(proto):
		return 0x23
	}
	return JoinGameID(proto)
}

// UnknownPlayPacketID is a serverbound play packet gate does not decode (it is forwarded to
// the connected backend as is): teleport confirm, or animation for 1.8 (0x00 is keep-alive there).
func UnknownPlayPacketID(proto int) int {
	if proto == P1_8 {
		return 0x0a
	}
	return 0x00
}

func uuidString(u [16]byte) string {
	return fmt.Sprintf("%x-%x-%x-%x-%x", u[0:4], u[4:6], u[6:8], u[8:10], u[10:16])
}

// PluginPayload is the body of a custom payload packet (1.13+): channel, then raw data.
func PluginPayload(channel string, data []byte) []byte {
	return (&mcwire.Buf{}).String(channel).Raw(data).B
}

// ParsePlugin splits a custom payload body.
func ParsePlugin(b []byte) (channel string, data []byte, err error) {
	rd := mcwire.NewRd(b)
	channel = rd.Str()
	data = rd.Rest()
	return channel, data, rd.Err
}

// KeepAlivePayload is the body of a keep-alive packet (1.12.2+: a long).
func KeepAlivePayload(id int64) []byte { return (&mcwire.Buf{}).I64(id).B }

// --------------------------------------------------------------- recv log

// Recv is one packet seen by a scripted endpoint, with the protocol state it was read in.
type Recv struct {
	State string // "login", "config", "play"
	ID    int
	Data  []byte
}

type recvLog struct {
	mu     sync.Mutex
	cond   *sync.Cond
	log    []Recv
	closed bool
}

func newRecvLog() *recvLog { l := &recvLog{}; l.cond = sync.NewCond(&l.mu); return l }

func (l *recvLog) add(r Recv) { l.mu.Lock(); l.log = append(l.log, r); l.cond.Broadcast(); l.mu.Unlock() }
func (l *recvLog) close()     { l.mu.Lock(); l.closed = true; l.cond.Broadcast(); l.mu.Unlock() }

// Log returns a copy of what was received so far.
func (l *recvLog) Log() []Recv { l.mu.Lock(); defer l.mu.Unlock(); return append([]Recv(nil), l.log...) }

// Closed reports whether the reader saw the connection end.
func (l *recvLog) Closed() bool { l.mu.Lock(); defer l.mu.Unlock(); return l.closed }

// Wait blocks until pred(log, closed) holds or d passed; returns pred's last value.
func (l *recvLog) Wait(d time.Duration, pred func(log []Recv, closed bool) bool) bool {
	deadline := time.Now().Add(d)
	t := time.AfterFunc(d, func() { l.mu.Lock(); l.cond.Broadcast(); l.mu.Unlock() })
	defer t.Stop()
	l.mu.Lock()
	defer l.mu.Unlock()
	for !pred(l.log, l.closed) {
		if !time.Now().Before(deadline) {
			return false
		}
		l.cond.Wait()
	}
	return true
}

// Count counts received packets with the state and id.
func Count(log []Recv, state string, id int) (n int) {
	for _, r := range log {
		if r.State == state && r.ID == id {
			n++
		}
	}
	return
}

// ------------------------------------------------------------ scripted client

// SClient is a step-wise scriptable fake client: a reader goroutine records every
// clientbound packet with the state it arrived in; the script decides when to acknowledge.
type SClient struct {
	*mcwire.Conn
	*recvLog
	Proto int
	Name  string
	smu   sync.Mutex
	sb    string // serverbound state
	// OnRecv, if set, is called by the reader for every packet (after it was logged).
	OnRecv func(r Recv)
}

// NewSClient dials the proxy.
func (r *Rig) NewSClient(proto int) (*SClient, error) {
	c, err := r.Dial()
	if err != nil {
		return nil, err
	}
	return &SClient{Conn: c, recvLog: newRecvLog(), Proto: proto, sb: "login"}, nil
}

// Start sends handshake + login start and starts the reader.
func (c *SClient) Start(host, name string) error {
	c.Name = name
	if err := c.WritePacket(0x00, HandshakePayload(c.Proto, host, 25565, 2)); err != nil {
		return err
	}
	if err := c.WritePacket(SBLoginStart, LoginStartPayload(c.Proto, name, OfflineUUID(name))); err != nil {
		return err
	}
	go c.read()
	return nil
}

func (c *SClient) read() {
	defer c.close()
	c.Conn.Timeout = 0
	st := "login"
	for {
		p, err := c.ReadPacket()
		if err != nil {
			return
		}
		r := Recv{State: st, ID: p.ID, Data: p.Data}
		switch st {
		case "login":
			switch p.ID {
			case LoginSetCompress:
				c.SetCompression(mcwire.NewRd(p.Data).VarInt())
			case LoginSuccessID:
				if c.Proto >= P1_20_2 {
					st = "config"
				} else {
					st = "play"
				}
			}
		case "config":
			if p.ID == cbFinishConfig(c.Proto) {
				st = "play"
			}
		case "play":
			if c.Proto >= P1_20_2 && p.ID == CBStartConfigID(c.Proto) {
				st = "config"
			}
		}
		c.add(r)
		if c.OnRecv != nil {
			c.OnRecv(r)
		}
	}
}

// SBState is the state the client currently writes in.
func (c *SClient) SBState() string { c.smu.Lock(); defer c.smu.Unlock(); return c.sb }

func (c *SClient) setSB(s string) { c.smu.Lock(); c.sb = s; c.smu.Unlock() }

// AwaitLoginSuccess waits for login success (and, below 1.20.2, switches to play).
func (c *SClient) AwaitLoginSuccess(d time.Duration) bool {
	ok := c.Wait(d, func(l []Recv, closed bool) bool { return Count(l, "login", LoginSuccessID) > 0 })
	if ok && c.Proto < P1_20_2 {
		c.setSB("play")
	}
	return ok
}

// AckLogin sends login acknowledged (1.20.2+): the client is in configuration.
func (c *SClient) AckLogin() error {
	err := c.WritePacket(SBLoginAck, nil)
	c.setSB("config")
	return err
}

// AwaitFinishConfig waits for the n-th clientbound finish-configuration.
func (c *SClient) AwaitFinishConfig(n int, d time.Duration) bool {
	return c.Wait(d, func(l []Recv, closed bool) bool { return Count(l, "config", cbFinishConfig(c.Proto)) >= n })
}

// AckFinishConfig acknowledges finish-configuration: the client is in play.
func (c *SClient) AckFinishConfig() error {
	err := c.WritePacket(sbFinishConfig(c.Proto), nil)
	c.setSB("play")
	return err
}

// AwaitStartConfig waits for the n-th clientbound start-configuration (server switch).
func (c *SClient) AwaitStartConfig(n int, d time.Duration) bool {
	return c.Wait(d, func(l []Recv, closed bool) bool { return Count(l, "play", CBStartConfigID(c.Proto)) >= n })
}

// AckStartConfig acknowledges start-configuration: the client is in configuration again.
func (c *SClient) AckStartConfig() error {
	err := c.WritePacket(SBAckConfigID, nil)
	c.setSB("config")
	return err
}

// AwaitJoinGame waits for the n-th JoinGame.
func (c *SClient) AwaitJoinGame(n int, d time.Duration) bool {
	return c.Wait(d, func(l []Recv, closed bool) bool { return Count(l, "play", PlayJoinGameID(c.Proto)) >= n })
}

// SendPlugin sends a custom payload in the client's current state.
func (c *SClient) SendPlugin(channel string, data []byte) error {
	st := c.SBState()
	if st == "login" {
		return errors.New("rig: no custom payload in login state")
	}
	return c.WritePacket(SBPluginID(c.Proto, st == "config"), PluginPayload(channel, data))
}

// SendKeepAlive sends a keep-alive reply in the client's current state.
func (c *SClient) SendKeepAlive(id int64) error {
	st := c.SBState()
	if st == "login" {
		return errors.New("rig: no keep-alive in login state")
	}
	return c.WritePacket(SBKeepAliveID(c.Proto, st == "config"), KeepAlivePayload(id))
}

// ------------------------------------------------------------ scripted backend

// SBackendConn is one proxy->backend connection of a scripted backend.
type SBackendConn struct {
	*BackendConn
	*recvLog
	onRecv func(r Recv)
	stmu   sync.Mutex
	st     string // serverbound state as the backend sees it
}

// SetOnRecv installs a callback the reader invokes for every packet received from now on.
func (sc *SBackendConn) SetOnRecv(f func(r Recv)) { sc.stmu.Lock(); sc.onRecv = f; sc.stmu.Unlock() }
func (sc *SBackendConn) getOnRecv() func(r Recv) { sc.stmu.Lock(); defer sc.stmu.Unlock(); return sc.onRecv }

func (sc *SBackendConn) state() string { sc.stmu.Lock(); defer sc.stmu.Unlock(); return sc.st }
func (sc *SBackendConn) setState(s string) { sc.stmu.Lock(); sc.st = s; sc.stmu.Unlock() }

// SBackend is a fake backend whose connections are scripted step by step.
type SBackend struct {
	*Backend
	Accepted chan *SBackendConn
}

// NewSBackend starts a scripted backend: every accepted connection reads the proxy's
// login, is handed to Accepted, and then records everything the proxy sends.
func NewSBackend() (*SBackend, error) {
	sb := &SBackend{Accepted: make(chan *SBackendConn, 64)}
	b, err := NewBackend(func(bc *BackendConn) {
		if err := bc.ReadLogin(); err != nil {
			return
		}
		sc := &SBackendConn{BackendConn: bc, recvLog: newRecvLog(), st: "login"}
		sb.Accepted <- sc
		sc.read()
	})
	if err != nil {
		return nil, err
	}
	sb.Backend = b
	return sb, nil
}

// Next waits for the next accepted connection.
func (sb *SBackend) Next(d time.Duration) (*SBackendConn, error) {
	select {
	case c := <-sb.Accepted:
		return c, nil
	case <-time.After(d):
		return nil, errors.New("rig: no backend connection")
	}
}

func (sc *SBackendConn) read() {
	defer sc.close()
	sc.Conn.Timeout = 0
	_ = sc.Conn.C.SetReadDeadline(time.Time{}) // ReadLogin left a deadline armed
	for {
		p, err := sc.ReadPacket()
		if err != nil {
			return
		}
		st := sc.state()
		r := Recv{State: st, ID: p.ID, Data: p.Data}
		switch st {
		case "login":
			if p.ID == SBLoginAck && sc.Proto >= P1_20_2 {
				sc.setState("config")
			}
		case "config":
			if p.ID == sbFinishConfig(sc.Proto) {
				sc.setState("play")
			}
		case "play":
			if sc.Proto >= P1_20_2 && p.ID == SBAckConfigID {
				sc.setState("config")
			}
		}
		sc.add(r)
		if f := sc.getOnRecv(); f != nil {
			f(r)
		}
	}
}

// SendLoginSuccess sends login success (below 1.20.2 the backend is in play afterwards).
func (sc *SBackendConn) SendLoginSuccess() error {
	id := sc.UUID
	if !sc.HasUUID {
		id = OfflineUUID(sc.Name)
	}
	payload := LoginSuccessPayload(sc.Proto, id, sc.Name)
	if sc.Proto < 735 { // before 1.16 the id travels as a string
		payload = (&mcwire.Buf{}).String(uuidString(id)).String(sc.Name).B
	}
	err := sc.WritePacket(LoginSuccessID, payload)
	if sc.Proto < P1_20_2 {
		sc.setState("play") // no acknowledgement below 1.20.2: what follows is play traffic
	}
	return err
}

// AwaitLoginAck waits for the proxy's login acknowledged (1.20.2+).
func (sc *SBackendConn) AwaitLoginAck(d time.Duration) bool {
	return sc.Wait(d, func(l []Recv, closed bool) bool { return Count(l, "login", SBLoginAck) > 0 })
}

// SendFinishConfig sends finish-configuration.
func (sc *SBackendConn) SendFinishConfig() error { return sc.WritePacket(cbFinishConfig(sc.Proto), nil) }

// AwaitFinishAck waits for the proxy's n-th finish-configuration acknowledgement.
func (sc *SBackendConn) AwaitFinishAck(n int, d time.Duration) bool {
	return sc.Wait(d, func(l []Recv, closed bool) bool { return Count(l, "config", sbFinishConfig(sc.Proto)) >= n })
}

// SendJoinGame sends JoinGame.
func (sc *SBackendConn) SendJoinGame() error {
	if legacy(sc.Proto) {
		b := (&mcwire.Buf{}).I32(int32(100 + sc.N)).Byte(0)
		if sc.Proto == P1_8 {
			b.Byte(0) // dimension: byte
		} else {
			b.I32(0) // dimension: int
		}
		b.Byte(1).Byte(20).String("default").Bool(false)
		return sc.WritePacket(PlayJoinGameID(sc.Proto), b.B)
	}
	jg, err := JoinGamePayload(sc.Proto, int32(100+sc.N))
	if err != nil {
		return err
	}
	return sc.WritePacket(JoinGameID(sc.Proto), jg)
}

// Plugins returns the custom payload packets received so far (state, channel, data).
func Plugins(log []Recv, proto int) (out []PluginRecv) {
	for _, r := range log {
		if r.State == "login" || r.ID != SBPluginID(proto, r.State == "config") {
			continue
		}
		ch, data, err := ParsePlugin(r.Data)
		if err != nil {
			ch = fmt.Sprintf("!undecodable:%v", err)
		}
		out = append(out, PluginRecv{State: r.State, Channel: ch, Data: data})
	}
	return
}

// PluginRecv is a decoded custom payload.
type PluginRecv struct {
	State   string
	Channel string
	Data    []byte
}

// ------------------------------------------------------------- gate sequencer

// Seq forces the order in which goroutines of the real proxy pass named verifhook
// points: a goroutine arriving at a watched Point parks until its name is the head of
// the order. It can only delay; an order the code cannot follow times out (Diverged) and
// everything runs free. One Seq is process-wide: use it from one test at a time.
type Seq struct {
	mu       sync.Mutex
	cond     *sync.Cond
	watch    map[string]bool
	order    []string
	pos      int
	free     bool
	Timeout  time.Duration
	Arrivals []string // every watched hook invocation (points and events) in arrival order
	Passed   []string // points in the order they were let through while sequencing
	Diverged bool
}

// NewSeq creates a sequencer watching the given hook names.
func NewSeq(names ...string) *Seq {
	s := &Seq{watch: map[string]bool{}, free: true, Timeout: 3 * time.Second}
	s.cond = sync.NewCond(&s.mu)
	for _, n := range names {
		s.watch[n] = true
	}
	return s
}

// Install makes the sequencer the process-wide hook receiver.
func (s *Seq) Install() { verifexport.InstallHook(s.hook) }

// Uninstall removes it (and frees everyone).
func (s *Seq) Uninstall() { s.Free(); verifexport.InstallHook(nil) }

// Set starts sequencing with the given order of point names.
func (s *Seq) Set(order []string) {
	s.mu.Lock()
	s.order, s.pos, s.free, s.Diverged = append([]string(nil), order...), 0, false, false
	s.Arrivals, s.Passed = nil, nil
	s.cond.Broadcast()
	s.mu.Unlock()
}

// Free lets everything run.
func (s *Seq) Free() { s.mu.Lock(); s.free = true; s.cond.Broadcast(); s.mu.Unlock() }

// Done reports whether the whole order was consumed.
func (s *Seq) Done() bool { s.mu.Lock(); defer s.mu.Unlock(); return s.pos >= len(s.order) }

// Snapshot returns (arrivals, passed, diverged).
func (s *Seq) Snapshot() ([]string, []string, bool) {
	s.mu.Lock()
	defer s.mu.Unlock()
	return append([]string(nil), s.Arrivals...), append([]string(nil), s.Passed...), s.Diverged
}

func (s *Seq) hook(gate bool, name string, kv []any) {
	if !s.watch[name] {
		return
	}
	s.mu.Lock()
	defer s.mu.Unlock()
	s.Arrivals = append(s.Arrivals, name)
	if !gate || s.free {
		return
	}
	deadline := time.Now().Add(s.Timeout)
	t := time.AfterFunc(s.Timeout, func() { s.mu.Lock(); s.cond.Broadcast(); s.mu.Unlock() })
	defer t.Stop()
	for !s.free && s.pos < len(s.order) && s.order[s.pos] != name {
		if !time.Now().Before(deadline) {
			s.Diverged, s.free = true, true
			s.cond.Broadcast()
			return
		}
		s.cond.Wait()
	}
	if !s.free && s.pos < len(s.order) {
		s.pos++
		s.Passed = append(s.Passed, name)
		s.cond.Broadcast()
	}
}

// Closed reports whether the backend-side reader saw the connection end.
func (sc *SBackendConn) Closed() bool { return sc.recvLog.Closed() }

// Router hands the connections of scripted backends to the scripts by player name.
type Router struct {
	mu sync.Mutex
	ch map[string]chan *SBackendConn
}

// NewRouter starts routing the accepted connections of the given backends.
func NewRouter(backends map[string]*SBackend) *Router {
	rt := &Router{ch: map[string]chan *SBackendConn{}}
	for bn, sb := range backends {
		bn, sb := bn, sb
		go func() {
			for c := range sb.Accepted {
				rt.get(bn, c.Name) <- c
			}
		}()
	}
	return rt
}

func (rt *Router) get(backend, player string) chan *SBackendConn {
	rt.mu.Lock()
	defer rt.mu.Unlock()
	k := backend + "/" + player
	c := rt.ch[k]
	if c == nil {
		c = make(chan *SBackendConn, 8)
		rt.ch[k] = c
	}
	return c
}

// Await waits for the player's next connection to the backend.
func (rt *Router) Await(backend, player string, d time.Duration) (*SBackendConn, error) {
	select {
	case c := <-rt.get(backend, player):
		return c, nil
	case <-time.After(d):
		return nil, fmt.Errorf("rig: %s never connected to backend %s", player, backend)
	}
}

// ---------------------------------------------------------------- rendezvous

// Rendezvous holds goroutines of the real proxy at verifhook points until a given
// number of them has arrived there with the same key (point name + "id" value), or a
// timeout passed; then the group stays open.  It turns "several handlers at once" into
// "several handlers inside the same window at once".  It only delays.
type Rendezvous struct {
	mu      sync.Mutex
	groups  map[string]*rvGroup
	Timeout time.Duration
	Met     int // groups that filled up
	Timed   int // groups released by the timeout
}

type rvGroup struct {
	need, n int
	open    chan struct{}
	done    bool
}

// NewRendezvous creates a rendezvous receiver.
func NewRendezvous(timeout time.Duration) *Rendezvous {
	return &Rendezvous{groups: map[string]*rvGroup{}, Timeout: timeout}
}

// Install / Uninstall make it the process-wide hook receiver.
func (r *Rendezvous) Install()   { verifexport.InstallHook(r.hook) }
func (r *Rendezvous) Uninstall() { verifexport.InstallHook(nil) }

// Expect arms the point for the id: the first `need` arrivals wait for each other.
func (r *Rendezvous) Expect(point string, id int64, need int) {
	r.mu.Lock()
	r.groups[fmt.Sprintf("%s/%d", point, id)] = &rvGroup{need: need, open: make(chan struct{})}
	r.mu.Unlock()
}

func (r *Rendezvous) hook(gate bool, name string, kv []any) {
	if !gate {
		return
	}
	var id int64 = -1
	for i := 0; i+1 < len(kv); i += 2 {
		if kv[i] == "id" {
			switch v := kv[i+1].(type) {
			case int64:
				id = v
			case int:
				id = int64(v)
			}
		}
	}
	r.mu.Lock()
	g := r.groups[fmt.Sprintf("%s/%d", name, id)]
	if g == nil || g.done {
		r.mu.Unlock()
		return
	}
	g.n++
	if g.n >= g.need {
		g.done = true
		r.Met++
		close(g.open)
		r.mu.Unlock()
		return
	}
	open := g.open
	r.mu.Unlock()
	select {
	case <-open:
	case <-time.After(r.Timeout):
		r.mu.Lock()
		if !g.done {
			g.done = true
			r.Timed++
			close(g.open)
		}
		r.mu.Unlock()
	}
}
