//go:build verif

package rig

// Additions used by C17 / C19 / C20 (kept out of rig.go, which other checks share):
// dialing from a chosen loopback source address, login/play disconnects sent by a fake
// backend, and the backend side of Velocity's modern-forwarding login plugin exchange.

import (
	"errors"
	"fmt"
	"net"
	"time"

	"verif/harness/mcwire"
)

// More protocol numbers.
const (
	P1_7_6  = 5
	P1_13   = 393
	P1_19_0 = 759
)

// DialFrom opens a raw framed connection to the proxy from the given loopback source
// address (any 127.x.y.z is local on Linux), so the proxy sees that player IP.
func (r *Rig) DialFrom(localIP string) (*mcwire.Conn, error) {
	d := net.Dialer{Timeout: 5 * time.Second}
	if localIP != "" {
		d.LocalAddr = &net.TCPAddr{IP: net.ParseIP(localIP)}
	}
	c, err := d.Dial("tcp", r.Addr())
	if err != nil {
		return nil, err
	}
	return mcwire.NewConn(c), nil
}

// LoginDisconnect sends the clientbound login-state disconnect (JSON text in all versions).
func (bc *BackendConn) LoginDisconnect(text string) error {
	return bc.WritePacket(LoginDisconnect, (&mcwire.Buf{}).String(fmt.Sprintf(`{"text":%q}`, text)).B)
}

// PlayDisconnectID is the clientbound play-state disconnect id for the rig's versions.
func PlayDisconnectID(proto int) int {
	switch {
	case proto >= P1_20_5:
		return 0x1d
	case proto >= P1_20_2:
		return 0x1b
	case proto >= P1_20:
		return 0x1a
	}
	return -1
}

// TextComponentPayload encodes a plain text component the way the protocol version
// carries it: JSON string before 1.20.3, a nameless NBT string tag from 1.20.3 on.
func TextComponentPayload(proto int, text string) []byte {
	if proto >= P1_20_3 {
		b := (&mcwire.Buf{}).Byte(0x08).U16(uint16(len(text)))
		return b.Raw([]byte(text)).B
	}
	return (&mcwire.Buf{}).String(fmt.Sprintf(`{"text":%q}`, text)).B
}

// PlayDisconnect sends the clientbound play-state disconnect.
func (bc *BackendConn) PlayDisconnect(text string) error {
	id := PlayDisconnectID(bc.Proto)
	if id < 0 {
		return fmt.Errorf("rig: no play disconnect id for protocol %d", bc.Proto)
	}
	return bc.WritePacket(id, TextComponentPayload(bc.Proto, text))
}

// VelocityResponse is the serverbound login plugin response to a forwarding request.
type VelocityResponse struct {
	MsgID   int
	Success bool
	Data    []byte
}

// VelocityChannel is the login plugin channel of Velocity's modern forwarding.
const VelocityChannel = "velocity:player_info"

// RequestVelocityForwarding sends the clientbound login plugin message a Paper backend
// sends (channel velocity:player_info, data = the given bytes, normally one version byte)
// and reads the matching serverbound login plugin response.
func (bc *BackendConn) RequestVelocityForwarding(msgID int, data []byte) (VelocityResponse, error) {
	req := (&mcwire.Buf{}).VarInt(msgID).String(VelocityChannel).Raw(data).B
	if err := bc.WritePacket(LoginPluginMsg, req); err != nil {
		return VelocityResponse{}, err
	}
	for i := 0; i < 50; i++ {
		p, err := bc.ReadPacket()
		if err != nil {
			return VelocityResponse{}, err
		}
		if p.ID != SBLoginPluginResp {
			continue
		}
		rd := mcwire.NewRd(p.Data)
		resp := VelocityResponse{MsgID: rd.VarInt(), Success: rd.Bool()}
		if rd.Err != nil {
			return resp, rd.Err
		}
		resp.Data = rd.Rest()
		if resp.MsgID != msgID {
			continue
		}
		return resp, nil
	}
	return VelocityResponse{}, errors.New("backend: no login plugin response")
}
