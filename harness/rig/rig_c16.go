//go:build verif

// Additions to the live rig for C16 (server switches): a fake client that keeps reading
// after the join and follows the proxy through re-configuration (1.20.2+ switches), and
// scripted fake backends whose connections park after the login start until the harness
// tells them how to behave.
package rig

import (
	"context"
	"errors"
	"fmt"
	"net"
	"sync"
	"time"

	"go.minekube.com/gate/pkg/edition/java/proto/packet"
	cfgpacket "go.minekube.com/gate/pkg/edition/java/proto/packet/config"
	"go.minekube.com/gate/pkg/edition/java/proxy"
	gproto "go.minekube.com/gate/pkg/gate/proto"

	"verif/harness/mcwire"
)

// ------------------------------------------------------------------ auto client

// AutoClient is a joined fake client with a reader goroutine that behaves like a vanilla
// client where the proxy needs it to: it acknowledges StartConfiguration, finishes the
// configuration phase again, and notes JoinGame / Disconnect / close.
type AutoClient struct {
	*Client
	mu      sync.Mutex
	state   string // "play" | "config"
	joins   int
	kicked  bool
	closed  bool
	reconfs int
	done    chan struct{}
}

// Auto starts the reader. Call it after JoinFully / JoinFullyAny.
func (c *Client) Auto() *AutoClient {
	a := &AutoClient{Client: c, state: "play", joins: 1, done: make(chan struct{})}
	go a.loop()
	return a
}

func (a *AutoClient) loop() {
	defer close(a.done)
	p := a.Proto
	startUpdate, hasStart := PlayID(gproto.ClientBound, p, &cfgpacket.StartUpdate{})
	ackCfg, _ := PlayID(gproto.ServerBound, p, &cfgpacket.FinishedUpdate{})
	playKick, _ := PlayID(gproto.ClientBound, p, &packet.Disconnect{})
	joinID := JoinGameIDAny(p)
	a.Conn.Timeout = 0
	for {
		pk, err := a.ReadPacket()
		if err != nil {
			a.mu.Lock()
			a.closed = true
			a.mu.Unlock()
			return
		}
		a.mu.Lock()
		st := a.state
		a.mu.Unlock()
		switch st {
		case "play":
			switch {
			case hasStart && p >= P1_20_2 && pk.ID == startUpdate:
				a.mu.Lock()
				a.state = "config"
				a.reconfs++
				a.mu.Unlock()
				_ = a.WritePacket(ackCfg, nil)
			case pk.ID == joinID:
				a.mu.Lock()
				a.joins++
				a.mu.Unlock()
			case pk.ID == playKick:
				a.mu.Lock()
				a.kicked = true
				a.mu.Unlock()
			}
		case "config":
			switch pk.ID {
			case cbFinishConfig(p):
				a.mu.Lock()
				a.state = "play"
				a.mu.Unlock()
				_ = a.WritePacket(sbFinishConfig(p), nil)
			case cbConfigDisconnect(p):
				a.mu.Lock()
				a.kicked = true
				a.mu.Unlock()
			}
		}
	}
}

// Snapshot returns what the client has seen so far.
func (a *AutoClient) Snapshot() (state string, joins, reconfs int, kicked, closed bool) {
	a.mu.Lock()
	defer a.mu.Unlock()
	return a.state, a.joins, a.reconfs, a.kicked, a.closed
}

// Closed reports whether the proxy closed the client connection.
func (a *AutoClient) Closed() bool { a.mu.Lock(); defer a.mu.Unlock(); return a.closed }

// Wait waits for the reader to end (after Close).
func (a *AutoClient) Wait(d time.Duration) {
	select {
	case <-a.done:
	case <-time.After(d):
	}
}

// ------------------------------------------------------------ scripted backend

// Attempt is one proxy->backend connection of a scripted backend.
type Attempt struct {
	BC     *BackendConn
	Server string
	N      int // accept order on this backend
	Player string

	mu     sync.Mutex
	state  string // "login" (parked after login start) | "joining" | "joined" | "kicked" | "stalled" | "dead"
	closed bool   // the backend saw the connection end
	cmd    chan string
	gone   chan struct{}
}

// State returns the script state and whether the backend has seen the connection end.
func (at *Attempt) State() (string, bool) {
	at.mu.Lock()
	defer at.mu.Unlock()
	return at.state, at.closed
}

func (at *Attempt) set(s string) { at.mu.Lock(); at.state = s; at.mu.Unlock() }

// Do sends a behaviour command: while parked in login "accept", "drop", "kicklogin", "kickmid"
// (disconnect after login success: configuration phase for 1.20.2+, before JoinGame
// otherwise), "stall:<ms>" (then accept), "hang" (never answer); once joined "kickplay".
// It returns false if the connection's script has already ended.
func (at *Attempt) Do(cmd string) bool {
	select {
	case at.cmd <- cmd:
		return true
	case <-at.gone:
		return false
	case <-time.After(5 * time.Second):
		return false
	}
}

// Gone is closed when the backend is done with the connection (it is closed).
func (at *Attempt) Gone() <-chan struct{} { return at.gone }

// ScriptedBackend is a fake backend whose connections are driven by Attempt.Do.
type ScriptedBackend struct {
	*Backend
	Server string
	amu    sync.Mutex
	atts   []*Attempt
	// OnLogin is called (in the connection's goroutine) when a login start has been read.
	OnLogin func(at *Attempt)
	// Auto, if set, picks the behaviour of a connection right after its login start ("" = park
	// and wait for Attempt.Do).
	Auto func(at *Attempt) string
}

// NewScriptedBackend starts a scripted backend; name it like the server it is registered as.
func NewScriptedBackend(server string) (*ScriptedBackend, error) {
	sb := &ScriptedBackend{Server: server}
	b, err := NewBackend(sb.behave)
	if err != nil {
		return nil, err
	}
	sb.Backend = b
	return sb, nil
}

// RefuseNext makes the backend drop connections right after accepting them (on/off).
func (sb *ScriptedBackend) RefuseNext(on bool) {
	sb.Backend.mu.Lock()
	sb.Backend.Refuse = on
	sb.Backend.mu.Unlock()
}

// Attempts returns all connections that got as far as a login start.
func (sb *ScriptedBackend) Attempts() []*Attempt {
	sb.amu.Lock()
	defer sb.amu.Unlock()
	return append([]*Attempt(nil), sb.atts...)
}

// Accepted is the number of TCP connections accepted so far (including refused ones).
func (sb *ScriptedBackend) Accepted() int { return len(sb.Backend.Conns()) }

func disconnectReason(proto int, login bool, text string) []byte {
	if login || proto < P1_20_3 {
		return (&mcwire.Buf{}).String(fmt.Sprintf(`{"text":%q}`, text)).B
	}
	// 1.20.3+: text components travel as NBT; a bare string tag is a valid component
	return (&mcwire.Buf{}).Byte(0x08).U16(uint16(len(text))).Raw([]byte(text)).B
}

func (sb *ScriptedBackend) behave(bc *BackendConn) {
	if err := bc.ReadLogin(); err != nil {
		return
	}
	at := &Attempt{BC: bc, Server: sb.Server, N: bc.N, Player: bc.Name, state: "login",
		cmd: make(chan string), gone: make(chan struct{})}
	defer func() {
		at.mu.Lock()
		at.closed = true
		if at.state == "login" || at.state == "joining" || at.state == "stalled" {
			at.state = "dead"
		}
		at.mu.Unlock()
		close(at.gone)
	}()
	sb.amu.Lock()
	sb.atts = append(sb.atts, at)
	sb.amu.Unlock()
	if sb.OnLogin != nil {
		sb.OnLogin(at)
	}
	var cmd string
	if sb.Auto != nil {
		cmd = sb.Auto(at)
	}
	if cmd == "" {
		select {
		case cmd = <-at.cmd:
		case <-time.After(90 * time.Second):
			return
		}
	}
	for {
		var ms int
		if _, err := fmt.Sscanf(cmd, "stall:%d", &ms); err == nil {
			at.set("stalled")
			time.Sleep(time.Duration(ms) * time.Millisecond)
			cmd = "accept"
			continue
		}
		break
	}
	switch cmd {
	case "kicklogin":
		at.set("kicked")
		_ = bc.WritePacket(LoginDisconnect, disconnectReason(bc.Proto, true, "kicked in login"))
		sb.drain(bc, 2*time.Second)
		return
	case "kickmid":
		at.set("kicked")
		id := bc.UUID
		if !bc.HasUUID {
			id = OfflineUUID(bc.Name)
		}
		if err := bc.WritePacket(LoginSuccessID, LoginSuccessPayloadAny(bc.Proto, id, bc.Name)); err != nil {
			return
		}
		if bc.Proto >= P1_20_2 {
			if _, err := bc.awaitSB(SBLoginAck); err != nil {
				return
			}
			_ = bc.WritePacket(cbConfigDisconnect(bc.Proto), disconnectReason(bc.Proto, false, "kicked in configuration"))
		} else {
			kid, _ := PlayID(gproto.ClientBound, bc.Proto, &packet.Disconnect{})
			_ = bc.WritePacket(kid, disconnectReason(bc.Proto, false, "kicked before join"))
		}
		sb.drain(bc, 2*time.Second)
		return
	case "drop":
		at.set("kicked")
		return // close without a word: the proxy sees the connection end during login
	case "loginok":
		// login succeeds, then the backend goes quiet before JoinGame (legacy clients: the proxy
		// is in its transition handler)
		at.set("stalled")
		id := bc.UUID
		if !bc.HasUUID {
			id = OfflineUUID(bc.Name)
		}
		if err := bc.WritePacket(LoginSuccessID, LoginSuccessPayloadAny(bc.Proto, id, bc.Name)); err != nil {
			return
		}
		sb.drain(bc, 90*time.Second)
		return
	case "hang":
		at.set("stalled")
		sb.drain(bc, 90*time.Second) // until the proxy gives up and closes
		return
	case "accept":
	default:
		return
	}
	at.set("joining")
	if err := bc.CompleteJoinAny(-1); err != nil {
		return
	}
	at.set("joined")
	// joined: read until the connection ends; accept a late "kickplay"
	readerDone := make(chan struct{})
	go func() {
		defer close(readerDone)
		bc.Conn.Timeout = 0
		for {
			if _, err := bc.ReadPacket(); err != nil {
				return
			}
		}
	}()
	for {
		select {
		case <-readerDone:
			return
		case c := <-at.cmd:
			if c == "close" {
				at.set("kicked")
				return // the backend closes this connection by itself, without a word
			}
			if c == "kickplay" {
				at.set("kicked")
				kid, _ := PlayID(gproto.ClientBound, bc.Proto, &packet.Disconnect{})
				_ = bc.WritePacket(kid, disconnectReason(bc.Proto, false, "kicked from play"))
			}
		}
	}
}

// drain reads until the peer closes or d passes.
func (sb *ScriptedBackend) drain(bc *BackendConn, d time.Duration) {
	deadline := time.Now().Add(d)
	for time.Now().Before(deadline) {
		bc.Conn.Timeout = time.Until(deadline)
		if bc.Conn.Timeout <= 0 {
			return
		}
		if _, err := bc.ReadPacket(); err != nil {
			return
		}
	}
}

var errNoAttempt = errors.New("rig: no such attempt")

// WaitAttempt waits until the backend has at least n login attempts and returns the n-th (1-based).
func (sb *ScriptedBackend) WaitAttempt(n int, d time.Duration) (*Attempt, error) {
	var at *Attempt
	ok := WaitFor(d, func() bool {
		as := sb.Attempts()
		if len(as) >= n {
			at = as[n-1]
			return true
		}
		return false
	})
	if !ok {
		return nil, errNoAttempt
	}
	return at, nil
}

// ------------------------------------------------------------------ gated dial

// DialGate lets the harness hold the TCP dial of chosen (player, server) attempts: the
// proxy is then inside serverConnection.dial, before any backend connection exists.
type DialGate struct {
	mu     sync.Mutex
	hold   map[string]int           // "player/server" -> dials to hold
	parked map[string]chan struct{} // held dials
	seen   map[string]int           // dials entered so far
}

// NewDialGate creates a gate.
func NewDialGate() *DialGate {
	return &DialGate{hold: map[string]int{}, parked: map[string]chan struct{}{}, seen: map[string]int{}}
}

// Hold makes the next dial of player to server park.
func (g *DialGate) Hold(player, server string) { g.mu.Lock(); g.hold[player+"/"+server]++; g.mu.Unlock() }

// Unhold takes back an unused Hold.
func (g *DialGate) Unhold(player, server string) {
	g.mu.Lock()
	if g.hold[player+"/"+server] > 0 {
		g.hold[player+"/"+server]--
	}
	g.mu.Unlock()
}

// Parked reports whether a dial of player to server is being held.
func (g *DialGate) Parked(player, server string) bool {
	g.mu.Lock()
	defer g.mu.Unlock()
	return g.parked[player+"/"+server] != nil
}

// Dials is the number of dials player has started to server.
func (g *DialGate) Dials(player, server string) int {
	g.mu.Lock()
	defer g.mu.Unlock()
	return g.seen[player+"/"+server]
}

// Release lets a held dial go on; false if none is held.
func (g *DialGate) Release(player, server string) bool {
	g.mu.Lock()
	defer g.mu.Unlock()
	ch := g.parked[player+"/"+server]
	if ch == nil {
		return false
	}
	delete(g.parked, player+"/"+server)
	close(ch)
	return true
}

// ReleaseAll drops all holds of the player and releases its held dials.
func (g *DialGate) ReleaseAll(player string) {
	g.mu.Lock()
	defer g.mu.Unlock()
	for k := range g.hold {
		if len(k) > len(player) && k[:len(player)+1] == player+"/" {
			delete(g.hold, k)
		}
	}
	for k, ch := range g.parked {
		if len(k) > len(player) && k[:len(player)+1] == player+"/" {
			delete(g.parked, k)
			close(ch)
		}
	}
}

// GatedServerInfo is a proxy.ServerInfo whose connections are dialed through a DialGate
// (it implements proxy.ServerDialer).
type GatedServerInfo struct {
	ServerName string
	Address    net.Addr
	G          *DialGate
}

func (i *GatedServerInfo) Name() string   { return i.ServerName }
func (i *GatedServerInfo) Addr() net.Addr { return i.Address }

// Dial parks while the gate holds this (player, server), then dials the real address.
func (i *GatedServerInfo) Dial(ctx context.Context, player proxy.Player) (net.Conn, error) {
	key := player.Username() + "/" + i.ServerName
	i.G.mu.Lock()
	i.G.seen[key]++
	var ch chan struct{}
	if i.G.hold[key] > 0 {
		i.G.hold[key]--
		ch = make(chan struct{})
		i.G.parked[key] = ch
	}
	i.G.mu.Unlock()
	if ch != nil {
		select {
		case <-ch:
		case <-ctx.Done():
			i.G.mu.Lock()
			if i.G.parked[key] == ch {
				delete(i.G.parked, key)
			}
			i.G.mu.Unlock()
			return nil, ctx.Err()
		}
	}
	var d net.Dialer
	return d.DialContext(ctx, "tcp", i.Address.String())
}

// GateServers re-registers every server of the rig behind a DialGate.
func (r *Rig) GateServers(g *DialGate) error {
	for _, rs := range r.P.Servers() {
		info := rs.ServerInfo()
		if !r.P.Unregister(info) {
			return fmt.Errorf("rig: cannot unregister %s", info.Name())
		}
		if _, err := r.P.Register(&GatedServerInfo{ServerName: info.Name(), Address: info.Addr(), G: g}); err != nil {
			return err
		}
	}
	return nil
}
