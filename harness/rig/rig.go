//go:build verif

// Package rig is the live-proxy rig: a real gate proxy (proxy.New + Proxy.HandleConn
// over loopback TCP), fake Minecraft clients and scriptable fake backends that speak
// the wire protocol through the harness's own codec (harness/mcwire), and a fake
// Mojang session server. Nothing here is an oracle; checks record what the fakes
// observe and let TLC judge it.
package rig

import (
	"context"
	"crypto/md5"
	"errors"
	"fmt"
	"net"
	"net/http"
	"net/http/httptest"
	"net/url"
	"strconv"
	"sync"
	"time"

	"github.com/robinbraemer/event"

	"go.minekube.com/gate/pkg/edition/java/auth"
	"go.minekube.com/gate/pkg/edition/java/config"
	"go.minekube.com/gate/pkg/edition/java/proxy"
	"go.minekube.com/gate/pkg/util/configutil"

	"verif/harness/mcwire"
)

// Options configure a rig.
type Options struct {
	// Mutate edits the configuration (a copy of config.DefaultConfig with offline mode,
	// no compression, no forwarding, short timeouts) before the proxy is built.
	Mutate        func(c *config.Config)
	EventMgr      event.Manager
	Authenticator auth.Authenticator
	// Backends to register: name -> backend. Their addresses are put into cfg.Servers.
	Backends map[string]*Backend
	Try      []string
}

// Rig is a running proxy plus its listener.
type Rig struct {
	P       *proxy.Proxy
	Cfg     *config.Config
	Event   event.Manager
	ln      net.Listener
	wg      sync.WaitGroup
	closed  chan struct{}
	Session *SessionServer
}

// New builds and "starts" a proxy (HandleConn on an own loopback listener).
func New(o Options) (*Rig, error) {
	cfg := config.DefaultConfig
	cfg.Bind = "127.0.0.1:0"
	cfg.OnlineMode = false
	cfg.Forwarding.Mode = config.NoneForwardingMode
	cfg.Compression.Threshold = -1
	cfg.Servers = map[string]string{}
	cfg.Try = nil
	cfg.ForcedHosts = map[string][]string{}
	cfg.Quota.Connections.Enabled = false
	cfg.Quota.Logins.Enabled = false
	cfg.ConnectionTimeout = configutil.Duration(3 * time.Second)
	cfg.ReadTimeout = configutil.Duration(30 * time.Minute) // fake clients send no keep-alives
	for name, b := range o.Backends {
		cfg.Servers[name] = b.Addr()
		b.Name = name
	}
	cfg.Try = append(cfg.Try, o.Try...)
	if o.Mutate != nil {
		o.Mutate(&cfg)
	}
	mgr := o.EventMgr
	if mgr == nil {
		mgr = event.New()
	}
	p, err := proxy.New(proxy.Options{Config: &cfg, EventMgr: mgr, Authenticator: o.Authenticator})
	if err != nil {
		return nil, err
	}
	if err := p.VerifInit(); err != nil {
		return nil, err
	}
	ln, err := net.Listen("tcp", "127.0.0.1:0")
	if err != nil {
		return nil, err
	}
	r := &Rig{P: p, Cfg: &cfg, Event: mgr, ln: ln, closed: make(chan struct{})}
	r.wg.Add(1)
	go func() {
		defer r.wg.Done()
		for {
			c, err := ln.Accept()
			if err != nil {
				return
			}
			go p.HandleConn(c)
		}
	}()
	return r, nil
}

// Addr is the proxy's listen address.
func (r *Rig) Addr() string { return r.ln.Addr().String() }

// Close stops the listener and disconnects everyone.
func (r *Rig) Close() {
	select {
	case <-r.closed:
		return
	default:
	}
	close(r.closed)
	_ = r.ln.Close()
	r.P.DisconnectAll(nil)
	r.wg.Wait()
	if r.Session != nil {
		r.Session.Close()
	}
}

// Dial opens a raw framed connection to the proxy.
func (r *Rig) Dial() (*mcwire.Conn, error) {
	c, err := net.DialTimeout("tcp", r.Addr(), 3*time.Second)
	if err != nil {
		return nil, err
	}
	return mcwire.NewConn(c), nil
}

// ------------------------------------------------------------ protocol numbers

const (
	P1_8    = 47
	P1_12_2 = 340
	P1_16_4 = 754
	P1_18_2 = 758
	P1_19   = 759
	P1_19_1 = 760
	P1_19_3 = 761
	P1_19_4 = 762
	P1_20   = 763
	P1_20_2 = 764
	P1_20_3 = 765
	P1_20_5 = 766
	P1_21   = 767
	P1_21_2 = 768
)

// OfflineUUID is vanilla's name-based UUID of "OfflinePlayer:"+name (own implementation).
func OfflineUUID(name string) (u [16]byte) {
	u = md5.Sum([]byte("OfflinePlayer:" + name))
	u[6] = u[6]&0x0f | 0x30
	u[8] = u[8]&0x3f | 0x80
	return
}

// ------------------------------------------------------------------ client side

// Client is a fake Minecraft client.
type Client struct {
	*mcwire.Conn
	Proto int
	Name  string
	UUID  [16]byte
	Seen  []mcwire.Packet // clientbound packets read by helper flows
}

// NewClient dials the proxy.
func (r *Rig) NewClient(proto int) (*Client, error) {
	c, err := r.Dial()
	if err != nil {
		return nil, err
	}
	return &Client{Conn: c, Proto: proto}, nil
}

// HandshakePayload builds the serverbound handshake packet body (after the id).
func HandshakePayload(proto int, host string, port int, next int) []byte {
	return (&mcwire.Buf{}).VarInt(proto).String(host).U16(uint16(port)).VarInt(next).B
}

// Handshake sends the handshake.
func (c *Client) Handshake(host string, port, next int) error {
	return c.WritePacket(0x00, HandshakePayload(c.Proto, host, port, next))
}

// LoginStartPayload is the serverbound login start layout of the given protocol (no key).
func LoginStartPayload(proto int, name string, id [16]byte) []byte {
	b := (&mcwire.Buf{}).String(name)
	switch {
	case proto >= P1_20_2:
		b.UUID(id)
	case proto >= P1_19_3:
		b.Bool(true).UUID(id)
	case proto >= P1_19_1:
		b.Bool(false).Bool(true).UUID(id)
	case proto >= P1_19:
		b.Bool(false)
	}
	return b.B
}

// LoginStart sends login start for name.
func (c *Client) LoginStart(name string) error {
	c.Name = name
	c.UUID = OfflineUUID(name)
	return c.WritePacket(0x00, LoginStartPayload(c.Proto, name, c.UUID))
}

// LoginSuccess is the decoded clientbound login success.
type LoginSuccess struct {
	UUID  [16]byte
	Name  string
	Props int
}

// ParseLoginSuccess decodes login success (protocol >= 735 layouts).
func ParseLoginSuccess(proto int, data []byte) (ls LoginSuccess, err error) {
	rd := mcwire.NewRd(data)
	if proto >= 735 {
		ls.UUID = rd.UUID()
	} else {
		s := rd.Str()
		_ = s
	}
	ls.Name = rd.Str()
	if proto >= P1_19 {
		n := rd.VarInt()
		ls.Props = n
		for i := 0; i < n && rd.Err == nil; i++ {
			rd.Str()
			rd.Str()
			if rd.Bool() {
				rd.Str()
			}
		}
	}
	if proto >= P1_20_5 && proto < P1_21_2 {
		rd.Bool() // strict error handling
	}
	if rd.Err == nil && rd.Len() != 0 {
		return ls, errors.New("rig: trailing bytes after login success")
	}
	return ls, rd.Err
}

// Clientbound login packet ids (stable across the versions the rig uses).
const (
	LoginDisconnect   = 0x00
	LoginEncRequest   = 0x01
	LoginSuccessID    = 0x02
	LoginSetCompress  = 0x03
	LoginPluginMsg    = 0x04
	SBLoginStart      = 0x00
	SBLoginEncResp    = 0x01
	SBLoginPluginResp = 0x02
	SBLoginAck        = 0x03
)

// ErrDisconnected is returned by flows when the proxy sent a disconnect / closed.
var ErrDisconnected = errors.New("rig: disconnected during login")

// AwaitLoginSuccess reads clientbound login packets until login success, applying
// SetCompression. It answers login plugin messages with "not understood".
func (c *Client) AwaitLoginSuccess() (LoginSuccess, error) {
	for {
		p, err := c.ReadPacket()
		if err != nil {
			return LoginSuccess{}, err
		}
		c.Seen = append(c.Seen, p)
		switch p.ID {
		case LoginSetCompress:
			c.SetCompression(mcwire.NewRd(p.Data).VarInt())
		case LoginSuccessID:
			return ParseLoginSuccess(c.Proto, p.Data)
		case LoginDisconnect:
			return LoginSuccess{}, fmt.Errorf("%w: %s", ErrDisconnected, string(p.Data))
		case LoginPluginMsg:
			id := mcwire.NewRd(p.Data).VarInt()
			_ = c.WritePacket(SBLoginPluginResp, (&mcwire.Buf{}).VarInt(id).Bool(false).B)
		}
	}
}

// Config-phase ids for the versions the rig drives (764/765 and 766+).
func cbFinishConfig(proto int) int {
	if proto >= P1_20_5 {
		return 0x03
	}
	return 0x02
}
func sbFinishConfig(proto int) int {
	if proto >= P1_20_5 {
		return 0x03
	}
	return 0x02
}
func cbConfigDisconnect(proto int) int {
	if proto >= P1_20_5 {
		return 0x02
	}
	return 0x01
}

// LoginOffline runs handshake + login start and waits for login success; for 1.20.2+
// it then acknowledges the login (entering configuration).
func (c *Client) LoginOffline(host string, name string) (LoginSuccess, error) {
	if err := c.Handshake(host, 25565, 2); err != nil {
		return LoginSuccess{}, err
	}
	if err := c.LoginStart(name); err != nil {
		return LoginSuccess{}, err
	}
	ls, err := c.AwaitLoginSuccess()
	if err != nil {
		return ls, err
	}
	if c.Proto >= P1_20_2 {
		if err := c.WritePacket(SBLoginAck, nil); err != nil {
			return ls, err
		}
	}
	return ls, nil
}

// FinishConfig (1.20.2+) reads config-phase packets until the proxy forwards the
// backend's finish-configuration, acknowledges it, and returns the packets seen before.
func (c *Client) FinishConfig() ([]mcwire.Packet, error) {
	var seen []mcwire.Packet
	for {
		p, err := c.ReadPacket()
		if err != nil {
			return seen, err
		}
		if p.ID == cbFinishConfig(c.Proto) {
			return seen, c.WritePacket(sbFinishConfig(c.Proto), nil)
		}
		if p.ID == cbConfigDisconnect(c.Proto) {
			return seen, ErrDisconnected
		}
		seen = append(seen, p)
	}
}

// AwaitPacket reads until a packet with the id arrives (others are appended to Seen).
func (c *Client) AwaitPacket(id int, max int) (mcwire.Packet, error) {
	for i := 0; i < max; i++ {
		p, err := c.ReadPacket()
		if err != nil {
			return mcwire.Packet{}, err
		}
		if p.ID == id {
			return p, nil
		}
		c.Seen = append(c.Seen, p)
	}
	return mcwire.Packet{}, errors.New("rig: packet not seen")
}

// JoinGameID is the clientbound play id of JoinGame (login) for the rig's versions.
func JoinGameID(proto int) int {
	switch {
	case proto >= P1_21_2:
		return 0x2c
	case proto >= P1_20_5:
		return 0x2b
	case proto >= P1_20_2:
		return 0x29
	case proto >= P1_20:
		return 0x28
	}
	return -1
}

// JoinFully logs in offline and follows the join until JoinGame reached the client.
func (c *Client) JoinFully(host, name string) error {
	if _, err := c.LoginOffline(host, name); err != nil {
		return err
	}
	if c.Proto >= P1_20_2 {
		if _, err := c.FinishConfig(); err != nil {
			return err
		}
	}
	_, err := c.AwaitPacket(JoinGameID(c.Proto), 50)
	return err
}

// ----------------------------------------------------------------- backend side

// BackendConn is one proxy->backend connection seen by a fake backend.
type BackendConn struct {
	*mcwire.Conn
	B        *Backend
	N        int // accept order
	Proto    int
	HostAddr string // handshake server address as received
	Port     int
	Next     int
	Name     string
	UUID     [16]byte
	HasUUID  bool
	mu       sync.Mutex
	closed   bool
}

// Backend is a scriptable fake Minecraft server.
type Backend struct {
	Name   string
	ln     net.Listener
	mu     sync.Mutex
	conns  []*BackendConn
	Behave func(bc *BackendConn) // per accepted connection; default: StandardJoin then Pump
	Refuse bool                  // close immediately after accept
	OnPacket func(bc *BackendConn, p mcwire.Packet)
	// OnAccept, if set, sees every accepted connection before it is served (e.g. to install a mcwire tap).
	OnAccept func(bc *BackendConn)
	wg     sync.WaitGroup
}

// NewBackend starts a fake backend on loopback.
func NewBackend(behave func(bc *BackendConn)) (*Backend, error) {
	ln, err := net.Listen("tcp", "127.0.0.1:0")
	if err != nil {
		return nil, err
	}
	b := &Backend{ln: ln, Behave: behave}
	b.wg.Add(1)
	go b.serve()
	return b, nil
}

// Addr is the listen address.
func (b *Backend) Addr() string { return b.ln.Addr().String() }

// Close stops the backend and closes its connections.
func (b *Backend) Close() {
	_ = b.ln.Close()
	b.mu.Lock()
	cs := append([]*BackendConn(nil), b.conns...)
	b.mu.Unlock()
	for _, c := range cs {
		_ = c.Close()
	}
	b.wg.Wait()
}

// Conns returns the connections accepted so far.
func (b *Backend) Conns() []*BackendConn {
	b.mu.Lock()
	defer b.mu.Unlock()
	return append([]*BackendConn(nil), b.conns...)
}

func (b *Backend) serve() {
	defer b.wg.Done()
	for {
		c, err := b.ln.Accept()
		if err != nil {
			return
		}
		b.mu.Lock()
		bc := &BackendConn{Conn: mcwire.NewConn(c), B: b, N: len(b.conns)}
		b.conns = append(b.conns, bc)
		refuse := b.Refuse
		behave := b.Behave
		onAccept := b.OnAccept
		b.mu.Unlock()
		if onAccept != nil {
			onAccept(bc)
		}
		if refuse {
			_ = c.Close()
			continue
		}
		b.wg.Add(1)
		go func() {
			defer b.wg.Done()
			defer bc.Close()
			if behave != nil {
				behave(bc)
				return
			}
			if err := bc.StandardJoin(-1); err != nil {
				return
			}
			bc.Pump()
		}()
	}
}

// ReadLogin reads the handshake and login start the proxy sends.
func (bc *BackendConn) ReadLogin() error {
	p, err := bc.ReadPacket()
	if err != nil {
		return err
	}
	if p.ID != 0 {
		return fmt.Errorf("backend: expected handshake, got %v", p)
	}
	rd := mcwire.NewRd(p.Data)
	bc.Proto = rd.VarInt()
	bc.HostAddr = rd.Str()
	bc.Port = int(rd.U16())
	bc.Next = rd.VarInt()
	if rd.Err != nil {
		return rd.Err
	}
	p, err = bc.ReadPacket()
	if err != nil {
		return err
	}
	if p.ID != SBLoginStart {
		return fmt.Errorf("backend: expected login start, got %v", p)
	}
	rd = mcwire.NewRd(p.Data)
	bc.Name = rd.Str()
	switch {
	case bc.Proto >= P1_20_2:
		bc.UUID, bc.HasUUID = rd.UUID(), true
	case bc.Proto >= P1_19_3:
		if rd.Bool() {
			bc.UUID, bc.HasUUID = rd.UUID(), true
		}
	case bc.Proto >= P1_19_1:
		if rd.Bool() { // key: not produced by the proxy towards backends
			return errors.New("backend: unexpected key")
		}
		if rd.Bool() {
			bc.UUID, bc.HasUUID = rd.UUID(), true
		}
	case bc.Proto >= P1_19:
		rd.Bool()
	}
	return rd.Err
}

// LoginSuccessPayload builds clientbound login success.
func LoginSuccessPayload(proto int, id [16]byte, name string) []byte {
	b := (&mcwire.Buf{}).UUID(id).String(name)
	if proto >= P1_19 {
		b.VarInt(0)
	}
	if proto >= P1_20_5 && proto < P1_21_2 {
		b.Bool(true)
	}
	return b.B
}

// JoinGamePayload builds a minimal JoinGame the proxy can decode (763 and 764/765).
func JoinGamePayload(proto int, entityID int32) ([]byte, error) {
	b := &mcwire.Buf{}
	switch {
	case proto == P1_20:
		b.I32(entityID).Bool(false).Byte(0).Byte(0xff).VarInt(1).String("minecraft:overworld")
		b.Raw([]byte{0x0a, 0x00, 0x00, 0x00})
		b.String("minecraft:overworld").String("minecraft:overworld").I64(0).VarInt(20).VarInt(10).VarInt(10)
		b.Bool(false).Bool(true).Bool(false).Bool(false).Bool(false).VarInt(0)
	case proto == P1_20_2 || proto == P1_20_3:
		b.I32(entityID).Bool(false).VarInt(1).String("minecraft:overworld")
		b.VarInt(20).VarInt(10).VarInt(10).Bool(false).Bool(true).Bool(false)
		b.String("minecraft:overworld").String("minecraft:overworld").I64(0).Byte(0).Byte(0xff)
		b.Bool(false).Bool(false).Bool(false).VarInt(0)
	default:
		return nil, fmt.Errorf("rig: no JoinGame layout for protocol %d", proto)
	}
	return b.B, nil
}

// StandardJoin performs the server side of a successful join: optional SetCompression,
// LoginSuccess, (1.20.2+: LoginAck, FinishConfiguration handshake), JoinGame.
func (bc *BackendConn) StandardJoin(threshold int) error {
	if err := bc.ReadLogin(); err != nil {
		return err
	}
	return bc.CompleteJoin(threshold)
}

// CompleteJoin is StandardJoin after ReadLogin.
func (bc *BackendConn) CompleteJoin(threshold int) error {
	if threshold >= 0 {
		if err := bc.WritePacket(LoginSetCompress, (&mcwire.Buf{}).VarInt(threshold).B); err != nil {
			return err
		}
		bc.SetCompression(threshold)
	}
	id := bc.UUID
	if !bc.HasUUID {
		id = OfflineUUID(bc.Name)
	}
	if err := bc.WritePacket(LoginSuccessID, LoginSuccessPayload(bc.Proto, id, bc.Name)); err != nil {
		return err
	}
	if bc.Proto >= P1_20_2 {
		// login acknowledged
		if _, err := bc.awaitSB(SBLoginAck); err != nil {
			return err
		}
		if err := bc.WritePacket(cbFinishConfig(bc.Proto), nil); err != nil {
			return err
		}
		if _, err := bc.awaitSB(sbFinishConfig(bc.Proto)); err != nil {
			return err
		}
	}
	jg, err := JoinGamePayload(bc.Proto, int32(100+bc.N))
	if err != nil {
		return err
	}
	return bc.WritePacket(JoinGameID(bc.Proto), jg)
}

func (bc *BackendConn) awaitSB(id int) (mcwire.Packet, error) {
	for i := 0; i < 200; i++ {
		p, err := bc.ReadPacket()
		if err != nil {
			return p, err
		}
		if p.ID == id {
			return p, nil
		}
		if bc.B.OnPacket != nil {
			bc.B.OnPacket(bc, p)
		}
	}
	return mcwire.Packet{}, errors.New("backend: awaited packet not seen")
}

// Pump reads packets until the connection ends, handing each to Backend.OnPacket.
func (bc *BackendConn) Pump() {
	bc.Conn.Timeout = 0
	for {
		p, err := bc.ReadPacket()
		if err != nil {
			bc.mu.Lock()
			bc.closed = true
			bc.mu.Unlock()
			return
		}
		if bc.B.OnPacket != nil {
			bc.B.OnPacket(bc, p)
		}
	}
}

// Closed reports whether Pump saw the connection end.
func (bc *BackendConn) Closed() bool { bc.mu.Lock(); defer bc.mu.Unlock(); return bc.closed }

// ------------------------------------------------------------- session server

// SessionServer is a fake Mojang session server.
type SessionServer struct {
	S  *httptest.Server
	mu sync.Mutex
	// Reply decides the answer for a hasJoined query.
	Reply   func(serverID, username, ip string) (status int, body string)
	Queries []SessionQuery
}

// SessionQuery is one recorded hasJoined request.
type SessionQuery struct {
	ServerID string `json:"serverId"`
	Username string `json:"username"`
	IP       string `json:"ip"`
}

// NewSessionServer starts the fake session server.
func NewSessionServer() *SessionServer {
	s := &SessionServer{}
	s.S = httptest.NewServer(http.HandlerFunc(func(w http.ResponseWriter, r *http.Request) {
		q := r.URL.Query()
		sq := SessionQuery{q.Get("serverId"), q.Get("username"), q.Get("ip")}
		s.mu.Lock()
		s.Queries = append(s.Queries, sq)
		reply := s.Reply
		s.mu.Unlock()
		status, body := 204, ""
		if reply != nil {
			status, body = reply(sq.ServerID, sq.Username, sq.IP)
		}
		if status < 0 { // transport error: hijack and drop
			if hj, ok := w.(http.Hijacker); ok {
				c, _, _ := hj.Hijack()
				_ = c.Close()
				return
			}
		}
		w.WriteHeader(status)
		_, _ = w.Write([]byte(body))
	}))
	return s
}

// URL returns the hasJoined base URL for config.Auth.SessionServerURL / auth.CustomHasJoinedURL.
func (s *SessionServer) URL() *url.URL {
	u, _ := url.Parse(s.S.URL + "/session/minecraft/hasJoined")
	return u
}

// Log returns a copy of the queries so far.
func (s *SessionServer) Log() []SessionQuery {
	s.mu.Lock()
	defer s.mu.Unlock()
	return append([]SessionQuery(nil), s.Queries...)
}

// Close stops the server.
func (s *SessionServer) Close() { s.S.Close() }

// WaitFor polls cond up to d.
func WaitFor(d time.Duration, cond func() bool) bool {
	deadline := time.Now().Add(d)
	for time.Now().Before(deadline) {
		if cond() {
			return true
		}
		time.Sleep(2 * time.Millisecond)
	}
	return cond()
}

var _ = context.Background
var _ = strconv.Itoa
