//go:build verif

// Additions to the live rig for C15 (relay fidelity): JoinGame / LoginSuccess layouts for
// more protocol versions than rig.go knows, a join flow built on them, and a raw frame
// reader that also reports how a frame travelled on the wire (compressed or not, frame
// length). Own implementation throughout (harness codec); gate is only asked for packet
// id *numbers* (table lookups that steer the driver, never an oracle).
package rig

import (
	"bufio"
	"bytes"
	"compress/zlib"
	"fmt"
	"io"
	"net"
	"time"

	"go.minekube.com/gate/pkg/edition/java/proto/packet"
	"go.minekube.com/gate/pkg/edition/java/proto/state"
	gproto "go.minekube.com/gate/pkg/gate/proto"

	"verif/harness/mcwire"
)

// More protocol numbers.
const (
	P1_9_1  = 108
	P1_13_2 = 404
	P1_14   = 477
	P1_15   = 573
	P1_16   = 735
	P1_16_2 = 751
	P1_16_5 = 754
	P1_18   = 757
	P1_21_11 = 774
)

// PlayID returns the play-state packet id gate has registered for a packet type in the
// given direction and protocol (ok=false: not registered).
func PlayID(dir gproto.Direction, proto int, of gproto.Packet) (int, bool) {
	reg := state.Play.ServerBound
	if dir == gproto.ClientBound {
		reg = state.Play.ClientBound
	}
	pr := reg.ProtocolRegistry(gproto.Protocol(proto))
	if pr == nil {
		return 0, false
	}
	id, ok := pr.PacketID(of)
	return int(id), ok
}

// RegisteredPlayIDs returns the set of ids gate has registered for (direction, protocol).
func RegisteredPlayIDs(dir gproto.Direction, proto int) map[int]bool {
	reg := state.Play.ServerBound
	if dir == gproto.ClientBound {
		reg = state.Play.ClientBound
	}
	out := map[int]bool{}
	pr := reg.ProtocolRegistry(gproto.Protocol(proto))
	if pr == nil {
		return out
	}
	for id := range pr.PacketIDs {
		out[int(id)] = true
	}
	return out
}

// JoinGameIDAny is the clientbound play id of JoinGame for any supported protocol.
func JoinGameIDAny(proto int) int {
	id, ok := PlayID(gproto.ClientBound, proto, &packet.JoinGame{})
	if !ok {
		return -1
	}
	return id
}

var emptyNBT = []byte{0x0a, 0x00, 0x00, 0x00} // named (empty name) empty compound

// JoinGamePayloadAny builds a minimal JoinGame for protocol 47 .. 775.
func JoinGamePayloadAny(proto int, entityID int32) ([]byte, error) {
	b := &mcwire.Buf{}
	const world = "minecraft:overworld"
	switch {
	case proto < P1_8:
		return nil, fmt.Errorf("rig: no JoinGame layout for protocol %d", proto)
	case proto < P1_16:
		b.I32(entityID).Byte(0)
		if proto >= P1_9_1 {
			b.I32(0)
		} else {
			b.Byte(0)
		}
		if proto <= P1_13_2 {
			b.Byte(1)
		}
		if proto >= P1_15 {
			b.I64(0)
		}
		b.Byte(20).String("default")
		if proto >= P1_14 {
			b.VarInt(10)
		}
		b.Bool(false)
		if proto >= P1_15 {
			b.Bool(true)
		}
	case proto < P1_20_2:
		b.I32(entityID)
		if proto >= P1_16_2 {
			b.Bool(false).Byte(0)
		} else {
			b.Byte(0)
		}
		b.Byte(0xff).VarInt(1).String(world).Raw(emptyNBT)
		if proto >= P1_16_2 && proto < P1_19 {
			b.Raw(emptyNBT).String(world)
		} else {
			b.String(world).String(world)
		}
		b.I64(0)
		if proto >= P1_16_2 {
			b.VarInt(20)
		} else {
			b.Byte(20)
		}
		b.VarInt(10)
		if proto >= P1_18 {
			b.VarInt(10)
		}
		b.Bool(false).Bool(true).Bool(false).Bool(false)
		if proto >= P1_19 {
			b.Bool(false)
		}
		if proto >= P1_20 {
			b.VarInt(0)
		}
	default:
		b.I32(entityID).Bool(false).VarInt(1).String(world)
		b.VarInt(20).VarInt(10).VarInt(10).Bool(false).Bool(true).Bool(false)
		if proto >= P1_20_5 {
			b.VarInt(0)
		} else {
			b.String(world)
		}
		b.String(world).I64(0).Byte(0).Byte(0xff)
		b.Bool(false).Bool(false).Bool(false).VarInt(0)
		if proto >= P1_21_2 {
			b.VarInt(63)
		}
		if proto >= 776 {
			b.Bool(false)
		}
		if proto >= P1_20_5 {
			b.Bool(false)
		}
	}
	return b.B, nil
}

func dashed(u [16]byte) string {
	return fmt.Sprintf("%x-%x-%x-%x-%x", u[0:4], u[4:6], u[6:8], u[8:10], u[10:16])
}

// LoginSuccessPayloadAny builds clientbound login success for protocol 47 .. 775.
func LoginSuccessPayloadAny(proto int, id [16]byte, name string) []byte {
	if proto < P1_16 {
		return (&mcwire.Buf{}).String(dashed(id)).String(name).B
	}
	return LoginSuccessPayload(proto, id, name)
}

// CompleteJoinAny is CompleteJoin with the wider version coverage.
func (bc *BackendConn) CompleteJoinAny(threshold int) error {
	if threshold >= 0 {
		if err := bc.WritePacket(LoginSetCompress, (&mcwire.Buf{}).VarInt(threshold).B); err != nil {
			return err
		}
		bc.SetCompression(threshold)
	}
	id := bc.UUID
	if !bc.HasUUID {
		id = OfflineUUID(bc.Name)
	}
	if err := bc.WritePacket(LoginSuccessID, LoginSuccessPayloadAny(bc.Proto, id, bc.Name)); err != nil {
		return err
	}
	if bc.Proto >= P1_20_2 {
		if _, err := bc.awaitSB(SBLoginAck); err != nil {
			return err
		}
		if err := bc.WritePacket(cbFinishConfig(bc.Proto), nil); err != nil {
			return err
		}
		if _, err := bc.awaitSB(sbFinishConfig(bc.Proto)); err != nil {
			return err
		}
	}
	jg, err := JoinGamePayloadAny(bc.Proto, int32(100+bc.N))
	if err != nil {
		return err
	}
	return bc.WritePacket(JoinGameIDAny(bc.Proto), jg)
}

// JoinFullyAny is JoinFully with the wider version coverage.
func (c *Client) JoinFullyAny(host, name string) error {
	if _, err := c.LoginOffline(host, name); err != nil {
		return err
	}
	if c.Proto >= P1_20_2 {
		if _, err := c.FinishConfig(); err != nil {
			return err
		}
	}
	_, err := c.AwaitPacket(JoinGameIDAny(c.Proto), 50)
	return err
}

// ------------------------------------------------------------ raw frame reader

// WireFrame is one frame as it travelled: the decoded payload (id + body) plus how it
// was framed.
type WireFrame struct {
	Payload    []byte
	FrameLen   int  // value of the outer length prefix
	Compressed bool // data-length field was non-zero (zlib body)
	ID         int
	Body       []byte
}

// FrameReader reads frames off a net.Conn with the given (fixed) compression threshold.
// It takes over a connection after the mcwire.Conn helper flows are done (those never
// read ahead, so no bytes are lost).
type FrameReader struct {
	c   net.Conn
	br  *bufio.Reader
	Thr int
}

// NewFrameReader wraps the connection of an mcwire.Conn (no encryption).
func NewFrameReader(c *mcwire.Conn) *FrameReader {
	return &FrameReader{c: c.C, br: bufio.NewReaderSize(c.C, 1<<16), Thr: c.Threshold()}
}

// Read reads the next non-empty frame; timeout bounds the wait for the frame to start.
func (f *FrameReader) Read(timeout time.Duration) (WireFrame, error) {
	for {
		if timeout > 0 {
			_ = f.c.SetReadDeadline(time.Now().Add(timeout))
		} else {
			_ = f.c.SetReadDeadline(time.Time{})
		}
		// the idle timeout only applies to waiting for the first byte of a frame, so a
		// timeout never leaves the reader in the middle of one
		if _, err := f.br.Peek(1); err != nil {
			return WireFrame{}, err
		}
		_ = f.c.SetReadDeadline(time.Now().Add(2 * time.Minute))
		n, _, err := mcwire.ReadVarInt(f.br)
		if err != nil {
			return WireFrame{}, err
		}
		if n < 0 || n > 1<<24 {
			return WireFrame{}, fmt.Errorf("rig: bad frame length %d", n)
		}
		if n == 0 {
			continue
		}
		body := make([]byte, n)
		if _, err := io.ReadFull(f.br, body); err != nil {
			return WireFrame{}, err
		}
		wf := WireFrame{FrameLen: int(n)}
		if f.Thr < 0 {
			wf.Payload = body
		} else {
			rd := mcwire.NewRd(body)
			dl := rd.VarInt()
			if rd.Err != nil {
				return WireFrame{}, rd.Err
			}
			if dl == 0 {
				wf.Payload = rd.Rest()
			} else {
				zr, err := zlib.NewReader(bytes.NewReader(body[rd.Off:]))
				if err != nil {
					return WireFrame{}, err
				}
				out, err := io.ReadAll(zr)
				if err != nil {
					return WireFrame{}, err
				}
				if len(out) != dl {
					return WireFrame{}, fmt.Errorf("rig: inflated %d bytes, claimed %d", len(out), dl)
				}
				wf.Payload, wf.Compressed = out, true
			}
		}
		if len(wf.Payload) == 0 {
			continue // empty packet: skipped by every implementation
		}
		rd := mcwire.NewRd(wf.Payload)
		wf.ID = rd.VarInt()
		if rd.Err != nil {
			return WireFrame{}, rd.Err
		}
		wf.Body = wf.Payload[rd.Off:]
		return wf, nil
	}
}
