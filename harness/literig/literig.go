//go:build verif

// Package literig is the live rig for the Gate Lite properties (C29..C32): a real
// proxy.Proxy in Lite mode reached over real TCP loopback connections, harness
// listeners as backends, and the harness's own handshake encoder. It holds no
// oracle: it drives and captures.
package literig

import (
	"errors"
	"io"
	"net"
	"sync"
	"syscall"
	"time"

	jconfig "go.minekube.com/gate/pkg/edition/java/config"
	liteconfig "go.minekube.com/gate/pkg/edition/java/lite/config"
	"go.minekube.com/gate/pkg/edition/java/proxy"
	"go.minekube.com/gate/pkg/util/configutil"
)

// ---------------------------------------------------------------- wire helpers

// AppendVarInt appends the minimal VarInt encoding of v.
func AppendVarInt(b []byte, v int32) []byte {
	u := uint32(v)
	for {
		if u&^0x7f == 0 {
			return append(b, byte(u))
		}
		b = append(b, byte(u&0x7f)|0x80)
		u >>= 7
	}
}

// AppendVarIntPadded appends a (non-minimal) VarInt encoding of v using exactly n bytes (n <= 5).
func AppendVarIntPadded(b []byte, v int32, n int) []byte {
	u := uint32(v)
	for i := 0; i < n-1; i++ {
		b = append(b, byte(u&0x7f)|0x80)
		u >>= 7
	}
	return append(b, byte(u&0x7f))
}

// AppendString appends a VarInt-length-prefixed UTF-8 string.
func AppendString(b []byte, s string) []byte {
	b = AppendVarInt(b, int32(len(s)))
	return append(b, s...)
}

// HandshakePayload is packet id 0x00 + protocol + address + port + next state (+ extra bytes).
func HandshakePayload(protocol int32, host string, port uint16, next int32, extra []byte) []byte {
	b := []byte{0x00}
	b = AppendVarInt(b, protocol)
	b = AppendString(b, host)
	b = append(b, byte(port>>8), byte(port))
	b = AppendVarInt(b, next)
	return append(b, extra...)
}

// Frame prefixes payload with its minimal VarInt length.
func Frame(payload []byte) []byte {
	return append(AppendVarInt(nil, int32(len(payload))), payload...)
}

// ReadVarInt decodes a VarInt from b, returning value and bytes used (0 if incomplete/invalid).
func ReadVarInt(b []byte) (int32, int) {
	var u uint32
	for i := 0; i < 5 && i < len(b); i++ {
		u |= uint32(b[i]&0x7f) << (7 * i)
		if b[i]&0x80 == 0 {
			return int32(u), i + 1
		}
	}
	return 0, 0
}

// ---------------------------------------------------------------- proxy rig

// Rig is a Lite-mode proxy listening on loopback.
type Rig struct {
	P    *proxy.Proxy
	Cfg  *jconfig.Config
	ln   net.Listener
	wg   sync.WaitGroup
	Addr string
}

// NewConfig returns a Lite-mode config with rate limiting off.
func NewConfig(routes []liteconfig.Route, dialTimeout time.Duration) *jconfig.Config {
	cfg := jconfig.DefaultConfig
	cfg.Quota.Connections.Enabled = false
	cfg.Quota.Logins.Enabled = false
	cfg.PacketLimiter.PacketsPerSecond = -1
	cfg.PacketLimiter.BytesPerSecond = -1
	cfg.Lite.Enabled = true
	cfg.Lite.Routes = routes
	if dialTimeout > 0 {
		cfg.ConnectionTimeout = configutil.Duration(dialTimeout)
	}
	return &cfg
}

// Start creates the proxy and its accept loop.
func Start(cfg *jconfig.Config) (*Rig, error) {
	p, err := proxy.New(proxy.Options{Config: cfg})
	if err != nil {
		return nil, err
	}
	ln, err := net.Listen("tcp4", "127.0.0.1:0")
	if err != nil {
		return nil, err
	}
	r := &Rig{P: p, Cfg: cfg, ln: ln, Addr: ln.Addr().String()}
	r.wg.Add(1)
	go func() {
		defer r.wg.Done()
		for {
			c, err := ln.Accept()
			if err != nil {
				return
			}
			go p.HandleConn(c)
		}
	}()
	return r, nil
}

// Close stops accepting.
func (r *Rig) Close() {
	_ = r.ln.Close()
	r.wg.Wait()
}

// Dial opens a client connection to the proxy.
func (r *Rig) Dial() (*net.TCPConn, error) {
	c, err := net.DialTimeout("tcp4", r.Addr, 5*time.Second)
	if err != nil {
		return nil, err
	}
	return c.(*net.TCPConn), nil
}

// ---------------------------------------------------------------- backends

// Accepted is one connection a backend listener received.
type Accepted struct {
	Conn   net.Conn
	Local  string // address the proxy dialled (listener side local address)
	Remote string
	Seq    int
	Tag    string // free for the handler (e.g. who the connection belongs to)
}

// Backend is a harness listener standing in for a Minecraft server.
type Backend struct {
	ln      net.Listener
	Port    int
	mu      sync.Mutex
	n       int
	sent    map[string]chan struct{} // sentinel connections by remote address
	Ch      chan *Accepted
	Handler func(*Accepted) // if set, runs in its own goroutine instead of delivering on Ch
	wg      sync.WaitGroup
}

// Listen opens a backend on addr ("127.0.0.1:0", "0.0.0.0:0", ...).
func Listen(addr string) (*Backend, error) {
	ln, err := net.Listen("tcp4", addr)
	if err != nil {
		return nil, err
	}
	b := &Backend{ln: ln, Port: ln.Addr().(*net.TCPAddr).Port, Ch: make(chan *Accepted, 1024),
		sent: map[string]chan struct{}{}}
	b.wg.Add(1)
	go b.loop()
	return b, nil
}

func (b *Backend) loop() {
	defer b.wg.Done()
	for {
		c, err := b.ln.Accept()
		if err != nil {
			return
		}
		b.mu.Lock()
		if ch, ok := b.sent[c.RemoteAddr().String()]; ok {
			delete(b.sent, c.RemoteAddr().String())
			b.mu.Unlock()
			close(ch)
			_ = c.Close()
			continue
		}
		b.n++
		a := &Accepted{Conn: c, Local: c.LocalAddr().String(), Remote: c.RemoteAddr().String(), Seq: b.n}
		h := b.Handler
		b.mu.Unlock()
		if h != nil {
			go h(a)
		} else {
			b.Ch <- a
		}
	}
}

// SetHandler installs h: accepted connections are handed to it (own goroutine) instead of Ch.
func (b *Backend) SetHandler(h func(*Accepted)) {
	b.mu.Lock()
	b.Handler = h
	b.mu.Unlock()
}

// Count is the number of (non-sentinel) connections accepted so far.
func (b *Backend) Count() int {
	b.mu.Lock()
	defer b.mu.Unlock()
	return b.n
}

// Sync returns once every connection established before the call has been accepted:
// it connects a sentinel itself and waits for the accept loop to reach it (the accept
// queue is FIFO).
func (b *Backend) Sync() error {
	ch := make(chan struct{})
	// the accept loop takes b.mu after Accept, so registering under the lock cannot be missed
	b.mu.Lock()
	c, err := net.DialTimeout("tcp4", net.JoinHostPort("127.0.0.1", itoa(b.Port)), 5*time.Second)
	if err != nil {
		b.mu.Unlock()
		return err
	}
	b.sent[c.LocalAddr().String()] = ch
	b.mu.Unlock()
	defer c.Close()
	select {
	case <-ch:
		return nil
	case <-time.After(5 * time.Second):
		return errors.New("backend sync timeout")
	}
}

// Drain returns the connections delivered on Ch so far without blocking.
func (b *Backend) Drain() []*Accepted {
	var out []*Accepted
	for {
		select {
		case a := <-b.Ch:
			out = append(out, a)
		default:
			return out
		}
	}
}

// ReserveClosedPort returns a loopback port on which connections are refused and which nobody
// else can get meanwhile: a socket bound to it but not listening. release frees it.
func ReserveClosedPort() (port int, release func(), err error) {
	fd, err := syscall.Socket(syscall.AF_INET, syscall.SOCK_STREAM, 0)
	if err != nil {
		return 0, nil, err
	}
	if err = syscall.Bind(fd, &syscall.SockaddrInet4{Addr: [4]byte{127, 0, 0, 1}}); err != nil {
		_ = syscall.Close(fd)
		return 0, nil, err
	}
	sa, err := syscall.Getsockname(fd)
	if err != nil {
		_ = syscall.Close(fd)
		return 0, nil, err
	}
	return sa.(*syscall.SockaddrInet4).Port, func() { _ = syscall.Close(fd) }, nil
}

// Close closes the listener.
func (b *Backend) Close() {
	_ = b.ln.Close()
	b.wg.Wait()
}

func itoa(n int) string {
	if n == 0 {
		return "0"
	}
	var d []byte
	for n > 0 {
		d = append([]byte{byte('0' + n%10)}, d...)
		n /= 10
	}
	return string(d)
}

// ReadAllDeadline reads until EOF/error or the deadline; returns what was read.
func ReadAllDeadline(c net.Conn, d time.Duration) ([]byte, error) {
	_ = c.SetReadDeadline(time.Now().Add(d))
	b, err := io.ReadAll(c)
	return b, err
}

// WaitClosed waits until the peer closes c (EOF or reset); false on timeout.
func WaitClosed(c net.Conn, d time.Duration) bool {
	_ = c.SetReadDeadline(time.Now().Add(d))
	buf := make([]byte, 4096)
	for {
		_, err := c.Read(buf)
		if err != nil {
			var ne net.Error
			if errors.As(err, &ne) && ne.Timeout() {
				return false
			}
			return true
		}
	}
}
