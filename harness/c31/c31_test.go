//go:build verif

// C31 harness: for every case TLC enumerated (route options x handshake shape x
// delivery) a real client connects over TCP loopback to a real Lite proxy, sends a
// handshake plus further bytes, a harness listener plays the backend, sends bytes
// back and captures everything it receives. The record of both byte streams (heads
// in full, long tails as SHA-256 chunk digests) is judged by LiteForward_Trace.tla.
// Nothing is judged here; the PROXY header and the handshake are parsed in TLA+.
package c31

import (
	"crypto/sha256"
	"encoding/hex"
	"encoding/json"
	"io"
	"math/rand"
	"net"
	"os"
	"path/filepath"
	"runtime"
	"strings"
	"sync"
	"testing"
	"time"

	"go.minekube.com/gate/pkg/edition/java/lite/config"

	"verif/harness/literig"
	"verif/harness/sched"
	"verif/harness/tracefmt"
)

type tcase struct {
	Host     []int  `json:"host"`
	Proto    int    `json:"proto"`
	Port     int    `json:"port"`
	Next     int    `json:"next"`
	Pp       bool   `json:"pp"`
	Mvh      bool   `json:"mvh"`
	Tcps     bool   `json:"tcps"`
	Shape    string `json:"shape"`
	Delivery string `json:"delivery"`
}

type stats struct {
	Cases      int            `json:"cases"`
	Skipped    int            `json:"skipped"`
	ByShape    map[string]int `json:"by_shape"`
	ByDelivery map[string]int `json:"by_delivery"`
	ByOptions  map[string]int `json:"by_options"`
	Rewritten  int            `json:"cases_with_rewrite_options_and_matching_host"`
	Big        int            `json:"big_streams"`
	Groups     int            `json:"concurrent_groups"`
	Held       int            `json:"connections_held_at_fw_updated"`
	ClientB    int64          `json:"client_bytes"`
	BackendB   int64          `json:"backend_bytes"`
	Samples    []any          `json:"samples"`
}

const chunk = 4096

// split returns the head of s in full and SHA-256 digests of n chunks aligned at the end.
func split(s []byte, n int) ([]int, []string) {
	digs := []string{}
	if n*chunk > len(s) {
		n = len(s) / chunk
	}
	head := s[:len(s)-n*chunk]
	for i := 0; i < n; i++ {
		off := len(head) + i*chunk
		d := sha256.Sum256(s[off : off+chunk])
		digs = append(digs, hex.EncodeToString(d[:]))
	}
	return tracefmt.Bytes(head), digs
}

func nTail(ln int) int {
	if ln <= 2*chunk {
		return 0
	}
	return (ln - chunk) / chunk
}

func padVarInt(v int32, extra int) []byte {
	n := len(literig.AppendVarInt(nil, v)) + extra
	if n > 5 {
		n = 5
	}
	return literig.AppendVarIntPadded(nil, v, n)
}

func TestForward(t *testing.T) {
	b, err := os.ReadFile(filepath.Join(tracefmt.OutDir(), "cases.json"))
	if err != nil {
		t.Fatal(err)
	}
	var cases []tcase
	if err := json.Unmarshal(b, &cases); err != nil {
		t.Fatal(err)
	}
	tw, err := tracefmt.Create("trace.ndjson")
	if err != nil {
		t.Fatal(err)
	}
	st := &stats{ByShape: map[string]int{}, ByDelivery: map[string]int{}, ByOptions: map[string]int{}}
	rng := rand.New(rand.NewSource(tracefmt.Seed()))
	bigEvery := tracefmt.EnvInt("VERIF_BIG_EVERY", 40)
	bigSize := tracefmt.EnvInt("VERIF_BIG_SIZE", 1<<16)

	var stMu sync.Mutex
	bar := &barrier{}
	ctl := sched.New(nil)
	ctl.OnEvent = bar.onEvent
	ctl.Install()
	defer ctl.Uninstall()

	runCase := func(ci int, tc tcase, rng *rand.Rand) {
		if tc.Next == 3 && tc.Proto < 766 {
			stMu.Lock()
			st.Skipped++ // transfer intent does not exist before 1.20.5
			stMu.Unlock()
			return
		}
		bhName := []string{"localhost", "127.0.0.1"}[ci%2]
		// the host universe names the backend "back.ex": use the real backend host name there
		host := make([]byte, len(tc.Host))
		for i, c := range tc.Host {
			host[i] = byte(c)
		}
		hs := string(host)
		hs = strings.ReplaceAll(hs, "back.ex", bhName)
		hs = strings.ReplaceAll(hs, "BACK.EX", strings.ToUpper(bhName))

		be, err := literig.Listen("127.0.0.1:0")
		if err != nil {
			t.Error(err)
			return
		}
		big := bigEvery > 0 && ci%bigEvery == bigEvery-1
		backLen := rng.Intn(3000)
		restLen := rng.Intn(2000)
		if rng.Intn(5) == 0 {
			restLen = 0
		}
		if big {
			backLen = bigSize/2 + rng.Intn(bigSize/2)
			restLen = bigSize/2 + rng.Intn(bigSize/2)
			stMu.Lock()
			st.Big++
			stMu.Unlock()
		}
		back := make([]byte, backLen)
		rng.Read(back)
		rest := make([]byte, restLen)
		rng.Read(rest)
		if restLen > 20 && rng.Intn(2) == 0 {
			// starts like a real login start packet
			ls := literig.Frame(append([]byte{0x00}, literig.AppendString(nil, "Steve")...))
			copy(rest, ls)
		}
		closeWriteEarly := rng.Intn(4) == 0

		var got []byte
		accepted := make(chan struct{})
		beDone := make(chan struct{})
		var once sync.Once
		be.SetHandler(func(a *literig.Accepted) {
			first := false
			once.Do(func() { first = true })
			if !first {
				_ = a.Conn.Close()
				return
			}
			close(accepted)
			defer close(beDone)
			var wg sync.WaitGroup
			wg.Add(1)
			go func() {
				defer wg.Done()
				for off := 0; off < len(back); {
					n := 1 + rng2(off, 1500)
					if off+n > len(back) {
						n = len(back) - off
					}
					if _, err := a.Conn.Write(back[off : off+n]); err != nil {
						return
					}
					off += n
				}
				if closeWriteEarly {
					_ = a.Conn.(*net.TCPConn).CloseWrite()
				}
			}()
			_ = a.Conn.SetReadDeadline(time.Now().Add(40 * time.Second))
			got, _ = io.ReadAll(a.Conn)
			wg.Wait()
			_ = a.Conn.Close()
		})

		backends := []string{net.JoinHostPort(bhName, itoa(be.Port))}
		if tc.Delivery == "after-failed-backend" {
			// a closed port on the same host is tried (and refused) first
			if dp, release, err := literig.ReserveClosedPort(); err == nil {
				defer release()
				backends = append([]string{net.JoinHostPort(bhName, itoa(dp))}, backends...)
			}
		}
		route := config.Route{Host: []string{"*"}, Backend: backends,
			ProxyProtocol: tc.Pp, ModifyVirtualHost: tc.Mvh}
		if tc.Tcps {
			if ci%3 == 0 {
				route.RealIP = true // deprecated spelling of the same option
			} else {
				route.TCPShieldRealIP = true
			}
		}
		rig, err := literig.Start(literig.NewConfig([]config.Route{route}, 5*time.Second))
		if err != nil {
			t.Error(err)
			return
		}

		// handshake payload by shape
		var P []byte
		switch tc.Shape {
		case "padded-varints":
			P = append(P, 0x00)
			P = append(P, padVarInt(int32(tc.Proto), 1+ci%2)...)
			P = append(P, padVarInt(int32(len(hs)), 1)...)
			P = append(P, hs...)
			P = append(P, byte(tc.Port>>8), byte(tc.Port))
			P = append(P, padVarInt(int32(tc.Next), 1+ci%3)...)
		case "trailing-bytes":
			extra := make([]byte, 1+rng.Intn(8))
			rng.Read(extra)
			P = literig.HandshakePayload(int32(tc.Proto), hs, uint16(tc.Port), int32(tc.Next), extra)
		default:
			P = literig.HandshakePayload(int32(tc.Proto), hs, uint16(tc.Port), int32(tc.Next), nil)
		}
		frame := literig.Frame(P)
		if tc.Shape == "long-frame-varint" {
			frame = append(literig.AppendVarIntPadded(nil, int32(len(P)), 3), P...)
		}

		t0 := time.Now().Unix()
		cl, err := rig.Dial()
		if err != nil {
			t.Error(err)
			return
		}
		la := cl.LocalAddr().(*net.TCPAddr)
		var wwg sync.WaitGroup
		wwg.Add(1)
		go func() {
			defer wwg.Done()
			switch tc.Delivery {
			case "one-segment", "grouped", "after-failed-backend":
				_, _ = cl.Write(append(append([]byte{}, frame...), rest...))
			case "handshake-first":
				_, _ = cl.Write(frame)
				select {
				case <-accepted:
				case <-time.After(20 * time.Second):
				}
				_, _ = cl.Write(rest)
			default: // byte-by-byte
				for i := range frame {
					_, _ = cl.Write(frame[i : i+1])
					if i%4 == 0 {
						time.Sleep(200 * time.Microsecond)
					}
				}
				_, _ = cl.Write(rest)
			}
		}()
		// read what the backend sends, then close
		recv := make([]byte, 0, len(back))
		_ = cl.SetReadDeadline(time.Now().Add(30 * time.Second))
		buf := make([]byte, 32<<10)
		for len(recv) < len(back) {
			n, err := cl.Read(buf)
			recv = append(recv, buf[:n]...)
			if err != nil {
				break
			}
		}
		wwg.Wait()
		if len(back) == 0 || len(recv) >= len(back) {
			// make sure the backend has been reached before closing (nothing to wait for otherwise)
			select {
			case <-accepted:
			case <-time.After(20 * time.Second):
			}
		}
		// anything beyond what the backend sent would show up here
		_ = cl.SetReadDeadline(time.Now().Add(20 * time.Millisecond))
		if n, _ := cl.Read(buf); n > 0 {
			recv = append(recv, buf[:n]...)
		}
		_ = cl.Close()
		select {
		case <-beDone:
		case <-time.After(45 * time.Second):
		}
		t1 := time.Now().Unix()
		rig.Close()
		be.Close()

		n := nTail(len(rest))
		rhead, rdig := split(rest, n)
		bhead, bdig := split(got, n)
		k := nTail(len(back))
		khead, kdig := split(back, k)
		chead, cdig := split(recv, k)
		ip4 := la.IP.To4()
		tw.Emit(tracefmt.Rec{"ev": "fwd", "case": ci, "shape": tc.Shape, "delivery": tc.Delivery,
			"pp": tc.Pp, "mvh": tc.Mvh, "tcps": tc.Tcps, "bh": tracefmt.Bytes([]byte(bhName)),
			"ip": tracefmt.Bytes(ip4), "port": la.Port, "t0": int(t0) - 1, "t1": int(t1) + 1,
			"P": tracefmt.Bytes(P), "host": tracefmt.Bytes([]byte(hs)),
			"rhead": rhead, "rdig": rdig, "bhead": bhead, "bdig": bdig,
			"khead": khead, "kdig": kdig, "chead": chead, "cdig": cdig,
			"rlen": len(rest), "blen": len(got), "klen": len(back), "clen": len(recv)})
		stMu.Lock()
		defer stMu.Unlock()
		st.Cases++
		st.ByShape[tc.Shape]++
		st.ByDelivery[tc.Delivery]++
		opt := ""
		if tc.Pp {
			opt += "proxyProtocol+"
		}
		if tc.Mvh {
			opt += "modifyVirtualHost+"
		}
		if tc.Tcps {
			opt += "tcpShieldRealIP+"
		}
		st.ByOptions[strings.TrimSuffix(opt, "+")]++
		if (tc.Mvh && !strings.EqualFold(strings.Trim(strings.SplitN(strings.SplitN(hs, "\x00", 2)[0], "///", 2)[0], "."), bhName)) ||
			(tc.Tcps && strings.Contains(hs, "///")) {
			st.Rewritten++
		}
		st.ClientB += int64(len(frame) + len(rest))
		st.BackendB += int64(len(back))
		if len(st.Samples) < 2 && tc.Pp && len(got) < 400 {
			st.Samples = append(st.Samples, map[string]any{"host": hs, "options": opt, "shape": tc.Shape,
				"backend_received_hex": hex.EncodeToString(got), "client_sent_after_handshake": len(rest)})
		}
	}

	// cases with delivery "grouped" run three at a time, each through its own proxy, while the
	// forwarding goroutines are held at fw.updated (after the handshake was re-encoded, before
	// it is written to the backend) until all of the group's rewriting connections got there
	runGroup := func(idx []int) {
		n := 0
		for _, ci := range idx {
			if rewrites(cases[ci]) && !(cases[ci].Next == 3 && cases[ci].Proto < 766) {
				n++
			}
		}
		bar.arm(n)
		prev := runtime.GOMAXPROCS(1) // one P: the goroutines share its sync.Pool caches
		var wg sync.WaitGroup
		for _, ci := range idx {
			ci, r := ci, rand.New(rand.NewSource(rng.Int63()))
			wg.Add(1)
			go func() { defer wg.Done(); runCase(ci, cases[ci], r) }()
		}
		wg.Wait()
		runtime.GOMAXPROCS(prev)
		bar.disarm()
		stMu.Lock()
		st.Groups++
		stMu.Unlock()
	}
	var group []int
	for ci, tc := range cases {
		if tc.Delivery == "grouped" {
			group = append(group, ci)
			if len(group) == 3 {
				runGroup(group)
				group = nil
			}
			continue
		}
		runCase(ci, tc, rand.New(rand.NewSource(rng.Int63())))
	}
	if len(group) > 0 {
		runGroup(group)
	}
	if err := tw.Close(); err != nil {
		t.Fatal(err)
	}
	st.Held = bar.held
	if err := tracefmt.WriteJSON("stats.json", st); err != nil {
		t.Fatal(err)
	}
}

// rewrites reports whether the route options make lite re-encode this case's handshake
// (steering only: it decides how many connections the barrier waits for).
func rewrites(tc tcase) bool {
	h := make([]byte, len(tc.Host))
	for i, c := range tc.Host {
		h[i] = byte(c)
	}
	hs := string(h)
	name := strings.Trim(strings.SplitN(strings.SplitN(hs, "\x00", 2)[0], "///", 2)[0], ".")
	return (tc.Mvh && !strings.EqualFold(name, "back.ex")) || (tc.Tcps && strings.Contains(hs, "///"))
}

// barrier holds forwarding goroutines at fw.updated until n of them have arrived.
type barrier struct {
	mu      sync.Mutex
	n, got  int
	release chan struct{}
	held    int
}

func (b *barrier) arm(n int) {
	b.mu.Lock()
	b.n, b.got, b.release = n, 0, make(chan struct{})
	b.mu.Unlock()
}

func (b *barrier) disarm() {
	b.mu.Lock()
	b.n, b.release = 0, nil
	b.mu.Unlock()
}

func (b *barrier) onEvent(_ string, name string, _ []any) {
	if name != "fw.updated" {
		return
	}
	b.mu.Lock()
	rel := b.release
	if rel == nil || b.n < 2 {
		b.mu.Unlock()
		return
	}
	b.got++
	b.held++
	if b.got >= b.n {
		close(rel)
		b.release = nil
		b.mu.Unlock()
		return
	}
	b.mu.Unlock()
	select {
	case <-rel:
	case <-time.After(3 * time.Second):
	}
}

// rng2 is a tiny deterministic chunk-size generator usable from the backend goroutine.
func rng2(off, max int) int { return (off*7919 + 13) % max }

func itoa(n int) string {
	if n == 0 {
		return "0"
	}
	var d []byte
	for n > 0 {
		d = append([]byte{byte('0' + n%10)}, d...)
		n /= 10
	}
	return string(d)
}
