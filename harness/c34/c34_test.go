//go:build verif

// C34 harness: replays TLC-enumerated and seeded random timestamp/count histories into the
// real packetlimiter counter and Limiter (injected clock), runs addrquota.Quota in real
// time over addresses of several buckets, and records ipKey equality for TLC-exported
// address pairs. RateLimit_Trace.tla judges.
package c34

import (
	"encoding/json"
	"fmt"
	"math"
	"math/rand"
	"net/netip"
	"os"
	"path/filepath"
	"sync"
	"testing"
	"time"

	"go.minekube.com/gate/pkg/verifexport"

	"verif/harness/sched"
	"verif/harness/tracefmt"
)

type event struct {
	T int `json:"t"`
	N int `json:"n"`
}

type history struct {
	W  int     `json:"w"`
	Ev []event `json:"ev"`
}

type pairAddr struct {
	Fam  int   `json:"fam"`
	D    []int `json:"d"`
	Zone bool  `json:"zone"`
}

type pair struct {
	A pairAddr `json:"a"`
	B pairAddr `json:"b"`
}

type stats struct {
	CounterRuns  int   `json:"counter_runs"`
	Adds         int   `json:"adds"`
	MaxCap       int   `json:"max_ring_capacity"`
	Resizes      int   `json:"runs_with_resize"`
	LimiterRuns  int   `json:"limiter_runs"`
	Accts        int   `json:"accounts"`
	Closed       int   `json:"limiter_runs_closed"`
	SubMsRuns    int   `json:"sub_millisecond_runs"`
	QuotaScheds  int   `json:"quota_schedules_forced"`
	QuotaCalls   int   `json:"quota_calls"`
	QuotaBlocked int   `json:"quota_blocked"`
	Keys         int   `json:"key_pairs"`
	Samples      []any `json:"samples"`
}

var bases = []int64{0, 1_700_000_000_000_000_000, math.MaxInt64 - 5_000_000, -3_000_000}

func text(a pairAddr, style int) string {
	b := make([]byte, len(a.D))
	for i, x := range a.D {
		b[i] = byte(x)
	}
	if len(b) == 4 {
		return netip.AddrFrom4([4]byte(b)).String()
	}
	ad := netip.AddrFrom16([16]byte(b))
	s := ad.String()
	if style%2 == 1 {
		s = ad.StringExpanded()
	}
	if a.Zone {
		s += "%eth0"
	}
	return s
}

func codes(s string) []int { return tracefmt.Bytes([]byte(s)) }

func TestTrace(t *testing.T) {
	tw, err := tracefmt.Create("trace.ndjson")
	if err != nil {
		t.Fatal(err)
	}
	st := &stats{}
	rng := rand.New(rand.NewSource(tracefmt.Seed()))

	var hists []history
	hb, err := os.ReadFile(filepath.Join(tracefmt.OutDir(), "hist.json"))
	if err != nil {
		t.Fatal(err)
	}
	if err := json.Unmarshal(hb, &hists); err != nil {
		t.Fatal(err)
	}

	// A run's trace unit is the millisecond (ups = 1000) or the microsecond (ups = 1000000);
	// tick is the length of one history step in units; rep repeats every event.
	unitNs := func(ups int) int64 { return 1_000_000_000 / int64(ups) }
	runCounter := func(h history, ups, tick int, rep int, base int64) {
		w := h.W * tick
		tw.Emit(tracefmt.Rec{"ev": "reset", "kind": "counter", "w": w, "ups": ups})
		c := verifexport.NewPacketCounter(time.Duration(int64(w) * unitNs(ups)))
		cap0 := c.Cap()
		for _, e := range h.Ev {
			for k := 0; k < rep; k++ {
				tu := e.T * tick
				c.UpdateAndAdd(int64(e.N), base+int64(tu)*unitNs(ups)) // wraps for the base near MaxInt64
				tw.Emit(tracefmt.Rec{"ev": "add", "t": tu, "n": e.N, "sum": c.Sum(), "cap": c.Cap()})
				st.Adds++
			}
		}
		if c.Cap() > st.MaxCap {
			st.MaxCap = c.Cap()
		}
		if c.Cap() > cap0 {
			st.Resizes++
		}
		st.CounterRuns++
		if ups > 1000 {
			st.SubMsRuns++
		}
	}
	var clock int64
	verifexport.SetPacketLimiterClock(func() int64 { return clock })
	defer verifexport.SetPacketLimiterClock(nil)
	runLimiter := func(h history, ups, tick, pps, bps, bytesPer int, rep int, base int64) {
		w := h.W * tick
		tw.Emit(tracefmt.Rec{"ev": "reset", "kind": "limiter", "w": w, "ups": ups, "pps": pps, "bps": bps})
		l := verifexport.NewPacketLimiter(pps, bps, time.Duration(int64(w)*unitNs(ups)))
		st.LimiterRuns++
		for _, e := range h.Ev {
			for k := 0; k < rep; k++ {
				tu := e.T * tick
				clock = base + int64(tu)*unitNs(ups)
				ok := l.Account(e.N * bytesPer)
				tw.Emit(tracefmt.Rec{"ev": "acct", "t": tu, "bytes": e.N * bytesPer, "ok": ok})
				st.Accts++
				if !ok { // the connection is closed here
					st.Closed++
					if len(st.Samples) < 2 {
						st.Samples = append(st.Samples, map[string]any{"window": w, "units_per_second": ups, "pps": pps, "bps": bps, "history": h.Ev, "closed_at": tu})
					}
					return
				}
			}
		}
	}

	// 1. TLC histories: at 100 ms per step, and at 300 us per step (several events inside one
	// millisecond, the window edge between them)
	limCfg := [][3]int{{10, 0, 50}, {0, 500, 50}, {10, 500, 50}, {7, 333, 40}, {20, 700, 50}}
	limCfgUs := [][3]int{{3400, 0, 50}, {0, 170000, 50}, {3400, 170000, 50}, {2300, 110000, 40}, {6700, 230000, 50}}
	for i, h := range hists {
		base := bases[i%len(bases)]
		if i%2 == 1 {
			base += int64(rng.Intn(1_000_000)) // anywhere inside a millisecond
			runCounter(h, 1_000_000, 300, 1, base)
			lc := limCfgUs[i%len(limCfgUs)]
			runLimiter(h, 1_000_000, 300, lc[0], lc[1], lc[2], 1, base)
			continue
		}
		runCounter(h, 1000, 100, 1, base)
		if i%3 == 0 {
			runCounter(h, 1000, 7, 4, bases[(i+1)%len(bases)]) // every event four times: forces resizes
		}
		lc := limCfg[i%len(limCfg)]
		runLimiter(h, 1000, 100, lc[0], lc[1], lc[2], 1, base)
		if i%4 == 0 {
			lc = limCfg[(i/4)%len(limCfg)]
			runLimiter(h, 1000, 100, lc[0]*3, lc[1]*3, lc[2], 3, base)
		}
	}

	// 2. seeded random long histories: bursts, gaps longer than the window, resize runs;
	// every other one at microsecond resolution with windows of a few milliseconds
	n := tracefmt.EnvInt("VERIF_RANDOM", 60)
	for i := 0; i < n; i++ {
		us := i%2 == 1
		w := 50 + rng.Intn(1950)
		maxN := 1400
		if us {
			w = 700 + rng.Intn(5000)
			maxN = 10
		}
		h := history{W: w}
		tcur := rng.Intn(1000)
		for k := 40 + rng.Intn(120); k > 0; k-- {
			switch rng.Intn(10) {
			case 0:
				tcur += w + rng.Intn(w) // gap longer than the window
			case 1, 2, 3:
				// burst at the same instant
			case 4:
				tcur += w // exactly the window
			default:
				tcur += rng.Intn(w/8 + 2)
			}
			h.Ev = append(h.Ev, event{T: tcur, N: 1 + rng.Intn(maxN)})
		}
		base := bases[rng.Intn(len(bases))] + int64(rng.Intn(1_000_000))
		ups := 1000
		pps := 1 + rng.Intn(3000)
		bps := 1000 + rng.Intn(99000)
		if us {
			ups = 1_000_000
			pps = 1000 + rng.Intn(300000)
			bps = 1000 + rng.Intn(300000)
		}
		runCounter(h, ups, 1, 1, base)
		// limits placed near what the history reaches
		if rng.Intn(3) == 0 {
			pps = 0
		}
		if pps != 0 && rng.Intn(3) == 0 {
			bps = 0
		}
		runLimiter(h, ups, 1, pps, bps, 1, 1, base)
	}

	// 3. quota in real time
	ips := []string{
		"203.0.113.7", "203.0.113.200", "::ffff:203.0.113.9", "203.0.114.7", "::ffff:203.0.114.99",
		"2001:db8:1:2::1", "2001:db8:1:2:ffff:ffff:ffff:ffff", "2001:db8:1:3::1",
		"fe80::1%eth0", "fe80::2%eth0", "fe80:0:0:1::1%eth0", "not an ip",
	}
	dur := time.Duration(tracefmt.EnvInt("VERIF_QUOTA_MS", 900)) * time.Millisecond
	for _, qc := range []struct {
		eps   float32
		burst int
	}{{20, 3}, {0.5, 2}, {100, 10}} {
		tw.Emit(tracefmt.Rec{"ev": "reset", "kind": "quota", "eps_milli": int(qc.eps * 1000), "burst": qc.burst, "conc": false})
		q := verifexport.NewQuota(qc.eps, qc.burst, 1000)
		start := time.Now()
		for time.Since(start) < dur {
			ip := ips[rng.Intn(len(ips))]
			if rng.Intn(4) == 0 {
				ip = ips[rng.Intn(3)] // keep one bucket hot
			}
			t0 := time.Since(start).Milliseconds()
			blocked := q.Blocked(ip)
			t1 := time.Since(start).Milliseconds() + 1
			tw.Emit(tracefmt.Rec{"ev": "q", "ip": codes(ip), "blocked": blocked, "t0": t0, "t1": t1, "s": ip})
			st.QuotaCalls++
			if blocked {
				st.QuotaBlocked++
			}
			if rng.Intn(3) != 0 {
				time.Sleep(time.Duration(rng.Intn(3000)) * time.Microsecond)
			}
		}
	}

	// 3b. first events of one fresh address block arriving together: the TLC schedules of
	// QuotaFirst.tla forced through the "quota.miss" gate point, then free-running bursts
	var scheds [][]string
	sb, err := os.ReadFile(filepath.Join(tracefmt.OutDir(), "qsched.json"))
	if err != nil {
		t.Fatal(err)
	}
	if err := json.Unmarshal(sb, &scheds); err != nil {
		t.Fatal(err)
	}
	blockIPs := func(round int, k int) string { // k-th address of a fresh /24 or /64
		if round%2 == 0 {
			return fmt.Sprintf("198.%d.%d.%d", 18+(round/256)%2, round%256, 1+k)
		}
		return fmt.Sprintf("2001:db8:%x:%x::%x", round/65536, round%65536, 1+k)
	}
	qstart := time.Now()
	var emu sync.Mutex
	call := func(q *verifexport.Quota, ip string) {
		t0 := time.Since(qstart).Milliseconds()
		blocked := q.Blocked(ip)
		t1 := time.Since(qstart).Milliseconds() + 1
		emu.Lock()
		tw.Emit(tracefmt.Rec{"ev": "q", "ip": codes(ip), "blocked": blocked, "t0": t0, "t1": t1, "s": ip})
		st.QuotaCalls++
		if blocked {
			st.QuotaBlocked++
		}
		emu.Unlock()
	}
	step := time.Duration(tracefmt.EnvInt("VERIF_STEP_MS", 4)) * time.Millisecond
	for i, sc := range scheds {
		tw.Emit(tracefmt.Rec{"ev": "reset", "kind": "quota", "eps_milli": 1, "burst": 1, "conc": true})
		q := verifexport.NewQuota(0.001, 1, 1000)
		c := sched.New(nil, "quota.miss")
		c.Install()
		for k, name := range []string{"a", "b", "c"} {
			ip := blockIPs(i, k)
			c.Go(name, func() { call(q, ip) })
		}
		c.Run(sc, step, 5*time.Second)
		c.Uninstall()
		st.QuotaScheds++
	}
	rounds := tracefmt.EnvInt("VERIF_QUOTA_ROUNDS", 40)
	var q *verifexport.Quota
	for r := 0; r < rounds; r++ {
		if r%25 == 0 { // a new quota (and a new run for the judge) every 25 fresh blocks
			tw.Emit(tracefmt.Rec{"ev": "reset", "kind": "quota", "eps_milli": 1, "burst": 1, "conc": true})
			q = verifexport.NewQuota(0.001, 1, 100000)
		}
		var wg sync.WaitGroup
		gate := make(chan struct{})
		for k := 0; k < 8; k++ {
			ip := blockIPs(1000+r, k)
			wg.Add(1)
			go func() { defer wg.Done(); <-gate; call(q, ip) }()
		}
		close(gate)
		wg.Wait()
	}

	// 4. bucket keys of TLC-exported address pairs
	var pairs []pair
	pb, err := os.ReadFile(filepath.Join(tracefmt.OutDir(), "pairs.json"))
	if err != nil {
		t.Fatal(err)
	}
	if err := json.Unmarshal(pb, &pairs); err != nil {
		t.Fatal(err)
	}
	tw.Emit(tracefmt.Rec{"ev": "reset", "kind": "keys"})
	for i, p := range pairs {
		a, b := text(p.A, i), text(p.B, i/2)
		ka, kb := verifexport.QuotaIPKey(a), verifexport.QuotaIPKey(b)
		tw.Emit(tracefmt.Rec{"ev": "key", "a": codes(a), "b": codes(b), "ka": ka != "", "kb": kb != "",
			"same": ka == kb, "s": fmt.Sprint(a, " ", b)})
		st.Keys++
	}
	if err := tw.Close(); err != nil {
		t.Fatal(err)
	}
	if err := tracefmt.WriteJSON("stats.json", st); err != nil {
		t.Fatal(err)
	}
}
