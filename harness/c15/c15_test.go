//go:build verif

// C15 harness: pumps TLC-generated stream scenarios (version x client threshold x backend
// threshold x size classes x id kinds) through the live proxy in both directions at once.
// The sending endpoint logs (dir, id, len, sha256) before each write, the receiving
// endpoint after each decoded frame (plus how the frame was framed on the last hop);
// Relay_Trace.tla judges. Payload bytes stay here, the spec sees ids, lengths, hashes.
package c15

import (
	"crypto/sha256"
	"encoding/binary"
	"encoding/hex"
	"encoding/json"
	"fmt"
	"math/rand"
	"os"
	"path/filepath"
	"runtime"
	"sort"
	"sync"
	"testing"
	"time"

	"github.com/robinbraemer/event"

	"go.minekube.com/gate/pkg/edition/java/config"
	"go.minekube.com/gate/pkg/edition/java/proto/packet"
	"go.minekube.com/gate/pkg/edition/java/proto/packet/plugin"
	"go.minekube.com/gate/pkg/edition/java/proto/packet/tablist/legacytablist"
	"go.minekube.com/gate/pkg/edition/java/proxy"
	gproto "go.minekube.com/gate/pkg/gate/proto"
	"go.minekube.com/gate/pkg/verifexport"

	"verif/harness/mcwire"
	"verif/harness/rig"
	"verif/harness/tracefmt"
)

type step struct {
	Dir  string `json:"dir"`
	Size string `json:"size"`
	Kind string `json:"kind"`
}
type scenario struct {
	Ver  int    `json:"ver"`
	Cthr int    `json:"cthr"` // threshold + 1
	Bthr int    `json:"bthr"`
	H    []step `json:"h"`
}

const frameCap = 1<<21 - 1

// out is one packet to send.
type out struct {
	id   int
	body []byte
	kind string
	held bool
	h    *hold
}

func varintLen(v int) int { return mcwire.VarIntLen(int32(v)) }

// candidate ids for "unknown" packets: one-, two- and three-byte VarInts.
var idPool = func() []int {
	var p []int
	for i := 0; i < 0x80; i++ {
		p = append(p, i)
	}
	return append(p, 0x80, 0xff, 0x100, 0x3fff, 0x4000, 0x1fffff)
}()

type dirInfo struct {
	unknown []int        // ids not registered by gate for (version, play, direction)
	passID  int          // known pass-through packet (-1: none)
	pass2ID int          // second known pass-through packet: legacy PlayerListItem, backend -> client (-1: none)
	icptID  int          // known intercepted packet (-1: none)
	mine    map[int]bool // ids whose arrival is part of the trace
}

func dirInfoFor(dir gproto.Direction, ver int) dirInfo {
	reg := rig.RegisteredPlayIDs(dir, ver)
	di := dirInfo{passID: -1, pass2ID: -1, icptID: -1, mine: map[int]bool{}}
	for _, id := range idPool {
		if !reg[id] {
			di.unknown = append(di.unknown, id)
			di.mine[id] = true
		}
	}
	if dir == gproto.ServerBound {
		// session_client_play.go HandlePacket: `case *packet.ClientSettings: setClientSettings(p);
		// c.forwardToServer(pc)` forwards the received payload; KeepAlive is answered/dropped by
		// forwardKeepAlive unless its id is pending (intercepted).
		if id, ok := rig.PlayID(dir, ver, &packet.ClientSettings{}); ok {
			di.passID = id
			di.mine[id] = true
		}
		if id, ok := rig.PlayID(dir, ver, &packet.KeepAlive{}); ok {
			di.icptID = id
		}
	} else {
		// session_backend_play.go HandlePacket: `case *packet.KeepAlive: recordBackendKeepAlive;
		// b.forwardToPlayer(pc, nil)` forwards the received payload; plugin messages on the
		// BungeeCord channel are consumed by bungeeCordMessageResponder.Process (intercepted).
		if id, ok := rig.PlayID(dir, ver, &packet.KeepAlive{}); ok && ver >= rig.P1_12_2 {
			di.passID = id
			di.mine[id] = true
		}
		if id, ok := rig.PlayID(dir, ver, &plugin.Message{}); ok {
			di.icptID = id
		}
		// session_backend_play.go handleLegacyPlayerListItem: the proxy peeks at the packet for its
		// own tab-list view (an entry it cannot take is logged) and forwards the received payload.
		if id, ok := rig.PlayID(dir, ver, &legacytablist.PlayerListItem{}); ok && ver >= rig.P1_8 && ver <= rig.P1_19_1 {
			di.pass2ID = id
			di.mine[id] = true
		}
	}
	return di
}

// playerListItemBody is a wire-valid 1.8 - 1.19.1 PlayerListItem with one entry: ordinary adds,
// adds a tab-list plugin would send for a fake player (empty name, all-zero UUID), and updates /
// removes of entries nobody added.
func playerListItemBody(ver int, rng *rand.Rand) []byte {
	var id [16]byte
	rng.Read(id[:])
	variant := rng.Intn(6)
	if variant == 2 {
		id = [16]byte{}
	}
	b := &mcwire.Buf{}
	switch variant {
	case 0, 1, 2:
		name := fmt.Sprintf("fake%d", rng.Intn(1000))
		if variant == 1 {
			name = ""
		}
		b.VarInt(0).VarInt(1).Raw(id[:]).String(name).VarInt(0).VarInt(rng.Intn(4)).VarInt(rng.Intn(300)).Bool(false)
		if ver >= rig.P1_19 {
			b.Bool(false)
		}
	case 3:
		b.VarInt(2).VarInt(1).Raw(id[:]).VarInt(rng.Intn(300)) // latency
	case 4:
		b.VarInt(1).VarInt(1).Raw(id[:]).VarInt(rng.Intn(4)) // game mode
	default:
		b.VarInt(4).VarInt(1).Raw(id[:]) // remove
	}
	return b.B
}

func clientSettingsBody(ver int, rng *rand.Rand) []byte {
	b := (&mcwire.Buf{}).String([]string{"en_US", "de_DE", "fr_FR"}[rng.Intn(3)]).Byte(byte(2 + rng.Intn(30))).VarInt(rng.Intn(3)).Bool(rng.Intn(2) == 0)
	b.Byte(byte(rng.Intn(128)))
	if ver >= 107 { // 1.9
		b.VarInt(rng.Intn(2))
		if ver >= 755 { // 1.17
			b.Bool(false)
		}
		if ver >= rig.P1_18 {
			b.Bool(true)
			if ver >= rig.P1_21_2 {
				b.VarInt(rng.Intn(3))
			}
		}
	}
	return b.B
}

func bungeeGetServerBody(ver int) []byte {
	ch := "BungeeCord"
	if ver >= 393 { // 1.13
		ch = "bungeecord:main"
	}
	sub := "GetServer"
	data := append([]byte{0, byte(len(sub))}, sub...)
	return (&mcwire.Buf{}).String(ch).Raw(data).B
}

// payload length (id + body) for a size class on a hop pair.
func classLen(size string, srcThr, dstThr int, rng *rand.Rand) (plen int, forceRandom, forceCompressible bool) {
	rel := func(thr, delta int) int {
		if thr <= 1 {
			return 1 + delta + 1
		}
		return thr + delta
	}
	switch size {
	case "zero":
		return 0, false, false // body 0: plen = id length (fixed up by the caller)
	case "one":
		return -1, false, false
	case "small":
		return 3 + rng.Intn(40), false, false
	case "sm1":
		return rel(srcThr, -1), false, false
	case "s0":
		return rel(srcThr, 0), false, false
	case "sp1":
		return rel(srcThr, 1), false, false
	case "dm1":
		return rel(dstThr, -1), false, false
	case "d0":
		return rel(dstThr, 0), false, false
	case "dp1":
		return rel(dstThr, 1), false, false
	case "k14":
		return 16383 + rng.Intn(3), false, false
	case "k15":
		return 32767 + rng.Intn(3), false, false
	case "big":
		if srcThr < 0 && dstThr < 0 {
			return frameCap - rng.Intn(2), false, false
		}
		if srcThr >= 0 && dstThr >= 0 && rng.Intn(2) == 0 {
			return 1<<21 - rng.Intn(2), false, true // compresses to a few KiB on both hops
		}
		// incompressible: leave room for zlib's stored-block overhead and the length fields
		return frameCap - 1024 - rng.Intn(64), true, false
	}
	return 8, false, false
}

func fill(body []byte, dir string, seq int, rng *rand.Rand, random bool) {
	if random {
		rng.Read(body)
	} else {
		pat := []byte(fmt.Sprintf("relay-%s-%d|", dir, seq))
		for i := range body {
			body[i] = pat[i%len(pat)]
		}
	}
	var hdr [5]byte
	hdr[0] = dir[0]
	binary.BigEndian.PutUint32(hdr[1:], uint32(seq))
	copy(body, hdr[:])
}

var burstClasses = []string{"zero", "one", "small", "small", "sm1", "s0", "sp1", "dm1", "d0", "dp1"}

// expand turns the steps of one direction into concrete packets.
func expand(steps []step, dir string, ver, srcThr, dstThr int, di dirInfo, rng *rand.Rand) []out {
	var res []out
	seq := 0
	mk := func(size string) out {
		seq++
		id := di.unknown[rng.Intn(len(di.unknown))]
		plen, fr, fc := classLen(size, srcThr, dstThr, rng)
		il := varintLen(id)
		bl := plen - il
		switch {
		case plen == 0:
			bl = 0
		case plen == -1:
			bl = 1
		case bl < 0:
			bl = 0
		}
		body := make([]byte, bl)
		random := rng.Intn(2) == 0
		if fr {
			random = true
		}
		if fc {
			random = false
		}
		fill(body, dir, seq, rng, random)
		return out{id: id, body: body, kind: "unknown"}
	}
	for _, s := range steps {
		switch {
		case s.Kind == "pass" && (di.passID >= 0 || di.pass2ID >= 0):
			seq++
			if dir == "c2s" {
				res = append(res, out{id: di.passID, body: clientSettingsBody(ver, rng), kind: "pass"})
			} else if di.pass2ID >= 0 && (di.passID < 0 || rng.Intn(2) == 0) {
				res = append(res, out{id: di.pass2ID, body: playerListItemBody(ver, rng), kind: "pass"})
			} else {
				b := make([]byte, 8)
				rng.Read(b)
				res = append(res, out{id: di.passID, body: b, kind: "pass"})
			}
		case s.Kind == "icpt" && di.icptID >= 0:
			seq++
			if dir == "c2s" {
				var b []byte
				switch {
				case ver >= rig.P1_12_2:
					b = make([]byte, 8)
					rng.Read(b)
				default:
					b = (&mcwire.Buf{}).VarInt(1 + rng.Intn(1<<20)).B
				}
				res = append(res, out{id: di.icptID, body: b, kind: "icpt"})
			} else {
				res = append(res, out{id: di.icptID, body: bungeeGetServerBody(ver), kind: "icpt"})
			}
		case s.Size == "held":
			// held in the proxy's encoder while other players relay (see hold); only where the
			// destination hop compresses, else an ordinary small packet
			if dstThr < 0 {
				res = append(res, mk("small"))
				break
			}
			seq++
			n, h := newHold()
			id := di.unknown[rng.Intn(len(di.unknown))]
			body := make([]byte, n-varintLen(id))
			fill(body, dir, seq, rng, false)
			res = append(res, out{id: id, body: body, kind: "unknown", held: true, h: h})
		case s.Size == "burst":
			for i := 0; i < 16; i++ {
				res = append(res, mk(burstClasses[rng.Intn(len(burstClasses))]))
			}
		default:
			res = append(res, mk(s.Size))
		}
	}
	return res
}

func hashOf(id int, body []byte) (int, string) {
	p := append(mcwire.AppendVarInt(nil, int32(id)), body...)
	s := sha256.Sum256(p)
	return len(p), hex.EncodeToString(s[:])
}

type runLog struct {
	mu   sync.Mutex
	recs []tracefmt.Rec
}

func (l *runLog) add(r tracefmt.Rec) { l.mu.Lock(); l.recs = append(l.recs, r); l.mu.Unlock() }

type handoff struct {
	bc   *rig.BackendConn
	done chan struct{}
}

type world struct {
	mu      sync.Mutex
	target  map[string]string        // player name -> backend name
	arrived map[string]chan *handoff // player name -> backend connection after the join
}

func TestStreams(t *testing.T) {
	b, err := os.ReadFile(filepath.Join(tracefmt.OutDir(), "scen.json"))
	if err != nil {
		t.Fatal(err)
	}
	var scens []scenario
	if err := json.Unmarshal(b, &scens); err != nil {
		t.Fatal(err)
	}
	idle := time.Duration(tracefmt.EnvInt("VERIF_IDLE_MS", 8000)) * time.Millisecond
	par := tracefmt.EnvInt("VERIF_PAR", 6)
	seed := tracefmt.Seed()

	byC := map[int][]int{}
	bthrs := map[int]bool{}
	for i, s := range scens {
		byC[s.Cthr] = append(byC[s.Cthr], i)
		bthrs[s.Bthr] = true
	}
	tw, err := tracefmt.Create("trace.ndjson")
	if err != nil {
		t.Fatal(err)
	}
	// few Ps: the encoder's buffer pool is per P, so other connections are much more likely to
	// pick up the very buffer a held frame has (wrongly) given back
	if n := tracefmt.EnvInt("VERIF_PROCS", 0); n > 0 {
		defer runtime.GOMAXPROCS(runtime.GOMAXPROCS(n))
	}
	verifexport.InstallHook(encoderHook)
	defer verifexport.InstallHook(nil)
	var statMu sync.Mutex
	stats := map[string]int{}
	var samples []any
	var skipped []string
	bump := func(k string, n int) { statMu.Lock(); stats[k] += n; statMu.Unlock() }

	cthrs := make([]int, 0, len(byC))
	for c := range byC {
		cthrs = append(cthrs, c)
	}
	sort.Ints(cthrs)
	for _, cthr1 := range cthrs {
		w := &world{target: map[string]string{}, arrived: map[string]chan *handoff{}}
		backends := map[string]*rig.Backend{}
		for bthr1 := range bthrs {
			thr := bthr1 - 1
			be, err := rig.NewBackend(func(bc *rig.BackendConn) {
				if err := bc.ReadLogin(); err != nil {
					return
				}
				if err := bc.CompleteJoinAny(thr); err != nil {
					return
				}
				w.mu.Lock()
				ch := w.arrived[bc.Name]
				w.mu.Unlock()
				if ch == nil {
					return
				}
				ho := &handoff{bc: bc, done: make(chan struct{})}
				ch <- ho
				<-ho.done
			})
			if err != nil {
				t.Fatal(err)
			}
			defer be.Close()
			backends[fmt.Sprintf("b%d", bthr1)] = be
		}
		mgr := event.New()
		var r *rig.Rig
		event.Subscribe(mgr, 0, func(e *proxy.PlayerChooseInitialServerEvent) {
			w.mu.Lock()
			name := w.target[e.Player().Username()]
			w.mu.Unlock()
			if s := r.P.Server(name); s != nil {
				e.SetInitialServer(s)
			}
		})
		r, err = rig.New(rig.Options{Backends: backends, EventMgr: mgr, Mutate: func(c *config.Config) {
			c.Compression.Threshold = cthr1 - 1
			// the serverbound rate limiter is an interception by design; keep it out of the way
			c.PacketLimiter.PacketsPerSecond = 0
			c.PacketLimiter.BytesPerSecond = 0
		}})
		if err != nil {
			t.Fatal(err)
		}
		sem := make(chan struct{}, par)
		var wg sync.WaitGroup
		for _, si := range byC[cthr1] {
			si := si
			sc := scens[si]
			wg.Add(1)
			sem <- struct{}{}
			go func() {
				defer wg.Done()
				defer func() { <-sem }()
				logs, note := runScenario(r, w, si, sc, seed, idle)
				if note != "" {
					statMu.Lock()
					skipped = append(skipped, fmt.Sprintf("scenario %d (ver %d): %s", si, sc.Ver, note))
					statMu.Unlock()
					return
				}
				statMu.Lock()
				log := &runLog{}
				for _, l := range logs {
					l.mu.Lock()
					log.recs = append(log.recs, l.recs...)
					l.mu.Unlock()
				}
				stats["players"] += len(logs)
				for _, rc := range log.recs {
					switch rc["ev"] {
					case "send":
						stats["sent"]++
						if rc["kind"] != "icpt" {
							stats["relayable"]++
						}
					case "recv":
						stats["received"]++
						if rc["comp"] == true {
							stats["received_compressed"]++
						}
						if n, _ := rc["len"].(int); n >= 1<<20 {
							stats["received_1MiB_plus"]++
						}
						if n, _ := rc["len"].(int); n <= 3 {
							stats["received_empty_body_or_tiny"]++
						}
					}
					tw.Emit(rc)
				}
				stats["runs"]++
				if len(samples) < 2 {
					k := len(log.recs)
					if k > 14 {
						k = 14
					}
					samples = append(samples, log.recs[:k])
				}
				statMu.Unlock()
			}()
		}
		wg.Wait()
		r.Close()
	}
	_ = bump
	if err := tw.Close(); err != nil {
		t.Fatal(err)
	}
	holdMu.Lock()
	stats["frames_held_in_encoder"] = holdHits
	holdMu.Unlock()
	tracefmt.WriteJSON("stats.json", map[string]any{"stats": stats, "samples": samples, "skipped": skipped, "events": tw.N})
}

// ------------------------------------------------------------------ held frames

// A "held" packet is stopped inside the proxy's encoder, between compressing its frame and
// writing it (gate point enc.frame), while other players relay compressible packets through
// the same proxy; then it is let go. Holds are keyed by the packet's payload length, taken
// from a range no other size class uses.
type hold struct {
	parked  chan struct{}
	release chan struct{}
	used    bool
}

var (
	holdMu   sync.Mutex
	holds    = map[int]*hold{}
	holdNext = 20000
	holdHits int
)

func newHold() (int, *hold) {
	holdMu.Lock()
	defer holdMu.Unlock()
	holdNext += 3
	if holdNext > 31000 {
		holdNext = 20003
	}
	h := &hold{parked: make(chan struct{}), release: make(chan struct{})}
	holds[holdNext] = h
	return holdNext, h
}

// encoderHook is the process-wide verifhook receiver of this harness.
func encoderHook(gate bool, name string, kv []any) {
	if !gate || name != "enc.frame" || len(kv) < 2 {
		return
	}
	n, _ := kv[1].(int)
	holdMu.Lock()
	h := holds[n]
	if h == nil || h.used {
		holdMu.Unlock()
		return
	}
	h.used = true
	holdHits++
	holdMu.Unlock()
	close(h.parked)
	select {
	case <-h.release:
	case <-time.After(20 * time.Second):
	}
}

// ------------------------------------------------------------------ endpoints

// endpoint is one joined player: its client, its backend connection and its run log.
type endpoint struct {
	name       string
	ver        int
	cthr, bthr int
	c          *rig.Client
	ho         *handoff
	frC, frB   *rig.FrameReader
	sb, cb     dirInfo
	log        *runLog
}

func (e *endpoint) close() {
	e.c.Close()
	close(e.ho.done)
}

// joinPlayer joins a fake client through the proxy to the backend with threshold bthr1-1.
func joinPlayer(r *rig.Rig, w *world, name string, ver, cthr, bthr1 int, extra tracefmt.Rec) (*endpoint, string) {
	ch := make(chan *handoff, 1)
	w.mu.Lock()
	w.target[name] = fmt.Sprintf("b%d", bthr1)
	w.arrived[name] = ch
	w.mu.Unlock()
	c, err := r.NewClient(ver)
	if err != nil {
		return nil, "dial: " + err.Error()
	}
	// whatever goes wrong below: a backend connection that completed its side must be let go
	release := func() {
		go func() {
			select {
			case ho := <-ch:
				close(ho.done)
			case <-time.After(90 * time.Second):
			}
		}()
	}
	c.Timeout = 30 * time.Second
	deaf := ""
	wait := 30 * time.Second
	if err := c.JoinFullyAny("localhost", name); err != nil {
		if ne, ok := err.(interface{ Timeout() bool }); ok && ne.Timeout() {
			c.Close()
			release()
			return nil, "join: " + err.Error()
		}
		// The client cannot decode what the proxy sends it with the threshold the proxy itself
		// announced. If proxy and backend nevertheless have the player in play (checked below),
		// the run goes on: the client keeps reading with that threshold, and what it cannot read
		// is not delivered.
		deaf = err.Error()
		wait = 10 * time.Second
	}
	var ho *handoff
	select {
	case ho = <-ch:
	case <-time.After(wait):
		c.Close()
		release()
		if deaf != "" {
			return nil, "join: " + deaf
		}
		return nil, "backend never completed the join"
	}
	if deaf != "" {
		wait = 10 * time.Second
	}
	if !rig.WaitFor(wait, func() bool {
		p := r.P.PlayerByName(name)
		return p != nil && p.Active() && p.CurrentServer() != nil
	}) {
		// not a verdict on relaying: say what the rig saw and move on
		p := r.P.PlayerByName(name)
		c.Timeout = 200 * time.Millisecond
		pk, rerr := c.ReadPacket()
		c.Close()
		close(ho.done)
		return nil, fmt.Sprintf("player never got a current server (registered=%v active=%v, client next read: %v %v)",
			p != nil, p != nil && p.Active(), pk, rerr)
	}
	if got := c.Threshold(); got != cthr {
		c.Close()
		close(ho.done)
		return nil, fmt.Sprintf("client hop threshold is %d, scenario wants %d", got, cthr)
	}
	e := &endpoint{name: name, ver: ver, cthr: cthr, bthr: bthr1 - 1, c: c, ho: ho, log: &runLog{},
		frC: rig.NewFrameReader(c.Conn), frB: rig.NewFrameReader(ho.bc.Conn),
		sb: dirInfoFor(gproto.ServerBound, ver), cb: dirInfoFor(gproto.ClientBound, ver)}
	rec := tracefmt.Rec{"ev": "reset", "ver": ver, "cthr": cthr, "bthr": bthr1 - 1, "name": name}
	if deaf != "" {
		rec["client_could_not_decode_join"] = deaf
	}
	for k, v := range extra {
		rec[k] = v
	}
	e.log.add(rec)
	return e, ""
}

// exchange pumps the packets of both directions concurrently and reads what arrives until
// everything relayable has arrived, or nothing has for `idle` after the senders finished, or
// the connection ended; it then logs the directions' "end" records. held is called after a
// held packet was written.
func (e *endpoint) exchange(c2s, s2c []out, idle time.Duration, held func(dir string, o out)) {
	expect := func(os []out) int {
		n := 0
		for _, o := range os {
			if o.kind != "icpt" {
				n++
			}
		}
		return n
	}
	log := e.log
	var sendersDone sync.WaitGroup
	doneCh := make(chan struct{})
	recvLoop := func(dir string, fr *rig.FrameReader, mine map[int]bool, want int, wg *sync.WaitGroup) {
		defer wg.Done()
		got := 0
		last := time.Now()
		for {
			if want == 0 {
				select {
				case <-doneCh:
					log.add(tracefmt.Rec{"ev": "end", "dir": dir, "closed": false, "got": got})
					return
				default:
				}
			}
			wf, err := fr.Read(250 * time.Millisecond)
			if err != nil {
				if ne, ok := err.(interface{ Timeout() bool }); ok && ne.Timeout() {
					select {
					case <-doneCh:
						if got >= want || time.Since(last) > idle {
							log.add(tracefmt.Rec{"ev": "end", "dir": dir, "closed": false, "got": got})
							return
						}
					default:
						last = time.Now() // senders still busy
					}
					continue
				}
				log.add(tracefmt.Rec{"ev": "end", "dir": dir, "closed": true, "got": got, "err": err.Error()})
				return
			}
			last = time.Now()
			if !mine[wf.ID] {
				continue // originated by the proxy (registered id) or an intercepted kind
			}
			s := sha256.Sum256(wf.Payload)
			got++
			log.add(tracefmt.Rec{"ev": "recv", "dir": dir, "id": wf.ID, "len": len(wf.Payload),
				"hash": hex.EncodeToString(s[:]), "comp": wf.Compressed, "flen": wf.FrameLen})
			if got >= want {
				select {
				case <-doneCh:
					log.add(tracefmt.Rec{"ev": "end", "dir": dir, "closed": false, "got": got})
					return
				default:
				}
			}
		}
	}
	var rwg sync.WaitGroup
	rwg.Add(2)
	go recvLoop("c2s", e.frB, e.sb.mine, expect(c2s), &rwg)
	go recvLoop("s2c", e.frC, e.cb.mine, expect(s2c), &rwg)
	send := func(dir string, conn *mcwire.Conn, os []out) {
		defer sendersDone.Done()
		for _, o := range os {
			n, h := hashOf(o.id, o.body)
			log.add(tracefmt.Rec{"ev": "send", "dir": dir, "id": o.id, "len": n, "hash": h, "kind": o.kind})
			if err := conn.WritePacket(o.id, o.body); err != nil {
				return // the connection is gone: the receiver's "end" record reports it
			}
			if o.held && held != nil {
				held(dir, o)
			}
		}
	}
	sendersDone.Add(2)
	go send("c2s", e.c.Conn, c2s)
	go send("s2c", e.ho.bc.Conn, s2c)
	sendersDone.Wait()
	close(doneCh)
	rwg.Wait()
}

// peerTraffic builds n poorly compressible packets well above every threshold.
func peerTraffic(di dirInfo, dir string, n int, rng *rand.Rand) []out {
	var res []out
	for i := 0; i < n; i++ {
		body := make([]byte, 700+rng.Intn(2400))
		rng.Read(body)
		for j := range body {
			if j%3 == 0 {
				body[j] = 0
			}
		}
		copy(body, []byte{dir[0], 'p', byte(i)})
		res = append(res, out{id: di.unknown[rng.Intn(len(di.unknown))], body: body, kind: "unknown"})
	}
	return res
}

// runScenario joins one client (and, for scenarios with held packets, two more players on
// the same proxy and backend), pumps the scenario and returns the runs' records; note != ""
// means the rig could not set the scenario up (never a verdict).
func runScenario(r *rig.Rig, w *world, si int, sc scenario, seed int64, idle time.Duration) ([]*runLog, string) {
	rng := rand.New(rand.NewSource(seed*1000003 + int64(si)*7919))
	name := fmt.Sprintf("r%d_%d", seed%1000, si)
	cthr, bthr := sc.Cthr-1, sc.Bthr-1
	if sc.Ver < rig.P1_8 {
		return nil, "protocol below 1.8 not driven"
	}
	e, note := joinPlayer(r, w, name, sc.Ver, cthr, sc.Bthr, tracefmt.Rec{"scen": si})
	if note != "" {
		return nil, note
	}
	defer e.close()
	var c2sSteps, s2cSteps []step
	hasHeld := false
	for _, s := range sc.H {
		if s.Dir == "c2s" {
			c2sSteps = append(c2sSteps, s)
		} else {
			s2cSteps = append(s2cSteps, s)
		}
		hasHeld = hasHeld || (s.Size == "held" && s.Kind == "unknown")
	}
	c2s := expand(c2sSteps, "c2s", sc.Ver, cthr, bthr, e.sb, rng)
	s2c := expand(s2cSteps, "s2c", sc.Ver, bthr, cthr, e.cb, rng)
	logs := []*runLog{e.log}
	var peers []*endpoint
	if hasHeld {
		for k := 0; k < 2; k++ {
			pe, pnote := joinPlayer(r, w, fmt.Sprintf("%sp%d", name, k), sc.Ver, cthr, sc.Bthr, tracefmt.Rec{"scen": si, "peer": k})
			if pnote != "" {
				continue // fewer peers: less contention, still a valid run
			}
			defer pe.close()
			peers = append(peers, pe)
			logs = append(logs, pe.log)
		}
	}
	var hmu sync.Mutex // one contention round at a time (the peers are shared by both directions)
	held := func(dir string, o out) {
		if o.h == nil {
			return
		}
		select {
		case <-o.h.parked:
		case <-time.After(10 * time.Second):
			// the frame never reached a compressing encoder (hop without compression): nothing to hold
			close(o.h.release)
			return
		}
		hmu.Lock()
		var pw sync.WaitGroup
		for k, pe := range peers {
			pw.Add(1)
			go func(k int, pe *endpoint) {
				defer pw.Done()
				prng := rand.New(rand.NewSource(seed*31 + int64(si)*131 + int64(k)*7 + int64(len(pe.log.recs))))
				pe.exchange(peerTraffic(pe.sb, "c2s", 24, prng), peerTraffic(pe.cb, "s2c", 24, prng), idle, nil)
			}(k, pe)
		}
		pw.Wait()
		hmu.Unlock()
		close(o.h.release)
	}
	e.exchange(c2s, s2c, idle, held)
	return logs, ""
}
