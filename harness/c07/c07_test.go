//go:build verif

// C07 harness. It only drives and records; every verdict is TLC's (Packets_Trace.tla).
//
// TestEncode reads the shape classes TLC enumerated (shapes.ndjson: packet, protocol, six shape
// parameters), builds the REAL packet struct with concrete values of that shape (contents
// drawn from VERIF_SEED), encodes it with the real Packet.Encode under a proto.PacketContext
// of that protocol, and logs the abstract values it meant together with the bytes produced.
// It also tabulates mathutil.FloorDiv over -20..20 x -9..9.
package c07

import (
	"bytes"
	"compress/zlib"
	"crypto/rand"
	"crypto/rsa"
	"crypto/x509"
	"fmt"
	"math"
	mrand "math/rand"
	"io"
	"path/filepath"
	"runtime"
	"sort"
	"testing"

	"github.com/go-logr/logr"
	"go.minekube.com/common/minecraft/component"

	"go.minekube.com/gate/pkg/edition/java/profile"
	"go.minekube.com/gate/pkg/edition/java/proto/codec"
	"go.minekube.com/gate/pkg/edition/java/proto/packet"
	"go.minekube.com/gate/pkg/edition/java/proto/packet/chat"
	"go.minekube.com/gate/pkg/edition/java/proto/packet/plugin"
	"go.minekube.com/gate/pkg/edition/java/proto/packet/tablist/playerinfo"
	"go.minekube.com/gate/pkg/edition/java/proto/state"
	"go.minekube.com/gate/pkg/edition/java/proxy/crypto"
	"go.minekube.com/gate/pkg/edition/java/proxy/crypto/keyrevision"
	"go.minekube.com/gate/pkg/gate/proto"
	"go.minekube.com/gate/pkg/util/uuid"
	"go.minekube.com/gate/pkg/verifexport"

	"verif/harness/mcwire"
	"verif/harness/tracefmt"
)

type shape struct {
	Pkt string `json:"pkt"`
	V   int    `json:"v"`
	P   []int  `json:"p"`
}

type M = map[string]any

var rng *mrand.Rand

func bs(b []byte) []int      { return tracefmt.Bytes(b) }
func str(s string) []int     { return tracefmt.Bytes([]byte(s)) }
func limbs(v int64) []int {
	u := uint64(v)
	return []int{int(u >> 48 & 0xffff), int(u >> 32 & 0xffff), int(u >> 16 & 0xffff), int(u & 0xffff)}
}

const alnum = "abcdefghijklmnopqrstuvwxyzABCDEFGHIJKLMNOPQRSTUVWXYZ0123456789_"

func name(n int) string {
	b := make([]byte, n)
	for i := range b {
		b[i] = alnum[rng.Intn(len(alnum))]
	}
	return string(b)
}

// text of exactly n bytes: printable ASCII with a few multi-byte runes where they fit
func text(n int) string {
	var b []byte
	for len(b) < n {
		if n-len(b) >= 3 && rng.Intn(8) == 0 {
			b = append(b, "€"...)
		} else if n-len(b) >= 2 && rng.Intn(8) == 0 {
			b = append(b, "ß"...)
		} else {
			c := byte(32 + rng.Intn(95))
			if c == '"' || c == '\\' || c == '<' || c == '>' || c == '&' {
				c = 'x'
			}
			b = append(b, c)
		}
	}
	return string(b)
}

func blob(n int) []byte {
	b := make([]byte, n)
	rng.Read(b)
	return b
}

func uid(class int) uuid.UUID {
	var u uuid.UUID
	switch class {
	case 0: // nil
	case 2: // leading zero bytes / nibbles, high bytes
		rng.Read(u[:])
		u[0], u[1], u[4], u[6], u[8], u[15] = 0, 0x0a, 0xff, 0, 0x80, 0
	default:
		rng.Read(u[:])
	}
	return u
}

func props(n, signedMask int) ([]profile.Property, []M) {
	ps, js := []profile.Property{}, []M{}
	for i := 0; i < n; i++ {
		p := profile.Property{Name: name(1 + rng.Intn(8)), Value: text(rng.Intn(200))}
		if signedMask&(1<<i) != 0 {
			p.Signature = name(1 + rng.Intn(300))
		}
		ps = append(ps, p)
		js = append(js, M{"name": str(p.Name), "value": str(p.Value), "sig": str(p.Signature)})
	}
	return ps, js
}

var pubDER []byte

func playerKey(rev keyrevision.Revision) (crypto.IdentifiedKey, M) {
	exp := int64(1_600_000_000_000) + rng.Int63n(1<<40)
	sig := blob(256 + 256*rng.Intn(2))
	k, err := crypto.NewIdentifiedKey(rev, pubDER, exp, sig)
	if err != nil {
		panic(err)
	}
	return k, M{"exp": limbs(exp), "pub": bs(pubDER), "sig": bs(sig)}
}

// Component texts by class (Packets.tla TextClasses): ordinary texts and texts that look like
// SNBT numbers / booleans / malformed numbers.
var texts = []string{"You have been kicked", "kicked", "404", "-1", "1b", "0.5", "true", "1.21.4", "1e3", "",
	"12345f", "Notch_99", "false", "1L", ".5", "+7", "0x1F", "1d", "1s", "null", "3.", "-0", "1e", "Server closed."}

// a JSON text component written by the harness itself (JSON era and login state)
func jsonComponent(t string) (string, *chat.ComponentHolder) {
	j := `{"text":"` + t + `"}`
	return j, &chat.ComponentHolder{JSON: []byte(j)}
}

// the component the proxy means, as it builds it itself (component.Text with children), and its abstract value
func textComponent(class, children int, protocol int) (M, *chat.ComponentHolder) {
	c := &component.Text{Content: texts[class]}
	extra := []M{}
	for i := 0; i < children; i++ {
		t := texts[rng.Intn(len(texts))]
		c.Extra = append(c.Extra, &component.Text{Content: t})
		extra = append(extra, M{"text": str(t), "extra": []M{}})
	}
	return M{"text": str(c.Content), "extra": extra}, chat.FromComponentProtocol(c, proto.Protocol(protocol))
}

func idClass(c int, wide bool) int64 {
	switch c {
	case 0:
		return 0
	case 1:
		return 1
	case 2:
		return 127
	case 3:
		return 128
	case 4:
		return math.MaxInt32
	case 5:
		return -1
	case 6:
		return math.MinInt32
	case 7:
		if wide {
			return int64(rng.Uint64()>>1) | 1<<40
		}
		return int64(rng.Int31())
	default:
		if wide {
			return -(int64(rng.Uint64()>>1) | 1<<40)
		}
		return -int64(rng.Int31())
	}
}

var channels = []string{"MC|Brand", "REGISTER", "UNREGISTER", "BungeeCord", "myplugin:main", "My-Chan_1 v2!", "minecraft:brand", "FML|HS"}

func pid(r *state.PacketRegistry, v int, p proto.Packet) proto.PacketID {
	if pr := r.ProtocolRegistry(proto.Protocol(v)); pr != nil {
		if id, ok := pr.PacketID(p); ok {
			return id
		}
	}
	return 0x7f
}

// build returns the real packet, its context and the abstract values it means.
func build(s shape) (proto.Packet, *proto.PacketContext, M) {
	p := s.P
	ctx := &proto.PacketContext{Direction: proto.ClientBound, Protocol: proto.Protocol(s.V)}
	switch s.Pkt {
	case "handshake":
		ctx.Direction = proto.ServerBound
		h := &packet.Handshake{ProtocolVersion: p[3], ServerAddress: text(p[0]), Port: p[1], NextStatus: p[2]}
		return h, ctx, M{"pv": p[3], "addr": str(h.ServerAddress), "port": p[1], "next": p[2]}
	case "loginstart":
		ctx.Direction = proto.ServerBound
		l := &packet.ServerLogin{Username: name(p[0])}
		f := M{"name": str(l.Username), "hasKey": p[1] == 1}
		if p[1] == 1 {
			rev := keyrevision.LinkedV2
			if s.V == 759 {
				rev = keyrevision.GenericV1
			}
			var kj M
			l.PlayerKey, kj = playerKey(rev)
			f["key"] = kj
		}
		if p[2] == 1 {
			l.HolderID = uid(1)
		}
		f["holder"] = bs(l.HolderID[:])
		return l, ctx, f
	case "loginsuccess":
		ps, pj := props(p[1], p[2])
		l := &packet.ServerLoginSuccess{UUID: uid(p[3]), Username: name(p[0]), Properties: ps}
		return l, ctx, M{"uuid": bs(l.UUID[:]), "name": str(l.Username), "props": pj}
	case "encreq":
		e := &packet.EncryptionRequest{ServerID: name(p[0]), PublicKey: blob(p[1]), VerifyToken: blob(p[2]), DisableAuthenticate: p[3] == 0}
		return e, ctx, M{"sid": str(e.ServerID), "pub": bs(e.PublicKey), "tok": bs(e.VerifyToken), "auth": p[3] == 1}
	case "encresp":
		ctx.Direction = proto.ServerBound
		e := &packet.EncryptionResponse{SharedSecret: blob(p[0]), VerifyToken: blob(p[1])}
		f := M{"secret": bs(e.SharedSecret), "tok": bs(e.VerifyToken), "hasSalt": p[2] == 1}
		if p[2] == 1 {
			salt := int64(rng.Uint64())
			e.Salt = &salt
			f["salt"] = limbs(salt)
		}
		return e, ctx, f
	case "compression":
		return &packet.SetCompression{Threshold: p[0]}, ctx, M{"thr": p[0]}
	case "loginpluginmsg":
		l := &packet.LoginPluginMessage{ID: p[0], Channel: "velocity:" + name(p[1]), Data: blob(p[2])}
		return l, ctx, M{"id": p[0], "chan": str(l.Channel), "data": bs(l.Data)}
	case "loginpluginresp":
		ctx.Direction = proto.ServerBound
		n := p[2]
		if p[1] == 0 {
			n = 0 // an unsuccessful answer carries no data
		}
		l := &packet.LoginPluginResponse{ID: p[0], Success: p[1] == 1, Data: blob(n)}
		return l, ctx, M{"id": p[0], "ok": p[1] == 1, "data": bs(l.Data)}
	case "plugin":
		m := &plugin.Message{Channel: channels[p[0]], Data: blob(p[1])}
		return m, ctx, M{"chan": str(m.Channel), "data": bs(m.Data)}
	case "disconnect":
		st, reg := "login", state.Login.ClientBound
		switch p[0] {
		case 1:
			st, reg = "play", state.Play.ClientBound
		case 2:
			st, reg = "config", state.Config.ClientBound
		}
		d := &packet.Disconnect{}
		ctx.PacketID = pid(reg, s.V, d)
		f := M{"st": st}
		if st != "login" && s.V >= 765 {
			f["comp"], d.Reason = textComponent(p[1], p[2], s.V)
		} else {
			var j string
			j, d.Reason = jsonComponent(texts[p[1]])
			f["body"] = str(j)
		}
		return d, ctx, f
	case "keepalive":
		id := idClass(p[0], s.V >= 340)
		return &packet.KeepAlive{RandomID: id}, ctx, M{"id": limbs(id)}
	case "statusreq":
		ctx.Direction = proto.ServerBound
		return &packet.StatusRequest{}, ctx, M{}
	case "statusresp":
		j := `{"description":{"text":"` + text(p[0]-27) + `"}}`
		if p[0] < 27 {
			j = "{}"
		}
		return &packet.StatusResponse{Status: j}, ctx, M{"json": str(j)}
	case "statusping":
		id := idClass(p[0], true)
		return &packet.StatusPing{RandomID: id}, ctx, M{"id": limbs(id)}
	case "piremove":
		r := &playerinfo.Remove{}
		ids := [][]int{}
		for i := 0; i < p[0]; i++ {
			u := uid(1 + i%2)
			r.PlayersToRemove = append(r.PlayersToRemove, u)
			ids = append(ids, bs(u[:]))
		}
		return r, ctx, M{"ids": ids}
	case "transfer":
		t := &packet.Transfer{Host: name(p[0]), Port: p[1]}
		return t, ctx, M{"host": str(t.Host), "port": p[1]}
	case "upsert":
		return buildUpsert(s, ctx)
	}
	panic("unknown packet " + s.Pkt)
}

func buildUpsert(s shape, ctx *proto.PacketContext) (proto.Packet, *proto.PacketContext, M) {
	mask, perm, n, variant := s.P[0], s.P[1], s.P[2], s.P[3]
	var acts []int
	for a := 0; a < 8; a++ {
		if mask&(1<<a) != 0 {
			acts = append(acts, a)
		}
	}
	switch perm {
	case 1: // reversed
		for i, j := 0, len(acts)-1; i < j; i, j = i+1, j-1 {
			acts[i], acts[j] = acts[j], acts[i]
		}
	case 2: // rotated, and the first supplied action supplied once more at the end
		if len(acts) > 0 {
			k := 3 % len(acts)
			acts = append(append([]int{}, acts[k:]...), acts[:k]...)
			acts = append(acts, acts[0])
		}
	}
	u := &playerinfo.Upsert{}
	api := []int{}
	for _, a := range acts {
		u.ActionSet = append(u.ActionSet, playerinfo.UpsertActions[a])
		api = append(api, a)
	}
	entries := []M{}
	for i := 0; i < n; i++ {
		id := uid(1)
		ps, pj := props(variant>>2&3, i)
		e := &playerinfo.Entry{ProfileID: id, Profile: profile.GameProfile{ID: id, Name: name(1 + rng.Intn(16)), Properties: ps},
			Listed: rng.Intn(2) == 0, Latency: []int{0, 1, 127, 128, 300, -1}[rng.Intn(6)], GameMode: rng.Intn(4),
			ShowHat: rng.Intn(2) == 0, ListOrder: []int{0, 5, 200, -3}[rng.Intn(4)]}
		f := M{"id": bs(id[:]), "name": str(e.Profile.Name), "props": pj, "listed": e.Listed, "lat": e.Latency,
			"gm": e.GameMode, "hat": e.ShowHat, "order": e.ListOrder, "hasSess": variant&1 != 0, "hasDn": variant&2 != 0}
		if variant&1 != 0 {
			k, kj := playerKey(keyrevision.LinkedV2)
			sid := uid(1)
			e.RemoteChatSession = &chat.RemoteChatSession{ID: sid, Key: k}
			kj["id"] = bs(sid[:])
			f["sess"] = kj
		}
		if variant&2 != 0 {
			if s.V >= 765 {
				f["dnc"], e.DisplayName = textComponent(s.P[4], s.P[5], s.V)
			} else {
				var j string
				j, e.DisplayName = jsonComponent(texts[s.P[4]])
				f["dn"] = str(j)
			}
		}
		u.Entries = append(u.Entries, e)
		entries = append(entries, f)
	}
	ctx.PacketID = pid(state.Play.ClientBound, s.V, u)
	return u, ctx, M{"acts": api, "entries": entries}
}

func encode(p proto.Packet, c *proto.PacketContext) (out []byte, err error) {
	defer func() {
		if e := recover(); e != nil {
			err = fmt.Errorf("panic: %v", e)
		}
	}()
	var b bytes.Buffer
	err = p.Encode(c, &b)
	return b.Bytes(), err
}

// hookWriter is a connection: it collects what is written and can run something in the middle of a send
// (after the first Write of a frame), the way another goroutine would while this one is held up in its socket.
type hookWriter struct {
	buf             bytes.Buffer
	afterFirstWrite func()
}

func (w *hookWriter) Write(p []byte) (int, error) {
	n, err := w.buf.Write(p)
	if f := w.afterFirstWrite; f != nil {
		w.afterFirstWrite = nil
		f()
	}
	return n, err
}

// readFrames splits a connection's bytes into frame payloads (id + body) with the harness's own framing
// (VarInt length, optional data-length + Go's compress/zlib); what cannot be framed is returned as an error.
func readFrames(wire []byte, compressed bool) (payloads [][]byte, err error) {
	for len(wire) > 0 {
		rd := mcwire.NewRd(wire)
		n := rd.VarInt()
		if rd.Err != nil || n < 0 || n > rd.Len() {
			return payloads, fmt.Errorf("frame announces %d bytes, %d follow", n, rd.Len())
		}
		body := rd.N(n)
		wire = wire[rd.Off:]
		if compressed {
			br := mcwire.NewRd(body)
			dl := br.VarInt()
			if br.Err != nil {
				return payloads, fmt.Errorf("bad data length")
			}
			if dl == 0 {
				body = br.Rest()
			} else {
				zr, e := zlib.NewReader(bytes.NewReader(body[br.Off:]))
				if e != nil {
					return payloads, e
				}
				out, e := io.ReadAll(zr)
				if e != nil || len(out) != dl {
					return payloads, fmt.Errorf("inflate: %v (%d of %d bytes)", e, len(out), dl)
				}
				body = out
			}
		}
		payloads = append(payloads, append([]byte(nil), body...))
	}
	return payloads, nil
}

// overlapPhase: after one connection sent a compressed packet of a kind through codec.Encoder.WritePacket, two
// other connections are sent a packet of that kind at overlapping times (the second send happens while the
// first is in the middle of its write). Each connection must have received exactly the one frame meant for it.
func overlapPhase(tw *tracefmt.Writer) int {
	defer runtime.GOMAXPROCS(runtime.GOMAXPROCS(1))
	const v = 767
	kinds := []shape{
		{"plugin", v, []int{4, 40, 0, 0, 0, 0}}, {"keepalive", v, []int{7, 0, 0, 0, 0, 0}},
		{"disconnect", v, []int{1, 0, 0, 0, 0, 0}}, {"upsert", v, []int{63, 1, 1, 6, 0, 0}},
		{"piremove", v, []int{2, 0, 0, 0, 0, 0}}, {"transfer", v, []int{16, 25565, 0, 0, 0, 0}},
	}
	newEnc := func(w io.Writer, thr int) *codec.Encoder {
		e := codec.NewEncoder(w, proto.ClientBound, logr.Discard())
		e.SetProtocol(proto.Protocol(v))
		e.SetState(state.Play)
		if thr >= 0 {
			if err := e.SetCompression(thr, 1); err != nil {
				panic(err)
			}
		}
		return e
	}
	seen := map[string]bool{}
	n := 0
	for _, k := range kinds {
		for _, thr := range []int{-1, 1} { // the two later connections: uncompressed / compressing everything
			for attempt := 0; attempt < 12; attempt++ {
				pa, _, _ := build(k)
				if _, err := newEnc(&hookWriter{}, 1).WritePacket(pa); err != nil { // connection A: compressed send
					panic(err)
				}
				pb, _, fb := build(k)
				pc, _, fc := build(k)
				sinkB, sinkC := &hookWriter{}, &hookWriter{}
				encB, encC := newEnc(sinkB, thr), newEnc(sinkC, thr)
				var errB error
				sinkC.afterFirstWrite = func() { _, errB = encB.WritePacket(pb) }
				_, errC := encC.WritePacket(pc)
				for _, c := range []struct {
					conn string
					w    *hookWriter
					p    proto.Packet
					f    M
					err  error
				}{{"B", sinkB, pb, fb, errB}, {"C", sinkC, pc, fc, errC}} {
					frames, ferr := readFrames(c.w.buf.Bytes(), thr >= 0)
					es := ""
					if c.err != nil {
						es = "write: " + c.err.Error()
					} else if ferr != nil {
						es = "framing: " + ferr.Error()
					} else if len(frames) != 1 {
						es = fmt.Sprintf("framing: %d frames on the connection, 1 sent", len(frames))
					}
					payload := []byte{}
					if len(frames) > 0 {
						payload = frames[0]
					}
					rec := tracefmt.Rec{"ev": "frame", "pkt": k.Pkt, "v": v, "shape": k.P, "f": c.f, "conn": c.conn, "thr": thr,
						"pid": int(pid(state.Play.ClientBound, v, c.p)), "payload": bs(payload), "err": es}
					// identical observations are logged once (key: kind, compression, what arrived relative to what was meant)
					key := fmt.Sprint(k.Pkt, thr, c.conn, es, attempt < 2)
					if es == "" && attempt >= 2 && seen[key] {
						continue
					}
					if es != "" && seen[key] {
						continue
					}
					seen[key] = true
					tw.Emit(rec)
					n++
				}
			}
		}
	}
	return n
}

func reusePhase(tw *tracefmt.Writer, shapes []shape) int {
	type group struct {
		pkt string
		p   []int
		vs  []int
	}
	idx := map[string]*group{}
	byPkt := map[string][]*group{}
	var kinds []string
	for _, s := range shapes {
		k := fmt.Sprint(s.Pkt, s.P)
		g := idx[k]
		if g == nil {
			g = &group{pkt: s.Pkt, p: s.P}
			idx[k] = g
			if byPkt[s.Pkt] == nil {
				kinds = append(kinds, s.Pkt)
			}
			byPkt[s.Pkt] = append(byPkt[s.Pkt], g)
		}
		g.vs = append(g.vs, s.V)
	}
	per := tracefmt.EnvInt("VERIF_REUSE_GROUPS", 6)
	n := 0
	for _, kind := range kinds {
		gs := byPkt[kind]
		if kind == "plugin" { // every channel class, small payload
			var sel []*group
			for _, g := range gs {
				if g.p[1] == 1 {
					sel = append(sel, g)
				}
			}
			gs = sel
		} else if len(gs) > per {
			var sel []*group
			for i := 0; i < per; i++ {
				sel = append(sel, gs[(len(gs)-1)*i/(per-1)])
			}
			gs = sel
		}
		for _, g := range gs {
			vs := append([]int{}, g.vs...)
			sort.Sort(sort.Reverse(sort.IntSlice(vs)))
			newest := vs[0]
			// values whose meaning is bound to an era of the protocol stay within that era
			lo := 0
			switch {
			case kind == "keepalive" && g.p[0] >= 7:
				lo = 340 // 64-bit ids
			case kind == "disconnect" && g.p[0] != 0 && newest >= 765, kind == "upsert" && g.p[3]&2 != 0 && newest >= 765:
				lo = 765 // NBT component built by the proxy (the JSON text of older protocols is opaque to the spec)
			}
			pk, ctx0, f := build(shape{Pkt: kind, V: newest, P: g.p})
			for i, v := range vs {
				if v < lo {
					continue
				}
				ctx := *ctx0
				ctx.Protocol = proto.Protocol(v)
				if kind == "disconnect" {
					reg := state.Login.ClientBound
					if g.p[0] == 1 {
						reg = state.Play.ClientBound
					} else if g.p[0] == 2 {
						reg = state.Config.ClientBound
					}
					ctx.PacketID = pid(reg, v, pk)
				}
				out, err := encode(pk, &ctx)
				es := ""
				if err != nil {
					es = err.Error()
				}
				tw.Emit(tracefmt.Rec{"ev": "pkt", "pkt": kind, "v": v, "shape": g.p, "f": f, "bytes": bs(out), "err": es, "reuse": i + 1})
				n++
			}
		}
	}
	return n
}

func TestEncode(t *testing.T) {
	rng = mrand.New(mrand.NewSource(tracefmt.Seed()))
	key, err := rsa.GenerateKey(rand.Reader, 1024)
	if err != nil {
		t.Fatal(err)
	}
	if pubDER, err = x509.MarshalPKIXPublicKey(&key.PublicKey); err != nil {
		t.Fatal(err)
	}
	shapes, err := tracefmt.ReadNDJSON[shape](filepath.Join(tracefmt.OutDir(), "shapes.ndjson"))
	if err != nil {
		t.Fatal(err)
	}
	tw, err := tracefmt.Create("trace.ndjson")
	if err != nil {
		t.Fatal(err)
	}
	perPkt := map[string]int{}
	nerr := 0
	var samples []any
	for _, s := range shapes {
		p, ctx, f := build(s)
		out, err := encode(p, ctx)
		es := ""
		if err != nil {
			es = err.Error()
			nerr++
		}
		rec := tracefmt.Rec{"ev": "pkt", "pkt": s.Pkt, "v": s.V, "shape": s.P, "f": f, "bytes": bs(out), "err": es}
		tw.Emit(rec)
		perPkt[s.Pkt]++
		if len(out) < 40 && perPkt[s.Pkt] == 3 && len(samples) < 4 {
			samples = append(samples, map[string]any{"pkt": s.Pkt, "v": s.V, "f": f, "bytes": bs(out)})
		}
	}
	// The same packet OBJECT written to several connections: built once for the newest protocol of its
	// shape, then encoded for every protocol of that shape, newest first. What it means does not change.
	nreuse := reusePhase(tw, shapes)
	noverlap := overlapPhase(tw)
	nfd := 0
	for a := -20; a <= 20; a++ {
		for b := -9; b <= 9; b++ {
			if b == 0 {
				continue
			}
			tw.Emit(tracefmt.Rec{"ev": "floordiv", "a": a, "b": b, "q": verifexport.FloorDiv(a, b)})
			nfd++
		}
	}
	if err := tw.Close(); err != nil {
		t.Fatal(err)
	}
	tracefmt.WriteJSON("stats.json", map[string]any{"packets": len(shapes), "per_packet": perPkt, "encode_errors": nerr,
		"floordiv": nfd, "samples": samples, "reused_encodes": nreuse, "overlap_frames": noverlap})
}
