//go:build verif

// C36 harness: drives the real applyMergePatch / mergeConfigPatch and records
// their I/O as tagged JSON values for MergePatch_Trace.tla.
//
// Tagged JSON (see spec/MergePatch.tla): {"t":"null"}, {"t":"num","n":1},
// {"t":"str","s":".."}, {"t":"bool","b":true}, {"t":"arr","a":[..]},
// {"t":"obj","m":{..}} (TLC prints an empty object's m as []).
package c36

import (
	"encoding/json"
	"fmt"
	"math"
	"math/rand"
	"os"
	"path/filepath"
	"reflect"
	"sort"
	"strings"
	"sync"
	"testing"
	"time"

	"gopkg.in/yaml.v3"

	jconfig "go.minekube.com/gate/pkg/edition/java/config"
	liteconfig "go.minekube.com/gate/pkg/edition/java/lite/config"
	"go.minekube.com/gate/pkg/gate"
	"go.minekube.com/gate/pkg/gate/config"
	"go.minekube.com/gate/pkg/util/configutil"

	"verif/harness/tracefmt"
)

// ---------------------------------------------------------------- tagged values

func tag(v any) map[string]any {
	switch x := v.(type) {
	case nil:
		return map[string]any{"t": "null"}
	case bool:
		return map[string]any{"t": "bool", "b": x}
	case float64:
		if x == math.Trunc(x) && math.Abs(x) < 1e9 {
			return map[string]any{"t": "num", "n": int(x)}
		}
		// TLC has no reals: non-integers travel as an opaque, injective string form
		return map[string]any{"t": "real", "s": fmt.Sprintf("%v", x)}
	case int:
		return map[string]any{"t": "num", "n": x}
	case string:
		return map[string]any{"t": "str", "s": x}
	case []any:
		a := make([]any, len(x))
		for i, e := range x {
			a[i] = tag(e)
		}
		return map[string]any{"t": "arr", "a": a}
	case map[string]any:
		m := make(map[string]any, len(x))
		for k, e := range x {
			m[k] = tag(e)
		}
		return map[string]any{"t": "obj", "m": m}
	}
	panic(fmt.Sprintf("tag: unexpected %T", v))
}

func untag(v any) any {
	r := v.(map[string]any)
	switch r["t"] {
	case "null":
		return nil
	case "bool":
		return r["b"].(bool)
	case "num":
		if n, ok := r["n"].(int); ok {
			return float64(n)
		}
		return r["n"].(float64)
	case "real":
		var f float64
		fmt.Sscan(r["s"].(string), &f)
		return f
	case "str":
		return r["s"].(string)
	case "arr":
		a, _ := r["a"].([]any)
		out := make([]any, len(a))
		for i, e := range a {
			out[i] = untag(e)
		}
		return out
	case "obj":
		out := map[string]any{}
		if m, ok := r["m"].(map[string]any); ok { // TLC prints the empty function as []
			for k, e := range m {
				out[k] = untag(e)
			}
		}
		return out
	}
	panic(fmt.Sprintf("untag: unexpected %v", r))
}

// throughJSON re-creates v exactly as encoding/json hands it to applyMergePatch.
func throughJSON(v any) any {
	b, err := json.Marshal(v)
	if err != nil {
		panic(err)
	}
	var out any
	if err := json.Unmarshal(b, &out); err != nil {
		panic(err)
	}
	return out
}

type vec struct {
	Target any `json:"target"`
	Patch  any `json:"patch"`
}

type stats struct {
	Vectors   int            `json:"vectors"`
	Random    int            `json:"random"`
	Chains    int            `json:"chain_steps"`
	Changed   int            `json:"changed"`
	Classes   map[string]int `json:"classes"`
	CfgCases  int            `json:"cfg_cases"`
	CfgAccept int            `json:"cfg_accepted"`
	CfgReject int            `json:"cfg_rejected"`
	Samples   []any          `json:"samples"`
}

func classify(target, patch any) string {
	p, ok := patch.(map[string]any)
	if !ok {
		return "replace-nonobject"
	}
	_, tobj := target.(map[string]any)
	c := "obj"
	if !tobj {
		c = "obj-onto-nonobj"
	}
	var walk func(v any, d int) (nulls bool, depth int)
	walk = func(v any, d int) (bool, int) {
		m, ok := v.(map[string]any)
		if !ok {
			return v == nil, d
		}
		n, md := false, d
		for _, e := range m {
			en, ed := walk(e, d+1)
			n = n || en
			if ed > md {
				md = ed
			}
		}
		return n, md
	}
	n, d := walk(p, 0)
	if n {
		c += "+null"
	}
	if d >= 2 {
		c += "+nested"
	}
	return c
}

func doMerge(tw *tracefmt.Writer, st *stats, targetTagged, patchTagged any, ev string) any {
	t := throughJSON(untag(targetTagged))
	p := throughJSON(untag(patchTagged))
	cls := classify(t, p)
	before, _ := json.Marshal(t)
	out := gate.VerifApplyMergePatch(t, p)
	// what mergeConfigPatch does next: encode the merged value
	enc, err := json.Marshal(out)
	if err != nil {
		panic(err)
	}
	var back any
	if err := json.Unmarshal(enc, &back); err != nil {
		panic(err)
	}
	tw.Emit(tracefmt.Rec{"ev": ev, "target": targetTagged, "patch": patchTagged, "out": tag(back)})
	st.Classes[cls]++
	if string(before) != string(enc) {
		st.Changed++
	}
	if len(st.Samples) < 3 && cls == "obj+null+nested" {
		st.Samples = append(st.Samples, map[string]any{"target": json.RawMessage(before),
			"patch": p, "out": json.RawMessage(enc)})
	}
	return back
}

// ---------------------------------------------------------------- random documents

var rkeys = []string{"a", "b", "c", "", "k.k", "A", "routes"}

func randDoc(rng *rand.Rand, depth int, allowNull bool) any {
	k := rng.Intn(10)
	if depth <= 0 && k >= 7 {
		k = rng.Intn(7)
	}
	switch k {
	case 0:
		if allowNull {
			return nil
		}
		return false
	case 1:
		return float64(rng.Intn(7) - 3)
	case 2:
		return []string{"", "s", "null", "0", "x y"}[rng.Intn(5)]
	case 3:
		return rng.Intn(2) == 0
	case 4:
		return []any{}
	case 5:
		n := rng.Intn(3)
		a := make([]any, n)
		for i := range a {
			a[i] = randDoc(rng, depth-1, true)
		}
		return a
	case 6:
		return map[string]any{}
	default:
		n := 1 + rng.Intn(3)
		m := map[string]any{}
		for i := 0; i < n; i++ {
			m[rkeys[rng.Intn(len(rkeys))]] = randDoc(rng, depth-1, true)
		}
		return m
	}
}

// a patch related to target: touches some of its members
func randPatchFor(rng *rand.Rand, target any, depth int) any {
	tm, ok := target.(map[string]any)
	if !ok || depth <= 0 || rng.Intn(5) == 0 {
		return randDoc(rng, depth, true)
	}
	p := map[string]any{}
	keys := make([]string, 0, len(tm))
	for k := range tm {
		keys = append(keys, k)
	}
	sort.Strings(keys)
	for _, k := range keys {
		switch rng.Intn(6) {
		case 0:
			p[k] = nil
		case 1:
			p[k] = randPatchFor(rng, tm[k], depth-1)
		case 2:
			p[k] = randDoc(rng, depth-1, true)
		case 3:
			p[k] = throughJSON(tm[k]) // the member repeated verbatim, null members included
		}
	}
	if rng.Intn(2) == 0 {
		p[rkeys[rng.Intn(len(rkeys))]] = randDoc(rng, depth-1, true)
	}
	return p
}

func TestVectors(t *testing.T) {
	b, err := os.ReadFile(filepath.Join(tracefmt.OutDir(), "vec.json"))
	if err != nil {
		t.Fatal(err)
	}
	var vecs []vec
	if err := json.Unmarshal(b, &vecs); err != nil {
		t.Fatal(err)
	}
	tw, err := tracefmt.Create("trace.ndjson")
	if err != nil {
		t.Fatal(err)
	}
	st := stats{Classes: map[string]int{}}
	for _, v := range vecs {
		doMerge(tw, &st, v.Target, v.Patch, "merge")
		st.Vectors++
	}
	// random deeper documents, from several goroutines at once (the merge must not keep state
	// between calls); every recorded input/output pair is judged as usual
	n := tracefmt.EnvInt("VERIF_N", 2000)
	const workers = 4
	var wg sync.WaitGroup
	var stMu sync.Mutex
	for g := 0; g < workers; g++ {
		wg.Add(1)
		go func(g int) {
			defer wg.Done()
			rng := rand.New(rand.NewSource(tracefmt.Seed()*31 + int64(g)))
			local := stats{Classes: map[string]int{}}
			for i := 0; i < n/workers; i++ {
				target := throughJSON(randDoc(rng, 4, true))
				patch := throughJSON(randPatchFor(rng, target, 4))
				cur := doMerge(tw, &local, tag(target), tag(patch), "merge")
				local.Random++
				// chains: the output of one application is the target of the next
				for k := 0; k < 2 && rng.Intn(2) == 0; k++ {
					p2 := throughJSON(randPatchFor(rng, cur, 3))
					cur = doMerge(tw, &local, tag(cur), tag(p2), "merge")
					local.Chains++
				}
			}
			stMu.Lock()
			st.Random += local.Random
			st.Chains += local.Chains
			st.Changed += local.Changed
			for k, v := range local.Classes {
				st.Classes[k] += v
			}
			stMu.Unlock()
		}(g)
	}
	wg.Wait()
	if err := tw.Close(); err != nil {
		t.Fatal(err)
	}
	if err := tracefmt.WriteJSON("stats.json", st); err != nil {
		t.Fatal(err)
	}
}

// ---------------------------------------------------------------- real configurations

func text(s string) *configutil.Component {
	var c configutil.Component
	if err := yaml.Unmarshal([]byte(fmt.Sprintf("%q", s)), &c); err != nil {
		panic(err)
	}
	return &c
}

func cloneConfig(c config.Config) *config.Config {
	b, err := json.Marshal(&c) // by pointer: Duration's JSON marshaler has a pointer receiver
	if err != nil {
		panic(err)
	}
	var out config.Config
	if err := json.Unmarshal(b, &out); err != nil {
		panic(err)
	}
	return &out
}

func baseConfigs() []*config.Config {
	a := cloneConfig(config.DefaultConfig)
	a.Config.Status.Favicon = ""
	a.Config.Servers = map[string]string{"lobby": "localhost:25566", "survival": "10.0.0.2:25565"}
	a.Config.Try = []string{"lobby", "survival"}
	a.Config.ForcedHosts = map[string][]string{"play.example.test": {"survival"}}

	b := cloneConfig(config.DefaultConfig)
	b.Config.Status.Favicon = ""
	b.Config.Bind = "127.0.0.1:25570"
	b.Config.OnlineMode = false
	b.Config.Forwarding.Mode = jconfig.VelocityForwardingMode
	b.Config.Forwarding.VelocitySecret = "s3cret"
	b.Config.Status.ShowMaxPlayers = 42
	b.Config.Compression.Level = 6
	b.Config.Compression.Threshold = 128
	b.Config.ConnectionTimeout = configutil.Duration(1500 * time.Millisecond)
	b.Config.Quota.Logins.Burst = 7
	b.Config.ProxyProtocolTrustedProxies = []string{"10.1.0.0/16"}
	b.Config.Lite.Enabled = true
	b.Config.Lite.Routes = []liteconfig.Route{
		{Host: []string{"play.example.test"}, Backend: []string{"backend.example.test:25565"}},
		{Host: []string{"*.example.test", "other.test"}, Backend: []string{"b1:25565", "b2:25565"},
			Strategy: liteconfig.StrategyRoundRobin, CachePingTTL: configutil.Duration(3 * time.Second), ProxyProtocol: true},
	}
	b.HealthService.Enabled = true
	b.HealthService.Bind = "127.0.0.1:9191"
	b.NoAutoReload = true
	return []*config.Config{a, b}
}

func canonical(c *config.Config) any {
	b, err := gate.VerifCanonicalConfigJSON(c)
	if err != nil {
		panic(err)
	}
	var v any
	if err := json.Unmarshal(b, &v); err != nil {
		panic(err)
	}
	return v
}

// schema describes the configuration type: which members a section knows.
// kinds: obj (f: member -> schema), map (e), list (e), scalar, any (custom decoding: no claim)
var yamlUnmarshaler = reflect.TypeOf((*yaml.Unmarshaler)(nil)).Elem()

func schemaOf(t reflect.Type, seen map[reflect.Type]bool) map[string]any {
	if t.Kind() == reflect.Pointer {
		t = t.Elem()
	}
	if reflect.PointerTo(t).Implements(yamlUnmarshaler) || t.Implements(yamlUnmarshaler) {
		return map[string]any{"k": "any"}
	}
	switch t.Kind() {
	case reflect.Struct:
		if seen[t] {
			return map[string]any{"k": "any"}
		}
		seen[t] = true
		defer delete(seen, t)
		f := map[string]any{}
		var add func(t reflect.Type) bool
		add = func(t reflect.Type) bool {
			for i := 0; i < t.NumField(); i++ {
				sf := t.Field(i)
				if !sf.IsExported() {
					continue
				}
				tagv := sf.Tag.Get("yaml")
				name, opts, _ := strings.Cut(tagv, ",")
				if name == "-" {
					continue
				}
				if strings.Contains(","+opts+",", ",inline,") {
					ft := sf.Type
					if ft.Kind() == reflect.Pointer {
						ft = ft.Elem()
					}
					if ft.Kind() != reflect.Struct || !add(ft) {
						return false
					}
					continue
				}
				if name == "" {
					name = strings.ToLower(sf.Name)
				}
				f[name] = schemaOf(sf.Type, seen)
			}
			return true
		}
		if !add(t) {
			return map[string]any{"k": "any"}
		}
		return map[string]any{"k": "obj", "f": f}
	case reflect.Map:
		if t.Key().Kind() != reflect.String {
			return map[string]any{"k": "any"}
		}
		return map[string]any{"k": "map", "e": schemaOf(t.Elem(), seen)}
	case reflect.Slice, reflect.Array:
		return map[string]any{"k": "list", "e": schemaOf(t.Elem(), seen)}
	case reflect.Bool, reflect.String, reflect.Int, reflect.Int8, reflect.Int16, reflect.Int32, reflect.Int64,
		reflect.Uint, reflect.Uint8, reflect.Uint16, reflect.Uint32, reflect.Uint64, reflect.Float32, reflect.Float64:
		return map[string]any{"k": "scalar"}
	}
	return map[string]any{"k": "any"}
}

type path []string

func paths(v any, cur path, out *[]path, objs *[]path) {
	if len(cur) > 0 {
		*out = append(*out, append(path(nil), cur...))
	}
	if m, ok := v.(map[string]any); ok {
		*objs = append(*objs, append(path(nil), cur...))
		keys := make([]string, 0, len(m))
		for k := range m {
			keys = append(keys, k)
		}
		sort.Strings(keys)
		for _, k := range keys {
			paths(m[k], append(cur, k), out, objs)
		}
	}
}

func at(v any, p path) (any, bool) {
	for _, k := range p {
		m, ok := v.(map[string]any)
		if !ok {
			return nil, false
		}
		v, ok = m[k]
		if !ok {
			return nil, false
		}
	}
	return v, true
}

func nest(p path, v any) any {
	for i := len(p) - 1; i >= 0; i-- {
		v = map[string]any{p[i]: v}
	}
	return v
}

func mergeShallow(a, b any) any { // union of two nested single-path objects (patch construction only)
	am, aok := a.(map[string]any)
	bm, bok := b.(map[string]any)
	if !aok || !bok {
		return b
	}
	out := map[string]any{}
	for k, v := range am {
		out[k] = v
	}
	for k, v := range bm {
		if old, ok := out[k]; ok {
			out[k] = mergeShallow(old, v)
		} else {
			out[k] = v
		}
	}
	return out
}

type cfgCase struct {
	ID    int    `json:"id"`
	Base  int    `json:"base"`
	Class string `json:"class"`
	Patch any    `json:"patch"` // tagged
}

// TestCfgDump writes the tagged canonical documents of the base configurations, the
// schema, and generated patches; TLC computes the RFC result of each (cfgexp.json).
func TestCfgDump(t *testing.T) {
	bases := baseConfigs()
	docs := make([]any, len(bases))
	for i, b := range bases {
		docs[i] = canonical(b)
	}
	rng := rand.New(rand.NewSource(tracefmt.Seed()))
	var cases []cfgCase
	add := func(base int, class string, patch any) {
		cases = append(cases, cfgCase{ID: len(cases) + 1, Base: base, Class: class, Patch: tag(throughJSON(patch))})
	}
	n := tracefmt.EnvInt("VERIF_CFG_N", 40)
	for bi, doc := range docs {
		other := docs[(bi+1)%len(docs)]
		var ps, objs, ops, oobjs []path
		paths(doc, nil, &ps, &objs)
		paths(other, nil, &ops, &oobjs)
		gen := func(class string) any {
			switch class {
			case "transplant": // a subtree of the other real configuration
				p := ops[rng.Intn(len(ops))]
				v, _ := at(other, p)
				return nest(p, v)
			case "delete":
				return nest(ps[rng.Intn(len(ps))], nil)
			case "unknown-key":
				p := objs[rng.Intn(len(objs))]
				return nest(append(append(path(nil), p...), "zzUnknown"), []any{true, float64(1), "x"}[rng.Intn(3)])
			case "wrong-type":
				p := ps[rng.Intn(len(ps))]
				v, _ := at(doc, p)
				switch v.(type) {
				case map[string]any:
					return nest(p, []any{float64(7), "scalar", []any{float64(1)}}[rng.Intn(3)])
				case []any:
					return nest(p, []any{float64(7), map[string]any{"x": float64(1)}}[rng.Intn(2)])
				default:
					return nest(p, []any{map[string]any{"x": float64(1)}, []any{float64(1)}, map[string]any{"x": nil}}[rng.Intn(3)])
				}
			case "empty-object":
				return nest(ps[rng.Intn(len(ps))], map[string]any{})
			case "null-unknown": // removing a member that is not there (and is no known option): a no-op
				p := objs[rng.Intn(len(objs))]
				return nest(append(append(path(nil), p...), "zzObsolete"), nil)
			case "echo-section": // a section of the same document sent back verbatim, nulls included
				p := objs[1+rng.Intn(len(objs)-1)]
				v, _ := at(doc, p)
				return nest(p, throughJSON(v))
			}
			panic(class)
		}
		classes := []string{"transplant", "delete", "unknown-key", "wrong-type", "empty-object", "echo-section", "null-unknown"}
		for _, c := range classes {
			for i := 0; i < n; i++ {
				add(bi, c, gen(c))
			}
		}
		for i := 0; i < n; i++ { // several edits in one patch
			p := gen("transplant")
			for k := 0; k < 1+rng.Intn(3); k++ {
				p = mergeShallow(p, gen(classes[rng.Intn(2)]))
			}
			add(bi, "multi", p)
		}
		for i := 0; i < n/4+1; i++ {
			p := mergeShallow(gen("transplant"), gen("unknown-key"))
			add(bi, "multi-unknown", p)
		}
		for i := 0; i < n/2+1; i++ { // an ordinary change next to null members for unknown options
			p := mergeShallow(mergeShallow(gen("transplant"), gen("null-unknown")), gen("null-unknown"))
			add(bi, "multi-null-unknown", p)
		}
		add(bi, "top-null-unknown", map[string]any{"obsolete": nil})
		add(bi, "nested-null-unknown", map[string]any{"config": map[string]any{"obsoleteOption": nil,
			"status": map[string]any{"gone": nil}, "servers": map[string]any{"gone": nil}}})
		// fixed ones: whole-document patches
		add(bi, "identity", map[string]any{})
		add(bi, "echo-all", doc)
		add(bi, "top-null", nil)
		add(bi, "top-scalar", float64(5))
		add(bi, "top-string", "x")
		add(bi, "top-array", []any{})
		add(bi, "top-other", other)
		add(bi, "section-null", map[string]any{"config": nil})
		add(bi, "lite-null", map[string]any{"config": map[string]any{"lite": nil}})
		add(bi, "routes-replace", map[string]any{"config": map[string]any{"lite": map[string]any{
			"routes": []any{map[string]any{"host": "patched.example.test", "backend": []any{"x:1", "y:2"}, "unknownRouteKey": nil}}}}})
		add(bi, "routes-unknown", map[string]any{"config": map[string]any{"lite": map[string]any{
			"routes": []any{map[string]any{"host": "patched.example.test", "backend": "x:1", "unknownRouteKey": float64(1)}}}}})
		add(bi, "case-variant", map[string]any{"Config": map[string]any{"Bind": "1.2.3.4:5"}})
		add(bi, "case-variant2", map[string]any{"config": map[string]any{"Bind": "1.2.3.4:5"}})
	}
	tagged := make([]any, len(docs))
	for i, d := range docs {
		tagged[i] = tag(d)
	}
	tw, err := tracefmt.Create("cfgvec.ndjson")
	if err != nil {
		t.Fatal(err)
	}
	for _, c := range cases {
		tw.EmitRaw(c)
	}
	if err := tw.Close(); err != nil {
		t.Fatal(err)
	}
	tracefmt.WriteJSON("cfgbases.json", map[string]any{
		"bases":  tagged,
		"schema": schemaOf(reflect.TypeOf(config.Config{}), map[reflect.Type]bool{}),
	})
}

type cfgExp struct {
	ID     int `json:"id"`
	Merged any `json:"merged"` // tagged, computed by TLC
}

// normalize = what "decodes strictly as a configuration" yields, via the real strict
// decoder and the real canonical encoder.
func normalize(doc any) (any, bool) {
	b, err := json.Marshal(doc)
	if err != nil {
		panic(err)
	}
	var c config.Config
	if err := gate.VerifDecodeConfigStrict(b, ".yaml", &c); err != nil {
		return nil, false
	}
	return canonical(&c), true
}

// TestCfgApply runs the real mergeConfigPatch for every case and records what it
// accepted next to the strictly decoded form of the RFC result computed by TLC.
func TestCfgApply(t *testing.T) {
	cases, err := tracefmt.ReadNDJSON[cfgCase](filepath.Join(tracefmt.OutDir(), "cfgvec.ndjson"))
	if err != nil {
		t.Fatal(err)
	}
	b, err := os.ReadFile(filepath.Join(tracefmt.OutDir(), "cfgexp.json"))
	if err != nil {
		t.Fatal(err)
	}
	var exps []cfgExp
	if err := json.Unmarshal(b, &exps); err != nil {
		t.Fatal(err)
	}
	exp := map[int]any{}
	for _, e := range exps {
		exp[e.ID] = e.Merged
	}
	bases := baseConfigs()
	tw, err := tracefmt.Create("cfgtrace.ndjson")
	if err != nil {
		t.Fatal(err)
	}
	st := stats{Classes: map[string]int{}}
	for _, c := range cases {
		merged, ok := exp[c.ID]
		if !ok {
			t.Fatalf("no expectation for case %d", c.ID)
		}
		base := bases[c.Base]
		before := canonical(base)
		patchJSON, _ := json.Marshal(untag(c.Patch))
		cand, err := gate.VerifMergeConfigPatch(base, string(patchJSON))
		after := canonical(base)
		rec := tracefmt.Rec{"ev": "cfgpatch", "id": c.ID, "base": c.Base, "class": c.Class, "patch": c.Patch,
			"merged": merged, "accepted": err == nil,
			// mergeConfigPatch must not touch the effective configuration it was given
			"base_untouched": reflect.DeepEqual(before, after)}
		if err == nil {
			rec["cand"] = tag(canonical(cand))
			st.CfgAccept++
		} else {
			st.CfgReject++
		}
		n, nok := normalize(untag(merged))
		rec["norm_ok"] = nok
		if nok {
			rec["norm"] = tag(n)
		}
		tw.Emit(rec)
		st.CfgCases++
		k := c.Class + ":rejected"
		if err == nil {
			k = c.Class + ":accepted"
		}
		st.Classes[k]++
		if len(st.Samples) < 2 && c.Class == "multi" {
			st.Samples = append(st.Samples, map[string]any{"patch": json.RawMessage(patchJSON), "accepted": err == nil})
		}
	}
	if err := tw.Close(); err != nil {
		t.Fatal(err)
	}
	tracefmt.WriteJSON("cfgstats.json", st)
}
