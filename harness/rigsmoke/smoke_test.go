//go:build verif

package rigsmoke

import (
	"testing"
	"time"

	"verif/harness/rig"
)

func TestJoin(t *testing.T) {
	for _, proto := range []int{rig.P1_20, rig.P1_20_3} {
		b, err := rig.NewBackend(nil)
		if err != nil {
			t.Fatal(err)
		}
		r, err := rig.New(rig.Options{Backends: map[string]*rig.Backend{"lobby": b}, Try: []string{"lobby"}})
		if err != nil {
			t.Fatal(err)
		}
		c, err := r.NewClient(proto)
		if err != nil {
			t.Fatal(err)
		}
		if err := c.JoinFully("localhost", "Alice"); err != nil {
			t.Fatalf("proto %d: join: %v (seen %v)", proto, err, c.Seen)
		}
		ok := rig.WaitFor(2*time.Second, func() bool { return r.P.PlayerCount() == 1 })
		if !ok {
			t.Fatalf("proto %d: player not registered", proto)
		}
		pl := r.P.PlayerByName("alice")
		if pl == nil || pl.CurrentServer() == nil {
			t.Fatalf("proto %d: no current server", proto)
		}
		t.Logf("proto %d joined; backend saw host %q name %q", proto, b.Conns()[0].HostAddr, b.Conns()[0].Name)
		c.Close()
		rig.WaitFor(2*time.Second, func() bool { return r.P.PlayerCount() == 0 })
		r.Close()
		b.Close()
	}
}
