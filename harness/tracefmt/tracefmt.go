// Package tracefmt writes ndjson traces with a process-wide atomic sequence number.
package tracefmt

import (
	"bufio"
	"encoding/json"
	"os"
	"path/filepath"
	"strconv"
	"sync"
)

// Rec is one trace record. Keys are sorted by encoding/json.
type Rec map[string]any

// Writer is a concurrency-safe ndjson writer. The sequence number is assigned
// under the same lock that orders the lines in the file.
type Writer struct {
	mu  sync.Mutex
	f   *os.File
	w   *bufio.Writer
	seq int
	N   int
}

// OutDir returns $VERIF_OUT (the check's scratch directory).
func OutDir() string {
	d := os.Getenv("VERIF_OUT")
	if d == "" {
		d = os.TempDir()
	}
	return d
}

// Seed returns $VERIF_SEED (default 1).
func Seed() int64 {
	s, err := strconv.ParseInt(os.Getenv("VERIF_SEED"), 10, 64)
	if err != nil {
		return 1
	}
	return s
}

// Thorough reports whether VERIF_TIER=thorough.
func Thorough() bool { return os.Getenv("VERIF_TIER") == "thorough" }

// EnvInt reads an integer environment variable with a default.
func EnvInt(name string, def int) int {
	s, err := strconv.Atoi(os.Getenv(name))
	if err != nil {
		return def
	}
	return s
}

// Create opens name inside OutDir.
func Create(name string) (*Writer, error) {
	p := name
	if !filepath.IsAbs(p) {
		p = filepath.Join(OutDir(), name)
	}
	f, err := os.Create(p)
	if err != nil {
		return nil, err
	}
	return &Writer{f: f, w: bufio.NewWriterSize(f, 1<<20)}, nil
}

// Emit writes one record, adding "seq".
func (w *Writer) Emit(r Rec) {
	w.mu.Lock()
	defer w.mu.Unlock()
	w.seq++
	r["seq"] = w.seq
	b, err := json.Marshal(r)
	if err != nil {
		panic(err)
	}
	w.w.Write(b)
	w.w.WriteByte('\n')
	w.N++
}

// EmitRaw writes one record without a sequence number.
func (w *Writer) EmitRaw(r any) {
	w.mu.Lock()
	defer w.mu.Unlock()
	b, err := json.Marshal(r)
	if err != nil {
		panic(err)
	}
	w.w.Write(b)
	w.w.WriteByte('\n')
	w.N++
}

// Close flushes and closes.
func (w *Writer) Close() error {
	w.mu.Lock()
	defer w.mu.Unlock()
	if err := w.w.Flush(); err != nil {
		return err
	}
	return w.f.Close()
}

// ReadNDJSON reads a file of json lines into a slice of T.
func ReadNDJSON[T any](path string) ([]T, error) {
	f, err := os.Open(path)
	if err != nil {
		return nil, err
	}
	defer f.Close()
	var out []T
	sc := bufio.NewScanner(f)
	sc.Buffer(make([]byte, 1<<20), 1<<28)
	for sc.Scan() {
		if len(sc.Bytes()) == 0 {
			continue
		}
		var t T
		if err := json.Unmarshal(sc.Bytes(), &t); err != nil {
			return nil, err
		}
		out = append(out, t)
	}
	return out, sc.Err()
}

// WriteJSON writes v as json to name inside OutDir.
func WriteJSON(name string, v any) error {
	p := name
	if !filepath.IsAbs(p) {
		p = filepath.Join(OutDir(), name)
	}
	b, err := json.MarshalIndent(v, "", " ")
	if err != nil {
		return err
	}
	return os.WriteFile(p, b, 0o644)
}

// Bytes converts a byte slice to a JSON-friendly int slice (TLA+ sequences of 0..255).
func Bytes(b []byte) []int {
	out := make([]int, len(b))
	for i, x := range b {
		out[i] = int(x)
	}
	return out
}
