//go:build verif

// C10 harness: for TLC-enumerated user names, records the real uuid.OfflinePlayerUUID
// result and one offline-mode login attempt through the live proxy (forwarding disabled,
// so the backend sees the proxy's login start); OfflineId_Trace.tla judges.
package c10

import (
	"crypto/md5"
	"encoding/json"
	"hash/fnv"
	"math/rand"
	"os"
	"path/filepath"
	"strings"
	"sync"
	"testing"
	"time"

	"github.com/robinbraemer/event"

	"go.minekube.com/gate/pkg/edition/java/config"
	"go.minekube.com/gate/pkg/edition/java/proxy"
	"go.minekube.com/gate/pkg/util/uuid"

	"verif/harness/mcwire"
	"verif/harness/rig"
	"verif/harness/tracefmt"
)

type nm struct {
	Cps []int `json:"cps"`
}

func toString(cps []int) string {
	var sb strings.Builder
	for _, c := range cps {
		sb.WriteRune(rune(c))
	}
	return sb.String()
}

func md5of(name string) []byte {
	s := md5.Sum([]byte("OfflinePlayer:" + name))
	return s[:]
}

func TestTrace(t *testing.T) {
	b, err := os.ReadFile(filepath.Join(tracefmt.OutDir(), "names.json"))
	if err != nil {
		t.Fatal(err)
	}
	var names []nm
	if err := json.Unmarshal(b, &names); err != nil {
		t.Fatal(err)
	}
	tw, err := tracefmt.Create("trace.ndjson")
	if err != nil {
		t.Fatal(err)
	}
	rng := rand.New(rand.NewSource(tracefmt.Seed()))
	// (a) the function on enumerated + random strings
	nuuid := 0
	emitUUID := func(s string) {
		u := uuid.OfflinePlayerUUID(s)
		tw.Emit(tracefmt.Rec{"ev": "uuid", "md5": tracefmt.Bytes(md5of(s)), "uuid": tracefmt.Bytes(u[:])})
		nuuid++
	}
	for _, n := range names {
		emitUUID(toString(n.Cps))
	}
	for i := 0; i < tracefmt.EnvInt("VERIF_RANDOM", 2000); i++ {
		ln := rng.Intn(20)
		bs := make([]rune, ln)
		for j := range bs {
			switch rng.Intn(4) {
			case 0:
				bs[j] = rune(rng.Intn(0x10ffff))
				if bs[j] >= 0xd800 && bs[j] < 0xe000 {
					bs[j] = 'x'
				}
			default:
				bs[j] = rune(32 + rng.Intn(95))
			}
		}
		emitUUID(string(bs))
	}

	// concurrent calls: the offline UUID of a name must not depend on what other goroutines ask
	// for.  Millions of calls in tight loops over a fixed set of names per goroutine; identical
	// observations (same name, same result) are grouped with a repeat count, every DISTINCT
	// observation becomes a trace line that TLC judges.
	{
		type obs struct {
			name string
			u    uuid.UUID
		}
		var wg sync.WaitGroup
		workers, names, rounds := 32, 40, tracefmt.EnvInt("VERIF_CONC", 800)
		results := make([]map[obs]int, workers)
		start := make(chan struct{})
		for wkr := 0; wkr < workers; wkr++ {
			wkr := wkr
			lr := rand.New(rand.NewSource(rng.Int63()))
			mine := make([]string, names)
			for i := range mine {
				bs := make([]byte, 2+(wkr+i)%18)
				for j := range bs {
					bs[j] = byte('a' + lr.Intn(26))
				}
				mine[i] = string(bs)
			}
			wg.Add(1)
			go func() {
				defer wg.Done()
				seen := map[obs]int{}
				<-start
				for r := 0; r < rounds; r++ {
					for _, n := range mine {
						seen[obs{n, uuid.OfflinePlayerUUID(n)}]++
					}
				}
				results[wkr] = seen
			}()
		}
		close(start)
		wg.Wait()
		for _, seen := range results {
			for o, rep := range seen {
				tw.Emit(tracefmt.Rec{"ev": "uuid", "md5": tracefmt.Bytes(md5of(o.name)), "uuid": tracefmt.Bytes(o.u[:]), "concurrent": true, "rep": rep})
				nuuid += rep
			}
		}
	}

	// (b) live logins that end up in offline mode: an offline-mode proxy, and an online-mode
	// proxy whose pre-login handler forces offline mode (the user name rule and the vanilla
	// UUID hold for both)
	admitted, validRejected, backendSeen := 0, 0, 0
	var samples []any
	for _, forced := range []bool{false, true} {
		func() {
			var seen sync.Map // backend: user name -> uuid bytes
			be, err := rig.NewBackend(func(bc *rig.BackendConn) {
				if err := bc.ReadLogin(); err != nil {
					return
				}
				if bc.HasUUID {
					seen.Store(bc.Name, bc.UUID)
				} else {
					seen.Store(bc.Name, [16]byte{})
				}
				if err := bc.CompleteJoin(-1); err != nil {
					return
				}
				bc.Pump()
			})
			if err != nil {
				t.Fatal(err)
			}
			defer be.Close()
			mgr := event.New()
			if forced {
				event.Subscribe(mgr, 0, func(e *proxy.PreLoginEvent) { e.ForceOfflineMode() })
			}
			r, err := rig.New(rig.Options{Backends: map[string]*rig.Backend{"lobby": be}, Try: []string{"lobby"}, EventMgr: mgr,
				Mutate: func(c *config.Config) { c.OnlineMode = forced }})
			if err != nil {
				t.Fatal(err)
			}
			defer r.Close()

			const workers = 6
			buckets := make([][]nm, workers)
			for _, n := range names {
				h := fnv.New32a()
				h.Write([]byte(strings.ToLower(toString(n.Cps))))
				k := int(h.Sum32() % workers)
				buckets[k] = append(buckets[k], n)
			}
			var mu sync.Mutex
			var wg sync.WaitGroup
			for wi := 0; wi < workers; wi++ {
				wi := wi
				wg.Add(1)
				go func() {
					defer wg.Done()
					for i, n := range buckets[wi] {
						name := toString(n.Cps)
						proto := []int{rig.P1_20, rig.P1_20_3}[(i+wi)%2]
						rec := tracefmt.Rec{"ev": "login", "cps": n.Cps, "admitted": false, "md5": tracefmt.Bytes(md5of(name)),
							"uuid": []int{}, "backend": []int{}, "proto": proto, "forced": forced}
						c, err := r.NewClient(proto)
						if err != nil {
							t.Error(err)
							return
						}
						ls, err := func() (rig.LoginSuccess, error) {
							if err := c.Handshake("localhost", 25565, 2); err != nil {
								return rig.LoginSuccess{}, err
							}
							// the client claims an arbitrary id; offline mode must not trust it
							var claim [16]byte
							rng := rand.New(rand.NewSource(int64(i)*7919 + int64(wi)))
							rng.Read(claim[:])
							if err := c.WritePacket(rig.SBLoginStart, rig.LoginStartPayload(proto, name, claim)); err != nil {
								return rig.LoginSuccess{}, err
							}
							return c.AwaitLoginSuccess()
						}()
						if err == nil && ls.Name == name {
							rec["admitted"] = true
							rec["uuid"] = tracefmt.Bytes(ls.UUID[:])
							if proto >= rig.P1_20_2 {
								_ = c.WritePacket(rig.SBLoginAck, nil)
							}
							// the proxy now logs into the backend: wait until the backend saw the login start
							var bu any
							ok := rig.WaitFor(5*time.Second, func() bool { bu, _ = seen.Load(name); return bu != nil })
							if ok {
								u := bu.([16]byte)
								rec["backend"] = tracefmt.Bytes(u[:])
								mu.Lock()
								backendSeen++
								mu.Unlock()
							}
						}
						c.Close()
						if rec["admitted"] == true {
							// let the proxy notice the disconnect before a case-variant of this name logs in
							rig.WaitFor(3*time.Second, func() bool { return r.P.PlayerByName(name) == nil })
							seen.Delete(name)
						}
						mu.Lock()
						tw.Emit(rec)
						if rec["admitted"] == true {
							admitted++
							if len(samples) < 2 {
								samples = append(samples, rec)
							}
						} else if len(samples) < 4 && len(n.Cps) > 1 {
							samples = append(samples, rec)
						}
						mu.Unlock()
					}
				}()
			}
			wg.Wait()
		}()
	}
	_ = validRejected
	if err := tw.Close(); err != nil {
		t.Fatal(err)
	}
	tracefmt.WriteJSON("stats.json", map[string]any{"uuid_calls": nuuid, "logins": 2 * len(names), "admitted": admitted,
		"backend_seen": backendSeen, "samples": samples})
}

var _ = mcwire.VarIntLen
