//go:build verif

// C42 harness: forces TLC-generated gate-point schedules on the real
// pkg/internal/future and records the observable history (call / ran / ret)
// that FutureHist_Trace.tla judges.
package c42

import (
	"encoding/json"
	"math/rand"
	"os"
	"path/filepath"
	"sync"
	"testing"
	"time"

	"go.minekube.com/gate/pkg/verifexport"

	"verif/harness/sched"
	"verif/harness/tracefmt"
)

type call struct {
	Op string `json:"op"`
	V  int    `json:"v"`
}

type schedule struct {
	Prog  map[string]call `json:"prog"`
	Sched []string        `json:"sched"`
}

type stats struct {
	Schedules   int            `json:"schedules"`
	Blocked     int            `json:"blocked_steps"`
	Unfinished  int            `json:"unfinished"`
	Compose     int            `json:"compose_runs"`
	Stress      int            `json:"stress_runs"`
	Events      int            `json:"events"`
	GateArrival map[string]int `json:"gate_arrivals"`
	Samples     []any          `json:"samples"`
}

func TestSchedules(t *testing.T) {
	b, err := os.ReadFile(filepath.Join(tracefmt.OutDir(), "sched.json"))
	if err != nil {
		t.Fatal(err)
	}
	var scheds []schedule
	if err := json.Unmarshal(b, &scheds); err != nil {
		t.Fatal(err)
	}
	tw, err := tracefmt.Create("trace.ndjson")
	if err != nil {
		t.Fatal(err)
	}
	st := stats{GateArrival: map[string]int{}}
	step := time.Duration(tracefmt.EnvInt("VERIF_STEP_MS", 4)) * time.Millisecond

	for i, s := range scheds {
		tw.Emit(tracefmt.Rec{"ev": "reset", "futs": []string{"f"}, "n": i})
		f := verifexport.NewFuture[int]()
		c := sched.New(nil)
		c.Install()
		for name, p := range s.Prog {
			name, p := name, p
			c.Go(name, func() {
				if p.Op == "accept" {
					tw.Emit(tracefmt.Rec{"ev": "call", "thread": name, "op": "accept", "fut": "f", "cb": name})
					f.ThenAccept(func(v int) {
						tw.Emit(tracefmt.Rec{"ev": "ran", "cb": name, "fut": "f", "v": v})
					})
				} else {
					tw.Emit(tracefmt.Rec{"ev": "call", "thread": name, "op": "complete", "fut": "f", "v": p.V})
					f.Complete(p.V)
				}
				tw.Emit(tracefmt.Rec{"ev": "ret", "thread": name})
			})
		}
		res := c.Run(s.Sched, step, 5*time.Second)
		c.Uninstall()
		st.Schedules++
		st.Blocked += res.Blocked
		if !res.Finished {
			// a call never returned: the history ends without "end" -- judged as is
			st.Unfinished++
			tw.Emit(tracefmt.Rec{"ev": "hung", "n": i})
		} else {
			tw.Emit(tracefmt.Rec{"ev": "end"})
		}
		for _, e := range c.Log {
			st.GateArrival[e[indexAt(e):]]++
		}
		if i < 3 {
			st.Samples = append(st.Samples, map[string]any{"prog": s.Prog, "sched": s.Sched, "steps": res.Steps})
		}
	}

	// ThenCompose chains: out = ThenCompose(f, _ -> g); random gate schedules.
	rng := rand.New(rand.NewSource(tracefmt.Seed()))
	nCompose := tracefmt.EnvInt("VERIF_COMPOSE", 200)
	for i := 0; i < nCompose; i++ {
		tw.Emit(tracefmt.Rec{"ev": "reset", "futs": []string{"f", "g", "o"}, "n": i})
		tw.Emit(tracefmt.Rec{"ev": "compose", "out": "o", "f": "f", "g": "g"})
		f := verifexport.NewFuture[int]()
		g := verifexport.NewFuture[int]()
		var out *verifexport.Future[int]
		var outMu sync.Mutex
		outReady := make(chan struct{})
		c := sched.New(nil)
		c.Install()
		acc := func(name, fut string, fu func() *verifexport.Future[int]) func() {
			return func() {
				tw.Emit(tracefmt.Rec{"ev": "call", "thread": name, "op": "accept", "fut": fut, "cb": name})
				fu().ThenAccept(func(v int) {
					tw.Emit(tracefmt.Rec{"ev": "ran", "cb": name, "fut": fut, "v": v})
				})
				tw.Emit(tracefmt.Rec{"ev": "ret", "thread": name})
			}
		}
		cmp := func(name, fut string, fu *verifexport.Future[int], v int) func() {
			return func() {
				tw.Emit(tracefmt.Rec{"ev": "call", "thread": name, "op": "complete", "fut": fut, "v": v})
				fu.Complete(v)
				tw.Emit(tracefmt.Rec{"ev": "ret", "thread": name})
			}
		}
		// the composing thread is not gated on its own (it only builds the chain)
		out = verifexport.ThenCompose(f, func(int) *verifexport.Future[int] { return g })
		close(outReady)
		getOut := func() *verifexport.Future[int] { <-outReady; outMu.Lock(); defer outMu.Unlock(); return out }
		threads := []string{"a1", "a2", "cf", "cg", "cg2", "af", "ag"}
		if i%2 == 1 {
			// the holder of the composed future completes it directly (cancel / timeout)
			threads = append(threads, "co")
			c.Go("co", func() { cmp("co", "o", getOut(), 9)() })
		}
		c.Go("a1", acc("a1", "o", getOut))
		c.Go("a2", acc("a2", "o", getOut))
		c.Go("cf", cmp("cf", "f", f, 1+rng.Intn(2)))
		c.Go("cg", cmp("cg", "g", g, 3))
		c.Go("cg2", cmp("cg2", "g", g, 4))
		c.Go("af", acc("af", "f", func() *verifexport.Future[int] { return f }))
		c.Go("ag", acc("ag", "g", func() *verifexport.Future[int] { return g }))
		var sc []string
		for k := 0; k < 30; k++ {
			sc = append(sc, threads[rng.Intn(len(threads))])
		}
		res := c.Run(sc, step, 5*time.Second)
		c.Uninstall()
		st.Compose++
		st.Blocked += res.Blocked
		if !res.Finished {
			st.Unfinished++
			tw.Emit(tracefmt.Rec{"ev": "hung", "n": i})
		} else {
			tw.Emit(tracefmt.Rec{"ev": "end"})
		}
	}

	// Composed futures completed directly by their holder, sequentially, in every order of
	// the calls: p = ThenCompose(o, _ -> h), o = ThenCompose(f, _ -> g).
	type seqCall struct {
		name, op, fut string
		v             int
	}
	seqCalls := []seqCall{
		{"a1", "accept", "o", 0}, {"a2", "accept", "o", 0}, {"ap", "accept", "p", 0},
		{"co", "complete", "o", 9}, {"cf", "complete", "f", 1}, {"cg", "complete", "g", 3},
		{"ch", "complete", "h", 5},
	}
	var perms [][]int
	var permute func(cur []int, used int)
	permute = func(cur []int, used int) {
		if len(cur) == len(seqCalls) {
			perms = append(perms, append([]int(nil), cur...))
			return
		}
		for k := range seqCalls {
			if used&(1<<k) == 0 {
				permute(append(cur, k), used|1<<k)
			}
		}
	}
	permute(nil, 0)
	rng.Shuffle(len(perms), func(a, b int) { perms[a], perms[b] = perms[b], perms[a] })
	if n := tracefmt.EnvInt("VERIF_SEQ", 400); len(perms) > n {
		perms = perms[:n]
	}
	for i, perm := range perms {
		tw.Emit(tracefmt.Rec{"ev": "reset", "futs": []string{"f", "g", "h", "o", "p"}, "n": i, "scenario": "direct-complete"})
		tw.Emit(tracefmt.Rec{"ev": "compose", "out": "o", "f": "f", "g": "g"})
		tw.Emit(tracefmt.Rec{"ev": "compose", "out": "p", "f": "o", "g": "h"})
		fs := map[string]*verifexport.Future[int]{"f": verifexport.NewFuture[int](), "g": verifexport.NewFuture[int](), "h": verifexport.NewFuture[int]()}
		fs["o"] = verifexport.ThenCompose(fs["f"], func(int) *verifexport.Future[int] { return fs["g"] })
		fs["p"] = verifexport.ThenCompose(fs["o"], func(int) *verifexport.Future[int] { return fs["h"] })
		for _, k := range perm {
			sc := seqCalls[k]
			if sc.op == "accept" {
				tw.Emit(tracefmt.Rec{"ev": "call", "thread": sc.name, "op": "accept", "fut": sc.fut, "cb": sc.name})
				fs[sc.fut].ThenAccept(func(v int) {
					tw.Emit(tracefmt.Rec{"ev": "ran", "cb": sc.name, "fut": sc.fut, "v": v})
				})
			} else {
				tw.Emit(tracefmt.Rec{"ev": "call", "thread": sc.name, "op": "complete", "fut": sc.fut, "v": sc.v})
				fs[sc.fut].Complete(sc.v)
			}
			tw.Emit(tracefmt.Rec{"ev": "ret", "thread": sc.name})
		}
		tw.Emit(tracefmt.Rec{"ev": "end"})
		st.Compose++
	}

	// A callback that panics (the panic is recovered by its caller) must not leave the future
	// unusable: calls made afterwards still return and their callbacks run.  Each scenario has
	// exactly one panicking callback, so no other callback is cut off by the panic.
	for i, completeFirst := range []bool{true, false} {
		tw.Emit(tracefmt.Rec{"ev": "reset", "futs": []string{"f"}, "n": i, "scenario": "panicking-callback"})
		f := verifexport.NewFuture[int]()
		done := make(chan struct{})
		go func() {
			defer close(done)
			guarded := func(fn func()) {
				defer func() { _ = recover() }()
				fn()
			}
			boom := func(v int) {
				tw.Emit(tracefmt.Rec{"ev": "ran", "cb": "p", "fut": "f", "v": v})
				panic("callback failed")
			}
			if completeFirst {
				tw.Emit(tracefmt.Rec{"ev": "call", "thread": "t1", "op": "complete", "fut": "f", "v": 1})
				f.Complete(1)
				tw.Emit(tracefmt.Rec{"ev": "ret", "thread": "t1"})
				tw.Emit(tracefmt.Rec{"ev": "call", "thread": "t2", "op": "accept", "fut": "f", "cb": "p"})
				guarded(func() { f.ThenAccept(boom) })
				tw.Emit(tracefmt.Rec{"ev": "ret", "thread": "t2"})
			} else {
				tw.Emit(tracefmt.Rec{"ev": "call", "thread": "t2", "op": "accept", "fut": "f", "cb": "p"})
				f.ThenAccept(boom)
				tw.Emit(tracefmt.Rec{"ev": "ret", "thread": "t2"})
				tw.Emit(tracefmt.Rec{"ev": "call", "thread": "t1", "op": "complete", "fut": "f", "v": 1})
				guarded(func() { f.Complete(1) })
				tw.Emit(tracefmt.Rec{"ev": "ret", "thread": "t1"})
			}
			tw.Emit(tracefmt.Rec{"ev": "call", "thread": "t3", "op": "accept", "fut": "f", "cb": "q"})
			f.ThenAccept(func(v int) { tw.Emit(tracefmt.Rec{"ev": "ran", "cb": "q", "fut": "f", "v": v}) })
			tw.Emit(tracefmt.Rec{"ev": "ret", "thread": "t3"})
			tw.Emit(tracefmt.Rec{"ev": "call", "thread": "t4", "op": "complete", "fut": "f", "v": 2})
			f.Complete(2)
			tw.Emit(tracefmt.Rec{"ev": "ret", "thread": "t4"})
		}()
		select {
		case <-done:
			tw.Emit(tracefmt.Rec{"ev": "end"})
		case <-time.After(5 * time.Second):
			st.Unfinished++
			tw.Emit(tracefmt.Rec{"ev": "hung", "n": i})
		}
	}

	// Free-running stress without gates (meaningful under -race).
	nStress := tracefmt.EnvInt("VERIF_STRESS", 200)
	for i := 0; i < nStress; i++ {
		tw.Emit(tracefmt.Rec{"ev": "reset", "futs": []string{"f"}, "n": i})
		f := verifexport.NewFuture[int]()
		var wg sync.WaitGroup
		n := 2 + rng.Intn(5)
		for k := 0; k < n; k++ {
			name := "s" + string(rune('a'+k))
			isC := rng.Intn(3) == 0 || k == 0
			v := 1 + rng.Intn(3)
			wg.Add(1)
			go func() {
				defer wg.Done()
				if isC {
					tw.Emit(tracefmt.Rec{"ev": "call", "thread": name, "op": "complete", "fut": "f", "v": v})
					f.Complete(v)
				} else {
					tw.Emit(tracefmt.Rec{"ev": "call", "thread": name, "op": "accept", "fut": "f", "cb": name})
					f.ThenAccept(func(v int) { tw.Emit(tracefmt.Rec{"ev": "ran", "cb": name, "fut": "f", "v": v}) })
				}
				tw.Emit(tracefmt.Rec{"ev": "ret", "thread": name})
			}()
		}
		wg.Wait()
		tw.Emit(tracefmt.Rec{"ev": "end"})
		st.Stress++
	}
	st.Events = tw.N
	if err := tw.Close(); err != nil {
		t.Fatal(err)
	}
	if err := tracefmt.WriteJSON("stats.json", st); err != nil {
		t.Fatal(err)
	}
}

func indexAt(s string) int {
	for i := 0; i < len(s); i++ {
		if s[i] == '@' {
			return i + 1
		}
	}
	return 0
}
