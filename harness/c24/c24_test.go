//go:build verif

// C24 harness (live rig): fake clients send custom payload packets while their backend is
// not ready yet (during configuration, before the first join, during a server switch,
// while the pre-join queue is in use) and afterwards; scripted fake backends are released
// step by step and log what reaches them.  TestSched additionally forces the order in which
// the client read loop and the backend goroutine pass the gate points around the
// configuration-phase queue.  PluginQueue_Trace.tla judges.
package c24

import (
	"context"
	"encoding/binary"
	"encoding/json"
	"fmt"
	"os"
	"path/filepath"
	"strconv"
	"strings"
	"sync"
	"testing"
	"time"

	"github.com/robinbraemer/event"

	"go.minekube.com/gate/pkg/edition/java/config"
	"go.minekube.com/gate/pkg/edition/java/proxy"
	"go.minekube.com/gate/pkg/edition/java/proxy/phase"
	"go.minekube.com/gate/pkg/util/configutil"
	"go.minekube.com/gate/pkg/verifexport"

	"verif/harness/mcwire"
	"verif/harness/rig"
	"verif/harness/tracefmt"
)

const channel = "verif:c24"

type hist struct {
	Kind  string   `json:"kind"`
	H     []string `json:"h"`
	Count int      `json:"count"` // caps histories: messages sent while the backend is held back
	Size  int      `json:"size"`  // ... their data size
	Last  int      `json:"last"`  // ... data size of the last one
	Zero  bool     `json:"zero"`  // messages sent before the first backend is released have an empty body
	Order []string `json:"order"` // forced gate order (TestSched)
	K     int      `json:"k"`
}

// queued counts the proxy's "message queued" events by body size: the fault histories use
// sizes of their own, so they can wait until the proxy really holds what they sent.
type queued struct {
	mu sync.Mutex
	n  map[int]int
}

func (q *queued) hook(gate bool, name string, kv []any) {
	if name != "pmq.cfg.queued" {
		return
	}
	for i := 0; i+1 < len(kv); i += 2 {
		if kv[i] == "n" {
			if v, ok := kv[i+1].(int); ok {
				q.mu.Lock()
				q.n[v]++
				q.mu.Unlock()
			}
		}
	}
}

func (q *queued) get(size int) int { q.mu.Lock(); defer q.mu.Unlock(); return q.n[size] }

type env struct {
	q     *queued
	pcmu  sync.Mutex
	pc    map[string]int // ServerPostConnectEvents per player: the join is complete for the proxy's API
	r     *rig.Rig
	rt    *rig.Router
	seed  int64
	long  time.Duration
	pace  time.Duration
	debug bool
}

func newEnv(t *testing.T) (*env, func()) {
	a, err := rig.NewSBackend()
	if err != nil {
		t.Fatal(err)
	}
	b, err := rig.NewSBackend()
	if err != nil {
		t.Fatal(err)
	}
	e := &env{pc: map[string]int{}}
	mgr := event.New()
	event.Subscribe(mgr, 0, func(ev *proxy.ServerPostConnectEvent) {
		e.pcmu.Lock()
		e.pc[ev.Player().Username()]++
		e.pcmu.Unlock()
	})
	r, err := rig.New(rig.Options{EventMgr: mgr,
		Backends: map[string]*rig.Backend{"a": a.Backend, "b": b.Backend}, Try: []string{"a", "b"},
		Mutate: func(c *config.Config) {
			c.PacketLimiter.PacketsPerSecond = 0 // the caps histories burst > 1000 packets
			c.PacketLimiter.BytesPerSecond = 0
			// scripts hold backends back and gates delay goroutines: never let the
			// proxy's connect timeout turn machine load into a disconnect
			c.ConnectionTimeout = configutil.Duration(60 * time.Second)
		}})
	if err != nil {
		t.Fatal(err)
	}
	e.r, e.rt, e.seed = r, rig.NewRouter(map[string]*rig.SBackend{"a": a, "b": b}), tracefmt.Seed()
	e.long, e.pace = 6*time.Second, time.Duration(tracefmt.EnvInt("VERIF_PACE_MS", 6))*time.Millisecond
	e.debug = os.Getenv("VERIF_DEBUG") != ""
	return e, func() { r.Close(); a.Close(); b.Close() }
}

func payload(k, size int) []byte {
	if size < 4 {
		size = 4
	}
	b := make([]byte, size)
	binary.BigEndian.PutUint32(b, uint32(k))
	return b
}

// run is the state of one scripted connection.
type run struct {
	e      *env
	recs   []tracefmt.Rec
	c      *rig.SClient
	target *rig.SBackendConn // the backend whose received custom payloads are judged
	sent   int
	nbar   int
	name   string
	note   []string
}

func (x *run) emit(r tracefmt.Rec) { x.recs = append(x.recs, r) }
func (x *run) notef(f string, a ...any) {
	x.note = append(x.note, fmt.Sprintf(f, a...))
	if x.e.debug {
		fmt.Printf("[%s] "+f+"\n", append([]any{x.name}, a...)...)
	}
}

func (x *run) msg(size int) {
	x.sent++
	if size == 0 {
		// a zero-length body cannot carry the index: the channel name does
		x.emit(tracefmt.Rec{"ev": "csend", "k": x.sent, "n": 0, "state": x.c.SBState()})
		if err := x.c.SendPlugin(fmt.Sprintf("%sz%d", channel, x.sent), nil); err != nil {
			x.notef("send %d failed: %v", x.sent, err)
		}
		return
	}
	x.emit(tracefmt.Rec{"ev": "csend", "k": x.sent, "n": max(size, 4), "state": x.c.SBState()})
	if err := x.c.SendPlugin(channel, payload(x.sent, size)); err != nil {
		x.notef("send %d failed: %v", x.sent, err)
	}
}

// login brings the client out of the login state and returns its connection to backend "a".
func (x *run) login(protoV int, name string) (*rig.SBackendConn, bool) {
	x.name = name
	c, err := x.e.r.NewSClient(protoV)
	if err != nil {
		x.notef("dial: %v", err)
		return nil, false
	}
	x.c = c
	if err := c.Start("localhost", name); err != nil {
		x.notef("start: %v", err)
		return nil, false
	}
	if !c.AwaitLoginSuccess(x.e.long) {
		x.notef("no login success")
		return nil, false
	}
	if protoV >= rig.P1_20_2 {
		_ = c.AckLogin()
	}
	bc, err := x.e.rt.Await("a", name, x.e.long)
	if err != nil {
		x.notef("%v", err)
		return nil, false
	}
	return bc, true
}

func (x *run) ready(bc *rig.SBackendConn) {
	_ = bc.SendLoginSuccess()
	if bc.Proto >= rig.P1_20_2 {
		if !bc.AwaitLoginAck(x.e.long) {
			x.notef("backend saw no login ack")
		}
	} else {
		time.Sleep(x.e.pace)
	}
}

func (x *run) finish(bc *rig.SBackendConn, n int) {
	_ = bc.SendFinishConfig()
	if !x.c.AwaitFinishConfig(n, x.e.long) {
		x.notef("client saw no finish-configuration #%d", n)
		return
	}
	_ = x.c.AckFinishConfig()
	if !bc.AwaitFinishAck(1, x.e.long) {
		x.notef("backend saw no finish ack")
	}
}

// join lets the backend send JoinGame and waits until the client has it and the proxy
// announced the completed join (ServerPostConnectEvent).
func (x *run) join(bc *rig.SBackendConn, n int) {
	_ = bc.SendJoinGame()
	if !x.c.AwaitJoinGame(n, x.e.long) {
		x.notef("client saw no JoinGame #%d", n)
		return
	}
	if !rig.WaitFor(x.e.long, func() bool {
		x.e.pcmu.Lock()
		defer x.e.pcmu.Unlock()
		return x.e.pc[x.name] >= n
	}) {
		x.notef("no ServerPostConnectEvent #%d", n)
	}
}

func (x *run) fullJoin(bc *rig.SBackendConn) {
	x.ready(bc)
	if bc.Proto >= rig.P1_20_2 {
		x.finish(bc, 1)
	}
	x.join(bc, 1)
}

func (x *run) switchTo(server string) (*rig.SBackendConn, bool) {
	p := x.e.r.P.PlayerByName(x.name)
	srv := x.e.r.P.Server(server)
	if p == nil || srv == nil {
		x.notef("switch: player %v server %v", p != nil, srv != nil)
		return nil, false
	}
	go func() {
		ctx, cancel := context.WithTimeout(context.Background(), 20*time.Second)
		defer cancel()
		p.CreateConnectionRequest(srv).ConnectWithIndication(ctx)
	}()
	bc, err := x.e.rt.Await(server, x.name, x.e.long)
	if err != nil {
		x.notef("%v", err)
		return nil, false
	}
	return bc, true
}

// barrier makes sure the proxy has processed everything the client sent so far: the client
// sends a play packet the proxy does not know (teleport confirm, forwarded as is) and waits
// until the connected backend has it.  Only usable while joined to bc.
func (x *run) barrier(bc *rig.SBackendConn) {
	x.nbar++
	want := (&mcwire.Buf{}).VarInt(700000 + x.nbar).B
	_ = x.c.WritePacket(0x00, want)
	if !bc.Wait(x.e.long, func(l []rig.Recv, closed bool) bool {
		for _, r := range l {
			if r.State == "play" && r.ID == 0x00 && string(r.Data) == string(want) {
				return true
			}
		}
		return closed
	}) {
		x.notef("barrier packet never reached the backend")
	}
}

func (x *run) setPhase(ph phase.ClientConnectionPhase) {
	p := x.e.r.P.PlayerByName(x.name)
	if s, ok := p.(interface {
		SetPhase(phase.ClientConnectionPhase)
	}); ok {
		s.SetPhase(ph)
	} else {
		x.notef("player has no SetPhase")
	}
}

func (x *run) disconnected() bool { return x.why() != "" }

// why says how the player was disconnected ("" = still connected).
func (x *run) why() string {
	for _, r := range x.c.Log() {
		if (r.State == "config" && r.ID == 0x01) || (r.State == "play" && r.ID == rig.CBPlayDisconnectID(x.c.Proto)) {
			d := r.Data
			if len(d) > 160 {
				d = d[:160]
			}
			return fmt.Sprintf("packet in %s: %q", r.State, d)
		}
	}
	if x.c.Closed() {
		return "connection closed"
	}
	return ""
}

// finishRun waits (generously) until everything sent reached the target, then records
// what the target received, whether the player was disconnected, and the end.
func (x *run) finishRun() {
	if x.target != nil {
		x.target.Wait(4*time.Second, func(l []rig.Recv, closed bool) bool {
			return closed || x.disconnected() || len(received(l, x.target.Proto)) >= x.sent
		})
		for _, p := range received(x.target.Log(), x.target.Proto) {
			k := 0
			if len(p.Channel) > len(channel) {
				k, _ = strconv.Atoi(p.Channel[len(channel)+1:])
			} else if len(p.Data) >= 4 {
				k = int(binary.BigEndian.Uint32(p.Data))
			}
			x.emit(tracefmt.Rec{"ev": "brecv", "k": k, "n": len(p.Data), "state": p.State})
		}
	}
	if x.e.debug && x.target != nil {
		for _, r := range x.target.Log() {
			fmt.Printf("[%s] backend got %s 0x%02x %d bytes\n", x.name, r.State, r.ID, len(r.Data))
		}
	}
	time.Sleep(x.e.pace)
	why := x.why()
	disc := why != ""
	if disc {
		x.emit(tracefmt.Rec{"ev": "disc", "why": why})
	}
	x.emit(tracefmt.Rec{"ev": "end", "alive": !disc, "notes": x.note})
	if x.c != nil {
		_ = x.c.Close()
	}
}

func received(l []rig.Recv, protoV int) (out []rig.PluginRecv) {
	for _, p := range rig.Plugins(l, protoV) {
		if strings.HasPrefix(p.Channel, channel) {
			out = append(out, p)
		}
	}
	return
}

// play runs one TLC-exported history.
func (e *env) play(hi int, h hist) []tracefmt.Rec {
	x := &run{e: e, note: []string{}}
	x.emit(tracefmt.Rec{"ev": "reset", "kind": h.Kind, "hist": hi, "h": h.H})
	protoV := rig.P1_20_3
	if h.Kind == "join763" || h.Kind == "playq763" {
		protoV = rig.P1_20
	} else if (hi+int(e.seed))%3 == 0 {
		protoV = rig.P1_20_2
	}
	name := fmt.Sprintf("q%d_%d", e.seed%1000, hi)
	bc, ok := x.login(protoV, name)
	if !ok {
		x.emit(tracefmt.Rec{"ev": "abort", "notes": x.note})
		return x.recs
	}
	x.target = bc
	cur := bc
	switch h.Kind {
	case "switch765", "playq763":
		x.fullJoin(bc)
	}
	released := false
	release := func() {
		if !released {
			released = true
			x.emit(tracefmt.Rec{"ev": "release"})
		}
	}
	joins, finishes := 0, 0
	if h.Kind == "switch765" || h.Kind == "playq763" {
		joins, finishes = 1, 1
	}
	for _, s := range h.H {
		switch s {
		case "msg":
			if h.Size > 0 {
				x.msg(h.Size)
			} else if h.Zero && !released {
				x.msg(0)
			} else {
				x.msg(8 + (x.sent*7+hi)%40)
			}
		case "failready":
			// fault: the first backend's login succeeds and it dies at once, so the proxy's
			// flush of the queued messages hits a dead connection; the proxy falls back to "b"
			if h.Size > 0 && e.q != nil {
				// the proxy must hold all the big messages before the fault strikes
				if !rig.WaitFor(20*time.Second, func() bool { return e.q.get(h.Size) >= x.sent }) {
					x.notef("the proxy queued only %d of %d messages", e.q.get(h.Size), x.sent)
				}
			}
			time.Sleep(e.pace)
			_ = cur.SendLoginSuccess()
			_ = cur.Close()
			nb, err := e.rt.Await("b", x.name, e.long)
			if err != nil {
				x.notef("%v", err)
				x.finishRun()
				return x.recs
			}
			x.emit(tracefmt.Rec{"ev": "lose"})
			cur, x.target = nb, nb
		case "hold":
			x.setPhase(phase.NotStartedLegacyForgeHandshakeClientPhase)
		case "unhold":
			x.setPhase(phase.CompleteLegacyForgeHandshakeClientPhase)
		case "kick":
			// the ready first backend drops the player in the configuration phase: the proxy
			// falls back to "b"; from here on the client's messages are meant for "b"
			time.Sleep(e.pace)
			_ = cur.Close()
			nb, err := e.rt.Await("b", x.name, e.long)
			if err != nil {
				x.notef("%v", err)
				x.finishRun()
				return x.recs
			}
			cur, x.target = nb, nb
			released = false
		case "switch":
			if h.Kind == "playq763" {
				x.barrier(cur) // the held messages are in the pre-join queue before the switch starts
			} else {
				time.Sleep(e.pace)
			}
			nb, ok := x.switchTo("b")
			if !ok {
				x.finishRun()
				return x.recs
			}
			cur, x.target = nb, nb
		case "ready":
			if h.Size > 0 && e.q != nil {
				if !rig.WaitFor(20*time.Second, func() bool { return e.q.get(h.Size) >= x.sent || x.disconnected() }) {
					x.notef("the proxy queued only %d of %d messages", e.q.get(h.Size), x.sent)
				}
			}
			time.Sleep(e.pace)
			release()
			x.ready(cur)
		case "ack":
			if !x.c.AwaitStartConfig(1, e.long) {
				x.notef("client saw no start-configuration")
			}
			_ = x.c.AckStartConfig()
		case "finish":
			time.Sleep(e.pace)
			finishes++
			x.finish(cur, finishes)
		case "join":
			time.Sleep(e.pace)
			joins++
			x.join(cur, joins)
		}
	}
	x.finishRun()
	return x.recs
}

// caps runs an explicit cap history: Count messages while the backend is held back.
func (e *env) caps(hi int, h hist) []tracefmt.Rec {
	x := &run{e: e, note: []string{}}
	x.emit(tracefmt.Rec{"ev": "reset", "kind": h.Kind, "hist": hi, "count": h.Count, "size": h.Size, "last": h.Last})
	protoV := rig.P1_20_3
	if h.Kind == "capsplay763" {
		protoV = rig.P1_20
	}
	name := fmt.Sprintf("cap%d_%d", e.seed%1000, hi)
	bc, ok := x.login(protoV, name)
	if !ok {
		x.emit(tracefmt.Rec{"ev": "abort", "notes": x.note})
		return x.recs
	}
	x.target = bc
	cur := bc
	if h.Kind == "capsplay763" {
		x.fullJoin(bc)
		x.setPhase(phase.NotStartedLegacyForgeHandshakeClientPhase)
	}
	total := 0
	for i := 1; i <= h.Count; i++ {
		sz := h.Size
		if i == h.Count {
			sz = h.Last
		}
		total += sz
		x.msg(sz)
	}
	// a cap was exceeded while the backend is held back: wait (generously) for the disconnect
	if h.Count > 1024 || total > 4*1024*1024 {
		rig.WaitFor(10*time.Second, x.disconnected)
	} else if h.Kind == "capsplay763" {
		x.barrier(cur)
	} else {
		time.Sleep(300 * time.Millisecond)
	}
	x.emit(tracefmt.Rec{"ev": "release"})
	if !x.disconnected() {
		if h.Kind == "capsplay763" {
			nb, ok := x.switchTo("b")
			if ok {
				cur, x.target = nb, nb
				x.ready(cur)
				x.join(cur, 2)
			}
		} else {
			x.fullJoin(cur)
		}
	}
	x.finishRun()
	return x.recs
}

func load(t *testing.T, name string) []hist {
	b, err := os.ReadFile(filepath.Join(tracefmt.OutDir(), name))
	if err != nil {
		t.Fatal(err)
	}
	var hs []hist
	if err := json.Unmarshal(b, &hs); err != nil {
		t.Fatal(err)
	}
	return hs
}

// TestSched forces the TLC-exported gate orders around the configuration-phase queue.
func TestSched(t *testing.T) {
	scheds := load(t, "sched.json")
	e, done := newEnv(t)
	defer done()
	seq := rig.NewSeq("pmq.cfg.enqueue", "pmq.cfg.direct", "pmq.cfg.flush", "pmq.cfg.queued", "pmq.cfg.flushed")
	seq.Install()
	defer seq.Uninstall()
	tw, err := tracefmt.Create("trace_sched.ndjson")
	if err != nil {
		t.Fatal(err)
	}
	followed, diverged := 0, 0
	arrivals := map[string]int{}
	var samples []any
	for hi, s := range scheds {
		x := &run{e: e, note: []string{}}
		x.emit(tracefmt.Rec{"ev": "reset", "kind": "sched", "hist": hi, "order": s.Order})
		bc, ok := x.login(rig.P1_20_3, fmt.Sprintf("s%d_%d", e.seed%1000, hi))
		if !ok {
			continue // the script could not even start: no verdict from this run
		}
		{
			x.target = bc
			seq.Set(s.Order)
			for i := 0; i < s.K; i++ {
				x.msg(8 + i)
			}
			x.emit(tracefmt.Rec{"ev": "release"})
			_ = bc.SendLoginSuccess()
			rig.WaitFor(5*time.Second, seq.Done)
			arr, passed, div := seq.Snapshot()
			seq.Free()
			for _, a := range arr {
				arrivals[a]++
			}
			if div || len(passed) != len(s.Order) {
				diverged++
			} else {
				followed++
			}
			if !bc.AwaitLoginAck(e.long) {
				x.notef("backend saw no login ack")
			}
			x.finish(bc, 1)
			x.join(bc, 1)
			x.finishRun()
			if len(samples) < 2 && s.K > 1 {
				samples = append(samples, map[string]any{"order": s.Order, "passed": passed, "trace": x.recs})
			}
		}
		for _, r := range x.recs {
			tw.Emit(r)
		}
	}
	if err := tw.Close(); err != nil {
		t.Fatal(err)
	}
	tracefmt.WriteJSON("stats_sched.json", map[string]any{"schedules": len(scheds), "followed": followed,
		"diverged": diverged, "arrivals": arrivals, "samples": samples})
}

// TestHist replays the TLC-exported histories and the explicit cap histories.
func TestHist(t *testing.T) {
	hists := load(t, "hist.json")
	e, done := newEnv(t)
	defer done()
	e.q = &queued{n: map[int]int{}}
	verifexport.InstallHook(e.q.hook)
	defer verifexport.InstallHook(nil)
	tw, err := tracefmt.Create("trace_hist.ndjson")
	if err != nil {
		t.Fatal(err)
	}
	var mu sync.Mutex
	var wg sync.WaitGroup
	sem := make(chan struct{}, 12)
	heavy := make(chan struct{}, 2) // cap histories move megabytes
	var samples []any
	runs, aborted := 0, 0
	kinds := map[string]int{}
	for hi, h := range hists {
		hi, h := hi, h
		wg.Add(1)
		sem <- struct{}{}
		go func() {
			defer wg.Done()
			defer func() { <-sem }()
			var recs []tracefmt.Rec
			if h.Size > 0 && h.Count == 0 {
				heavy <- struct{}{}
				recs = e.play(hi, h)
				<-heavy
			} else if h.Count > 0 {
				heavy <- struct{}{}
				recs = e.caps(hi, h)
				<-heavy
			} else {
				recs = e.play(hi, h)
			}
			mu.Lock()
			defer mu.Unlock()
			if len(recs) > 0 && recs[len(recs)-1]["ev"] == "abort" {
				aborted++
				return // the script could not even start: no verdict from this run
			}
			for _, r := range recs {
				tw.Emit(r)
			}
			runs++
			kinds[h.Kind]++
			if len(samples) < 2 && h.Count == 0 && len(h.H) > 4 {
				samples = append(samples, recs)
			}
		}()
	}
	wg.Wait()
	if err := tw.Close(); err != nil {
		t.Fatal(err)
	}
	tracefmt.WriteJSON("stats_hist.json", map[string]any{"runs": runs, "aborted": aborted, "kinds": kinds, "samples": samples})
}

