//go:build verif

// C29 harness: records real I/O of Gate Lite's route matching (ClearVirtualHost,
// FindRouteWithGroups / FindRoute, substituteBackendParams) on the vectors TLC
// enumerated plus seeded random longer inputs, and end-to-end routing decisions of
// lite.Forward reached through a real proxy on TCP loopback. LiteRoute_Trace.tla
// judges every line; nothing is judged here.
package c29

import (
	"encoding/json"
	"fmt"
	"math/rand"
	"os"
	"path/filepath"
	"strings"
	"testing"
	"time"

	"go.minekube.com/gate/pkg/edition/java/lite"
	"go.minekube.com/gate/pkg/edition/java/lite/config"

	"verif/harness/literig"
	"verif/harness/tracefmt"
)

type vec struct {
	Pats  [][]int `json:"pats"`
	Hosts [][]int `json:"hosts"`
}

type stats struct {
	Rows       int   `json:"rows"`
	Pairs      int   `json:"pairs"`
	Matched    int   `json:"matched"`
	Nontrivial int   `json:"nontrivial"` // pattern has a wildcard and the host is not empty
	Newline    int   `json:"newline_pairs"`
	Cleans     int   `json:"cleans"`
	Finds      int   `json:"finds"`
	FindHit    int   `json:"find_hits"`
	Substs     int   `json:"substs"`
	E2E        int   `json:"e2e"`
	E2ENoRoute int   `json:"e2e_no_route"`
	Samples    []any `json:"samples"`
}

func str(cps []int) string {
	r := make([]rune, len(cps))
	for i, c := range cps {
		r[i] = rune(c)
	}
	return string(r)
}

func cps(s string) []int {
	out := []int{}
	for _, r := range s {
		out = append(out, int(r))
	}
	return out
}

func cpss(ss []string) [][]int {
	out := [][]int{}
	for _, s := range ss {
		out = append(out, cps(s))
	}
	return out
}

func hasWild(p []int) bool {
	for _, c := range p {
		if c == '*' || c == '?' {
			return true
		}
	}
	return false
}

func has(p []int, x int) bool {
	for _, c := range p {
		if c == x {
			return true
		}
	}
	return false
}

// code points the random generators draw from: letters in both cases, digits, host
// punctuation, every regexp metacharacter, glob characters as literals, control
// characters including line terminators, Latin-1 letters with and without case, CJK,
// an astral code point, and '$'.
var nasty = []int{
	'a', 'b', 'c', 'm', 'x', 'A', 'B', 'M', 'Z', '0', '1', '7', '.', '.', '-', '_',
	'+', '(', ')', '[', ']', '{', '}', '|', '^', '$', '\\', '*', '?', '/', ':', ' ',
	'\n', '\r', '\t', 0x01, 0x7f, 0xe9, 0xc9, 0xdf, 0xff, 0xd7, 0xd8, 0xf8, 0xde,
	0x4e2d, 0x1f600, 0x2028, 0x85,
}

func randHost(rng *rand.Rand, max int) []int {
	n := rng.Intn(max + 1)
	h := make([]int, n)
	for i := range h {
		if rng.Intn(3) == 0 {
			h[i] = nasty[rng.Intn(len(nasty))]
		} else {
			h[i] = nasty[rng.Intn(16)]
		}
	}
	return h
}

func flipCase(rng *rand.Rand, c int) int {
	if rng.Intn(3) != 0 {
		return c
	}
	switch {
	case c >= 'a' && c <= 'z', c >= 0xe0 && c <= 0xfe && c != 0xf7:
		return c - 32
	case c >= 'A' && c <= 'Z', c >= 0xc0 && c <= 0xde && c != 0xd7:
		return c + 32
	}
	return c
}

// derivePattern turns a host into a pattern that probably matches it: stretches are
// replaced by '*', single characters by '?', case is flipped, and sometimes a literal
// is damaged so that it does not match.
func derivePattern(rng *rand.Rand, h []int, maxWild int) []int {
	p := []int{}
	wild := 0
	for i := 0; i < len(h); {
		switch r := rng.Intn(10); {
		case r == 0 && wild < maxWild:
			p = append(p, '*')
			wild++
			i += rng.Intn(len(h) - i + 1)
		case r == 1 && wild < maxWild:
			p = append(p, '?')
			wild++
			i++
		case r == 2 && rng.Intn(6) == 0:
			p = append(p, nasty[rng.Intn(len(nasty))]) // damage
			i++
		default:
			c := h[i]
			if c == '*' || c == '?' {
				if wild >= maxWild {
					c = 'a'
				} else {
					wild++
				}
			}
			p = append(p, flipCase(rng, c))
			i++
		}
	}
	if rng.Intn(8) == 0 && wild < maxWild {
		p = append(p, '*')
	}
	return p
}

func TestTrace(t *testing.T) {
	b, err := os.ReadFile(filepath.Join(tracefmt.OutDir(), "vec.json"))
	if err != nil {
		t.Fatal(err)
	}
	var v vec
	if err := json.Unmarshal(b, &v); err != nil {
		t.Fatal(err)
	}
	tw, err := tracefmt.Create("trace.ndjson")
	if err != nil {
		t.Fatal(err)
	}
	st := &stats{}
	rng := rand.New(rand.NewSource(tracefmt.Seed()))
	full := tracefmt.Thorough()

	row := func(p []int, hosts [][]int) {
		route := config.Route{Host: []string{str(p)}}
		oks, okbs, gs := []bool{}, []bool{}, [][][]int{}
		for _, h := range hosts {
			hs := str(h)
			_, r, g := lite.FindRouteWithGroups(hs, route)
			_, rb := lite.FindRoute(hs, route)
			oks = append(oks, r != nil)
			okbs = append(okbs, rb != nil)
			gs = append(gs, cpss(g))
			st.Pairs++
			if r != nil {
				st.Matched++
			}
			if hasWild(p) && len(h) > 0 {
				st.Nontrivial++
			}
			if has(h, '\n') && hasWild(p) {
				st.Newline++
			}
		}
		tw.Emit(tracefmt.Rec{"ev": "row", "p": p, "hs": hosts, "ok": oks, "okb": okbs, "g": gs})
		st.Rows++
		if len(st.Samples) < 2 && hasWild(p) && len(hosts) > 3 {
			st.Samples = append(st.Samples, map[string]any{"pattern": str(p), "host": str(hosts[3]), "matched": oks[3], "groups": gs[3]})
		}
	}

	// 1. the TLC-enumerated domain: every pattern against every host (quick: the pairs
	//    whose combined length is at most 4, or 5 when the pattern has a wildcard)
	for _, p := range v.Pats {
		hosts := v.Hosts
		if !full {
			hosts = nil
			for _, h := range v.Hosts {
				if n := len(p) + len(h); n <= 4 || (n == 5 && hasWild(p)) {
					hosts = append(hosts, h)
				}
			}
		}
		if hosts == nil {
			hosts = [][]int{}
		}
		row(p, hosts)
	}

	// 2. random longer inputs
	nRand := tracefmt.EnvInt("VERIF_N", 600)
	for i := 0; i < nRand; i++ {
		base := randHost(rng, 16)
		p := derivePattern(rng, base, 3)
		hosts := [][]int{base}
		for k := 0; k < 5; k++ {
			h := append([]int{}, base...)
			// mutate: case flips, an inserted / replaced character
			for j := range h {
				h[j] = flipCase(rng, h[j])
			}
			if len(h) > 0 && rng.Intn(2) == 0 {
				h[rng.Intn(len(h))] = nasty[rng.Intn(len(nasty))]
			}
			if rng.Intn(3) == 0 {
				at := rng.Intn(len(h) + 1)
				h = append(h[:at], append([]int{nasty[rng.Intn(len(nasty))]}, h[at:]...)...)
			}
			hosts = append(hosts, h)
		}
		row(p, hosts)
	}

	// 3. cleaning: every string of length <= 5 (quick) / 6 (thorough) over {a . / NUL B}, and random ones
	cleanAlpha := []int{'a', '.', '/', 0, 'B'}
	maxClean := 5
	if full {
		maxClean = 6
	}
	var rec func(cur []int)
	emitClean := func(h []int) {
		out := lite.ClearVirtualHost(str(h))
		tw.Emit(tracefmt.Rec{"ev": "clean", "in": h, "out": cps(out)})
		st.Cleans++
	}
	rec = func(cur []int) {
		emitClean(append([]int{}, cur...))
		if len(cur) == maxClean {
			return
		}
		for _, c := range cleanAlpha {
			rec(append(cur, c))
		}
	}
	rec([]int{})
	suffixes := []string{"", "\x00FML\x00", "\x00FML2\x00", "\x00FML3\x00", "///1.2.3.4:5///1700000000", "///::1///5\x00FML\x00", "\x00FML\x00///x", "//", "/"}
	for i := 0; i < nRand; i++ {
		h := randHost(rng, 12)
		for k := rng.Intn(3); k > 0; k-- {
			h = append([]int{'.'}, h...)
		}
		for k := rng.Intn(3); k > 0; k-- {
			h = append(h, '.')
		}
		h = append(h, cps(suffixes[rng.Intn(len(suffixes))])...)
		emitClean(h)
	}

	// 4. route lists: first matching route, the matching pattern and its groups
	nFind := tracefmt.EnvInt("VERIF_FIND", 800)
	for i := 0; i < nFind; i++ {
		h := randHost(rng, 12)
		nr := 1 + rng.Intn(4)
		routes := make([]config.Route, nr)
		rpats := [][][]int{}
		for r := range routes {
			np := 1 + rng.Intn(3)
			pats := [][]int{}
			for k := 0; k < np; k++ {
				var p []int
				if rng.Intn(3) == 0 {
					p = derivePattern(rng, h, 3)
				} else {
					p = derivePattern(rng, randHost(rng, 8), 3)
				}
				pats = append(pats, p)
				routes[r].Host = append(routes[r].Host, str(p))
			}
			rpats = append(rpats, pats)
		}
		pat, got, g := lite.FindRouteWithGroups(str(h), routes...)
		idx := 0
		for r := range routes {
			if got == &routes[r] {
				idx = r + 1
			}
		}
		if got != nil && idx == 0 {
			t.Fatalf("FindRouteWithGroups returned a route outside the given list")
		}
		if idx > 0 {
			st.FindHit++
		}
		tw.Emit(tracefmt.Rec{"ev": "find", "routes": rpats, "h": h, "idx": idx, "pat": cps(pat), "g": cpss(g)})
		st.Finds++
	}

	// 5. parameter substitution
	nSub := tracefmt.EnvInt("VERIF_SUBST", 600)
	for i := 0; i < nSub; i++ {
		n := 1 + rng.Intn(3)
		if rng.Intn(6) == 0 {
			n = 10 + rng.Intn(3)
		}
		groups := make([]string, n)
		for k := range groups {
			g := randHost(rng, 5)
			if rng.Intn(4) == 0 { // the matched text may itself look like a parameter
				g = append(g, cps(fmt.Sprintf("$%d", 1+rng.Intn(n)))...)
			}
			groups[k] = str(g)
		}
		var tb strings.Builder
		for k := rng.Intn(6) + 1; k > 0; k-- {
			switch rng.Intn(4) {
			case 0, 1:
				fmt.Fprintf(&tb, "$%d", 1+rng.Intn(n))
				// never a digit directly after a parameter
				tb.WriteString([]string{".", "-", ":", "$", "x", ""}[rng.Intn(6)])
				if rng.Intn(5) == 0 {
					tb.WriteString("$")
				}
				tb.WriteString([]string{".", "a", ":"}[rng.Intn(3)])
			case 2:
				tb.WriteString(str(randHostNoDollar(rng, 4)))
			default:
				tb.WriteString([]string{"svc", ".", ":25565", "$x", "$.", "-"}[rng.Intn(6)])
			}
		}
		tmpl := tb.String()
		out := lite.VerifSubstituteBackendParams(tmpl, groups)
		tw.Emit(tracefmt.Rec{"ev": "subst", "t": cps(tmpl), "g": cpss(groups), "out": cps(out)})
		st.Substs++
	}

	// 6. end to end: raw handshake host -> which backend address lite.Forward dials
	e2e(t, tw, st, rng, tracefmt.EnvInt("VERIF_E2E", 120))

	if err := tw.Close(); err != nil {
		t.Fatal(err)
	}
	if err := tracefmt.WriteJSON("stats.json", st); err != nil {
		t.Fatal(err)
	}
}

func randHostNoDollar(rng *rand.Rand, max int) []int {
	h := randHost(rng, max)
	for i, c := range h {
		if c == '$' || (c >= '0' && c <= '9') {
			h[i] = 'q'
		}
	}
	return h
}

type e2eRoute struct {
	pats []string
	tmpl string // with %d for the port
}

func e2e(t *testing.T, tw *tracefmt.Writer, st *stats, rng *rand.Rand, n int) {
	// backends listen on every loopback address so that 127.0.0.<$1> is dialable
	var bes []*literig.Backend
	for i := 0; i < 3; i++ {
		be, err := literig.Listen("0.0.0.0:0")
		if err != nil {
			t.Fatal(err)
		}
		defer be.Close()
		bes = append(bes, be)
	}
	shapes := []e2eRoute{
		{[]string{"s?.mc.ex"}, "127.0.0.$1:%d"},
		{[]string{"S*.Mc.Ex", "play.ex"}, "127.0.0.$1:%d"},
		{[]string{"*.n.ex"}, "127.0.0.$1:%d"},
		{[]string{"??.ex"}, "127.0.0.$2:%d"},
		{[]string{"lobby.ex", "*.lobby.ex"}, "127.0.0.1:%d"},
		{[]string{"*"}, "127.0.0.1:%d"},
		{[]string{"s*.*x"}, "127.0.0.$1:%d"},
		{[]string{"(s?).mc.ex"}, "127.0.0.$1:%d"},
		{[]string{"é?.ex"}, "127.0.0.$1:%d"},
	}
	hosts := []string{
		"s7.mc.ex", "S12.MC.EX", "s3.mc.ex.", ".s9.mc.ex", "s4.mc.ex\x00FML\x00", "s5.mc.ex\x00FML2\x00",
		"s6.mc.ex///10.1.2.3:4711///1700000000", "s8.mc.ex.///1.1.1.1:1///5\x00FML\x00", "25.n.ex", "7.N.EX.",
		"a7.ex", "lobby.ex", "x.lobby.ex", "LOBBY.EX\x00FML3\x00", "zz.top", "", ".", "t7.mc.ex", "s7.mc.exx",
		"(s2).mc.ex", "É3.ex", "é4.ex\x00FML\x00", "L1\n.lobby.ex", "unknown.host///1.2.3.4:5///6", "play.ex",
	}
	// fixed boundary cases first: hosts that are empty after cleaning against route lists with a
	// pattern that matches the empty string (catch-all), and without one
	type fixedCase struct {
		shapes []e2eRoute
		host   string
	}
	var fixed []fixedCase
	catchAll := e2eRoute{[]string{"*"}, "127.0.0.1:%d"}
	catchAll2 := e2eRoute{[]string{"lobby.ex", "**"}, "127.0.0.1:%d"}
	named := e2eRoute{[]string{"lobby.ex", "*.lobby.ex"}, "127.0.0.1:%d"}
	for _, h := range []string{"", "...", "\x00FML2\x00", "///1.2.3.4:5///1700000000", ".\x00FORGE", "."} {
		fixed = append(fixed, fixedCase{[]e2eRoute{catchAll}, h}, fixedCase{[]e2eRoute{named, catchAll}, h},
			fixedCase{[]e2eRoute{catchAll2}, h}, fixedCase{[]e2eRoute{named}, h})
	}
	for i := 0; i < n+len(fixed); i++ {
		nr := 1 + rng.Intn(3)
		if i < len(fixed) {
			nr = len(fixed[i].shapes)
		}
		var routes []config.Route
		rpats, tmpls := [][][]int{}, [][]int{}
		for r := 0; r < nr; r++ {
			sh := shapes[rng.Intn(len(shapes))]
			if sh.pats[0] == "*" && rng.Intn(3) != 0 {
				sh = shapes[rng.Intn(5)]
			}
			if i < len(fixed) {
				sh = fixed[i].shapes[r]
			}
			tm := fmt.Sprintf(sh.tmpl, bes[r].Port)
			routes = append(routes, config.Route{Host: sh.pats, Backend: []string{tm}})
			rpats = append(rpats, cpss(sh.pats))
			tmpls = append(tmpls, cps(tm))
		}
		host := hosts[rng.Intn(len(hosts))]
		if i < len(fixed) {
			host = fixed[i].host
		}
		// play.ex under "S*.Mc.Ex"'s route has no wildcard text for $1: keep such cases out
		// (the dial would fail for reasons outside the property)
		skip := false
		for r := range routes {
			if strings.Contains(routes[r].Backend[0], "$") {
				for _, p := range routes[r].Host {
					if !strings.ContainsAny(p, "*?") {
						skip = strings.EqualFold(lite.ClearVirtualHost(host), p) || skip
					}
				}
			}
		}
		if skip {
			continue
		}
		rig, err := literig.Start(literig.NewConfig(routes, 2*time.Second))
		if err != nil {
			t.Fatal(err)
		}
		c, err := rig.Dial()
		if err != nil {
			t.Fatal(err)
		}
		msg := literig.Frame(literig.HandshakePayload(765, host, 25565, 2, nil))
		msg = append(msg, literig.Frame(append([]byte{0x00}, literig.AppendString(nil, "Steve")...))...)
		if _, err := c.Write(msg); err != nil {
			t.Fatal(err)
		}
		// wait until the proxy either reached a backend or closed the client
		closed := make(chan bool, 1)
		go func() { closed <- literig.WaitClosed(c, 5*time.Second) }()
		var first *literig.Accepted
		gotClosed, isClosed := false, false
		select {
		case first = <-bes[0].Ch:
		case first = <-bes[1].Ch:
		case first = <-bes[2].Ch:
		case isClosed = <-closed:
			gotClosed = true
		}
		dialed := [][]int{}
		if first != nil {
			dialed = append(dialed, cps(first.Local))
			_ = c.Close()
			literig.WaitClosed(first.Conn, 5*time.Second)
			_ = first.Conn.Close()
			isClosed = true
		}
		if !gotClosed {
			<-closed
		}
		for _, be := range bes {
			if err := be.Sync(); err != nil {
				t.Fatal(err)
			}
			for _, a := range be.Drain() {
				dialed = append(dialed, cps(a.Local))
				_ = a.Conn.Close()
			}
		}
		_ = c.Close()
		rig.Close()
		tw.Emit(tracefmt.Rec{"ev": "route", "routes": rpats, "tmpl": tmpls, "host": cps(host), "dialed": dialed, "closed": isClosed})
		st.E2E++
		if len(dialed) == 0 {
			st.E2ENoRoute++
		}
		if st.E2E == 1 {
			st.Samples = append(st.Samples, map[string]any{"e2e_host": host, "routes": routes, "dialed": dialed})
		}
	}
}
