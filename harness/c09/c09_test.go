//go:build verif

// C09 harness: records (digest, id) pairs of the real authenticator for random and
// searched-for boundary digests; ServerId_Trace.tla judges them.
package c09

import (
	"crypto/rand"
	"crypto/rsa"
	"crypto/sha1"
	"encoding/binary"
	mrand "math/rand"
	"sync"
	"testing"

	"go.minekube.com/gate/pkg/edition/java/auth"

	"verif/harness/tracefmt"
)

type stats struct {
	Ids     int            `json:"ids"`
	Twos    int            `json:"twos"`
	Classes map[string]int `json:"classes"`
	Samples []any          `json:"samples"`
}

func classify(d []byte) string {
	c := ""
	if d[0]&0x80 != 0 {
		c = "neg"
		tz := 0
		for i := len(d) - 1; i >= 0 && d[i] == 0; i-- {
			tz++
		}
		if tz > 0 {
			c += "-carry" + string(rune('0'+tz))
		}
		// magnitude with leading zero nibbles: 0xff.. / 0xf?..
		if d[0] == 0xff {
			c += "-lz"
		} else if d[0] >= 0xf0 {
			c += "-lz1"
		}
	} else {
		c = "pos"
		if d[0] == 0 {
			c += "-lz2"
		} else if d[0] < 0x10 {
			c += "-lz1"
		}
	}
	return c
}

func TestTrace(t *testing.T) {
	key, err := rsa.GenerateKey(rand.Reader, 1024)
	if err != nil {
		t.Fatal(err)
	}
	a, err := auth.New(auth.Options{PrivateKey: key})
	if err != nil {
		t.Fatal(err)
	}
	pub := a.PublicKey()
	tw, err := tracefmt.Create("trace.ndjson")
	if err != nil {
		t.Fatal(err)
	}
	st := stats{Classes: map[string]int{}}
	rng := mrand.New(mrand.NewSource(tracefmt.Seed()))
	digest := func(secret []byte) []byte {
		h := sha1.New()
		h.Write(secret)
		h.Write(pub)
		return h.Sum(nil)
	}
	emit := func(secret []byte) {
		d := digest(secret)
		id, err := a.GenerateServerID(secret)
		if err != nil {
			t.Fatalf("GenerateServerID: %v", err)
		}
		tw.Emit(tracefmt.Rec{"ev": "id", "digest": tracefmt.Bytes(d), "id": id})
		st.Ids++
		st.Classes[classify(d)]++
		if len(st.Samples) < 3 {
			st.Samples = append(st.Samples, map[string]any{"secret": tracefmt.Bytes(secret), "digest": tracefmt.Bytes(d), "id": id})
		}
	}
	// random secrets of assorted lengths
	n := tracefmt.EnvInt("VERIF_N", 500)
	for i := 0; i < n; i++ {
		ln := 16
		if i%4 == 0 {
			ln = rng.Intn(40)
		}
		s := make([]byte, ln)
		rng.Read(s)
		emit(s)
	}
	// boundary digests are searched for: cheap local SHA-1, real call only on hits
	search := tracefmt.EnvInt("VERIF_SEARCH", 1<<17)
	perClass := map[string]int{}
	base := uint64(rng.Int63())
	for i := 0; i < search; i++ {
		var s [16]byte
		binary.BigEndian.PutUint64(s[:8], base)
		binary.BigEndian.PutUint64(s[8:], uint64(i))
		d := digest(s[:])
		c := classify(d)
		if c == "neg" || c == "pos" {
			continue
		}
		if perClass[c] >= 40 {
			continue
		}
		perClass[c]++
		emit(s[:])
	}
	// fresh authenticators: the very first call on a new authenticator is GenerateServerID
	// (before anybody asked for the public key); the id must already be the digest over
	// secret and key
	for i := 0; i < 6; i++ {
		k2, err := rsa.GenerateKey(rand.Reader, 1024)
		if err != nil {
			t.Fatal(err)
		}
		a2, err := auth.New(auth.Options{PrivateKey: k2})
		if err != nil {
			t.Fatal(err)
		}
		s := make([]byte, 16)
		rng.Read(s)
		id, err := a2.GenerateServerID(s)
		if err != nil {
			t.Fatalf("GenerateServerID: %v", err)
		}
		h := sha1.New()
		h.Write(s)
		h.Write(a2.PublicKey())
		d := h.Sum(nil)
		tw.Emit(tracefmt.Rec{"ev": "id", "digest": tracefmt.Bytes(d), "id": id, "fresh": true})
		st.Ids++
		st.Classes[classify(d)]++
	}

	// concurrent logins: many goroutines ask the same authenticator for server ids at once, in
	// tight loops over a fixed set of secrets each (hundreds of thousands of calls).  Identical
	// observations (same secret, same id) are grouped; every DISTINCT observation becomes a trace
	// line that TLC judges like the sequential ones.
	{
		type obs struct {
			secret string
			id     string
		}
		var wg sync.WaitGroup
		workers, secrets, rounds := 32, 40, tracefmt.EnvInt("VERIF_CONC", 300)
		results := make([]map[obs]int, workers)
		start := make(chan struct{})
		for wkr := 0; wkr < workers; wkr++ {
			wkr := wkr
			lr := mrand.New(mrand.NewSource(rng.Int63()))
			mine := make([][]byte, secrets)
			for i := range mine {
				mine[i] = make([]byte, 16)
				lr.Read(mine[i])
			}
			wg.Add(1)
			go func() {
				defer wg.Done()
				seen := map[obs]int{}
				<-start
				for r := 0; r < rounds; r++ {
					for _, s := range mine {
						id, err := a.GenerateServerID(s)
						if err != nil {
							t.Errorf("GenerateServerID: %v", err)
							return
						}
						seen[obs{string(s), id}]++
					}
				}
				results[wkr] = seen
			}()
		}
		close(start)
		wg.Wait()
		for _, seen := range results {
			for o, rep := range seen {
				d := digest([]byte(o.secret))
				tw.Emit(tracefmt.Rec{"ev": "id", "digest": tracefmt.Bytes(d), "id": o.id, "concurrent": true, "rep": rep})
				st.Ids += rep
				st.Classes[classify(d)]++
			}
		}
	}
	// the two's complement helper on every 1- and 2-byte input and crafted 20-byte carries
	do := func(in []byte) {
		cp := append([]byte(nil), in...)
		out := auth.VerifTwosComplement(cp)
		tw.Emit(tracefmt.Rec{"ev": "twos", "in": tracefmt.Bytes(in), "out": tracefmt.Bytes(out)})
		st.Twos++
	}
	for x := 0; x < 256; x++ {
		do([]byte{byte(x)})
	}
	step := 1
	if !tracefmt.Thorough() {
		step = 7
	}
	for x := 0; x < 65536; x += step {
		do([]byte{byte(x >> 8), byte(x)})
	}
	for k := 0; k <= 20; k++ { // 0x80.. followed by k trailing zero bytes, rest random
		b := make([]byte, 20)
		rng.Read(b)
		b[0] |= 0x80
		for j := 0; j < k && j < 19; j++ {
			b[19-j] = 0
		}
		if k >= 19 {
			b[0] = 0x80
		}
		do(b)
	}
	if err := tw.Close(); err != nil {
		t.Fatal(err)
	}
	tracefmt.WriteJSON("stats.json", st)
}
