//go:build verif

// C11 harness: forces TLC-generated gate-point schedules on the real player
// registry (real authSessionHandler login completion over a real
// netmc.MinecraftConn, real teardown) and records the observable history
// (login call/return, own disconnects, DisconnectEvents, lookups) that
// PlayerRegistry_Trace.tla judges.  Go code only drives and records.
package c11

import (
	"encoding/json"
	"math/rand"
	"net"
	"os"
	"path/filepath"
	"sort"
	"strings"
	"sync"
	"sync/atomic"
	"testing"
	"time"

	"github.com/robinbraemer/event"
	"go.minekube.com/common/minecraft/component"
	"go.minekube.com/gate/pkg/edition/java/auth"
	"go.minekube.com/gate/pkg/edition/java/config"
	"go.minekube.com/gate/pkg/edition/java/profile"
	"go.minekube.com/gate/pkg/edition/java/proto/version"
	"go.minekube.com/gate/pkg/edition/java/proxy"
	"go.minekube.com/gate/pkg/util/uuid"

	"verif/harness/sched"
	"verif/harness/tracefmt"
)

type prog struct {
	Id    string `json:"id"`
	Name  string `json:"name"` // lower-cased
	Leave bool   `json:"leave"`
	Deny  bool   `json:"deny"`
}

type schedule struct {
	Kick   bool            `json:"kick"`
	Online bool            `json:"online"`
	Prog   map[string]prog `json:"prog"`
	Sched  []string        `json:"sched"`
	Free   bool            `json:"free,omitempty"`   // no gates: free-running threads
	Origin string          `json:"origin,omitempty"` // tlc-locked | tlc-unlocked | random | free
}

type stats struct {
	Runs        int            `json:"runs"`
	ByOrigin    map[string]int `json:"by_origin"`
	Blocked     int            `json:"blocked_steps"`
	Hung        int            `json:"hung_runs"`
	Looks       int            `json:"looks"`
	LooksSkip   int            `json:"looks_skipped"`
	Events      int            `json:"events"`
	GateArrival map[string]int `json:"gate_arrivals"`
	Outcomes    map[string]int `json:"outcomes"`
	Samples     []any          `json:"samples"`
}

// nullConn is the client's socket: writes vanish, reads block until Close.
type addr string

func (a addr) Network() string { return "verif" }
func (a addr) String() string  { return string(a) }

type nullConn struct {
	name   string
	once   sync.Once
	closed chan struct{}
}

func newNullConn(name string) *nullConn { return &nullConn{name: name, closed: make(chan struct{})} }
func (c *nullConn) Read([]byte) (int, error) {
	<-c.closed
	return 0, net.ErrClosed
}
func (c *nullConn) Write(b []byte) (int, error) {
	select {
	case <-c.closed:
		return 0, net.ErrClosed
	default:
		return len(b), nil
	}
}
func (c *nullConn) Close() error                     { c.once.Do(func() { close(c.closed) }); return nil }
func (c *nullConn) LocalAddr() net.Addr              { return addr("proxy") }
func (c *nullConn) RemoteAddr() net.Addr             { return addr(c.name) }
func (c *nullConn) SetDeadline(time.Time) error      { return nil }
func (c *nullConn) SetReadDeadline(time.Time) error  { return nil }
func (c *nullConn) SetWriteDeadline(time.Time) error { return nil }

func idOf(s string) uuid.UUID { return uuid.OfflinePlayerUUID("verif-" + s) }

// The model's symbolic names stand for real user names whose letters include the
// alphabet boundaries (a, z), a digit and an underscore.
var realName = map[string]string{"bob": "zab_z9", "al": "a_zy0", "cy": "m_z"}

// spell returns a case variant of the (lower-case) real name for the k-th connection.
func spell(name string, k int) string {
	lname := realName[name]
	switch k % 3 {
	case 0:
		return strings.ToUpper(lname[:1]) + lname[1:]
	case 1:
		return lname
	}
	return strings.ToUpper(lname)
}

// otherSpelling is what lookups by name use: upper case except the first letter.
func otherSpelling(lname string) string { return lname[:1] + strings.ToUpper(lname[1:]) }

var insideLock = map[string]bool{"reg.register.insert": true, "reg.unregister.locked": true}

var sharedAuth auth.Authenticator

type runner struct {
	tw      *tracefmt.Writer
	st      *stats
	stepTLC time.Duration
	stepUn  time.Duration
	hungTO  time.Duration
}

func connName(p proxy.Player) string {
	if p == nil {
		return ""
	}
	return p.RemoteAddr().String()
}

func (r *runner) run(n int, s schedule) {
	if s.Sched == nil {
		s.Sched = []string{} // no JSON nulls in the trace
	}
	names := make([]string, 0, len(s.Prog))
	for c := range s.Prog {
		names = append(names, c)
	}
	sort.Strings(names)
	var conns []tracefmt.Rec
	idset, nameset := map[string]bool{}, map[string]bool{}
	spelled := map[string]string{}
	for k, c := range names {
		p := s.Prog[c]
		spelled[c] = spell(p.Name, k)
		// the lower-cased name is computed with the Go standard library, not gate
		conns = append(conns, tracefmt.Rec{"c": c, "id": p.Id, "name": strings.ToLower(spelled[c]), "spelled": spelled[c]})
		idset[p.Id], nameset[strings.ToLower(spelled[c])] = true, true
	}
	r.tw.Emit(tracefmt.Rec{"ev": "reset", "n": n, "kick": s.Kick, "online": s.Online, "conns": conns,
		"prog": s.Prog, "sched": s.Sched, "origin": s.Origin, "free": s.Free})

	cfg := config.DefaultConfig
	cfg.OnlineMode = s.Online
	cfg.OnlineModeKickExistingPlayers = s.Kick
	mgr := event.New()
	px, err := proxy.New(proxy.Options{Config: &cfg, EventMgr: mgr, Authenticator: sharedAuth})
	if err != nil {
		panic(err)
	}
	event.Subscribe(mgr, 0, func(e *proxy.LoginEvent) {
		if s.Prog[connName(e.Player())].Deny {
			e.Deny(&component.Text{Content: "denied"})
		}
	})
	event.Subscribe(mgr, 0, func(e *proxy.DisconnectEvent) {
		r.tw.Emit(tracefmt.Rec{"ev": "disc.event", "c": connName(e.Player()), "status": int(e.LoginStatus())})
	})

	logins := map[string]*proxy.VerifLogin{}
	done := map[string]*atomic.Bool{}
	for _, c := range names {
		p := s.Prog[c]
		logins[c] = proxy.VerifNewLogin(px, newNullConn(c),
			&profile.GameProfile{ID: idOf(p.Id), Name: spelled[c]}, s.Online, version.Minecraft_1_20_2.Protocol)
		done[c] = new(atomic.Bool)
	}

	// only the registry's own points gate (other areas' points are passed through)
	ctl := sched.New(nil, "reg.can.enter", "reg.register.enter", "reg.register.insert", "reg.kick",
		"reg.unregister.enter", "reg.unregister.locked", "h.leave")
	if s.Free {
		ctl = sched.New(nil, "no.such.gate")
	}
	ctl.Install()
	for _, c := range names {
		c, p, l := c, s.Prog[c], logins[c]
		ctl.Go(c, func() {
			defer done[c].Store(true)
			r.tw.Emit(tracefmt.Rec{"ev": "login.call", "c": c})
			l.Activate()
			open := !l.Closed()
			r.tw.Emit(tracefmt.Rec{"ev": "login.ret", "c": c, "open": open})
			if open {
				r.st.count("login-open")
			} else {
				r.st.count("login-closed")
			}
			if p.Leave && open {
				proxy.VerifYield("h.leave")
				r.tw.Emit(tracefmt.Rec{"ev": "disc.call", "c": c})
				_ = l.Close()
				r.tw.Emit(tracefmt.Rec{"ev": "disc.ret", "c": c})
			}
		})
	}

	look := func() bool {
		// only when every thread is parked outside the registry lock or finished
		for _, c := range names {
			at := ctl.At(c)
			if insideLock[at] || (at == "" && !done[c].Load()) {
				r.st.LooksSkip++
				return true
			}
		}
		res := make(chan tracefmt.Rec, 1)
		go func() {
			rec := tracefmt.Rec{"ev": "look"}
			var idl, nml [][2]string
			for _, k := range sortedKeys(idset) {
				idl = append(idl, [2]string{k, connName(px.Player(idOf(k)))})
			}
			for _, k := range sortedKeys(nameset) {
				nml = append(nml, [2]string{k, connName(px.PlayerByName(otherSpelling(k)))})
			}
			rec["ids"], rec["names"] = idl, nml
			rec["count"] = px.PlayerCount()
			lst := []string{}
			for _, p := range px.Players() {
				lst = append(lst, connName(p))
			}
			sort.Strings(lst)
			rec["list"] = lst
			res <- rec
		}()
		select {
		case rec := <-res:
			r.tw.Emit(rec)
			r.st.Looks++
			return true
		case <-time.After(r.hungTO):
			return false
		}
	}

	// schedules of the lock-respecting model never block; elsewhere blocking is expected
	step := r.stepUn
	if s.Origin == "tlc-locked" {
		step = r.stepTLC
	}
	hung := false
	var steps []string
	for _, t := range s.Sched {
		stt := ctl.Step(t, step)
		if stt == sched.Blocked {
			r.st.Blocked++
		}
		steps = append(steps, t+":"+string(stt)+"@"+ctl.At(t))
		if !look() {
			hung = true
			break
		}
	}
	finished := false
	if !hung {
		finished = ctl.Drain(r.hungTO)
	} else {
		ctl.Drain(10 * time.Millisecond)
	}
	ctl.Uninstall()
	if hung || !finished {
		// a registry call never returned: the history ends here and is judged as it is
		r.st.Hung++
		r.tw.Emit(tracefmt.Rec{"ev": "hung", "n": n, "in_look": hung})
	} else {
		if !look() {
			r.st.Hung++
			r.tw.Emit(tracefmt.Rec{"ev": "hung", "n": n, "in_look": true})
		} else {
			r.tw.Emit(tracefmt.Rec{"ev": "end"})
		}
	}
	for _, e := range ctl.Log {
		if i := strings.IndexByte(e, '@'); i >= 0 && e[:i] != "?" {
			r.st.GateArrival[e[i+1:]]++
		}
	}
	r.st.Runs++
	r.st.ByOrigin[s.Origin]++
	if len(r.st.Samples) < 2 && len(s.Sched) > 6 {
		r.st.Samples = append(r.st.Samples, map[string]any{"kick": s.Kick, "online": s.Online, "prog": s.Prog,
			"sched": s.Sched, "steps": steps})
	}
}

var cmu sync.Mutex

func (s *stats) count(k string) {
	cmu.Lock()
	s.Outcomes[k]++
	cmu.Unlock()
}

func envStr(name, def string) string {
	if v := os.Getenv(name); v != "" {
		return v
	}
	return def
}

func sortedKeys(m map[string]bool) []string {
	out := make([]string, 0, len(m))
	for k := range m {
		out = append(out, k)
	}
	sort.Strings(out)
	return out
}

func randomSchedules(rng *rand.Rand, n int, free bool) []schedule {
	idp := []string{"u1", "u2", "u3"}
	nmp := []string{"bob", "al", "cy"}
	thr := []string{"a", "b", "c", "d"}
	var out []schedule
	for i := 0; i < n; i++ {
		s := schedule{Kick: rng.Intn(2) == 0, Online: rng.Intn(2) == 0, Prog: map[string]prog{}, Origin: "random"}
		k := 2 + rng.Intn(3)
		// few ids and names so that collisions are the rule
		ni, nn := 1+rng.Intn(2), 1+rng.Intn(2)
		for _, t := range thr[:k] {
			s.Prog[t] = prog{Id: idp[rng.Intn(ni)], Name: nmp[rng.Intn(nn)], Leave: rng.Intn(2) == 0, Deny: rng.Intn(8) == 0}
		}
		if free {
			s.Free, s.Origin = true, "free"
		} else {
			for j := 0; j < 10*k; j++ {
				s.Sched = append(s.Sched, thr[rng.Intn(k)])
			}
		}
		out = append(out, s)
	}
	return out
}

func TestSchedules(t *testing.T) {
	b, err := os.ReadFile(filepath.Join(tracefmt.OutDir(), envStr("VERIF_SCHED_FILE", "sched.json")))
	if err != nil {
		t.Fatal(err)
	}
	var scheds []schedule
	if err := json.Unmarshal(b, &scheds); err != nil {
		t.Fatal(err)
	}
	sharedAuth, err = auth.New(auth.Options{})
	if err != nil {
		t.Fatal(err)
	}
	tw, err := tracefmt.Create(envStr("VERIF_TRACE_FILE", "trace.ndjson"))
	if err != nil {
		t.Fatal(err)
	}
	st := &stats{GateArrival: map[string]int{}, Outcomes: map[string]int{}, ByOrigin: map[string]int{}}
	r := &runner{tw: tw, st: st,
		stepTLC: time.Duration(tracefmt.EnvInt("VERIF_STEP_MS", 100)) * time.Millisecond,
		stepUn:  time.Duration(tracefmt.EnvInt("VERIF_STEP_UNLOCKED_MS", 6)) * time.Millisecond,
		hungTO:  time.Duration(tracefmt.EnvInt("VERIF_HUNG_MS", 1500)) * time.Millisecond,
	}
	rng := rand.New(rand.NewSource(tracefmt.Seed()))
	scheds = append(scheds, randomSchedules(rng, tracefmt.EnvInt("VERIF_RANDOM", 0), false)...)
	scheds = append(scheds, randomSchedules(rng, tracefmt.EnvInt("VERIF_FREE", 0), true)...)
	for i, s := range scheds {
		if s.Origin == "" {
			s.Origin = "tlc-locked"
		}
		r.run(i, s)
	}
	st.Events = tw.N
	if err := tw.Close(); err != nil {
		t.Fatal(err)
	}
	if err := tracefmt.WriteJSON(envStr("VERIF_STATS_FILE", "stats.json"), st); err != nil {
		t.Fatal(err)
	}
}
