//go:build verif

// C28 harness: replays TLC-generated tab-list histories (API add / set / removeAll, backend
// player-info upsert / remove) on gate's real tab list with a recording viewer. Every packet
// the tab list sends is encoded with gate's real codec for the viewer's protocol and decoded
// again by this package's own vanilla-layout player-info parser; backend packets are built by
// this package's own encoder, decoded by gate's real decoder for ProcessUpdate/ProcessRemove
// and logged as forwarded. Logged: decoded packets + TabList.Entries() after every call.
// TabList_Trace.tla applies the packets to the vanilla client model and compares; nothing is
// asserted here.
package c28

import (
	"bytes"
	"encoding/json"
	"fmt"
	"os"
	"path/filepath"
	"sort"
	"testing"
	"time"

	"go.minekube.com/common/minecraft/component"

	"go.minekube.com/gate/pkg/edition/java/profile"
	"go.minekube.com/gate/pkg/edition/java/proto/packet/tablist/playerinfo"
	"go.minekube.com/gate/pkg/edition/java/proxy/crypto"
	"go.minekube.com/gate/pkg/edition/java/proxy/tablist"
	"go.minekube.com/gate/pkg/gate/proto"
	"go.minekube.com/gate/pkg/util/uuid"
	"go.minekube.com/gate/pkg/verifexport"

	"verif/harness/mcwire"
	"verif/harness/tracefmt"
)

type entryJ struct {
	ID      int        `json:"id"`
	Name    string     `json:"name"`
	Props   [][]string `json:"props"`
	Lat     int        `json:"lat"`
	Gm      int        `json:"gm"`
	Listed  bool       `json:"listed"`
	Hasdisp bool       `json:"hasdisp"`
	Disp    string     `json:"disp"`
	Order   int        `json:"order"`
	Hat     bool       `json:"hat"`
}

type opJ struct {
	Op      string   `json:"op"`
	ID      int      `json:"id"`
	E       entryJ   `json:"e"`
	Attr    string   `json:"attr"`
	Ival    int      `json:"ival"`
	Sval    string   `json:"sval"`
	Bval    bool     `json:"bval"`
	Ids     []int    `json:"ids"`
	Actions []string `json:"actions"`
	Entries []entryJ `json:"entries"`
}

type hist struct {
	Ver int   `json:"ver"`
	H   []opJ `json:"h"`
}

func uuidOf(i int) uuid.UUID {
	var u uuid.UUID
	for k := range u {
		u[k] = 0xA0 + byte(k)
	}
	u[15] = byte(i)
	return u
}

func idOf(u uuid.UUID) int {
	for i := 1; i <= 2; i++ {
		if u == uuidOf(i) {
			return i
		}
	}
	return 0
}

// ------------------------------------------------------------ recording viewer

type viewer struct {
	protocol proto.Protocol
	sent     []proto.Packet
}

func (v *viewer) WritePacket(p proto.Packet) error    { v.sent = append(v.sent, p); return nil }
func (v *viewer) BufferPacket(p proto.Packet) error   { v.sent = append(v.sent, p); return nil }
func (v *viewer) Flush() error                        { return nil }
func (v *viewer) Protocol() proto.Protocol            { return v.protocol }
func (v *viewer) IdentifiedKey() crypto.IdentifiedKey { return nil }

var _ verifexport.TabListViewer = (*viewer)(nil)

// ------------------------------------------------- own player-info wire codec

var canon = []string{"add", "chat", "gm", "listed", "lat", "disp", "order", "hat"}

func nActions(ver int) int {
	switch {
	case ver >= 769:
		return 8
	case ver >= 768:
		return 7
	}
	return 6
}

// encodeUpsert builds a clientbound player-info update body as a vanilla server would.
func encodeUpsert(ver int, actions []string, entries []entryJ) []byte {
	has := map[string]bool{}
	for _, a := range actions {
		has[a] = true
	}
	var bits byte
	for i, a := range canon {
		if has[a] {
			bits |= 1 << uint(i)
		}
	}
	b := (&mcwire.Buf{}).Byte(bits).VarInt(len(entries))
	for _, e := range entries {
		b.UUID(uuidOf(e.ID))
		for _, a := range canon[:nActions(ver)] {
			if !has[a] {
				continue
			}
			switch a {
			case "add":
				b.String(e.Name).VarInt(len(e.Props))
				for _, p := range e.Props {
					b.String(p[0]).String(p[1]).Bool(p[2] != "")
					if p[2] != "" {
						b.String(p[2])
					}
				}
			case "chat":
				b.Bool(false)
			case "gm":
				b.VarInt(e.Gm)
			case "listed":
				b.Bool(e.Listed)
			case "lat":
				b.VarInt(e.Lat)
			case "disp":
				b.Bool(e.Hasdisp)
				if e.Hasdisp {
					if ver >= 765 { // nameless NBT compound {text: ".."}
						b.Byte(10).Byte(8).U16(4).Raw([]byte("text")).U16(uint16(len(e.Disp))).Raw([]byte(e.Disp)).Byte(0)
					} else {
						js, _ := json.Marshal(map[string]string{"text": e.Disp})
						b.String(string(js))
					}
				}
			case "order":
				b.VarInt(e.Order)
			case "hat":
				b.Bool(e.Hat)
			}
		}
	}
	return b.B
}

func encodeRemove(ids []int) []byte {
	b := (&mcwire.Buf{}).VarInt(len(ids))
	for _, i := range ids {
		b.UUID(uuidOf(i))
	}
	return b.B
}

// nbt reads one NBT payload of the given tag type (own reader, java edition, big endian).
func nbt(rd *mcwire.Rd, typ byte, depth int) any {
	if depth > 32 {
		rd.Err = fmt.Errorf("nbt too deep")
		return nil
	}
	switch typ {
	case 1:
		return int(int8(rd.Byte()))
	case 2:
		return int(int16(rd.U16()))
	case 3:
		return int(rd.I32())
	case 4:
		return rd.I64()
	case 5:
		return rd.N(4)
	case 6:
		return rd.N(8)
	case 7:
		return rd.N(int(rd.I32()))
	case 8:
		return string(rd.N(int(rd.U16())))
	case 9:
		et := rd.Byte()
		n := int(rd.I32())
		var l []any
		for i := 0; i < n && rd.Err == nil; i++ {
			l = append(l, nbt(rd, et, depth+1))
		}
		return l
	case 10:
		m := map[string]any{}
		for rd.Err == nil {
			t := rd.Byte()
			if t == 0 {
				break
			}
			name := string(rd.N(int(rd.U16())))
			m[name] = nbt(rd, t, depth+1)
		}
		return m
	case 11:
		return rd.N(4 * int(rd.I32()))
	case 12:
		return rd.N(8 * int(rd.I32()))
	}
	rd.Err = fmt.Errorf("nbt tag type %d", typ)
	return nil
}

// plain is the text of a decoded component value (string, or object with text/extra).
func plain(v any) string {
	switch t := v.(type) {
	case string:
		return t
	case map[string]any:
		s := ""
		if x, ok := t["text"]; ok {
			s = plain(x)
		} else if x, ok := t[""]; ok {
			s = plain(x)
		}
		if ex, ok := t["extra"].([]any); ok {
			for _, c := range ex {
				s += plain(c)
			}
		}
		return s
	case []any:
		s := ""
		for _, c := range t {
			s += plain(c)
		}
		return s
	}
	return fmt.Sprintf("<%T>", v)
}

// parseUpsert decodes a player-info update body the way the vanilla client reads it:
// action bit set, entry count, per entry the uuid and the action data in protocol order.
func parseUpsert(body []byte, ver int) map[string]any {
	bad := func(msg string) map[string]any {
		return map[string]any{"k": "bad", "err": msg, "actions": []string{}, "entries": []any{}, "ids": []int{}}
	}
	rd := mcwire.NewRd(body)
	bits := rd.Byte()
	if bits>>uint(nActions(ver)) != 0 {
		return bad(fmt.Sprintf("action bits %08b unknown to protocol %d", bits, ver))
	}
	actions := []string{}
	for i, a := range canon {
		if bits&(1<<uint(i)) != 0 {
			actions = append(actions, a)
		}
	}
	n := rd.VarInt()
	if n < 0 || n > 1000 {
		return bad("entry count")
	}
	entries := []any{}
	for i := 0; i < n && rd.Err == nil; i++ {
		e := entryJ{ID: idOf(uuid.UUID(rd.UUID())), Props: [][]string{}, Hat: false}
		for _, a := range actions {
			switch a {
			case "add":
				e.Name = rd.Str()
				if len(e.Name) > 16 {
					return bad("name longer than 16")
				}
				pn := rd.VarInt()
				if pn < 0 || pn > 16 {
					return bad("property count")
				}
				for j := 0; j < pn && rd.Err == nil; j++ {
					p := []string{rd.Str(), rd.Str(), ""}
					if rd.Bool() {
						p[2] = rd.Str()
					}
					e.Props = append(e.Props, p)
				}
			case "chat":
				if rd.Bool() {
					rd.UUID()
					rd.I64()
					rd.Bytes()
					rd.Bytes()
				}
			case "gm":
				e.Gm = rd.VarInt()
			case "listed":
				e.Listed = rd.Bool()
			case "lat":
				e.Lat = rd.VarInt()
			case "disp":
				e.Hasdisp = rd.Bool()
				if e.Hasdisp {
					if ver >= 765 {
						e.Disp = plain(nbt(rd, rd.Byte(), 0))
					} else {
						var v any
						if err := json.Unmarshal([]byte(rd.Str()), &v); err != nil {
							return bad("display name json: " + err.Error())
						}
						e.Disp = plain(v)
					}
				}
			case "order":
				e.Order = rd.VarInt()
			case "hat":
				e.Hat = rd.Bool()
			}
		}
		entries = append(entries, e)
	}
	if rd.Err != nil {
		return bad(rd.Err.Error())
	}
	if rd.Len() != 0 {
		return bad(fmt.Sprintf("%d trailing bytes", rd.Len()))
	}
	return map[string]any{"k": "upsert", "actions": actions, "entries": entries, "ids": []int{}}
}

func parseRemove(body []byte) map[string]any {
	rd := mcwire.NewRd(body)
	n := rd.VarInt()
	ids := []int{}
	for i := 0; i < n && rd.Err == nil; i++ {
		ids = append(ids, idOf(uuid.UUID(rd.UUID())))
	}
	if rd.Err != nil || rd.Len() != 0 || n < 0 {
		return map[string]any{"k": "bad", "err": "remove packet", "actions": []string{}, "entries": []any{}, "ids": []int{}}
	}
	return map[string]any{"k": "remove", "actions": []string{}, "entries": []any{}, "ids": ids}
}

// -------------------------------------------------------------------- driving

type session struct {
	ver   int
	v     *viewer
	tl    verifexport.TabList
	last  map[int]*verifexport.TabListEntry // the object last added through the API, per id
	lastK map[int]string                    // ... and the template it was built from ("" = touched since)
	how   string                            // how the current operation is carried out (set before the call)
}

func newSession(ver int) *session {
	v := &viewer{protocol: proto.Protocol(ver)}
	return &session{ver: ver, v: v, tl: verifexport.NewTabList(v), last: map[int]*verifexport.TabListEntry{}, lastK: map[int]string{}}
}

func (s *session) ctx() *proto.PacketContext {
	return &proto.PacketContext{Direction: proto.ClientBound, Protocol: s.v.protocol}
}

// drain encodes what the viewer was sent with gate's codec and decodes it with the own parser.
func (s *session) drain() []any {
	out := []any{}
	for _, p := range s.v.sent {
		var buf bytes.Buffer
		c := s.ctx()
		c.Packet = p
		if err := p.Encode(c, &buf); err != nil {
			out = append(out, map[string]any{"k": "bad", "err": "encode: " + err.Error(), "actions": []string{}, "entries": []any{}, "ids": []int{}})
			continue
		}
		switch p.(type) {
		case *playerinfo.Upsert:
			out = append(out, parseUpsert(buf.Bytes(), s.ver))
		case *playerinfo.Remove:
			out = append(out, parseRemove(buf.Bytes()))
		default:
			out = append(out, map[string]any{"k": "bad", "err": fmt.Sprintf("unexpected packet %T", p), "actions": []string{}, "entries": []any{}, "ids": []int{}})
		}
	}
	s.v.sent = nil
	return out
}

func (s *session) view() []entryJ {
	rows := []entryJ{}
	for id, e := range s.tl.Entries() {
		r := entryJ{ID: idOf(id), Name: e.Profile().Name, Props: [][]string{}, Lat: int(e.Latency() / time.Millisecond),
			Gm: e.GameMode(), Listed: e.Listed(), Order: e.ListOrder(), Hat: e.ShowHat()}
		for _, p := range e.Profile().Properties {
			r.Props = append(r.Props, []string{p.Name, p.Value, p.Signature})
		}
		if d := e.DisplayName(); d != nil {
			r.Hasdisp = true
			if t, ok := d.(*component.Text); ok {
				r.Disp = t.Content
				for _, ch := range t.Children() {
					if ct, ok := ch.(*component.Text); ok {
						r.Disp += ct.Content
					}
				}
			} else {
				r.Disp = fmt.Sprintf("<%T>", d)
			}
		}
		rows = append(rows, r)
	}
	sort.Slice(rows, func(i, j int) bool { return rows[i].ID < rows[j].ID })
	return rows
}

// newEntry builds a fresh entry object as a plugin would.
func (s *session) newEntry(e entryJ) *verifexport.TabListEntry {
	attrs := verifexport.TabListEntryAttributes{
		Profile:   profile.GameProfile{ID: uuidOf(e.ID), Name: e.Name},
		Latency:   time.Duration(e.Lat) * time.Millisecond,
		GameMode:  e.Gm,
		Listed:    e.Listed,
		ListOrder: e.Order,
		ShowsHat:  e.Hat,
	}
	for _, p := range e.Props {
		attrs.Profile.Properties = append(attrs.Profile.Properties, profile.Property{Name: p[0], Value: p[1], Signature: p[2]})
	}
	if e.Hasdisp {
		attrs.DisplayName = &component.Text{Content: e.Disp}
	}
	return &verifexport.TabListEntry{OwningTabList: s.tl, EntryAttributes: attrs}
}

func (s *session) touch(ids ...int) {
	for _, i := range ids {
		s.lastK[i] = ""
	}
}

// do runs one operation on the real tab list; it returns how it was carried out and, for
// backend operations, the packet as forwarded to the client.
func (s *session) do(o opJ) (how string, forwarded []any, err error) {
	switch o.Op {
	case "add":
		kb, _ := json.Marshal(o.E)
		k := string(kb)
		cur := s.tl.Entries()[uuidOf(o.ID)]
		var ent *verifexport.TabListEntry
		switch {
		case cur != nil && s.last[o.ID] != nil && tablist.Entry(s.last[o.ID]) == cur && s.lastK[o.ID] == k:
			ent, how = s.last[o.ID], "same-object" // a plugin adding its entry object again, unchanged
		default:
			how = "new"
			if cur != nil {
				how = "replace"
				if cur.Profile().Name != o.E.Name {
					how = "replace-profile"
				}
			}
			ent = s.newEntry(o.E)
		}
		s.last[o.ID], s.lastK[o.ID] = ent, k
		s.how = how
		err = s.tl.Add(ent)
	case "addmany":
		var ents []tablist.Entry
		for _, e := range o.Entries {
			ents = append(ents, s.newEntry(e))
			s.touch(e.ID)
			delete(s.last, e.ID)
		}
		how = fmt.Sprintf("%d-entries", len(ents))
		s.how = how
		err = s.tl.Add(ents...)
	case "set":
		ent := s.tl.Entries()[uuidOf(o.ID)]
		if ent == nil {
			return "no-entry", nil, nil
		}
		how = o.Attr
		s.touch(o.ID)
		switch o.Attr {
		case "gm":
			err = ent.SetGameMode(o.Ival)
		case "lat":
			err = ent.SetLatency(time.Duration(o.Ival) * time.Millisecond)
		case "order":
			err = ent.SetListOrder(o.Ival)
		case "listed":
			err = ent.SetListed(o.Bval)
		case "disp":
			if o.Sval == "" {
				err = ent.SetDisplayName(nil)
			} else {
				err = ent.SetDisplayName(&component.Text{Content: o.Sval})
			}
		}
	case "removeAll":
		var ids []uuid.UUID
		for _, i := range o.Ids {
			ids = append(ids, uuidOf(i))
		}
		if len(o.Ids) == 0 {
			s.touch(1, 2)
		} else {
			s.touch(o.Ids...)
		}
		how = fmt.Sprintf("%d-ids", len(o.Ids))
		err = s.tl.RemoveAll(ids...)
	case "bremove":
		body := encodeRemove(o.Ids)
		pk := &playerinfo.Remove{}
		if derr := pk.Decode(s.ctx(), bytes.NewReader(body)); derr != nil {
			return "gate-decode-error", []any{map[string]any{"k": "bad", "err": "gate decode: " + derr.Error(), "actions": []string{}, "entries": []any{}, "ids": []int{}}}, nil
		}
		s.touch(o.Ids...)
		s.tl.ProcessRemove(pk)
		forwarded = []any{parseRemove(body)}
	case "bupsert":
		body := encodeUpsert(s.ver, o.Actions, o.Entries)
		pk := &playerinfo.Upsert{}
		if derr := pk.Decode(s.ctx(), bytes.NewReader(body)); derr != nil {
			return "gate-decode-error", []any{map[string]any{"k": "bad", "err": "gate decode: " + derr.Error(), "actions": []string{}, "entries": []any{}, "ids": []int{}}}, nil
		}
		for _, e := range o.Entries {
			s.touch(e.ID)
		}
		how = fmt.Sprint(o.Actions)
		err = s.tl.ProcessUpdate(pk)
		forwarded = []any{parseUpsert(body, s.ver)}
	}
	return how, forwarded, err
}

func TestReplay(t *testing.T) {
	b, err := os.ReadFile(filepath.Join(tracefmt.OutDir(), "hist.json"))
	if err != nil {
		t.Fatal(err)
	}
	var hists []hist
	if err := json.Unmarshal(b, &hists); err != nil {
		t.Fatal(err)
	}
	tw, err := tracefmt.Create("trace.ndjson")
	if err != nil {
		t.Fatal(err)
	}
	var samples []any
	calls, panics, pktsN := 0, 0, 0
	hows := map[string]int{}
	for _, h := range hists {
		s := newSession(h.Ver)
		tw.Emit(tracefmt.Rec{"ev": "reset", "ver": h.Ver})
		var logged []any
		for _, o := range h.H {
			var how string
			var fwd []any
			var opErr error
			panicked, panicMsg := false, ""
			func() {
				defer func() {
					if x := recover(); x != nil {
						panicked, panicMsg = true, fmt.Sprint(x)
					}
				}()
				s.how = ""
				how, fwd, opErr = s.do(o)
			}()
			if panicked {
				how = s.how
			}
			pkts := append(s.drain(), fwd...)
			rec := tracefmt.Rec{"ev": "op", "op": o.Op, "id": o.ID, "attr": o.Attr, "ival": o.Ival, "sval": o.Sval,
				"bval": o.Bval, "opids": append([]int{}, o.Ids...), "actions": append([]string{}, o.Actions...),
				"how": how, "panicked": panicked, "err": "", "pkts": pkts, "view": s.view()}
			if o.Op == "add" {
				rec["e"] = o.E
			}
			if len(o.Entries) > 0 {
				rec["entries"] = o.Entries
			}
			if opErr != nil {
				rec["err"] = opErr.Error()
			}
			if panicked {
				rec["panic"] = panicMsg
				panics++
			}
			tw.Emit(rec)
			logged = append(logged, rec)
			calls++
			pktsN += len(pkts)
			hows[o.Op+":"+how]++
			if panicked {
				break // the caller of a panicking API call is gone
			}
		}
		if len(samples) < 2 && len(logged) >= 2 {
			samples = append(samples, map[string]any{"ver": h.Ver, "ops": logged})
		}
	}
	if err := tw.Close(); err != nil {
		t.Fatal(err)
	}
	tracefmt.WriteJSON("stats.json", map[string]any{"histories": len(hists), "calls": calls, "panics": panics,
		"packets": pktsN, "hows": hows, "samples": samples})
}
