//go:build verif

// C14 harness: drives the real netmc.MinecraftConn over a net.Pipe whose far
// end decodes the byte stream with its own tiny frame decoder, forces
// TLC-generated gate-point schedules of concurrent writers and enter/leave
// config state changes, and records the observable history (call / ret / wire /
// sync / eof) that PlayQueue_Trace.tla judges. No verdicts here.
package c14

import (
	"bufio"
	"bytes"
	"context"
	"encoding/binary"
	"encoding/json"
	"fmt"
	"io"
	"math/rand"
	"net"
	"os"
	"os/exec"
	"path/filepath"
	"runtime"
	"sort"
	"strings"
	"sync"
	"testing"
	"time"

	"go.minekube.com/gate/pkg/edition/java/netmc"
	"go.minekube.com/gate/pkg/edition/java/proto/packet"
	"go.minekube.com/gate/pkg/edition/java/proto/packet/title"
	"go.minekube.com/gate/pkg/edition/java/proto/state"
	"go.minekube.com/gate/pkg/edition/java/proto/version"
	"go.minekube.com/gate/pkg/gate/proto"

	"verif/harness/sched"
	"verif/harness/tracefmt"
)

// Packet ids of protocol 764 (1.20.2), clientbound, written down from the
// protocol documentation (not taken from gate's registry).
const (
	idPlayTitleTimes = 0x62 // play: Set Title Animation Times (3 x int32); 0x64 in protocol 765 (1.20.3)
	idPlayKeepAlive  = 0x24 // play: Keep Alive (int64)
	idConfKeepAlive  = 0x03 // configuration: Keep Alive (int64)
	idSentinel       = 0x7F // harness marker, written with conn.Write
	timesMagic       = 0x5151
)

type schedule struct {
	Prog    map[string][]string `json:"prog"`
	Sops    []string            `json:"sops"`
	Prefill bool                `json:"prefill"`
	Sched   []string            `json:"sched"`
}

type stats struct {
	Schedules   int            `json:"schedules"`
	Blocked     int            `json:"blocked_steps"`
	Unfinished  int            `json:"unfinished"`
	Scenarios   int            `json:"scenarios"`
	Stress      int            `json:"stress_runs"`
	Bursts      int            `json:"burst_runs"`
	BurstDied   int            `json:"burst_child_died"`
	Events      int            `json:"events"`
	Packets     int            `json:"packets_written"`
	WireSeen    int            `json:"packets_on_wire"`
	GateArrival map[string]int `json:"gate_arrivals"`
	Samples     []any          `json:"samples"`
}

// emitter is a trace sink: the buffered tracefmt.Writer, or the unbuffered lineWriter
// of the child process (which must not lose lines when the process dies).
type emitter interface{ Emit(tracefmt.Rec) }

type lineWriter struct {
	mu  sync.Mutex
	f   *os.File
	seq int
}

func (w *lineWriter) Emit(r tracefmt.Rec) {
	w.mu.Lock()
	defer w.mu.Unlock()
	w.seq++
	r["seq"] = w.seq
	b, err := json.Marshal(r)
	if err != nil {
		panic(err)
	}
	w.f.Write(append(b, '\n'))
}

// rig is one real connection plus the independent far end.
type rig struct {
	idTimes  int
	tw       emitter
	conn     netmc.MinecraftConn
	far      net.Conn
	sentinel chan uint32
	eof      chan struct{}
	syncN    uint32
	wireN    int
	writerNo map[string]int
	names    map[int]string
	mu       sync.Mutex
}

// protocolOf alternates the runs between the first protocol with a configuration phase
// (764, 1.20.2) and the next one (765, 1.20.3): both sides of every "since 1.20.2" switch.
func protocolOf(n int) int {
	if n%2 == 1 {
		return 765
	}
	return 764
}

func newRig(tw emitter, writers []string) *rig { return newRigProto(tw, writers, 764) }

func newRigProto(tw emitter, writers []string, protoNo int) *rig {
	a, b := net.Pipe()
	conn, _ := netmc.NewMinecraftConn(context.Background(), a, proto.ServerBound,
		10*time.Second, 10*time.Second, -1, nil)
	idTimes := idPlayTitleTimes
	if protoNo == 765 {
		conn.SetProtocol(version.Minecraft_1_20_3.Protocol)
		idTimes = 0x64
	} else {
		conn.SetProtocol(version.Minecraft_1_20_2.Protocol)
	}
	conn.SetState(state.Play)
	r := &rig{idTimes: idTimes, tw: tw, conn: conn, far: b, sentinel: make(chan uint32, 64), eof: make(chan struct{}),
		writerNo: map[string]int{}, names: map[int]string{}}
	for i, w := range writers {
		r.writerNo[w] = i + 1
		r.names[i+1] = w
	}
	go r.readFar()
	return r
}

func readVarInt(br *bufio.Reader) (int, error) {
	var v, shift uint
	for i := 0; i < 5; i++ {
		b, err := br.ReadByte()
		if err != nil {
			return 0, err
		}
		v |= uint(b&0x7F) << shift
		if b&0x80 == 0 {
			return int(v), nil
		}
		shift += 7
	}
	return 0, fmt.Errorf("varint too long")
}

// readFar is the peer: it splits frames and decodes the three packet shapes by hand.
func (r *rig) readFar() {
	defer close(r.eof)
	br := bufio.NewReader(r.far)
	for {
		n, err := readVarInt(br)
		if err != nil {
			return
		}
		frame := make([]byte, n)
		if _, err := io.ReadFull(br, frame); err != nil {
			return
		}
		if len(frame) == 0 {
			r.tw.Emit(tracefmt.Rec{"ev": "wire", "pkt": "?empty", "kind": "?"})
			continue
		}
		id, body := int(frame[0]), frame[1:] // all ids used here are < 0x80: one byte
		switch {
		case id == idSentinel && len(body) == 4:
			r.sentinel <- binary.BigEndian.Uint32(body)
		case id == r.idTimes && len(body) == 12 && binary.BigEndian.Uint32(body[8:]) == timesMagic:
			w := int(binary.BigEndian.Uint32(body[0:]))
			seq := int(binary.BigEndian.Uint32(body[4:]))
			r.emitWire("P", w, seq, id)
		case (id == idPlayKeepAlive || id == idConfKeepAlive) && len(body) == 8:
			v := binary.BigEndian.Uint64(body)
			r.emitWire("K", int(v>>32), int(v&0xFFFFFFFF), id)
		default:
			r.tw.Emit(tracefmt.Rec{"ev": "wire", "pkt": fmt.Sprintf("?id%d.len%d", id, len(body)), "kind": "?"})
		}
	}
}

func (r *rig) emitWire(kind string, w, seq, id int) {
	r.mu.Lock()
	r.wireN++
	name := r.names[w]
	r.mu.Unlock()
	if name == "" {
		name = fmt.Sprintf("?w%d", w)
	}
	r.tw.Emit(tracefmt.Rec{"ev": "wire", "pkt": fmt.Sprintf("%s.%d", name, seq), "kind": kind, "id": id})
}

func (r *rig) mkPacket(writer string, seq int, kind string) proto.Packet {
	w := r.writerNo[writer]
	if kind == "P" {
		return &title.Times{FadeIn: w, Stay: seq, FadeOut: timesMagic}
	}
	return &packet.KeepAlive{RandomID: int64(w)<<32 | int64(seq)}
}

// write performs one WritePacket call and logs call/ret around it.
func (r *rig) write(thread, writer string, seq int, kind string) {
	r.writeHow(thread, writer, seq, kind, true)
}

// writeHow: WritePacket (flush = true) or BufferPacket (the next flush carries it out).
func (r *rig) writeHow(thread, writer string, seq int, kind string, flush bool) {
	p := r.mkPacket(writer, seq, kind)
	r.tw.Emit(tracefmt.Rec{"ev": "call", "thread": thread, "op": "write", "kind": kind,
		"pkt": fmt.Sprintf("%s.%d", writer, seq), "flush": flush})
	var err error
	if flush {
		err = r.conn.WritePacket(p)
	} else {
		err = r.conn.BufferPacket(p)
	}
	res, txt := "ok", ""
	if err != nil {
		res, txt = "fail", err.Error()
	}
	r.tw.Emit(tracefmt.Rec{"ev": "ret", "thread": thread, "res": res, "err": txt})
}

// stateOp performs enter / leave through the chosen API and logs call/ret.
func (r *rig) stateOp(thread, op string, outbound bool) {
	r.tw.Emit(tracefmt.Rec{"ev": "call", "thread": thread, "op": op, "kind": "", "pkt": "", "outbound": outbound})
	reg := state.Config
	if op == "leave" {
		reg = state.Play
	}
	if outbound {
		r.conn.SetOutboundState(reg)
	} else {
		r.conn.SetState(reg)
	}
	r.tw.Emit(tracefmt.Rec{"ev": "ret", "thread": thread, "res": "ok", "err": ""})
}

// sync pushes a marker through the connection and waits until the peer has seen
// it: everything flushed before it has then been decoded and logged.
func (r *rig) sync() bool {
	r.syncN++
	var payload [5]byte
	payload[0] = idSentinel
	binary.BigEndian.PutUint32(payload[1:], r.syncN)
	if err := r.conn.Write(payload[:]); err != nil {
		r.tw.Emit(tracefmt.Rec{"ev": "syncfail", "err": err.Error()})
		return false
	}
	select {
	case n := <-r.sentinel:
		if n != r.syncN {
			r.tw.Emit(tracefmt.Rec{"ev": "hung", "what": "wrong marker"})
			return false
		}
	case <-time.After(20 * time.Second):
		r.tw.Emit(tracefmt.Rec{"ev": "hung", "what": "marker never arrived"})
		return false
	}
	r.tw.Emit(tracefmt.Rec{"ev": "sync"})
	return true
}

// finish: sync, a final leave (so that anything still legitimately held comes out),
// sync, close, wait for the peer's EOF.
func (r *rig) finish() {
	ok := r.sync()
	r.stateOp("main", "leave", false)
	if ok {
		r.sync()
	}
	r.closeAndEnd()
}

func (r *rig) closeAndEnd() {
	r.tw.Emit(tracefmt.Rec{"ev": "call", "thread": "main", "op": "close", "kind": "", "pkt": ""})
	_ = r.conn.Close()
	r.tw.Emit(tracefmt.Rec{"ev": "ret", "thread": "main", "res": "ok", "err": ""})
	r.waitEOF()
	r.tw.Emit(tracefmt.Rec{"ev": "end"})
	_ = r.far.Close()
}

func (r *rig) waitEOF() bool {
	select {
	case <-r.eof:
		r.tw.Emit(tracefmt.Rec{"ev": "eof"})
		return true
	case <-time.After(20 * time.Second):
		r.tw.Emit(tracefmt.Rec{"ev": "hung", "what": "peer saw no EOF"})
		return false
	}
}

func sortedKeys(m map[string][]string) []string {
	var ks []string
	for k := range m {
		ks = append(ks, k)
	}
	sort.Strings(ks)
	return ks
}

// runSchedule forces one TLC schedule. Every model operation is its own sched
// thread ("w1#2" = second write of w1, "s#1" = first state change); operations of
// one model thread are chained so that program order also holds while draining.
// A write is two segments (up to the gate pq.readptr, then the rest), a leave with a
// queue to release is two (up to pq.release.begin, then the release), everything
// else is one.
func runSchedule(tw emitter, st *stats, n int, s schedule, step time.Duration, outbound bool) {
	writers := sortedKeys(s.Prog)
	tw.Emit(tracefmt.Rec{"ev": "reset", "cap": 1024, "n": n, "mode": "sched", "outbound": outbound, "prefill": s.Prefill,
		"protocol": protocolOf(n)})
	r := newRigProto(tw, append(append([]string{}, writers...), "m"), protocolOf(n))
	gates := []string{"pq.readptr", "pq.release.begin"}
	if s.Prefill {
		// the model starts in config with cap-1 packets held: get there, then also gate
		// between the queue's bound check and its push
		r.stateOp("main", "enter", false)
		for k := 1; k <= 1023; k++ {
			st.Packets++
			r.writeHow("main", "m", k, "P", false)
		}
		gates = append(gates, "pq.queue.checked")
	}
	c := sched.New(nil, gates...)
	c.Install()
	ops := map[string][]string{} // model thread -> sched thread names
	doneCh := map[string]chan struct{}{}
	chain := func(model string, k int, fn func(thread string)) {
		name := fmt.Sprintf("%s#%d", model, k)
		ops[model] = append(ops[model], name)
		var prev chan struct{}
		if k > 1 {
			prev = doneCh[model+fmt.Sprint(k-1)]
		}
		done := make(chan struct{})
		doneCh[model+fmt.Sprint(k)] = done
		c.Go(name, func() {
			defer close(done)
			if prev != nil {
				<-prev
			}
			fn(name)
		})
	}
	for _, w := range writers {
		for i, kind := range s.Prog[w] {
			w, i, kind := w, i, kind
			st.Packets++
			chain(w, i+1, func(thread string) { r.write(thread, w, i+1, kind) })
		}
	}
	for i, op := range s.Sops {
		op := op
		chain("s", i+1, func(thread string) { r.stateOp(thread, op, outbound) })
	}
	cur := map[string]int{}
	var steps []string
	for _, m := range s.Sched {
		k := cur[m]
		if k >= len(ops[m]) {
			steps = append(steps, m+":none")
			continue
		}
		name := ops[m][k]
		status := c.Step(name, step)
		if status == sched.Blocked {
			st.Blocked++
		}
		if status == sched.Done {
			cur[m] = k + 1
		}
		steps = append(steps, name+":"+string(status)+"@"+c.At(name))
	}
	finished := c.Drain(20 * time.Second)
	c.Uninstall()
	st.Schedules++
	if !finished {
		st.Unfinished++
		tw.Emit(tracefmt.Rec{"ev": "hung", "what": "a call never returned"})
		_ = r.conn.Close()
		_ = r.far.Close()
	} else {
		r.finish()
		for _, e := range c.Log {
			st.GateArrival[e[indexAt(e):]]++
		}
	}
	st.WireSeen += r.wireN
	if len(st.Samples) < 3 {
		st.Samples = append(st.Samples, map[string]any{"prog": s.Prog, "sops": s.Sops, "sched": s.Sched, "steps": steps})
	}
}

func indexAt(s string) int {
	for i := 0; i < len(s); i++ {
		if s[i] == '@' {
			return i + 1
		}
	}
	return 0
}

// Deterministic single-threaded scenarios (each op is a call/ret pair of thread "main").
func runScenarios(tw emitter, st *stats) {
	type op struct {
		do   string // "P" | "K" | "enter" | "leave" | "enterOut" | "leaveOut" | "sync"
		many int
	}
	scen := map[string][]op{
		// config packets go out at once, play packets only after leave, later play packets after them
		"immediate": {{"enter", 0}, {"K", 1}, {"sync", 0}, {"P", 1}, {"sync", 0}, {"K", 1}, {"sync", 0},
			{"leave", 0}, {"sync", 0}, {"P", 1}, {"K", 1}, {"sync", 0}},
		"order": {{"P", 2}, {"enter", 0}, {"P", 5}, {"K", 2}, {"P", 3}, {"leave", 0}, {"P", 2}, {"sync", 0},
			{"enter", 0}, {"P", 1}, {"leave", 0}, {"sync", 0}},
		"outbound": {{"enterOut", 0}, {"P", 3}, {"K", 1}, {"sync", 0}, {"leaveOut", 0}, {"sync", 0}, {"P", 1}, {"sync", 0}},
		"mixed-api": {{"enter", 0}, {"P", 2}, {"enterOut", 0}, {"P", 1}, {"leaveOut", 0}, {"sync", 0},
			{"enterOut", 0}, {"P", 2}, {"leave", 0}, {"sync", 0}},
		// config-valid packets still go out at once while 1023 / exactly 1024 packets are held (nothing
		// has overflowed); the 1025th held one closes the connection and later writes fail
		"overflow": {{"K", 1}, {"enter", 0}, {"P", 1023}, {"K", 1}, {"sync", 0}, {"P", 1}, {"K", 1}, {"sync", 0},
			{"P", 1}, {"K", 1}, {"P", 1}},
		// a full queue is still released completely, config-valid packets in between are not held up
		"full-then-leave": {{"enter", 0}, {"P", 1024}, {"K", 2}, {"sync", 0}, {"leave", 0}, {"sync", 0},
			{"enter", 0}, {"P", 3}, {"leave", 0}, {"sync", 0}},
	}
	var names []string
	for k := range scen {
		names = append(names, k)
	}
	sort.Strings(names)
	// every scenario on both protocols: 764 is the first one with a configuration phase
	var both []string
	for _, name := range names {
		both = append(both, name+"@764", name+"@765")
	}
	for i, full := range both {
		name := full[:len(full)-4]
		protoNo := 764
		if strings.HasSuffix(full, "@765") {
			protoNo = 765
		}
		tw.Emit(tracefmt.Rec{"ev": "reset", "cap": 1024, "n": i, "mode": "scenario", "name": full, "protocol": protoNo})
		r := newRigProto(tw, []string{"m"}, protoNo)
		seq := 0
		for _, o := range scen[name] {
			switch o.do {
			case "P", "K":
				for k := 0; k < o.many; k++ {
					seq++
					st.Packets++
					r.write("main", "m", seq, o.do)
				}
			case "enter", "leave":
				r.stateOp("main", o.do, false)
			case "enterOut":
				r.stateOp("main", "enter", true)
			case "leaveOut":
				r.stateOp("main", "leave", true)
			case "sync":
				r.sync()
			}
		}
		if name == "overflow" {
			// the connection must have been closed by the overflow: the peer sees EOF
			r.waitEOF()
			tw.Emit(tracefmt.Rec{"ev": "end"})
			_ = r.conn.Close()
			_ = r.far.Close()
		} else {
			r.finish()
		}
		st.WireSeen += r.wireN
		st.Scenarios++
	}
}

// Free-running stress without gates (meaningful under -race).
func runStress(tw emitter, st *stats, rng *rand.Rand, runs int) {
	for i := 0; i < runs; i++ {
		nw := 2 + rng.Intn(3)
		per := 5 + rng.Intn(20)
		toggles := 2 + rng.Intn(8)
		outbound := rng.Intn(3) == 0
		var writers []string
		for k := 0; k < nw; k++ {
			writers = append(writers, fmt.Sprintf("w%d", k+1))
		}
		tw.Emit(tracefmt.Rec{"ev": "reset", "cap": 1024, "n": i, "mode": "stress", "outbound": outbound})
		r := newRig(tw, writers)
		var wg sync.WaitGroup
		for wi, w := range writers {
			w := w
			// Only two writers send play-only packets, at most 6 each: the order in which
			// concurrently held packets were accepted is invisible until the next leave, so
			// the acceptor has to try every merge of them (2 x 6 -> at most 924 candidates).
			kinds := make([]string, per)
			nP := 0
			for k := range kinds {
				kinds[k] = "K"
				if wi < 2 && nP < 6 && rng.Intn(2) == 0 {
					kinds[k] = "P"
					nP++
				}
			}
			yield := rng.Intn(3)
			wg.Add(1)
			go func() {
				defer wg.Done()
				for k, kind := range kinds {
					r.write(w, w, k+1, kind) // thread name = writer
					for y := 0; y < yield; y++ {
						runtime.Gosched()
					}
				}
			}()
			st.Packets += per
		}
		pause := time.Duration(rng.Intn(200)) * time.Microsecond
		wg.Add(1)
		go func() {
			defer wg.Done()
			for k := 0; k < toggles; k++ {
				op := "enter"
				if k%2 == 1 {
					op = "leave"
				}
				r.stateOp("s", op, outbound)
				time.Sleep(pause)
			}
		}()
		wg.Wait()
		r.finish()
		st.WireSeen += r.wireN
		st.Stress++
	}
}

// runBurst: many writers hand play-only packets to the connection at the same time while
// it is in the configuration phase (BufferPacket, no flush in between), then leave.
func runBurst(tw emitter, n int, rng *rand.Rand) {
	nw := 4
	per := 40 + rng.Intn(40)
	rounds := 1 + rng.Intn(2)
	var writers []string
	for k := 0; k < nw; k++ {
		writers = append(writers, fmt.Sprintf("w%d", k+1))
	}
	tw.Emit(tracefmt.Rec{"ev": "reset", "cap": 1024, "n": n, "mode": "burst", "writers": nw, "per": per, "rounds": rounds})
	r := newRig(tw, writers)
	seq := 0
	for round := 0; round < rounds; round++ {
		r.stateOp("main", "enter", rng.Intn(3) == 0)
		start := make(chan struct{})
		var wg sync.WaitGroup
		for _, w := range writers {
			w := w
			base := seq
			wg.Add(1)
			go func() {
				defer wg.Done()
				<-start
				for k := 1; k <= per; k++ {
					r.writeHow(w, w, base+k, "P", false)
				}
			}()
		}
		close(start)
		wg.Wait()
		seq += per
		r.stateOp("main", "leave", rng.Intn(3) == 0)
		r.sync()
	}
	r.finish()
}

// TestBurstChild runs the bursts in a process of its own: a panic inside the queue must
// not take the harness down with it.
func TestBurstChild(t *testing.T) {
	if os.Getenv("C14_CHILD") != "1" {
		t.Skip("child only")
	}
	f, err := os.OpenFile(os.Getenv("C14_BURST_TRACE"), os.O_APPEND|os.O_CREATE|os.O_WRONLY, 0o644)
	if err != nil {
		t.Fatal(err)
	}
	defer f.Close()
	tw := &lineWriter{f: f}
	rng := rand.New(rand.NewSource(tracefmt.Seed()*7919 + 17))
	for i := 0; i < tracefmt.EnvInt("C14_BURSTS", 0); i++ {
		runBurst(tw, i, rng)
	}
}

// bursts re-executes this test binary for the burst runs and copies their history into tw.
func bursts(t *testing.T, tw *tracefmt.Writer, st *stats, n int) {
	if n <= 0 {
		return
	}
	path := filepath.Join(tracefmt.OutDir(), fmt.Sprintf("burst.%d.ndjson", os.Getpid()))
	_ = os.Remove(path)
	ctx, cancel := context.WithTimeout(context.Background(), 15*time.Minute)
	defer cancel()
	cmd := exec.CommandContext(ctx, os.Args[0], "-test.run=^TestBurstChild$", "-test.count=1", "-test.timeout=20m")
	cmd.Env = append(os.Environ(), "C14_CHILD=1", "C14_BURST_TRACE="+path, fmt.Sprintf("C14_BURSTS=%d", n))
	var ob bytes.Buffer
	cmd.Stdout, cmd.Stderr = &ob, &ob
	runErr := cmd.Run()
	recs, _ := tracefmt.ReadNDJSON[tracefmt.Rec](path)
	for _, r := range recs {
		if r["ev"] == "reset" {
			st.Bursts++
		}
		tw.Emit(r)
	}
	_ = os.Remove(path)
	if runErr == nil {
		return
	}
	out := ob.String()
	if strings.Contains(out, "DATA RACE") && !strings.Contains(out, "panic:") && !strings.Contains(out, "fatal error") {
		// all bursts ran; hand the race reports to the check through this test's output
		t.Errorf("race detector fired in the burst child:\n%s", out)
		return
	}
	if len(out) > 6000 {
		out = out[:3000] + "\n...\n" + out[len(out)-3000:]
	}
	st.BurstDied++
	tw.Emit(tracefmt.Rec{"ev": "died", "what": "burst child", "err": runErr.Error(), "output": out})
}

func TestSchedules(t *testing.T) {
	file := os.Getenv("VERIF_SCHED_FILE")
	if file == "" {
		file = "sched.json"
	}
	out := os.Getenv("VERIF_TRACE")
	if out == "" {
		out = "trace.ndjson"
	}
	b, err := os.ReadFile(filepath.Join(tracefmt.OutDir(), file))
	if err != nil {
		t.Fatal(err)
	}
	var scheds []schedule
	if err := json.Unmarshal(b, &scheds); err != nil {
		t.Fatal(err)
	}
	tw, err := tracefmt.Create(out)
	if err != nil {
		t.Fatal(err)
	}
	st := stats{GateArrival: map[string]int{}}
	step := time.Duration(tracefmt.EnvInt("VERIF_STEP_MS", 4)) * time.Millisecond
	rng := rand.New(rand.NewSource(tracefmt.Seed()))
	for i, s := range scheds {
		runSchedule(tw, &st, i, s, step, rng.Intn(4) == 0)
	}
	if tracefmt.EnvInt("VERIF_SCENARIOS", 1) != 0 {
		runScenarios(tw, &st)
	}
	runStress(tw, &st, rng, tracefmt.EnvInt("VERIF_STRESS", 0))
	bursts(t, tw, &st, tracefmt.EnvInt("VERIF_BURST", 0))
	st.Events = tw.N
	if err := tw.Close(); err != nil {
		t.Fatal(err)
	}
	if err := tracefmt.WriteJSON(out+".stats.json", st); err != nil {
		t.Fatal(err)
	}
}
