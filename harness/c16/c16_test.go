//go:build verif

// C16 harness: forces TLC-generated schedules (interleavings of the gate points of
// concurrent Player.CreateConnectionRequest(..).Connect / ConnectWithIndication calls,
// scripted backend behaviours and a kick from the current server) on a live proxy with
// three scripted fake backends and a fake client at 763 or 765, and records calls, returns,
// the proxy's linearization events (verifhook) and observations at quiescence.
// Switch_Trace.tla judges; nothing here is an oracle.
package c16

import (
	"context"
	"encoding/json"
	"fmt"
	"os"
	"path/filepath"
	"sort"
	"strings"
	"sync"
	"testing"
	"time"

	"github.com/robinbraemer/event"

	"go.minekube.com/gate/pkg/edition/java/config"
	"go.minekube.com/gate/pkg/edition/java/proxy"

	"verif/harness/rig"
	"verif/harness/sched"
	"verif/harness/tracefmt"
)

type req struct {
	S   string `json:"s"`
	Api string `json:"api"`
	Beh string `json:"beh"`
}
type sstep struct {
	K string `json:"k"`
	T string `json:"t"`
}
type schedule struct {
	Prog  map[string]req `json:"prog"`
	Sched []sstep        `json:"sched"`
	Ver   int            `json:"ver"`
	First bool           `json:"first"` // the player's first connection, acknowledgement/JoinGame race forced
}

var servers = []string{"s1", "s2", "s3"}
var tryList = []string{"s1", "s3"}

type world struct {
	r   *rig.Rig
	sbs map[string]*rig.ScriptedBackend
	gate *rig.DialGate

	mu     sync.Mutex
	player string         // the run's player name
	expect map[string]int // server -> connections of this player that shall park
	free   map[string][]string // free run: server -> behaviours for the next connections
	first  *firstJoin          // armed first-connection run of w.player
	brk    *firstJoin          // armed hold at sw.switching (client breaks while a switch completes)
	oldc   *firstJoin          // armed hold at cc.disconnecting (the old backend closed by itself)
	log    []tracefmt.Rec
	live   int // attempts started and not ended, from the hook events
	hooks  []string // names of the switch hooks this run's player hit
}

func (w *world) add(r tracefmt.Rec) { w.mu.Lock(); w.log = append(w.log, r); w.mu.Unlock() }

func kvMap(kv []any) map[string]any {
	m := map[string]any{}
	for i := 0; i+1 < len(kv); i += 2 {
		m[fmt.Sprint(kv[i])] = kv[i+1]
	}
	return m
}

// firstJoin drives the player's first connection request from the harness (inside the
// PlayerChooseInitialServerEvent) and holds the proxy between the FinishedUpdate
// acknowledgement to the backend and the installation of the next backend handler.
type firstJoin struct {
	ctl     *sched.Controller
	parked  chan struct{} // the proxy reached cfg.acked
	release chan struct{}
	done    chan struct{} // the request returned
	used    bool
}

// onEvent turns the proxy's switch hooks of this run's player into trace lines.
func (w *world) onEvent(thread, name string, kv []any) {
	if name == "cfg.acked" {
		m := kvMap(kv)
		w.mu.Lock()
		f := w.first
		hold := f != nil && !f.used && m["player"] == w.player
		if hold {
			f.used = true
			w.log = append(w.log, tracefmt.Rec{"ev": "dial", "who": thread, "s": fmt.Sprint(m["server"]), "phase": "acked-not-installed"})
		}
		w.mu.Unlock()
		if hold {
			close(f.parked)
			select {
			case <-f.release:
			case <-time.After(20 * time.Second):
			}
		}
		return
	}
	if name == "cc.disconnecting" {
		// a connection's socket is closed, its handler not yet told: held for the one connection
		// the schedule has just made the current backend close
		w.mu.Lock()
		f := w.oldc
		hold := f != nil && !f.used && thread == "?"
		if hold {
			f.used = true
		}
		w.mu.Unlock()
		if hold {
			close(f.parked)
			select {
			case <-f.release:
			case <-time.After(20 * time.Second):
			}
		}
		return
	}
	if !strings.HasPrefix(name, "sw.") {
		return
	}
	m := kvMap(kv)
	if name == "sw.switching" {
		w.mu.Lock()
		f := w.brk
		hold := f != nil && !f.used && m["player"] == w.player
		if hold {
			f.used = true
		}
		w.mu.Unlock()
		if hold {
			close(f.parked)
			select {
			case <-f.release:
			case <-time.After(20 * time.Second):
			}
		}
		return
	}
	w.mu.Lock()
	defer w.mu.Unlock()
	if m["player"] != w.player {
		return
	}
	w.hooks = append(w.hooks, name)
	srv := func(k string) string {
		s, _ := m[k].(string)
		if s == "" {
			return "none"
		}
		return s
	}
	switch name {
	case "sw.check":
		w.log = append(w.log, tracefmt.Rec{"ev": "chk", "who": thread, "s": srv("server"), "res": m["res"]})
	case "sw.setInFlight":
		if srv("server") == "none" {
			w.log = append(w.log, tracefmt.Rec{"ev": "clear", "who": thread, "had": srv("had")})
		} else {
			w.live++
			w.log = append(w.log, tracefmt.Rec{"ev": "start", "who": thread, "s": srv("server"), "had": srv("had")})
		}
	case "sw.attemptEnd":
		w.live--
		w.log = append(w.log, tracefmt.Rec{"ev": "end", "who": thread, "s": srv("server"), "was": m["was"]})
	case "sw.setConnected":
		w.log = append(w.log, tracefmt.Rec{"ev": "conn", "s": srv("server")})
	}
}

func (w *world) attemptsOf(server string) []*rig.Attempt {
	var out []*rig.Attempt
	w.mu.Lock()
	pl := w.player
	w.mu.Unlock()
	for _, at := range w.sbs[server].Attempts() {
		if at.Player == pl {
			out = append(out, at)
		}
	}
	return out
}

// observe reads the player's state through the public API and the fake endpoints.
func (w *world) observe(pl proxy.Player, ac *rig.AutoClient) tracefmt.Rec {
	cur := "none"
	if cs := pl.CurrentServer(); cs != nil {
		cur = cs.Server().ServerInfo().Name()
	}
	open, ids, lists := []string{}, []string{}, []string{}
	for _, s := range servers {
		for _, at := range w.attemptsOf(s) {
			if _, closed := at.State(); !closed {
				open = append(open, s)
				ids = append(ids, fmt.Sprintf("%s#%d", s, at.N))
			}
		}
		found := false
		w.r.P.Server(s).Players().Range(func(p proxy.Player) bool {
			if p.ID() == pl.ID() {
				found = true
			}
			return !found
		})
		if found {
			lists = append(lists, s)
		}
	}
	return tracefmt.Rec{"ev": "obs", "current": cur, "alive": !ac.Closed(), "open": open, "openids": ids, "lists": lists}
}

func sameObs(a, b tracefmt.Rec) bool {
	ja, _ := json.Marshal(a)
	jb, _ := json.Marshal(b)
	return string(ja) == string(jb)
}

// settled: the observation is what the property wants at quiescence (used only to decide how
// long to keep waiting; the recorded observation is judged by the spec whatever it is)
func settled(o tracefmt.Rec) bool {
	open, lists := o["open"].([]string), o["lists"].([]string)
	if o["alive"] == false {
		return len(open) == 0 && len(lists) == 0
	}
	if o["current"] == "none" {
		return len(open) == 0 && len(lists) == 0
	}
	return len(open) == 1 && open[0] == o["current"] && len(lists) == 1 && lists[0] == o["current"]
}

// quiesce waits until no attempt is under way and the observation has stopped changing,
// giving the proxy a generous time to reach a consistent state.
func (w *world) quiesce(pl proxy.Player, ac *rig.AutoClient, patience time.Duration) tracefmt.Rec {
	deadline := time.Now().Add(patience)
	var last tracefmt.Rec
	stable := 0
	for {
		w.mu.Lock()
		live := w.live
		w.mu.Unlock()
		o := w.observe(pl, ac)
		if last != nil && sameObs(o, last) {
			stable++
		} else {
			stable = 0
		}
		last = o
		if live <= 0 && stable >= 3 && settled(o) {
			return o
		}
		if time.Now().After(deadline) {
			return o
		}
		time.Sleep(15 * time.Millisecond)
	}
}

func behCmd(beh string) string {
	switch beh {
	case "stall":
		return "stall:120"
	case "accept", "kicklogin", "kickmid", "hang":
		return beh
	case "cancel", "cancelmid":
		return "hang" // free run: nobody cancels, the request runs into its (short) deadline
	case "refuse":
		return "drop" // the backend closes the connection without answering the login
	}
	return "accept"
}

type stats struct {
	Runs       int            `json:"runs"`
	Diverged   int            `json:"diverged"`
	Unfinished int            `json:"unfinished"`
	Gates      map[string]int `json:"gate_arrivals"`
	Events     map[string]int `json:"events"`
	Statuses   map[string]int `json:"statuses"`
	Overlaps   int            `json:"runs_with_overlapping_calls"`
	Samples    []any          `json:"samples"`
	Skipped    []string       `json:"skipped"`
	Slowest    []string       `json:"slowest"`
	FirstRuns  int            `json:"first_connection_runs"`
	FirstHeld  int            `json:"first_connection_runs_held_at_ack"`
	BreakHeld  int            `json:"runs_with_client_break_held_at_switch_completion"`
	Cancels    int            `json:"request_contexts_cancelled"`
	OldHeld    int            `json:"runs_with_old_backend_teardown_held_during_switch"`
	TotalMs    int64          `json:"total_ms"`
}

func TestSchedules(t *testing.T) {
	b, err := os.ReadFile(filepath.Join(tracefmt.OutDir(), "sched.json"))
	if err != nil {
		t.Fatal(err)
	}
	var scheds []schedule
	if err := json.Unmarshal(b, &scheds); err != nil {
		t.Fatal(err)
	}
	w := &world{sbs: map[string]*rig.ScriptedBackend{}, expect: map[string]int{}, free: map[string][]string{}}
	bs := map[string]*rig.Backend{}
	for _, n := range servers {
		n := n
		sb, err := rig.NewScriptedBackend(n)
		if err != nil {
			t.Fatal(err)
		}
		sb.Auto = func(at *rig.Attempt) string {
			w.mu.Lock()
			defer w.mu.Unlock()
			if at.Player == w.player && w.expect[n] > 0 {
				w.expect[n]--
				return "" // park: the schedule decides
			}
			if at.Player == w.player && len(w.free[n]) > 0 {
				cmd := w.free[n][0]
				w.free[n] = w.free[n][1:]
				return cmd
			}
			return "accept" // initial join, fallbacks
		}
		defer sb.Close()
		w.sbs[n], bs[n] = sb, sb.Backend
	}
	mgr := event.New()
	event.Subscribe(mgr, 0, func(e *proxy.PlayerChooseInitialServerEvent) {
		w.mu.Lock()
		f := w.first
		mine := f != nil && e.Player().Username() == w.player
		w.mu.Unlock()
		if !mine {
			return
		}
		// the harness makes the player's first connection request itself, through the public API
		defer close(f.done)
		defer f.ctl.Adopt("t0")()
		ctx, cancel := context.WithTimeout(context.Background(), 4*time.Second)
		defer cancel()
		w.add(tracefmt.Rec{"ev": "call", "t": "t0", "s": "s1", "api": "connect"})
		res, err := e.Player().CreateConnectionRequest(w.r.P.Server("s1")).Connect(ctx)
		status, detail, beh := "fail", "", "accept"
		switch {
		case err != nil:
			detail = "error: " + err.Error()
		case res.Status() == proxy.SuccessConnectionStatus:
			status, beh = "success", ""
		default:
			detail = fmt.Sprint("status ", res.Status())
		}
		w.add(tracefmt.Rec{"ev": "ret", "t": "t0", "status": status, "beh": beh, "detail": detail})
	})
	r, err := rig.New(rig.Options{Backends: bs, Try: tryList, EventMgr: mgr, Mutate: func(c *config.Config) {
		c.FailoverOnUnexpectedServerDisconnect = true
	}})
	if err != nil {
		t.Fatal(err)
	}
	defer r.Close()
	w.r = r
	w.gate = rig.NewDialGate()
	if err := r.GateServers(w.gate); err != nil {
		t.Fatal(err)
	}
	tw, err := tracefmt.Create("trace.ndjson")
	if err != nil {
		t.Fatal(err)
	}
	st := stats{Gates: map[string]int{}, Events: map[string]int{}, Statuses: map[string]int{}}
	seed := tracefmt.Seed()
	for i, sc := range scheds {
		t0 := time.Now()
		var recs []tracefmt.Rec
		var note string
		var info runInfo
		if sc.First {
			recs, note, info = runFirstJoin(w, i, sc, seed)
			st.FirstRuns++
		} else {
			recs, note, info = runSchedule(w, i, sc, seed)
		}
		if d := time.Since(t0); d > 1500*time.Millisecond && len(st.Slowest) < 12 {
			st.Slowest = append(st.Slowest, fmt.Sprintf("schedule %d: %v", i, d.Round(time.Millisecond)))
		}
		st.TotalMs += time.Since(t0).Milliseconds()
		if note != "" {
			st.Skipped = append(st.Skipped, fmt.Sprintf("schedule %d: %s", i, note))
			continue
		}
		st.Runs++
		if info.diverged {
			st.Diverged++
		}
		if info.unfinished {
			st.Unfinished++
		}
		if info.overlap {
			st.Overlaps++
		}
		if info.firstHeld {
			st.FirstHeld++
		}
		if info.breakHeld {
			st.BreakHeld++
		}
		st.Cancels += info.cancels
		if info.oldHeld {
			st.OldHeld++
		}
		for _, g := range info.gates {
			st.Gates[g]++
		}
		for _, rc := range recs {
			st.Events[fmt.Sprint(rc["ev"])]++
			if rc["ev"] == "ret" {
				st.Statuses[fmt.Sprint(rc["status"])]++
			}
			tw.Emit(rc)
		}
		if len(st.Samples) < 2 && len(sc.Prog) > 1 {
			st.Samples = append(st.Samples, map[string]any{"schedule": sc, "trace": recs})
		}
	}
	if err := tw.Close(); err != nil {
		t.Fatal(err)
	}
	tracefmt.WriteJSON("stats.json", st)
}

type runInfo struct {
	diverged, unfinished, overlap, firstHeld, breakHeld, oldHeld bool
	cancels                                             int
	gates                         []string
}

func runSchedule(w *world, idx int, sc schedule, seed int64) (recs []tracefmt.Rec, note string, info runInfo) {
	r := w.r
	name := fmt.Sprintf("w%d_%d", seed%1000, idx)
	w.mu.Lock()
	w.player, w.log, w.live, w.hooks, w.brk, w.oldc = name, nil, 0, nil, nil, nil
	for k := range w.expect {
		delete(w.expect, k)
	}
	for k := range w.free {
		delete(w.free, k)
	}
	w.mu.Unlock()
	c, err := r.NewClient(sc.Ver)
	if err != nil {
		return nil, "dial: " + err.Error(), info
	}
	defer c.Close()
	c.Timeout = 30 * time.Second
	if err := c.JoinFullyAny("localhost", name); err != nil {
		return nil, "join: " + err.Error(), info
	}
	ac := c.Auto()
	var pl proxy.Player
	if !rig.WaitFor(30*time.Second, func() bool {
		pl = r.P.PlayerByName(name)
		return pl != nil && pl.CurrentServer() != nil
	}) {
		return nil, "player never reached its first server", info
	}
	defer func() {
		c.Close()
		ac.Wait(5 * time.Second)
		rig.WaitFor(10*time.Second, func() bool { return r.P.PlayerByName(name) == nil })
		w.mu.Lock()
		w.player = ""
		w.mu.Unlock()
	}()
	init := w.quiesce(pl, ac, 10*time.Second)
	if init["current"] != "s1" || !settled(init) {
		return nil, fmt.Sprintf("unexpected initial state %v", init), info
	}
	w.add(tracefmt.Rec{"ev": "reset", "cfg": sc.Ver >= rig.P1_20_2, "init": "s1", "fallbacks": tryList, "ver": sc.Ver, "n": idx})
	w.add(init)

	ctl := sched.New(nil, "sw.checked", "sw.reset", "sw.failed")
	ctl.OnEvent = w.onEvent
	ctl.Install()
	defer ctl.Uninstall()

	var dmu sync.Mutex
	done := map[string]bool{}
	cancels := map[string]context.CancelFunc{}
	quit := false
	started := map[string]bool{}
	attemptOf := map[string]*rig.Attempt{}
	threads := make([]string, 0, len(sc.Prog))
	for tn := range sc.Prog {
		threads = append(threads, tn)
	}
	sort.Strings(threads)
	for _, tn := range threads {
		tn, rq := tn, sc.Prog[tn]
		ctl.Go(tn, func() {
			defer func() { dmu.Lock(); done[tn] = true; dmu.Unlock() }()
			if dmu.Lock(); quit {
				dmu.Unlock()
				return // requests not yet made when the client quit are not made
			}
			dmu.Unlock()
			d := 8 * time.Second
			if rq.Beh == "hang" {
				d = 900 * time.Millisecond
			}
			if rq.Beh == "cancel" || rq.Beh == "cancelmid" {
				d = 3 * time.Second // the schedule cancels long before
			}
			ctx, cancel := context.WithTimeout(context.Background(), d)
			defer cancel()
			dmu.Lock()
			cancels[tn] = cancel
			dmu.Unlock()
			target := r.P.Server(rq.S)
			w.add(tracefmt.Rec{"ev": "call", "t": tn, "s": rq.S, "api": rq.Api})
			status, detail := "fail", ""
			if rq.Api == "connect" {
				res, err := pl.CreateConnectionRequest(target).Connect(ctx)
				switch {
				case err != nil:
					detail = "error: " + err.Error()
				case res.Status() == proxy.SuccessConnectionStatus:
					status = "success"
				case res.Status() == proxy.AlreadyConnectedConnectionStatus:
					status = "already"
				case res.Status() == proxy.InProgressConnectionStatus:
					status = "inprogress"
				case res.Status() == proxy.ServerDisconnectedConnectionStatus:
					detail = "server disconnected"
				default:
					detail = "canceled"
				}
			} else {
				if pl.CreateConnectionRequest(target).ConnectWithIndication(ctx) {
					status = "success"
				} else {
					// the indication API does not say why: told apart below from the check events
					detail = "not successful"
				}
			}
			w.mu.Lock()
			if rq.Api == "indication" && status == "fail" {
				// a request the proxy only looked at (never started) was a rejection
				chk, startedAttempt := "", false
				for _, rc := range w.log {
					if rc["who"] == tn && rc["ev"] == "chk" {
						chk = fmt.Sprint(rc["res"])
					}
					if rc["who"] == tn && rc["ev"] == "start" {
						startedAttempt = true
					}
				}
				if !startedAttempt && (chk == "already" || chk == "inprogress") {
					status = chk
				}
			}
			beh := ""
			if status == "fail" {
				beh = rq.Beh
			}
			w.log = append(w.log, tracefmt.Rec{"ev": "ret", "t": tn, "status": status, "beh": beh, "detail": detail})
			w.mu.Unlock()
		})
	}

	isDone := func(tn string) bool { dmu.Lock(); defer dmu.Unlock(); return done[tn] }
	busy := func() bool {
		for _, tn := range threads {
			if started[tn] && !isDone(tn) {
				return true
			}
		}
		return false
	}
	parkedAttempt := func(server string) *rig.Attempt {
		for _, at := range w.attemptsOf(server) {
			if s, _ := at.State(); s == "login" {
				taken := false
				for _, a := range attemptOf {
					if a == at {
						taken = true
					}
				}
				if !taken {
					return at
				}
			}
		}
		return nil
	}
	const patience = 6 * time.Second
	dialing := map[string]bool{}
	// releaseDial lets the held dial of tn's attempt complete and waits for its connection to
	// park at the backend (or for the request to end some other way)
	releaseDial := func(tn string) {
		rq := sc.Prog[tn]
		dialing[tn] = false
		w.add(tracefmt.Rec{"ev": "dial", "who": tn, "s": rq.S, "phase": "released"})
		w.gate.Release(name, rq.S)
		rig.WaitFor(patience, func() bool {
			if a := parkedAttempt(rq.S); a != nil {
				attemptOf[tn] = a
				return true
			}
			return isDone(tn) || ctl.At(tn) != ""
		})
	}
	dirty := false
	maybeObserve := func() {
		if dirty && !busy() {
			w.add(w.quiesce(pl, ac, patience))
			dirty = false
		}
	}
	for _, stp := range sc.Sched {
		switch stp.K {
		case "t":
			tn := stp.T
			at := ctl.At(tn)
			if at == "" || isDone(tn) {
				info.diverged = true
				continue
			}
			rq := sc.Prog[tn]
			dirty = true
			if at == "start" {
				if busy() {
					info.overlap = true
				}
				started[tn] = true
			}
			if at == "sw.checked" {
				w.gate.Hold(name, rq.S) // the dial itself is held: no backend connection yet
				w.mu.Lock()
				w.expect[rq.S]++
				w.mu.Unlock()
			}
			ctl.Step(tn, 15*time.Millisecond)
			// wait for the segment to end: parked at the next gate, returned, or (after
			// sw.checked) blocked in the held dial
			rig.WaitFor(patience, func() bool {
				if isDone(tn) {
					return true
				}
				if g := ctl.At(tn); g != "" && !(g == at && at != "start") {
					return true
				}
				return at == "sw.checked" && w.gate.Parked(name, rq.S)
			})
			if at == "sw.checked" {
				if w.gate.Parked(name, rq.S) {
					dialing[tn] = true
					w.add(tracefmt.Rec{"ev": "dial", "who": tn, "s": rq.S, "phase": "held"})
				} else {
					w.gate.Unhold(name, rq.S)
					w.mu.Lock()
					if w.expect[rq.S] > 0 {
						w.expect[rq.S]-- // the request did not dial after all
					}
					w.mu.Unlock()
				}
			}
		case "d":
			tn := stp.T
			if !dialing[tn] {
				info.diverged = true
				continue
			}
			releaseDial(tn)
		case "b":
			tn := stp.T
			if dialing[tn] {
				releaseDial(tn) // the schedule skipped the dial step
			}
			a := attemptOf[tn]
			if a == nil {
				info.diverged = true // rejected, or never got that far
				continue
			}
			if beh := sc.Prog[tn].Beh; beh == "cancel" || beh == "cancelmid" {
				// the backend stays silent (in login, or -- legacy clients -- after its login success);
				// the caller cancels the request context: the call has to come back
				if beh == "cancelmid" && sc.Ver < rig.P1_20_2 {
					if !a.Do("loginok") {
						info.diverged = true
						continue
					}
					time.Sleep(40 * time.Millisecond) // let the proxy get past the login success
				}
				dmu.Lock()
				cancel := cancels[tn]
				dmu.Unlock()
				if cancel == nil {
					info.diverged = true
					continue
				}
				w.add(tracefmt.Rec{"ev": "cancel", "t": tn, "phase": beh})
				info.cancels++
				cancel()
				if s, _ := a.State(); s == "login" {
					go a.Do("hang") // the parked backend connection starts reading, so it notices a close
				}
				if !rig.WaitFor(patience, func() bool { return isDone(tn) || ctl.At(tn) != "" }) {
					// 6 s after its context was cancelled the call is still blocked
					w.add(tracefmt.Rec{"ev": "stuck", "t": tn})
				}
				continue
			}
			if !a.Do(behCmd(sc.Prog[tn].Beh)) {
				info.diverged = true
				continue
			}
			// the backend acts; the calling thread wakes up and parks at sw.reset (or returns)
			rig.WaitFor(patience, func() bool { return isDone(tn) || ctl.At(tn) != "" })
		case "o":
			// the destination accepts while the current backend closes its connection by itself; the
			// proxy's teardown of that connection is held between socket close and Disconnected()
			tn := stp.T
			if dialing[tn] {
				releaseDial(tn)
			}
			a := attemptOf[tn]
			o := w.observe(pl, ac)
			cur, _ := o["current"].(string)
			var joined *rig.Attempt
			if cur != "none" {
				for _, at := range w.attemptsOf(cur) {
					if st, closed := at.State(); st == "joined" && !closed {
						joined = at
					}
				}
			}
			if a == nil || joined == nil {
				info.diverged = true
				continue
			}
			f := &firstJoin{parked: make(chan struct{}), release: make(chan struct{})}
			w.mu.Lock()
			w.oldc = f
			w.mu.Unlock()
			dirty = true
			w.add(tracefmt.Rec{"ev": "dial", "who": tn, "s": cur, "phase": "current-backend-closes-by-itself"})
			joined.Do("close")
			select {
			case <-f.parked:
				info.oldHeld = true
			case <-time.After(2 * time.Second):
			}
			if a.Do("accept") {
				rig.WaitFor(patience, func() bool { return isDone(tn) || ctl.At(tn) != "" })
			} else {
				info.diverged = true
			}
			close(f.release)
			w.mu.Lock()
			w.oldc = nil
			w.mu.Unlock()
		case "x":
			// the destination accepts; the client's connection breaks while the proxy completes
			// the switch (held at sw.switching: old backend detached, client not yet told)
			tn := stp.T
			if dialing[tn] {
				releaseDial(tn)
			}
			a := attemptOf[tn]
			dmu.Lock()
			already := quit
			dmu.Unlock()
			if a == nil || already {
				info.diverged = true
				continue
			}
			f := &firstJoin{parked: make(chan struct{}), release: make(chan struct{})}
			w.mu.Lock()
			w.brk = f
			w.mu.Unlock()
			dirty = true
			if !a.Do("accept") {
				info.diverged = true
				close(f.release)
				continue
			}
			select {
			case <-f.parked:
				info.breakHeld = true
			case <-time.After(800 * time.Millisecond):
				// no such point on this path (1.20.2+ clients left the old backend earlier): the
				// client simply breaks now
			}
			dmu.Lock()
			quit = true
			dmu.Unlock()
			w.add(tracefmt.Rec{"ev": "quit", "during": "switch-completion"})
			c.Close()
			rig.WaitFor(patience, func() bool { return r.P.PlayerByName(name) == nil })
			close(f.release)
			w.mu.Lock()
			w.brk = nil
			w.mu.Unlock()
			rig.WaitFor(patience, func() bool { return isDone(tn) || ctl.At(tn) != "" })
		case "quit":
			dmu.Lock()
			already := quit
			quit = true
			dmu.Unlock()
			if already {
				continue
			}
			dirty = true
			w.add(tracefmt.Rec{"ev": "quit"})
			c.Close()
			// the proxy notices on its own goroutine: wait until it has torn the player down
			rig.WaitFor(patience, func() bool { return r.P.PlayerByName(name) == nil })
		case "kick":
			o := w.observe(pl, ac)
			cur, _ := o["current"].(string)
			var joined *rig.Attempt
			if cur != "none" {
				for _, at := range w.attemptsOf(cur) {
					if s, closed := at.State(); s == "joined" && !closed {
						joined = at
					}
				}
			}
			if joined == nil {
				info.diverged = true
				continue
			}
			dirty = true
			w.add(tracefmt.Rec{"ev": "kick", "server": cur})
			joined.Do("kickplay")
			// the proxy reacts on its own goroutines: wait until it has visibly left that connection
			rig.WaitFor(patience, func() bool { _, closed := joined.State(); return closed })
			time.Sleep(20 * time.Millisecond)
		}
		maybeObserve()
	}
	// free run: release every thread; connections parked by the schedule, and the ones the
	// remaining requests still open, behave as scripted; anything else (fallbacks) is accepted
	w.gate.ReleaseAll(name)
	w.mu.Lock()
	for k := range w.expect {
		delete(w.expect, k)
	}
	for _, tn := range threads {
		if attemptOf[tn] == nil && !isDone(tn) {
			w.free[sc.Prog[tn].S] = append(w.free[sc.Prog[tn].S], behCmd(sc.Prog[tn].Beh))
		}
	}
	w.mu.Unlock()
	for _, tn := range threads {
		started[tn] = true
		if a := attemptOf[tn]; a != nil {
			if s, _ := a.State(); s == "login" {
				go a.Do(behCmd(sc.Prog[tn].Beh))
			}
		}
	}
	for _, s := range servers { // parked but never assigned (the wait for it timed out)
		for _, a := range w.attemptsOf(s) {
			if st, _ := a.State(); st == "login" {
				taken := false
				for _, x := range attemptOf {
					taken = taken || x == a
				}
				if !taken {
					go a.Do("accept")
				}
			}
		}
	}
	if ctl.Drain(12 * time.Second) {
		w.add(w.quiesce(pl, ac, patience))
	} else {
		// a call did not return (request contexts expire after 8 s): the property does not speak
		// about termination, so this is counted, not judged; there is no quiescent point to observe
		info.unfinished = true
	}
	w.mu.Lock()
	info.gates = append(info.gates, w.hooks...)
	recs = append([]tracefmt.Rec(nil), w.log...)
	w.mu.Unlock()
	return recs, "", info
}

// runFirstJoin: a 1.20.2+ player's first connection request, made by the harness inside the
// choose-initial-server event. The proxy is held right after it has written the FinishedUpdate
// acknowledgement to the backend; the fake backend answers that with JoinGame at once; the hold
// ends when the client has seen JoinGame (the proxy handled it before installing the handler
// that waits for it) or after a grace period (the proxy does not read ahead).
func runFirstJoin(w *world, idx int, sc schedule, seed int64) (recs []tracefmt.Rec, note string, info runInfo) {
	r := w.r
	name := fmt.Sprintf("w%d_%d", seed%1000, idx)
	ctl := sched.New(nil, "no.such.gate") // events only: nothing parks
	ctl.OnEvent = w.onEvent
	f := &firstJoin{ctl: ctl, parked: make(chan struct{}), release: make(chan struct{}), done: make(chan struct{})}
	w.mu.Lock()
	w.player, w.log, w.live, w.first = name, nil, 0, f
	for k := range w.expect {
		delete(w.expect, k)
	}
	for k := range w.free {
		delete(w.free, k)
	}
	w.log = append(w.log, tracefmt.Rec{"ev": "reset", "cfg": sc.Ver >= rig.P1_20_2, "init": "none", "fallbacks": tryList, "ver": sc.Ver, "n": idx, "first": true})
	w.mu.Unlock()
	ctl.Install()
	defer ctl.Uninstall()
	c, err := r.NewClient(sc.Ver)
	if err != nil {
		return nil, "dial: " + err.Error(), info
	}
	defer func() {
		c.Close()
		rig.WaitFor(10*time.Second, func() bool { return r.P.PlayerByName(name) == nil })
		w.mu.Lock()
		w.player, w.first = "", nil
		w.mu.Unlock()
	}()
	c.Timeout = 30 * time.Second
	joined := make(chan error, 1)
	go func() { joined <- c.JoinFullyAny("localhost", name) }()
	var jerr error
	gotJoin := false
	select {
	case <-f.parked:
		info.firstHeld = true
		select {
		case jerr = <-joined: // the client has JoinGame although the next handler is not installed yet
			gotJoin = true
		case <-time.After(800 * time.Millisecond):
		}
		close(f.release)
	case jerr = <-joined:
		gotJoin = true
		close(f.release)
	case <-time.After(20 * time.Second):
		close(f.release)
		return nil, "the first connection never reached the acknowledgement", info
	}
	select {
	case <-f.done:
	case <-time.After(12 * time.Second):
		info.unfinished = true
	}
	if !gotJoin {
		select {
		case jerr = <-joined:
		case <-time.After(20 * time.Second):
			return nil, "client never saw JoinGame", info
		}
	}
	if jerr != nil {
		return nil, "join: " + jerr.Error(), info
	}
	ac := c.Auto()
	defer ac.Wait(5 * time.Second)
	pl := r.P.PlayerByName(name)
	if pl == nil {
		return nil, "player not registered", info
	}
	if !info.unfinished {
		w.add(w.quiesce(pl, ac, 8*time.Second))
	}
	w.mu.Lock()
	recs = append([]tracefmt.Rec(nil), w.log...)
	w.mu.Unlock()
	return recs, "", info
}
