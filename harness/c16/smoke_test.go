//go:build verif

package c16

import (
	"context"
	"testing"
	"time"

	"verif/harness/rig"
)

func TestSmoke(t *testing.T) {
	for _, proto := range []int{rig.P1_20, rig.P1_20_3} {
		bs := map[string]*rig.Backend{}
		sbs := map[string]*rig.ScriptedBackend{}
		for _, n := range []string{"s1", "s2", "s3"} {
			sb, err := rig.NewScriptedBackend(n)
			if err != nil {
				t.Fatal(err)
			}
			sb.Auto = func(at *rig.Attempt) string { return "accept" }
			bs[n], sbs[n] = sb.Backend, sb
		}
		r, err := rig.New(rig.Options{Backends: bs, Try: []string{"s1", "s3"}})
		if err != nil {
			t.Fatal(err)
		}
		c, err := r.NewClient(proto)
		if err != nil {
			t.Fatal(err)
		}
		if err := c.JoinFullyAny("localhost", "Alice"); err != nil {
			t.Fatalf("proto %d: join: %v", proto, err)
		}
		a := c.Auto()
		pl := r.P.PlayerByName("Alice")
		rig.WaitFor(5*time.Second, func() bool { return pl.CurrentServer() != nil })
		for _, target := range []string{"s2", "s2", "s3", "s1"} {
			ctx, cancel := context.WithTimeout(context.Background(), 5*time.Second)
			res, err := pl.CreateConnectionRequest(r.P.Server(target)).Connect(ctx)
			cancel()
			st, joins, reconfs, kicked, closed := a.Snapshot()
			cur := "none"
			if cs := pl.CurrentServer(); cs != nil {
				cur = cs.Server().ServerInfo().Name()
			}
			if err != nil {
				t.Logf("proto %d -> %s: err %v", proto, target, err)
			} else {
				t.Logf("proto %d -> %s: status %d cur=%s client(state=%s joins=%d reconfs=%d kicked=%v closed=%v)", proto, target, res.Status(), cur, st, joins, reconfs, kicked, closed)
			}
			time.Sleep(100 * time.Millisecond)
			for n, sb := range sbs {
				for _, at := range sb.Attempts() {
					s, cl := at.State()
					t.Logf("   %s#%d %s closed=%v", n, at.N, s, cl)
				}
			}
		}
		c.Close()
		r.Close()
		for _, sb := range sbs {
			sb.Close()
		}
	}
}
