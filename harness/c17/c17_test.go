//go:build verif

// C17 harness: replays TLC-exported histories (forced-host / try configuration, virtual-host
// spelling, registered subset, failure sequence) on the live proxy. The configuration is
// written as a YAML file and read by gate's own loader; unregistered servers are removed
// through Proxy.Unregister; three fake backends accept or kick according to the history's
// failure sequence. The harness records which backend receives each connection attempt of the
// player and how the player ends; ServerChoice_Trace.tla judges.
package c17

import (
	"bytes"
	"context"
	"encoding/json"
	"fmt"
	"net"
	"os"
	"path/filepath"
	"regexp"
	"strconv"
	"strings"
	"sync"
	"testing"
	"time"

	"github.com/robinbraemer/event"
	"github.com/spf13/viper"

	"go.minekube.com/gate/pkg/edition/java/config"
	"go.minekube.com/gate/pkg/edition/java/proxy"
	"go.minekube.com/gate/pkg/gate"

	"verif/harness/mcwire"
	"verif/harness/rig"
	"verif/harness/tracefmt"
)

type forced struct {
	Has  bool     `json:"has"`
	Key  []int    `json:"key"`
	List []string `json:"list"`
}
type hist struct {
	Forced forced   `json:"forced"`
	Try    []string `json:"try"`
	VH     []int    `json:"vh"`
	Reg    []string `json:"reg"`
	Ren    []string `json:"ren"`  // registered servers re-registered through the API as "S2" for "s2"
	Away   []string `json:"away"` // registered servers that were unregistered while an earlier player joined
	Fails  []string `json:"fails"`
	Log    []string `json:"log"` // the model's prediction (informational: model drift)
	St     string   `json:"st"`
}

var order = []string{"s1", "s2", "s3"}

func cpsString(cps []int) string {
	var sb strings.Builder
	for _, c := range cps {
		sb.WriteRune(rune(c))
	}
	return sb.String()
}

type attempt struct {
	Server   string
	Fail     string
	Inflight string
}

// run is one history being replayed (one player).
type run struct {
	mu          sync.Mutex
	name        string
	script      []string
	reg         map[string]bool
	attempts    []attempt
	stallExpect string
	stallCh     chan struct{} // closed when the stalled connection arrived
	done        chan struct{} // closed at the end: releases stalled connections
	accepted    chan string   // server that accepted the final (unscripted) attempt
	post        chan struct{} // ServerPostConnectEvent for this player
	inconcl     string
	r           *rig.Rig
}

func (ru *run) flag(why string) {
	ru.mu.Lock()
	if ru.inconcl == "" {
		ru.inconcl = why
	}
	ru.mu.Unlock()
}

var (
	runsMu sync.Mutex
	runs   = map[string]*run{}
)

func getRun(name string) *run { runsMu.Lock(); defer runsMu.Unlock(); return runs[name] }

func waitPost(ru *run, d time.Duration) bool {
	select {
	case <-ru.post:
		return true
	case <-time.After(d):
		return false
	}
}

func behave(server string) func(bc *rig.BackendConn) {
	return func(bc *rig.BackendConn) {
		if err := bc.ReadLogin(); err != nil {
			return
		}
		ru := getRun(bc.Name)
		if ru == nil {
			return
		}
		ru.mu.Lock()
		if ru.stallExpect == server {
			ru.stallExpect = ""
			close(ru.stallCh)
			ru.mu.Unlock()
			<-ru.done // stall the login until the history is over
			return
		}
		k := len(ru.attempts) + 1
		kind := ""
		if k <= len(ru.script) {
			kind = ru.script[k-1]
		}
		ru.attempts = append(ru.attempts, attempt{Server: server, Fail: kind})
		idx := len(ru.attempts) - 1
		// drain a stale post-connect signal of an earlier attempt
		select {
		case <-ru.post:
		default:
		}
		ru.mu.Unlock()
		reason := fmt.Sprintf("kick-%d", k)
		if kind == "kl" {
			_ = bc.LoginDisconnect(reason)
			time.Sleep(30 * time.Millisecond)
			return
		}
		if err := bc.CompleteJoin(-1); err != nil {
			ru.flag("backend join failed: " + err.Error())
			return
		}
		if kind == "" {
			select {
			case ru.accepted <- server:
			default:
			}
			bc.Pump()
			return
		}
		// kp / kpi: kick once the proxy has completed the join
		if !waitPost(ru, 15*time.Second) {
			ru.flag("join not completed by the proxy")
			return
		}
		if kind == "kpi" {
			x := ""
			for _, s := range order {
				if s != server && ru.reg[s] {
					x = s
					break
				}
			}
			pl := ru.r.P.PlayerByName(ru.name)
			if x != "" && pl != nil {
				ru.mu.Lock()
				ru.stallExpect = x
				ru.stallCh = make(chan struct{})
				ch := ru.stallCh
				ru.attempts[idx].Inflight = x
				ru.mu.Unlock()
				target := ru.r.P.Server(x)
				go func() {
					for i := 0; i < 1000; i++ {
						res, err := pl.CreateConnectionRequest(target).Connect(context.Background())
						if err == nil && res != nil && res.Status().ConnectionInProgress() {
							time.Sleep(5 * time.Millisecond) // the previous request is still returning
							continue
						}
						return
					}
				}()
				select {
				case <-ch:
				case <-time.After(15 * time.Second):
					ru.flag("in-flight connection never arrived")
					return
				}
			}
		}
		_ = bc.PlayDisconnect(reason)
		bc.Pump()
	}
}

var kickRe = regexp.MustCompile(`kick-(\d+)`)

func TestReplay(t *testing.T) {
	b, err := os.ReadFile(filepath.Join(tracefmt.OutDir(), "hist.json"))
	if err != nil {
		t.Fatal(err)
	}
	var hists []hist
	if err := json.Unmarshal(b, &hists); err != nil {
		t.Fatal(err)
	}
	tw, err := tracefmt.Create("trace.ndjson")
	if err != nil {
		t.Fatal(err)
	}
	seed := tracefmt.Seed()
	backends := map[string]*rig.Backend{}
	for _, s := range order {
		be, err := rig.NewBackend(behave(s))
		if err != nil {
			t.Fatal(err)
		}
		defer be.Close()
		backends[s] = be
	}
	cfgDir := filepath.Join(tracefmt.OutDir(), "cfg")
	_ = os.MkdirAll(cfgDir, 0o755)

	var mu sync.Mutex
	stats := map[string]int{}
	var samples []any
	var wg sync.WaitGroup
	sem := make(chan struct{}, 8)
	for hi, h := range hists {
		hi, h := hi, h
		wg.Add(1)
		sem <- struct{}{}
		go func() {
			defer wg.Done()
			defer func() { <-sem }()
			recs, why := replay(t, hi, h, seed, backends, cfgDir)
			mu.Lock()
			defer mu.Unlock()
			if why != "" {
				stats["inconclusive"]++
				stats["inconclusive:"+why]++
				return
			}
			for _, r := range recs {
				tw.Emit(r)
			}
			// statistics on the history's own player (the last run; a prelude player's run may precede it)
			first := 0
			for i, r := range recs {
				if r["ev"] == "reset" {
					first = i
					stats["runs"]++
				}
			}
			if first > 0 {
				stats["with_prelude_player"]++
			}
			recs = recs[first:]
			n := len(recs) - 2
			stats[fmt.Sprintf("attempts=%d", n)]++
			end := recs[len(recs)-1]
			stats["end:"+end["state"].(string)]++
			predicted := append([]string{}, h.Log...)
			same := len(predicted) == n
			for i := 0; same && i < n; i++ {
				same = recs[1+i]["server"] == predicted[i]
			}
			if !same || end["state"] != h.St {
				stats["model_drift"]++
			}
			if len(samples) < 3 && n >= 2 {
				samples = append(samples, map[string]any{"vhost": cpsString(h.VH), "forced_key": cpsString(h.Forced.Key),
					"forced": h.Forced.List, "try": h.Try, "registered": h.Reg, "renamed": h.Ren, "away_for_earlier_player": h.Away, "fails": h.Fails, "events": recs[1:]})
			}
		}()
	}
	wg.Wait()
	if err := tw.Close(); err != nil {
		t.Fatal(err)
	}
	tracefmt.WriteJSON("stats.json", map[string]any{"stats": stats, "samples": samples, "events": tw.N})
}

// replay runs one history on its own proxy and returns the trace lines, or why it was inconclusive.
// With a prelude (h.Away not empty) an earlier player joins while the servers of h.Away are
// unregistered; they are registered again before the history's own player joins. Both players
// are separate runs in the trace, each judged against the registration in force for it.
func replay(t *testing.T, hi int, h hist, seed int64, backends map[string]*rig.Backend, cfgDir string) ([]tracefmt.Rec, string) {
	// --- configuration file -> gate's loader
	var y bytes.Buffer
	y.WriteString("config:\n  servers:\n")
	for _, s := range order {
		fmt.Fprintf(&y, "    %s: %s\n", s, backends[s].Addr())
	}
	y.WriteString("  try: [" + strings.Join(h.Try, ", ") + "]\n")
	if h.Forced.Has {
		fmt.Fprintf(&y, "  forcedHosts:\n    %s: [%s]\n", strconv.Quote(cpsString(h.Forced.Key)), strings.Join(h.Forced.List, ", "))
	}
	path := filepath.Join(cfgDir, fmt.Sprintf("h%d.yml", hi))
	if err := os.WriteFile(path, y.Bytes(), 0o644); err != nil {
		t.Error(err)
		return nil, "config write"
	}
	v := viper.New()
	v.SetConfigFile(path)
	loaded, err := gate.LoadConfig(v)
	if err != nil {
		t.Errorf("LoadConfig: %v\n%s", err, y.String())
		return nil, "config load"
	}
	mgr := event.New()
	event.Subscribe(mgr, 0, func(e *proxy.ServerPostConnectEvent) {
		if ru := getRun(e.Player().Username()); ru != nil {
			select {
			case ru.post <- struct{}{}:
			default:
			}
		}
	})
	r, err := rig.New(rig.Options{EventMgr: mgr, Mutate: func(c *config.Config) {
		c.Servers = loaded.Config.Servers
		c.Try = loaded.Config.Try
		c.ForcedHosts = loaded.Config.ForcedHosts
	}})
	if err != nil {
		t.Error(err)
		return nil, "rig"
	}
	defer r.Close()
	in := func(list []string, s string) bool {
		for _, x := range list {
			if x == s {
				return true
			}
		}
		return false
	}
	unregister := func(s string) bool {
		rs := r.P.Server(s)
		return rs != nil && r.P.Unregister(rs.ServerInfo())
	}
	register := func(s string) bool {
		n := s
		if in(h.Ren, s) {
			n = strings.ToUpper(s) // registered through the API under another spelling of its name
		}
		addr, _ := net.ResolveTCPAddr("tcp", backends[s].Addr())
		_, err := r.P.Register(proxy.NewServerInfo(n, addr))
		return err == nil
	}
	for _, s := range order {
		if !in(h.Reg, s) || in(h.Away, s) || in(h.Ren, s) {
			if !unregister(s) {
				t.Errorf("cannot unregister %s", s)
				return nil, "unregister"
			}
		}
		if in(h.Reg, s) && in(h.Ren, s) && !in(h.Away, s) && !register(s) {
			t.Errorf("cannot register %s again", s)
			return nil, "rename"
		}
	}
	var done []chan struct{}
	defer func() {
		for _, d := range done {
			close(d)
		}
	}()
	var recs []tracefmt.Rec
	if len(h.Away) > 0 {
		var regA, renA []string
		for _, s := range h.Reg {
			if !in(h.Away, s) {
				regA = append(regA, s)
				if in(h.Ren, s) {
					renA = append(renA, s)
				}
			}
		}
		ra, d, why := play(t, r, backends, loaded.Config.ForcedHosts, h, fmt.Sprintf("a%d_%d", seed%1000, hi), hi, nil, regA, renA, "prelude")
		if d != nil {
			done = append(done, d)
		}
		if why != "" {
			return nil, "prelude: " + why
		}
		recs = append(recs, ra...)
		for _, s := range h.Away {
			if !register(s) {
				t.Errorf("cannot register %s again", s)
				return nil, "re-register"
			}
		}
	}
	rb, d, why := play(t, r, backends, loaded.Config.ForcedHosts, h, fmt.Sprintf("h%d_%d", seed%1000, hi), hi, h.Fails, h.Reg, h.Ren, "main")
	if d != nil {
		done = append(done, d)
	}
	if why != "" {
		return nil, why
	}
	return append(recs, rb...), ""
}

// play logs one player in on proxy r and follows it to its end. The returned channel must be
// closed when the proxy is done with (it releases stalled connections and keeps the player online).
func play(t *testing.T, r *rig.Rig, backends map[string]*rig.Backend, loadedForced map[string][]string, h hist,
	name string, hi int, script, reg, ren []string, role string) ([]tracefmt.Rec, chan struct{}, string) {
	ru := &run{name: name, script: script, reg: map[string]bool{}, done: make(chan struct{}),
		accepted: make(chan string, 1), post: make(chan struct{}, 1), r: r}
	for _, s := range reg {
		ru.reg[s] = true
	}
	runsMu.Lock()
	runs[name] = ru
	runsMu.Unlock()

	port := []int{25565, 1, 65535}[hi%3]
	reset := tracefmt.Rec{"ev": "reset", "hist": hi, "role": role, "forced": map[string]any{"has": h.Forced.Has, "key": ints(h.Forced.Key), "list": strs(h.Forced.List)},
		"try": strs(h.Try), "vh": ints(h.VH), "reg": strs(reg), "renamed": strs(ren), "away_before": strs(h.Away), "port": port,
		"loaded_forced_keys": keysOf(loadedForced)}
	c, err := r.Dial()
	if err != nil {
		t.Error(err)
		return nil, ru.done, "dial"
	}
	go func() { <-ru.done; c.Close() }()
	const proto = rig.P1_20
	if err := c.WritePacket(0, rig.HandshakePayload(proto, cpsString(h.VH), port, 2)); err != nil {
		return nil, ru.done, "write"
	}
	if err := c.WritePacket(rig.SBLoginStart, rig.LoginStartPayload(proto, name, rig.OfflineUUID(name))); err != nil {
		return nil, ru.done, "write"
	}
	// client: read until the proxy closes; remember the last disconnect packet
	closed := make(chan []byte, 1)
	go func() {
		c.Timeout = 60 * time.Second
		var last []byte
		inPlay := false
		for {
			p, err := c.ReadPacket()
			if err != nil {
				closed <- last
				return
			}
			switch {
			case !inPlay && p.ID == rig.LoginSetCompress:
				c.SetCompression(mcwire.NewRd(p.Data).VarInt())
			case !inPlay && p.ID == rig.LoginSuccessID:
				inPlay = true
				c.Timeout = 0 // a connected player stays as long as the history lasts
			case !inPlay && p.ID == rig.LoginDisconnect:
				last = p.Data
			case inPlay && p.ID == rig.PlayDisconnectID(proto):
				last = p.Data
			}
		}
	}()
	end := tracefmt.Rec{"ev": "end", "state": "", "server": "", "kicks": []int{}}
	select {
	case data := <-closed:
		end["state"] = "disconnected"
		ks := []int{}
		for _, m := range kickRe.FindAllSubmatch(data, -1) {
			n, _ := strconv.Atoi(string(m[1]))
			ks = append(ks, n)
		}
		end["kicks"] = ks
		end["text"] = string(data)
	case <-ru.accepted:
		if !waitPost(ru, 15*time.Second) {
			select {
			case <-closed: // the proxy dropped the player while the last server was accepting it
				end["state"] = "disconnected"
			default:
				return nil, ru.done, "final join not completed"
			}
		} else {
			end["state"] = "connected"
			if pl := r.P.PlayerByName(name); pl != nil {
				if cs := pl.CurrentServer(); cs != nil {
					// identify the server by its address (names are case-insensitive, it may be registered as "S2")
					end["server"] = cs.Server().ServerInfo().Name()
					for _, s := range order {
						if backends[s].Addr() == cs.Server().ServerInfo().Addr().String() {
							end["server"] = s
						}
					}
				}
			}
		}
	case <-time.After(40 * time.Second):
		return nil, ru.done, "no end within 40s"
	}
	ru.mu.Lock()
	defer ru.mu.Unlock()
	if ru.inconcl != "" {
		return nil, ru.done, ru.inconcl
	}
	recs := []tracefmt.Rec{reset}
	for _, a := range ru.attempts {
		recs = append(recs, tracefmt.Rec{"ev": "attempt", "server": a.Server, "fail": a.Fail, "inflight": a.Inflight})
	}
	recs = append(recs, end)
	return recs, ru.done, ""
}

func ints(a []int) []int {
	if a == nil {
		return []int{}
	}
	return a
}
func strs(a []string) []string {
	if a == nil {
		return []string{}
	}
	return a
}
func keysOf(m map[string][]string) []string {
	out := []string{}
	for k := range m {
		out = append(out, k)
	}
	return out
}
