//go:build verif

// C30 harness: runs TLC-enumerated backend-list scenarios through the real
// lite.Forward (real proxy on TCP loopback, harness listeners as backends, closed
// ports as failing backends) recording which addresses the code tried (lb.try
// events) and the outcome; drives open/close histories and reads the public
// StrategyManager.ActiveConnections(); forces TLC-generated interleavings of
// concurrent TrackConnection calls through the lb.track.mid / lb.untrack.mid gates.
// LiteBalance_Trace.tla judges every line. Nothing is judged here.
package c30

import (
	"encoding/json"
	"fmt"
	"math/rand"
	"net"
	"os"
	"path/filepath"
	"strconv"
	"strings"
	"sync"
	"sync/atomic"
	"testing"
	"time"

	"github.com/go-logr/logr"
	"go.minekube.com/gate/pkg/edition/java/lite"
	"go.minekube.com/gate/pkg/edition/java/lite/config"

	"verif/harness/literig"
	"verif/harness/sched"
	"verif/harness/tracefmt"
)

type scenario struct {
	Strategy string  `json:"strategy"`
	List     [][]int `json:"list"`
	Up       [][]int `json:"up"`
}

type stats struct {
	Scenarios    int                `json:"scenarios"`
	Skipped      int                `json:"skipped_scenarios"`
	Attempts     int                `json:"attempts"`
	MultiTry     int                `json:"attempts_with_retries"`
	DupLists     int                `json:"lists_with_same_backend_twice"`
	Closed       int                `json:"attempts_all_failed"`
	Runaway      int                `json:"runaway_attempts"`
	Aborts       int                `json:"backend_reset_after_accept"`
	RRRun        int                `json:"round_robin_run_attempts"`
	ByStrategy   map[string]int     `json:"attempts_by_strategy"`
	Batches      int                `json:"concurrent_batches"`
	BatchConns   int                `json:"concurrent_connections"`
	CountScheds  int                `json:"count_schedules"`
	CountBlocked int                `json:"count_blocked_steps"`
	LeastScheds  int                `json:"least_schedules"`
	PickedB      int                `json:"least_picks_of_tracked_backend"`
	PickedC      int                `json:"least_picks_of_idle_backend"`
	Stress       int                `json:"api_stress_runs"`
	GateArrival  map[string]int     `json:"gate_arrivals"`
	Timing       map[string]float64 `json:"section_seconds"`
	Samples      []any              `json:"samples"`
}

func str(cps []int) string {
	r := make([]rune, len(cps))
	for i, c := range cps {
		r[i] = rune(c)
	}
	return string(r)
}

func cps(s string) []int {
	out := []int{}
	for _, r := range s {
		out = append(out, int(r))
	}
	return out
}

func cpss(ss []string) [][]int {
	out := [][]int{}
	for _, s := range ss {
		out = append(out, cps(s))
	}
	return out
}

// tries collects the lb.try events of the attempt in progress; an attempt that keeps
// trying (more than maxTries) is parked for good so that it cannot spin.
type tryLog struct {
	mu      sync.Mutex
	tries   []string
	runaway bool
	off     bool // not collecting (concurrent batches)
	// fault injection "backend accepts, then resets": while set, the forwarding goroutine is
	// held at lb.dialed (after the handshake reached the backend, before the client's buffered
	// bytes are flushed) until the backend has reset the connection
	hold     chan struct{}
	holdOnce *sync.Once
}

func (l *tryLog) arm() {
	l.mu.Lock()
	l.hold, l.holdOnce = make(chan struct{}), &sync.Once{}
	l.mu.Unlock()
}

func (l *tryLog) disarm() (fired bool) {
	l.mu.Lock()
	defer l.mu.Unlock()
	if l.hold == nil {
		return false
	}
	select {
	case <-l.hold:
		fired = true
	default:
	}
	l.hold, l.holdOnce = nil, nil
	return fired
}

// backendReset is called by the backend once it has reset the connection.
func (l *tryLog) backendReset() {
	l.mu.Lock()
	h, o := l.hold, l.holdOnce
	l.mu.Unlock()
	if h != nil {
		o.Do(func() { close(h) })
	}
}

const maxTries = 24

func (l *tryLog) reset() {
	l.mu.Lock()
	l.tries, l.runaway = nil, false
	l.mu.Unlock()
}

func (l *tryLog) isRunaway() bool {
	l.mu.Lock()
	defer l.mu.Unlock()
	return l.runaway
}

func (l *tryLog) snapshot() ([]string, bool) {
	l.mu.Lock()
	defer l.mu.Unlock()
	return append([]string{}, l.tries...), l.runaway
}

func (l *tryLog) onEvent(_ string, name string, kv []any) {
	if name == "lb.dialed" {
		l.mu.Lock()
		h := l.hold
		l.mu.Unlock()
		if h != nil {
			select {
			case <-h:
				time.Sleep(2 * time.Millisecond) // let the RST arrive
			case <-time.After(5 * time.Second):
			}
		}
		return
	}
	if name != "lb.try" {
		return
	}
	b := fmt.Sprint(sched.KV(kv)["backend"])
	l.mu.Lock()
	if l.off {
		l.mu.Unlock()
		return
	}
	l.tries = append(l.tries, b)
	over := len(l.tries) > maxTries
	if over {
		l.runaway = true
	}
	l.mu.Unlock()
	if over {
		select {} // containment: the attempt loop never ends by itself
	}
}

// reservePort returns a port that refuses connections until release is called (it stays bound,
// not listening, so no listener of the harness or the proxy can be given the same number).
func reservePort(t *testing.T) (int, func()) {
	p, release, err := literig.ReserveClosedPort()
	if err != nil {
		t.Fatal(err)
	}
	return p, release
}

func canon(s string) string {
	s = strings.ToLower(s)
	if !strings.Contains(s, ":") {
		s += ":25565"
	}
	return s
}

type conn struct {
	id     int
	client *net.TCPConn
	be     *literig.Accepted
}

// registry pairs backend-side connections with the client they belong to: the backend
// reads the forwarded handshake and finds the client's tag in its host name.
type registry struct {
	mu sync.Mutex
	m  map[string]chan *literig.Accepted
}

func (r *registry) ch(tag string) chan *literig.Accepted {
	r.mu.Lock()
	defer r.mu.Unlock()
	if r.m == nil {
		r.m = map[string]chan *literig.Accepted{}
	}
	c, ok := r.m[tag]
	if !ok {
		c = make(chan *literig.Accepted, 4)
		r.m[tag] = c
	}
	return c
}

var reg registry
var theLog = &tryLog{}
var tagSeq atomic.Int64

func readFrame(c net.Conn) ([]byte, error) {
	var hdr []byte
	one := make([]byte, 1)
	for {
		if _, err := c.Read(one); err != nil {
			return nil, err
		}
		hdr = append(hdr, one[0])
		if one[0]&0x80 == 0 || len(hdr) >= 5 {
			break
		}
	}
	n, _ := literig.ReadVarInt(hdr)
	p := make([]byte, n)
	for got := 0; got < int(n); {
		k, err := c.Read(p[got:])
		if err != nil {
			return nil, err
		}
		got += k
	}
	return p, nil
}

func newBackend(t *testing.T, addr string) *literig.Backend {
	be, err := literig.Listen(addr)
	if err != nil {
		return nil
	}
	be.SetHandler(func(a *literig.Accepted) {
		_ = a.Conn.SetReadDeadline(time.Now().Add(20 * time.Second))
		hs, err := readFrame(a.Conn)
		_ = a.Conn.SetReadDeadline(time.Time{})
		if err != nil || len(hs) < 4 {
			_ = a.Conn.Close()
			return
		}
		// payload: id, protocol varint, host string
		i := 1
		_, n := literig.ReadVarInt(hs[i:])
		i += n
		ln, n := literig.ReadVarInt(hs[i:])
		i += n
		host := ""
		if i+int(ln) <= len(hs) {
			host = string(hs[i : i+int(ln)])
		}
		a.Tag = strings.ToLower(strings.SplitN(host, ".", 2)[0])
		if strings.HasPrefix(a.Tag, "x") {
			// fault: the backend got the handshake, now it resets the connection
			if tc, ok := a.Conn.(*net.TCPConn); ok {
				_ = tc.SetLinger(0)
			}
			_ = a.Conn.Close()
			theLog.backendReset()
			return
		}
		reg.ch(a.Tag) <- a
		// one byte back: it reaches the client only through the running pipe, i.e. after TrackConnection
		_, _ = a.Conn.Write([]byte{0x2a})
	})
	return be
}

// connect opens one client connection and waits until the proxy reached a backend and
// the forwarding pipe runs (an echo byte came back), or closed the client.
// settled is false when neither happened in time.
func connect(t *testing.T, rig *literig.Rig, stop func() bool) (c *conn, settled bool) {
	return connectTag(t, rig, stop, "c")
}

func connectTag(t *testing.T, rig *literig.Rig, stop func() bool, prefix string) (c *conn, settled bool) {
	cl, err := rig.Dial()
	if err != nil {
		t.Fatal(err)
	}
	tag := prefix + strconv.Itoa(int(tagSeq.Add(1)))
	host := tag + ".lb.ex"
	if tagSeq.Load()%2 == 0 {
		host = strings.ToUpper(tag) + ".LB.ex"
	}
	msg := literig.Frame(literig.HandshakePayload(765, host, 25565, 2, nil))
	msg = append(msg, literig.Frame(append([]byte{0x00}, literig.AppendString(nil, "Steve")...))...)
	if _, err := cl.Write(msg); err != nil {
		t.Fatal(err)
	}
	one := make([]byte, 1)
	var n int
	for end := time.Now().Add(20 * time.Second); ; {
		_ = cl.SetReadDeadline(time.Now().Add(50 * time.Millisecond))
		n, err = cl.Read(one)
		ne, isTimeout := err.(net.Error)
		if n == 1 || err == nil || !isTimeout || !ne.Timeout() {
			break
		}
		if stop != nil && stop() || time.Now().After(end) {
			break
		}
	}
	if n == 1 {
		_ = cl.SetReadDeadline(time.Time{})
		select {
		case acc := <-reg.ch(tag):
			return &conn{client: cl, be: acc}, true
		case <-time.After(10 * time.Second):
			t.Fatal("echo byte received but no backend connection registered")
		}
	}
	_ = cl.Close()
	if ne, ok := err.(net.Error); ok && ne.Timeout() {
		return nil, false
	}
	return nil, true
}

// countOff is set once a count did not settle: later waits are kept short (the mismatch is
// already on record, there is no point in waiting five seconds for each further one).
var countOff atomic.Bool

func waitCount(sm *lite.StrategyManager, want int) int {
	var n int
	limit := 25000
	if countOff.Load() {
		limit = 250
	}
	defer func() {
		if n != want {
			countOff.Store(true)
		}
	}()
	for i := 0; i < limit; i++ {
		n = int(sm.ActiveConnections())
		if n == want {
			return n
		}
		time.Sleep(200 * time.Microsecond)
	}
	return n
}

func TestBalance(t *testing.T) {
	b, err := os.ReadFile(filepath.Join(tracefmt.OutDir(), "scen.json"))
	if err != nil {
		t.Fatal(err)
	}
	var scens []scenario
	if err := json.Unmarshal(b, &scens); err != nil {
		t.Fatal(err)
	}
	tw, err := tracefmt.Create("trace.ndjson")
	if err != nil {
		t.Fatal(err)
	}
	st := &stats{ByStrategy: map[string]int{}, GateArrival: map[string]int{}, Timing: map[string]float64{}}
	t0 := time.Now()
	lap := func(name string) { st.Timing[name] = time.Since(t0).Seconds(); t0 = time.Now() }
	rng := rand.New(rand.NewSource(tracefmt.Seed()))

	tl := theLog
	ctl := sched.New(nil)
	ctl.OnEvent = tl.onEvent
	ctl.Install()

	for si, sc := range scens {
		// ":1" / ":2" are the ports of backends X (reached as localhost) and Y (127.0.0.1)
		upX, upY, upD := false, false, false
		for _, u := range sc.Up {
			switch str(u) {
			case "localhost:1":
				upX = true
			case "127.0.0.1:2":
				upY = true
			case "127.0.0.1:25565":
				upD = true
			}
		}
		usesD := false
		for _, e := range sc.List {
			if s := str(e); s == "127.0.0.1" || s == "127.0.0.1:25565" {
				usesD = true
			}
		}
		var bes []*literig.Backend
		portX, portY := 0, 0
		var releases []func()
		if upX {
			be := newBackend(t, "127.0.0.1:0")
			portX = be.Port
			bes = append(bes, be)
		} else {
			var rel func()
			portX, rel = reservePort(t)
			releases = append(releases, rel)
		}
		if upY {
			be := newBackend(t, "127.0.0.1:0")
			portY = be.Port
			bes = append(bes, be)
		} else {
			var rel func()
			portY, rel = reservePort(t)
			releases = append(releases, rel)
		}
		skip := false
		if usesD {
			if upD {
				be := newBackend(t, "127.0.0.1:25565")
				if be == nil {
					skip = true
				} else {
					bes = append(bes, be)
				}
			} else if ln, err := net.Listen("tcp4", "127.0.0.1:25565"); err != nil {
				skip = true // someone else listens on the default port: outcome not ours to control
			} else {
				_ = ln.Close()
			}
		}
		if skip {
			st.Skipped++
			for _, be := range bes {
				be.Close()
			}
			for _, rel := range releases {
				rel()
			}
			continue
		}
		real := func(s string) string {
			if strings.HasSuffix(s, ":1") {
				return strings.TrimSuffix(s, ":1") + ":" + strconv.Itoa(portX)
			}
			if strings.HasSuffix(s, ":2") {
				return strings.TrimSuffix(s, ":2") + ":" + strconv.Itoa(portY)
			}
			return s
		}
		var list, up []string
		seen := map[string]bool{}
		dup := false
		for _, e := range sc.List {
			r := real(str(e))
			list = append(list, r)
			if seen[canon(r)] {
				dup = true
			}
			seen[canon(r)] = true
		}
		if dup {
			st.DupLists++
		}
		for _, u := range sc.Up {
			up = append(up, real(str(u)))
		}
		route := config.Route{Host: []string{"*.lb.ex"}, Backend: list, Strategy: config.Strategy(sc.Strategy)}
		rig, err := literig.Start(literig.NewConfig([]config.Route{route}, 3*time.Second))
		if err != nil {
			t.Fatal(err)
		}
		sm := rig.P.Lite().StrategyManager()
		tw.Emit(tracefmt.Rec{"ev": "reset", "n": si, "strategy": sc.Strategy, "list": cpss(list), "up": cpss(up)})
		st.Scenarios++

		if sc.Strategy == "lowest-latency" {
			for _, e := range list {
				if rng.Intn(2) == 0 {
					ms := 5 + rng.Intn(40)
					sm.RecordLatency(e, time.Duration(ms)*time.Millisecond)
					tw.Emit(tracefmt.Rec{"ev": "lat", "b": cps(e), "ms": ms})
				}
			}
		}
		var open []*conn
		nextID := 0
		nops := 2 + rng.Intn(3)
		for op := 0; op < nops; op++ {
			if len(open) > 0 && rng.Intn(3) == 0 {
				c := open[0]
				open = open[1:]
				_ = c.client.Close()
				literig.WaitClosed(c.be.Conn, 10*time.Second)
				_ = c.be.Conn.Close()
				tw.Emit(tracefmt.Rec{"ev": "close", "id": c.id})
				tw.Emit(tracefmt.Rec{"ev": "count", "n": waitCount(sm, len(open))})
				continue
			}
			if len(up) > 0 && rng.Intn(4) == 0 {
				// fault: the backend that accepts this connection resets it right after the handshake
				tl.reset()
				tl.arm()
				fc, fsettled := connectTag(t, rig, func() bool { _, r := tl.snapshot(); return r }, "x")
				fired := tl.disarm()
				ftries, frun := tl.snapshot()
				nextID++
				if fc != nil { // cannot happen: an x backend never echoes
					_ = fc.client.Close()
				}
				switch {
				case frun || !fsettled:
					tw.Emit(tracefmt.Rec{"ev": "attempt", "id": nextID, "tries": cpss(ftries), "result": "runaway"})
					st.Runaway++
				case fired:
					tw.Emit(tracefmt.Rec{"ev": "abort", "id": nextID, "tries": cpss(ftries)})
					st.Aborts++
				default:
					tw.Emit(tracefmt.Rec{"ev": "attempt", "id": nextID, "tries": cpss(ftries), "result": "closed"})
				}
				st.Attempts++
				tw.Emit(tracefmt.Rec{"ev": "count", "n": waitCount(sm, len(open))})
				if frun || !fsettled {
					break
				}
				continue
			}
			tl.reset()
			c, settled := connect(t, rig, func() bool { _, r := tl.snapshot(); return r })
			tries, runaway := tl.snapshot()
			nextID++
			result := "closed"
			if c != nil {
				result = "open"
				c.id = nextID
				open = append(open, c)
			}
			if runaway || !settled {
				result = "runaway"
				st.Runaway++
			}
			tw.Emit(tracefmt.Rec{"ev": "attempt", "id": nextID, "tries": cpss(tries), "result": result})
			st.Attempts++
			st.ByStrategy[sc.Strategy]++
			if len(tries) > 1 {
				st.MultiTry++
			}
			if result == "closed" {
				st.Closed++
			}
			tw.Emit(tracefmt.Rec{"ev": "count", "n": waitCount(sm, len(open))})
			if len(st.Samples) < 2 && len(tries) > 1 {
				st.Samples = append(st.Samples, map[string]any{"strategy": sc.Strategy, "list": list, "up": up, "tries": tries, "result": result})
			}
			if result == "runaway" {
				break
			}
		}
		// round-robin: a run of successive connections (each closed again), long enough for the
		// rotation rule over a window of attempts to apply
		if sc.Strategy == "round-robin" && !dup && !tl.isRunaway() {
			for k := 0; k < 2*len(list)+5; k++ {
				tl.reset()
				c, settled := connect(t, rig, func() bool { _, r := tl.snapshot(); return r })
				tries, runaway := tl.snapshot()
				nextID++
				result := "closed"
				if c != nil {
					result = "open"
					c.id = nextID
				}
				if runaway || !settled {
					result = "runaway"
					st.Runaway++
				}
				tw.Emit(tracefmt.Rec{"ev": "attempt", "id": nextID, "tries": cpss(tries), "result": result})
				st.Attempts++
				st.RRRun++
				st.ByStrategy[sc.Strategy]++
				if len(tries) > 1 {
					st.MultiTry++
				}
				if result == "runaway" {
					break
				}
				if c != nil {
					_ = c.client.Close()
					literig.WaitClosed(c.be.Conn, 10*time.Second)
					_ = c.be.Conn.Close()
					tw.Emit(tracefmt.Rec{"ev": "close", "id": c.id})
				}
				tw.Emit(tracefmt.Rec{"ev": "count", "n": waitCount(sm, len(open))})
			}
		}
		for _, c := range open {
			_ = c.client.Close()
			literig.WaitClosed(c.be.Conn, 10*time.Second)
			_ = c.be.Conn.Close()
			tw.Emit(tracefmt.Rec{"ev": "close", "id": c.id})
		}
		tw.Emit(tracefmt.Rec{"ev": "count", "n": waitCount(sm, 0)})
		rig.Close()
		for _, be := range bes {
			be.Close()
		}
		for _, rel := range releases {
			rel()
		}
	}

	lap("scenarios")
	// concurrent batches: N connections opened at once, closed in two waves
	tl.mu.Lock()
	tl.off = true
	tl.mu.Unlock()
	nBatch := tracefmt.EnvInt("VERIF_BATCH", 6)
	for bi := 0; bi < nBatch; bi++ {
		var bes []*literig.Backend
		var list []string
		for i := 0; i < 3; i++ {
			be := newBackend(t, "127.0.0.1:0")
			bes = append(bes, be)
			list = append(list, fmt.Sprintf("127.0.0.1:%d", be.Port))
		}
		strategy := []string{"random", "round-robin", "least-connections", "sequential", "lowest-latency"}[bi%5]
		route := config.Route{Host: []string{"*.lb.ex"}, Backend: list, Strategy: config.Strategy(strategy)}
		rig, err := literig.Start(literig.NewConfig([]config.Route{route}, 3*time.Second))
		if err != nil {
			t.Fatal(err)
		}
		sm := rig.P.Lite().StrategyManager()
		tw.Emit(tracefmt.Rec{"ev": "reset", "n": bi, "kind": "batch", "strategy": strategy, "list": cpss(list), "up": cpss(list)})
		n := 6 + rng.Intn(10)
		conns := make([]*conn, n)
		var wg sync.WaitGroup
		for i := 0; i < n; i++ {
			i := i
			wg.Add(1)
			go func() {
				defer wg.Done()
				c, _ := connect(t, rig, nil)
				if c != nil {
					c.id = i + 1
					conns[i] = c
					tw.Emit(tracefmt.Rec{"ev": "opened", "id": c.id})
				} else {
					// every backend of a batch accepts: a connection that was not forwarded is an event
					// the spec has no action for
					tw.Emit(tracefmt.Rec{"ev": "lost", "id": i + 1})
				}
			}()
		}
		wg.Wait()
		nopen := 0
		for _, c := range conns {
			if c != nil {
				nopen++
			}
		}
		tw.Emit(tracefmt.Rec{"ev": "count", "n": waitCount(sm, nopen)})
		closeWave := func(sel func(i int) bool) {
			var wg sync.WaitGroup
			for i, c := range conns {
				if c == nil || !sel(i) {
					continue
				}
				c := c
				conns[i] = nil
				nopen--
				wg.Add(1)
				go func() {
					defer wg.Done()
					_ = c.client.Close()
					literig.WaitClosed(c.be.Conn, 10*time.Second)
					_ = c.be.Conn.Close()
					tw.Emit(tracefmt.Rec{"ev": "close", "id": c.id})
				}()
			}
			wg.Wait()
		}
		closeWave(func(i int) bool { return i%3 != 0 })
		tw.Emit(tracefmt.Rec{"ev": "count", "n": waitCount(sm, nopen)})
		closeWave(func(i int) bool { return true })
		tw.Emit(tracefmt.Rec{"ev": "count", "n": waitCount(sm, 0)})
		st.Batches++
		st.BatchConns += n
		rig.Close()
		for _, be := range bes {
			be.Close()
		}
	}
	ctl.Uninstall()
	lap("batches")

	countSchedules(t, tw, st)
	lap("count_schedules")
	leastSchedules(t, tw, st)
	lap("least_schedules")
	apiStress(tw, st, rng, tracefmt.EnvInt("VERIF_STRESS", 30))
	lap("api_stress")

	if err := tw.Close(); err != nil {
		t.Fatal(err)
	}
	if err := tracefmt.WriteJSON("stats.json", st); err != nil {
		t.Fatal(err)
	}
}

// countSchedules forces the TLC-generated interleavings of two workers tracking and
// untracking a connection to the same backend, and of a reader of ActiveConnections().
func countSchedules(t *testing.T, tw *tracefmt.Writer, st *stats) {
	b, err := os.ReadFile(filepath.Join(tracefmt.OutDir(), "countsched.json"))
	if err != nil {
		t.Fatal(err)
	}
	var scheds [][]string
	if err := json.Unmarshal(b, &scheds); err != nil {
		t.Fatal(err)
	}
	step := time.Duration(tracefmt.EnvInt("VERIF_STEP_MS", 3)) * time.Millisecond
	for i, s := range scheds {
		tw.Emit(tracefmt.Rec{"ev": "reset", "n": i, "kind": "count", "strategy": "", "list": [][]int{}, "up": [][]int{}})
		sm := lite.NewStrategyManager()
		c := sched.New(nil, "lb.track.mid", "lb.untrack.mid", "c30.hold", "c30.obs")
		c.Install()
		workers := map[string]bool{}
		for _, name := range s {
			if name != "o" {
				workers[name] = true
			}
		}
		for w := range workers {
			c.Go(w, func() {
				tw.Emit(tracefmt.Rec{"ev": "tb"})
				done := sm.TrackConnection("lb.ex", "Backend.example:25565")
				tw.Emit(tracefmt.Rec{"ev": "te"})
				lite.VerifPoint("c30.hold")
				tw.Emit(tracefmt.Rec{"ev": "ub"})
				done()
				tw.Emit(tracefmt.Rec{"ev": "ue"})
			})
		}
		reads := 0
		for _, name := range s {
			if name == "o" {
				reads++
			}
		}
		c.Go("o", func() {
			for k := 0; k < reads; k++ {
				tw.Emit(tracefmt.Rec{"ev": "obegin", "o": "o"})
				n := sm.ActiveConnections()
				tw.Emit(tracefmt.Rec{"ev": "obs", "o": "o", "n": int(n)})
				if k < reads-1 {
					lite.VerifPoint("c30.obs")
				}
			}
		})
		res := c.Run(s, step, 30*time.Second)
		c.Uninstall()
		st.CountScheds++
		st.CountBlocked += res.Blocked
		if !res.Finished {
			tw.Emit(tracefmt.Rec{"ev": "hung", "n": i})
		}
		// everything returned: the count must be back to zero
		tw.Emit(tracefmt.Rec{"ev": "obegin", "o": "end"})
		tw.Emit(tracefmt.Rec{"ev": "obs", "o": "end", "n": int(sm.ActiveConnections())})
		for _, e := range c.Log {
			if at := strings.IndexByte(e, '@'); at >= 0 {
				st.GateArrival[e[at+1:]]++
			}
		}
	}
}

// leastSchedules forces the TLC-generated interleavings of two workers opening and closing a
// connection to the same backend (gates lb.track.mid, lb.untrack.zero, lb.untrack.mid and the
// harness's hold) and of a reader asking the least-connections strategy to choose between
// that backend and an idle one.
func leastSchedules(t *testing.T, tw *tracefmt.Writer, st *stats) {
	b, err := os.ReadFile(filepath.Join(tracefmt.OutDir(), "leastsched.json"))
	if err != nil {
		t.Fatal(err)
	}
	var scheds [][]string
	if err := json.Unmarshal(b, &scheds); err != nil {
		t.Fatal(err)
	}
	step := time.Duration(tracefmt.EnvInt("VERIF_STEP_MS", 3)) * time.Millisecond
	const busy, idle = "b.example:25565", "c.example:25565"
	route := &config.Route{Strategy: config.StrategyLeastConnections}
	for i, s := range scheds {
		tw.Emit(tracefmt.Rec{"ev": "reset", "n": i, "kind": "least", "strategy": "", "list": [][]int{}, "up": [][]int{}})
		sm := lite.NewStrategyManager()
		c := sched.New(nil, "lb.track.mid", "lb.untrack.zero", "lb.untrack.mid", "c30.hold", "c30.obs")
		c.Install()
		workers := map[string]bool{}
		picks := 0
		for _, name := range s {
			if name == "o" {
				picks++
			} else {
				workers[name] = true
			}
		}
		for w := range workers {
			c.Go(w, func() {
				tw.Emit(tracefmt.Rec{"ev": "tb"})
				done := sm.TrackConnection("lb.ex", busy)
				tw.Emit(tracefmt.Rec{"ev": "te"})
				lite.VerifPoint("c30.hold")
				tw.Emit(tracefmt.Rec{"ev": "ub"})
				done()
				tw.Emit(tracefmt.Rec{"ev": "ue"})
			})
		}
		c.Go("o", func() {
			for k := 0; k < picks; k++ {
				tw.Emit(tracefmt.Rec{"ev": "pbegin", "o": "o"})
				got, _, _ := sm.GetNextBackend(logr.Discard(), route, "lb.ex", []string{busy, idle})
				name := "C"
				if got == busy {
					name = "B"
					st.PickedB++
				} else {
					st.PickedC++
				}
				tw.Emit(tracefmt.Rec{"ev": "pick", "o": "o", "b": name})
				if k < picks-1 {
					lite.VerifPoint("c30.obs")
				}
			}
		})
		res := c.Run(s, step, 30*time.Second)
		c.Uninstall()
		st.LeastScheds++
		st.CountBlocked += res.Blocked
		if !res.Finished {
			tw.Emit(tracefmt.Rec{"ev": "hung", "n": i})
		}
		for _, e := range c.Log {
			if at := strings.IndexByte(e, '@'); at >= 0 {
				st.GateArrival[e[at+1:]]++
			}
		}
	}
}

// apiStress: goroutines use one StrategyManager concurrently through its public API
// (every strategy's GetNextBackend, TrackConnection, RecordLatency, ActiveConnections).
func apiStress(tw *tracefmt.Writer, st *stats, rng *rand.Rand, runs int) {
	strategies := []config.Strategy{config.StrategyRandom, config.StrategyRoundRobin, config.StrategyLeastConnections,
		config.StrategyLowestLatency, config.StrategySequential}
	backends := []string{"a.example:25565", "b.example:25565", "C.example"}
	for r := 0; r < runs; r++ {
		tw.Emit(tracefmt.Rec{"ev": "reset", "n": r, "kind": "stress", "strategy": "", "list": [][]int{}, "up": [][]int{}})
		sm := lite.NewStrategyManager()
		var wg sync.WaitGroup
		var oid atomic.Int64
		n := 4 + rng.Intn(6)
		for g := 0; g < n; g++ {
			seed := rng.Int63()
			wg.Add(1)
			go func() {
				defer wg.Done()
				lr := rand.New(rand.NewSource(seed))
				for k := 0; k < 20; k++ {
					route := &config.Route{Strategy: strategies[lr.Intn(len(strategies))]}
					b, _, ok := sm.GetNextBackend(logr.Discard(), route, "lb.ex", backends)
					if !ok {
						continue
					}
					tw.Emit(tracefmt.Rec{"ev": "tb"})
					done := sm.TrackConnection("lb.ex", b)
					tw.Emit(tracefmt.Rec{"ev": "te"})
					sm.RecordLatency(b, time.Duration(1+lr.Intn(50))*time.Millisecond)
					if lr.Intn(2) == 0 {
						o := "o" + strconv.Itoa(int(oid.Add(1)))
						tw.Emit(tracefmt.Rec{"ev": "obegin", "o": o})
						v := sm.ActiveConnections()
						tw.Emit(tracefmt.Rec{"ev": "obs", "o": o, "n": int(v)})
					}
					tw.Emit(tracefmt.Rec{"ev": "ub"})
					done()
					tw.Emit(tracefmt.Rec{"ev": "ue"})
				}
			}()
		}
		wg.Wait()
		tw.Emit(tracefmt.Rec{"ev": "obegin", "o": "end"})
		tw.Emit(tracefmt.Rec{"ev": "obs", "o": "end", "n": int(sm.ActiveConnections())})
		st.Stress++
	}
}
