//go:build verif

// C35 harness: forces TLC-generated schedules of live-config operations on a real
// gate.Gate (threads park at the lc.enter / lc.checked gate points), runs seeded
// sequential histories and free-running concurrent stress, and records calls,
// the linearization events reported by the instrumented code under the reload
// mutex (lc.commit / lc.snapshot), returns and quiescent observations.
// LiveConfigHist_Trace.tla judges the record.
package c35

import (
	"encoding/json"
	"math/rand"
	"os"
	"path/filepath"
	"sync"
	"testing"
	"time"

	liteconfig "go.minekube.com/gate/pkg/edition/java/lite/config"
	"go.minekube.com/gate/pkg/gate"
	"go.minekube.com/gate/pkg/gate/config"
	"go.minekube.com/gate/pkg/util/configutil"

	"verif/harness/sched"
	"verif/harness/tracefmt"
)

type op struct {
	Op string `json:"op"`
	C  string `json:"c"`
	E  string `json:"e"`
}

type schedule struct {
	Prog  map[string][]op `json:"prog"`
	Sched []string        `json:"sched"`
}

func clone(c *config.Config) *config.Config {
	b, err := json.Marshal(c)
	if err != nil {
		panic(err)
	}
	var out config.Config
	if err := json.Unmarshal(b, &out); err != nil {
		panic(err)
	}
	return &out
}

func route(host, backend string) liteconfig.Route {
	return liteconfig.Route{Host: []string{host}, Backend: []string{backend},
		CachePingTTL: configutil.Duration(30 * time.Second)}
}

var routeSets = map[string][]liteconfig.Route{
	"r0":   {route("play.example.test", "backend.example.test:25565")},
	"rA":   {route("play.example.test", "backend-a.example.test:25565"), route("*.a.example.test", "a2.example.test:25565")},
	"rA2":  {route("play2.example.test", "backend-a2.example.test:25565"), route("*.a2.example.test", "a22.example.test:25565")},
	"rB":   {route("b.example.test", "backend-b.example.test:25565")},
	"rBad": {{Host: []string{"play.example.test"}}}, // no backend
}

func initial() *config.Config {
	d := config.DefaultConfig
	c := clone(&d)
	c.Config.Bind = "127.0.0.1:25565"
	c.Config.Lite.Enabled = true
	c.Config.Lite.Routes = routeSets["r0"]
	return clone(c)
}

// pool realises spec/LiveConfigBase.tla's Pool on real configurations.
func pool() map[string]*config.Config {
	mk := func(r string, edit func(*config.Config)) *config.Config {
		c := initial()
		c.Config.Lite.Routes = routeSets[r]
		if edit != nil {
			edit(c)
		}
		return clone(c)
	}
	bind := func(c *config.Config) { c.Config.Bind = "127.0.0.1:25566" }
	noreload := func(c *config.Config) { c.NoAutoReload = !c.NoAutoReload }
	health := func(c *config.Config) { c.HealthService.Bind = "127.0.0.1:9191" }
	connect := func(c *config.Config) { c.Connect.Name = "verif-endpoint" }
	api := func(c *config.Config) { c.API.Config.Bind = "127.0.0.1:8181" }
	return map[string]*config.Config{
		"same":    mk("r0", nil),
		"A":       mk("rA", nil),
		"A2":      mk("rA2", nil),
		"B":       mk("rB", nil),
		"inv":     mk("rBad", nil),
		"other":   mk("r0", bind),
		"otherA":  mk("rA", bind),
		"liteoff": mk("r0", func(c *config.Config) { c.Config.Lite.Enabled = false }),
		// one difference in each section outside the Java config, alone and with a route change
		"noreload":  mk("r0", noreload),
		"noreloadA": mk("rA", noreload),
		"health":    mk("r0", health),
		"healthA":   mk("rA", health),
		"connect":   mk("r0", connect),
		"connectA":  mk("rA", connect),
		"api":       mk("r0", api),
		"apiA":      mk("rA", api),
		"none":      nil,
	}
}

type world struct {
	g       *gate.Gate
	pool    map[string]*config.Config
	byJSON  map[string]string // JSON of a configuration -> pool name
	routeBy map[string]string // JSON of a route list -> routes id
	// a candidate object the caller keeps, passes to apply calls as is, and edits in place
	// afterwards; keptName is the pool content it currently has ("A" or "A2")
	kept     *config.Config
	keptName string
	useKept  func() bool
}

// editKept rewrites the kept candidate in place (elements of its route, host and backend
// slices), turning content A into A2 or back.
func (w *world) editKept() (from, to string) {
	from, to = w.keptName, "A2"
	if from == "A2" {
		to = "A"
	}
	target := routeSets["r"+to]
	for i := range w.kept.Config.Lite.Routes {
		r := &w.kept.Config.Lite.Routes[i]
		r.Host[0] = target[i].Host[0]
		r.Backend[0] = target[i].Backend[0]
	}
	w.keptName = to
	return from, to
}

func js(v any) string {
	b, err := json.Marshal(v)
	if err != nil {
		panic(err)
	}
	return string(b)
}

func newWorld(t *testing.T) *world {
	w := &world{pool: pool(), byJSON: map[string]string{}, routeBy: map[string]string{}}
	for _, name := range []string{"apiA", "api", "connectA", "connect", "healthA", "health", "noreloadA", "noreload",
		"liteoff", "otherA", "other", "inv", "B", "A2", "A", "same"} {
		w.byJSON[js(w.pool[name])] = name
	}
	for id, r := range routeSets {
		w.routeBy[js(r)] = id
	}
	w.kept, w.keptName = clone(w.pool["A"]), "A"
	g, err := gate.New(gate.Options{Config: initial()})
	if err != nil {
		t.Fatal(err)
	}
	w.g = g
	return w
}

func (w *world) contentName(c *config.Config) string {
	if n, ok := w.byJSON[js(c)]; ok {
		return n
	}
	return "?"
}

// observe reads configuration, version and the proxy's routing table (quiescent use only).
func (w *world) observe() tracefmt.Rec {
	c, v, err := w.g.ConfigSnapshot()
	if err != nil {
		return tracefmt.Rec{"content": "error:" + err.Error(), "version": "", "routes": "?"}
	}
	r, ok := w.routeBy[js(w.g.Java().Config().Lite.Routes)]
	if !ok {
		r = "?"
	}
	return tracefmt.Rec{"content": w.contentName(c), "version": v, "routes": r}
}

// doOp performs one operation as thread name; mine is the version the thread knows.
func (w *world) doOp(tw *tracefmt.Writer, name string, o op, mine *string) {
	switch o.Op {
	case "snap":
		tw.Emit(tracefmt.Rec{"ev": "call", "thread": name, "op": "snap", "cand": "", "exp": ""})
		c, v, err := w.g.ConfigSnapshot()
		content := "?"
		if err == nil {
			content = w.contentName(c)
			*mine = v
		}
		tw.Emit(tracefmt.Rec{"ev": "ret", "thread": name, "op": "snap", "content": content, "version": v,
			"code": "", "applied": false})
	case "apply":
		tw.Emit(tracefmt.Rec{"ev": "call", "thread": name, "op": "apply", "cand": o.C, "exp": ""})
		r := w.g.ApplyLiveConfig(w.cand(o.C))
		tw.Emit(tracefmt.Rec{"ev": "ret", "thread": name, "op": "apply", "code": r.Code, "applied": r.Applied,
			"unchanged": r.Unchanged, "version": r.Version, "content": ""})
		if r.Version != "" {
			*mine = r.Version
		}
	case "applyif":
		exp := *mine
		switch o.E {
		case "mine":
		case "empty": // no version at all: not the current version
			exp = ""
		case "prefix": // a truncated copy of the current version: not the current version either
			exp = exp[:len(exp)/2]
		default:
			exp = o.E // "junk", or a literal (stale) version
		}
		tw.Emit(tracefmt.Rec{"ev": "call", "thread": name, "op": "applyif", "cand": o.C, "exp": exp})
		r := w.g.ApplyLiveConfigIfVersion(w.cand(o.C), exp)
		tw.Emit(tracefmt.Rec{"ev": "ret", "thread": name, "op": "applyif", "code": r.Code, "applied": r.Applied,
			"unchanged": r.Unchanged, "version": r.Version, "content": ""})
		if r.Applied && r.Version != "" {
			*mine = r.Version
		}
	}
}

// cand hands the real code a fresh copy, except in sequential histories where the caller may
// pass the candidate object it keeps (and edits in place later).
func (w *world) cand(name string) *config.Config {
	c := w.pool[name]
	if c == nil {
		return nil
	}
	if name == w.keptName && w.useKept != nil && w.useKept() {
		return w.kept // the caller's own long-lived object, not a fresh copy
	}
	return clone(c)
}

type stats struct {
	Schedules  int            `json:"schedules"`
	Blocked    int            `json:"blocked_steps"`
	Infeasible int            `json:"schedules_with_blocked_steps"`
	Unfinished int            `json:"unfinished"`
	Sequential int            `json:"sequential_runs"`
	SeqOps     int            `json:"sequential_ops"`
	Edits      int            `json:"caller_edits_of_applied_candidates"`
	Stress     int            `json:"stress_runs"`
	Events     int            `json:"events"`
	Hooks      map[string]int `json:"hook_events"`
	Codes      map[string]int `json:"result_codes"`
	Samples    []any          `json:"samples"`
}

// relay copies the live-config hook events of registered threads into the trace.
func relay(c *sched.Controller, tw *tracefmt.Writer, st *stats, mu *sync.Mutex) {
	c.OnEvent = func(thread, name string, kv []any) {
		switch name {
		case "lc.commit", "lc.snapshot":
			r := sched.KV(kv)
			r["ev"] = name
			r["thread"] = thread
			tw.Emit(r)
			mu.Lock()
			st.Hooks[name]++
			if name == "lc.commit" {
				st.Codes[r["code"].(string)]++
			}
			mu.Unlock()
		case "lc.enter", "lc.checked":
			mu.Lock()
			st.Hooks[name]++
			mu.Unlock()
		}
	}
}

func TestLiveConfig(t *testing.T) {
	b, err := os.ReadFile(filepath.Join(tracefmt.OutDir(), "sched.json"))
	if err != nil {
		t.Fatal(err)
	}
	var scheds []schedule
	if err := json.Unmarshal(b, &scheds); err != nil {
		t.Fatal(err)
	}
	tw, err := tracefmt.Create("trace.ndjson")
	if err != nil {
		t.Fatal(err)
	}
	st := stats{Hooks: map[string]int{}, Codes: map[string]int{}}
	var mu sync.Mutex
	step := time.Duration(tracefmt.EnvInt("VERIF_STEP_MS", 4)) * time.Millisecond

	begin := func(n int, kind string) *world {
		w := newWorld(t)
		o := w.observe()
		tw.Emit(tracefmt.Rec{"ev": "reset", "n": n, "kind": kind, "init_version": o["version"]})
		o["ev"] = "obs"
		tw.Emit(o)
		return w
	}
	finish := func(w *world, finished bool, n int) {
		if !finished {
			st.Unfinished++
			tw.Emit(tracefmt.Rec{"ev": "hung", "n": n})
			return
		}
		o := w.observe()
		o["ev"] = "end"
		tw.Emit(o)
	}

	// 1. schedules exported by TLC, forced through the gate points
	for i, s := range scheds {
		w := begin(i, "schedule")
		v0 := w.observe()["version"].(string)
		c := sched.New(nil, "lc.enter", "lc.checked")
		relay(c, tw, &st, &mu)
		c.Install()
		for name, prog := range s.Prog {
			name, prog := name, prog
			c.Go(name, func() {
				mine := v0
				for _, o := range prog {
					w.doOp(tw, name, o, &mine)
				}
			})
		}
		blocked := 0
		var steps []string
		for _, th := range s.Sched {
			// a model step is one critical section (or one half of a split conditional apply);
			// the run from thread start / previous return up to lc.enter is not a model step
			for c.At(th) == "start" {
				c.Step(th, step)
			}
			stt := c.Step(th, step)
			if stt == sched.Blocked {
				blocked++
			}
			steps = append(steps, th+":"+string(stt)+"@"+c.At(th))
		}
		fin := c.Drain(5 * time.Second)
		c.Uninstall()
		st.Schedules++
		st.Blocked += blocked
		if blocked > 0 {
			st.Infeasible++
		}
		finish(w, fin, i)
		if i < 2 {
			st.Samples = append(st.Samples, map[string]any{"prog": s.Prog, "sched": s.Sched, "steps": steps})
		}
	}

	// 2. seeded sequential histories over the whole pool, observed after every operation
	rng := rand.New(rand.NewSource(tracefmt.Seed()))
	names := []string{"same", "A", "A2", "A", "A2", "B", "inv", "other", "otherA", "liteoff", "none",
		"noreload", "noreloadA", "health", "healthA", "connect", "connectA", "api", "apiA"}
	nSeq := tracefmt.EnvInt("VERIF_SEQ", 60)
	for i := 0; i < nSeq; i++ {
		w := begin(i, "sequential")
		c := sched.New(nil, "no-such-gate")
		relay(c, tw, &st, &mu)
		c.Install()
		done := c.Adopt("s")
		w.useKept = func() bool { return rng.Intn(2) == 0 }
		mine := w.observeQuiet(c)["version"].(string)
		seen := []string{mine}
		for k := 0; k < 12; k++ {
			o := op{C: names[rng.Intn(len(names))]}
			switch rng.Intn(5) {
			case 0:
				o.Op = "snap"
			case 1, 2:
				o.Op = "apply"
			default:
				o.Op = "applyif"
				switch rng.Intn(6) {
				case 0:
					o.E = "junk"
				case 4:
					o.E = "empty"
				case 5:
					o.E = "prefix"
				case 1:
					o.E = seen[rng.Intn(len(seen))] // possibly stale
				default:
					o.E = "mine"
				}
			}
			w.doOp(tw, "s", o, &mine)
			seen = append(seen, mine)
			ob := w.observeQuiet(c)
			ob["ev"] = "obs"
			tw.Emit(ob)
			st.SeqOps++
			if rng.Intn(3) == 0 { // the caller edits the candidate object it keeps; nothing may change
				from, to := w.editKept()
				tw.Emit(tracefmt.Rec{"ev": "edit", "from": from, "to": to})
				ob := w.observeQuiet(c)
				ob["ev"] = "obs"
				tw.Emit(ob)
				st.Edits++
			}
		}
		done()
		c.Uninstall()
		finish(w, true, i)
		st.Sequential++
	}

	// 3. free-running concurrent appliers (meaningful under -race)
	nStress := tracefmt.EnvInt("VERIF_STRESS", 40)
	for i := 0; i < nStress; i++ {
		w := begin(i, "stress")
		v0 := w.observe()["version"].(string)
		c := sched.New(nil, "no-such-gate")
		relay(c, tw, &st, &mu)
		c.Install()
		n := 2 + rng.Intn(3)
		for k := 0; k < n; k++ {
			name := "s" + string(rune('a'+k))
			var prog []op
			for q := 0; q < 3; q++ {
				o := op{Op: []string{"snap", "apply", "applyif", "applyif"}[rng.Intn(4)],
					C: []string{"A", "B", "same", "inv", "other"}[rng.Intn(5)], E: "mine"}
				prog = append(prog, o)
			}
			c.Go(name, func() {
				mine := v0
				for _, o := range prog {
					w.doOp(tw, name, o, &mine)
				}
			})
		}
		fin := c.Drain(10 * time.Second)
		c.Uninstall()
		finish(w, fin, i)
		st.Stress++
	}
	st.Events = tw.N
	if err := tw.Close(); err != nil {
		t.Fatal(err)
	}
	if err := tracefmt.WriteJSON("stats.json", st); err != nil {
		t.Fatal(err)
	}
}

// observeQuiet observes without the snapshot's own hook events reaching the trace.
func (w *world) observeQuiet(c *sched.Controller) tracefmt.Rec {
	saved := c.OnEvent
	c.OnEvent = nil
	defer func() { c.OnEvent = saved }()
	return w.observe()
}
