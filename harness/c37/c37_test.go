//go:build verif

// C37 harness: concretises the abstract configurations enumerated by TLC
// (spec/ConfigValid.tla) on top of config.DefaultConfig, calls the real
// Validate(), and sends every accepted configuration through the real
// serializers and loaders.  ConfigValid_Trace.tla judges the record.
package c37

import (
	"crypto/sha256"
	"encoding/json"
	"fmt"
	"math/rand"
	"os"
	"path/filepath"
	"sort"
	"strings"
	"testing"
	"time"

	"github.com/spf13/viper"
	"gopkg.in/yaml.v3"

	jconfig "go.minekube.com/gate/pkg/edition/java/config"
	liteconfig "go.minekube.com/gate/pkg/edition/java/lite/config"
	"go.minekube.com/gate/pkg/gate"
	"go.minekube.com/gate/pkg/gate/config"
	"go.minekube.com/gate/pkg/util/configutil"

	"verif/harness/tracefmt"
)

type atoms struct {
	Bind     string `json:"bind"`
	Sname    string `json:"sname"`
	Saddr    string `json:"saddr"`
	Try      string `json:"try"`
	Forced   string `json:"forced"`
	Mode     string `json:"mode"`
	Level    int    `json:"level"`
	Thr      int    `json:"thr"`
	QcEn     bool   `json:"qcEn"`
	QcOps    string `json:"qcOps"`
	QcBurst  int    `json:"qcBurst"`
	QcMax    int    `json:"qcMax"`
	QlEn     bool   `json:"qlEn"`
	QlOps    string `json:"qlOps"`
	QlBurst  int    `json:"qlBurst"`
	QlMax    int    `json:"qlMax"`
	Trusted  string `json:"trusted"`
	Routes   string `json:"routes"`
	Rhost    string `json:"rhost"`
	Rbackend string `json:"rbackend"`
	Strat    string `json:"strat"`
	Baddr    string `json:"baddr"`
}

type absCfg struct {
	Atoms atoms `json:"atoms"`
	Lite  bool  `json:"lite"`
}

func fresh() *config.Config {
	d := config.DefaultConfig
	b, err := json.Marshal(&d)
	if err != nil {
		panic(err)
	}
	var out config.Config
	if err := json.Unmarshal(b, &out); err != nil {
		panic(err)
	}
	return &out
}

func pick[T any](rng *rand.Rand, xs ...T) T { return xs[rng.Intn(len(xs))] }

var (
	a63 = strings.Repeat("a", 63)
	a64 = strings.Repeat("a", 64)
)

func quota(rng *rand.Rand, en bool, ops string, burst, max int) jconfig.QuotaSettings {
	q := jconfig.QuotaSettings{Enabled: en}
	switch ops {
	case "pos":
		q.OPS = pick[float32](rng, 5, 0.4, 0.001)
	case "zero":
		q.OPS = 0
	case "neg":
		q.OPS = pick[float32](rng, -1, -0.5)
	}
	if burst >= 1 {
		q.Burst = pick(rng, 1, 3)
	} else {
		q.Burst = pick(rng, 0, -1)
	}
	if max >= 1 {
		q.MaxEntries = pick(rng, 1, 1000)
	} else {
		q.MaxEntries = pick(rng, 0, -5)
	}
	return q
}

// concretise builds the real configuration for an abstract one. Every choice among
// several concrete realisations of an atom value is made by rng.
func concretise(a absCfg, rng *rand.Rand) *config.Config {
	c := fresh()
	j := &c.Config
	j.Status.Favicon = pick(rng, j.Status.Favicon, "")
	at := a.Atoms
	switch at.Bind {
	case "ok":
		j.Bind = pick(rng, "0.0.0.0:25565", ":25565", "[::]:25565", "localhost:25565")
	case "empty":
		j.Bind = ""
	case "blank":
		j.Bind = pick(rng, " ", "\t  ")
	case "noport":
		j.Bind = pick(rng, "localhost", "0.0.0.0", "[::1]")
	}
	var sname, saddr string
	switch at.Sname {
	case "ok":
		sname = pick(rng, "survival", "a", "A-b_c.d", "0", a63)
	case "bad":
		sname = pick(rng, "", "-survival", "survival-", "sur vival", "survival!", "süß")
	case "long":
		sname = a64
	}
	switch at.Saddr {
	case "ok":
		saddr = pick(rng, "localhost:25566", "10.0.0.2:25565", "[::1]:25565", "mc.example.com:1")
	case "bad":
		saddr = pick(rng, "localhost", "", "a:b:c", "[::1]")
	}
	j.Servers = map[string]string{"lobby": "localhost:25566", sname: saddr}
	switch at.Try {
	case "ok":
		j.Try = pick(rng, []string{"lobby"}, []string{"lobby", sname}, []string{})
	case "unknown":
		j.Try = pick(rng, []string{"missing"}, []string{"lobby", "missing"})
	}
	switch at.Forced {
	case "ok":
		j.ForcedHosts = pick(rng, jconfig.ForcedHosts{"play.example.test": {"lobby"}}, jconfig.ForcedHosts{},
			jconfig.ForcedHosts{"a.example.test": {"lobby", sname}})
	case "unknown":
		j.ForcedHosts = pick(rng, jconfig.ForcedHosts{"play.example.test": {"missing"}},
			jconfig.ForcedHosts{"a.example.test": {"lobby"}, "b.example.test": {"lobby", "missing"}})
	}
	if at.Mode == "unknown" {
		j.Forwarding.Mode = jconfig.ForwardingMode(pick(rng, "", "modern", "VELOCITY"))
	} else {
		j.Forwarding.Mode = jconfig.ForwardingMode(at.Mode)
	}
	if at.Mode == "velocity" || at.Mode == "bungeeguard" {
		j.Forwarding.VelocitySecret = "secret"
		j.Forwarding.BungeeGuardSecret = "secret"
	}
	j.Compression.Level = at.Level
	j.Compression.Threshold = at.Thr
	j.Quota.Connections = quota(rng, at.QcEn, at.QcOps, at.QcBurst, at.QcMax)
	j.Quota.Logins = quota(rng, at.QlEn, at.QlOps, at.QlBurst, at.QlMax)
	switch at.Trusted {
	case "default":
		j.ProxyProtocolTrustedProxies = pick(rng, []string(nil), []string{})
	case "cidr":
		j.ProxyProtocolTrustedProxies = pick(rng, []string{"10.0.0.0/8"}, []string{"10.0.0.0/8", "fd00::/8"})
	case "ip":
		j.ProxyProtocolTrustedProxies = pick(rng, []string{"192.168.1.1"}, []string{"::1", "10.1.2.3"})
	case "bad":
		j.ProxyProtocolTrustedProxies = pick(rng, []string{"not-an-ip"}, []string{"10.0.0.0/33"}, []string{"10.0.0.0/8", "nope"})
	}
	j.ProxyProtocol = rng.Intn(2) == 0

	j.Lite.Enabled = a.Lite
	good := liteconfig.Route{Host: []string{"good.example.test"}, Backend: []string{"good-backend.example.test:25565"}}
	dev := liteconfig.Route{}
	if at.Rhost == "ok" {
		dev.Host = pick(rng, []string{"play.example.test"}, []string{"*.example.test", "x.test"})
	} else {
		dev.Host = pick(rng, []string(nil), []string{})
	}
	if at.Rbackend == "ok" {
		var b string
		switch at.Baddr {
		case "ok":
			b = pick(rng, "backend.example.test:25565", "10.0.0.3:25565")
		case "noport":
			b = pick(rng, "backend.example.test", "10.0.0.3")
		case "bad":
			b = pick(rng, "backend:notaport", "[::1:25565")
		}
		dev.Backend = pick(rng, []string{b}, []string{"10.0.0.9:25565", b})
	} else {
		dev.Backend = pick(rng, []string(nil), []string{})
	}
	if at.Strat == "bad" {
		dev.Strategy = liteconfig.Strategy(pick(rng, "fastest", "RANDOM", "roundrobin"))
	} else {
		dev.Strategy = liteconfig.Strategy(at.Strat)
	}
	switch at.Routes {
	case "none":
		j.Lite.Routes = pick(rng, []liteconfig.Route(nil), []liteconfig.Route{})
	case "one":
		j.Lite.Routes = []liteconfig.Route{dev}
	case "two":
		j.Lite.Routes = []liteconfig.Route{good, dev}
	}
	return c
}

// fingerprints of the two serialized views of a configuration
func fps(c *config.Config) (string, string) {
	y, err := yaml.Marshal(c)
	if err != nil {
		return "yaml-marshal-error:" + err.Error(), ""
	}
	j, err := json.Marshal(c)
	if err != nil {
		return "", "json-marshal-error:" + err.Error()
	}
	return fmt.Sprintf("%x", sha256.Sum256(y))[:16], fmt.Sprintf("%x", sha256.Sum256(j))[:16]
}

// firstDiff lists the settings that differ in the JSON view (what gate itself compares and
// hashes into the version) and, if that is equal, in the YAML view. For the report only.
func firstDiff(a, b *config.Config) string {
	var diffs []string
	var walk func(path string, x, y any)
	walk = func(path string, x, y any) {
		xm, xok := x.(map[string]any)
		ym, yok := y.(map[string]any)
		if xok || yok {
			keys := map[string]bool{}
			for k := range xm {
				keys[k] = true
			}
			for k := range ym {
				keys[k] = true
			}
			ks := make([]string, 0, len(keys))
			for k := range keys {
				ks = append(ks, k)
			}
			sort.Strings(ks)
			for _, k := range ks {
				walk(path+"."+k, xm[k], ym[k])
			}
			return
		}
		if fmt.Sprint(x) != fmt.Sprint(y) {
			diffs = append(diffs, fmt.Sprintf("%s: %.60v -> %.60v", strings.TrimPrefix(path, "."), x, y))
		}
	}
	var ma, mb any
	ja, _ := json.Marshal(a)
	jb, _ := json.Marshal(b)
	json.Unmarshal(ja, &ma)
	json.Unmarshal(jb, &mb)
	walk("", ma, mb)
	if len(diffs) == 0 {
		ya, _ := yaml.Marshal(a)
		yb, _ := yaml.Marshal(b)
		ma, mb = nil, nil
		yaml.Unmarshal(ya, &ma)
		yaml.Unmarshal(yb, &mb)
		walk("yaml-view", ma, mb)
	}
	return strings.Join(diffs, "; ")
}

type stats struct {
	Configs    int            `json:"configs"`
	Accepted   int            `json:"accepted"`
	Rejected   int            `json:"rejected"`
	RoundTrips int            `json:"roundtrips"`
	Rich       int            `json:"rich"`
	ByDev      map[string]int `json:"by_deviation_count"`
	Samples    []any          `json:"samples"`
}

var scratchN int

// roundTrips serializes c in every way gate does and loads it back with the real loaders.
// all = every serializer/loader pair; otherwise two of the five, rotating with id.
func roundTrips(tw *tracefmt.Writer, st *stats, dir string, c *config.Config, id int, kind string, all bool) {
	want := func(k int) bool { return all || id%5 == k || (id+2)%5 == k }
	fy, fj := fps(c)
	emit := func(mode string, back *config.Config, err error) {
		rec := tracefmt.Rec{"ev": "roundtrip", "id": id, "kind": kind, "mode": mode, "load_ok": err == nil,
			"fp_yaml_before": fy, "fp_json_before": fj}
		if err != nil {
			rec["error"] = err.Error()
			rec["fp_yaml_after"], rec["fp_json_after"], rec["still_valid"] = "", "", false
		} else {
			rec["fp_yaml_after"], rec["fp_json_after"] = fps(back)
			_, errs := back.Validate()
			rec["still_valid"] = len(errs) == 0
			if d := firstDiff(c, back); d != "" {
				rec["diff"] = d
			}
		}
		tw.Emit(rec)
		st.RoundTrips++
	}
	strict := func(b []byte, ext string) (*config.Config, error) {
		var out config.Config
		if err := gate.VerifDecodeConfigStrict(b, ext, &out); err != nil {
			return nil, err
		}
		return &out, nil
	}
	file := func(b []byte, ext string) (*config.Config, error) {
		scratchN++
		p := filepath.Join(dir, fmt.Sprintf("cfg%d%s", scratchN, ext))
		if err := os.WriteFile(p, b, 0o644); err != nil {
			panic(err)
		}
		defer os.Remove(p)
		return gate.VerifLoadLiveConfigCandidate(viper.New(), p)
	}
	y, err := yaml.Marshal(c)
	if err != nil {
		emit("yaml-marshal", nil, err)
		return
	}
	if want(0) {
		back, err := strict(y, ".yaml")
		emit("yaml-api", back, err) // what GetConfig hands out and ApplyConfig takes back
	}
	if want(1) {
		back, err := file(y, ".yml")
		emit("yaml-file", back, err) // what persistConfig writes and the file loader reads
	}
	jb, err := json.Marshal(c)
	if err != nil {
		emit("json-marshal", nil, err)
		return
	}
	if want(2) {
		back, err := strict(jb, ".json")
		emit("json-api", back, err)
	}
	if want(3) {
		back, err := file(jb, ".json")
		emit("json-file", back, err)
	}
	if !want(4) {
		return
	}
	jv, err := json.Marshal(*c) // marshaled by value, as gate's newConfigCandidate does
	if err != nil {
		emit("json-byvalue-marshal", nil, err)
		return
	}
	back, err := strict(jv, ".json")
	emit("json-byvalue", back, err)
}

func component(s string) *configutil.Component {
	var c configutil.Component
	if err := yaml.Unmarshal([]byte(fmt.Sprintf("%q", s)), &c); err != nil {
		panic(err)
	}
	return &c
}

// rich builds an accepted configuration that uses the settings the atoms leave alone.
func rich(rng *rand.Rand) *config.Config {
	a := absCfg{Atoms: atoms{Bind: "ok", Sname: "ok", Saddr: "ok", Try: "ok", Forced: "ok",
		Mode: pick(rng, "legacy", "none", "velocity", "bungeeguard"), Level: rng.Intn(11) - 1, Thr: pick(rng, -1, 0, 64, 256, 1024),
		QcEn: rng.Intn(2) == 0, QcOps: "pos", QcBurst: 1, QcMax: 1, QlEn: rng.Intn(2) == 0, QlOps: "pos", QlBurst: 1, QlMax: 1,
		Trusted: pick(rng, "default", "cidr", "ip"), Routes: pick(rng, "one", "two"), Rhost: "ok", Rbackend: "ok",
		Strat: pick(rng, "", "sequential", "random", "round-robin", "least-connections", "lowest-latency"), Baddr: pick(rng, "ok", "noport")},
		Lite: rng.Intn(2) == 0}
	c := concretise(a, rng)
	j := &c.Config
	b := func() bool { return rng.Intn(2) == 0 }
	j.OnlineMode, j.OnlineModeKickExistingPlayers, j.AnnounceForge = b(), b(), b()
	j.FailoverOnUnexpectedServerDisconnect, j.ProxyProtocolBackend = b(), b()
	j.ShouldPreventClientProxyConnections, j.AcceptTransfers, j.BungeePluginChannelEnabled = b(), b(), b()
	j.BuiltinCommands, j.RequireBuiltinCommandPermissions, j.AnnounceProxyCommands = b(), b(), b()
	j.ForceKeyAuthentication, j.Debug = b(), b()
	j.Status.ShowMaxPlayers = pick(rng, 0, 1, 1000)
	j.Status.LogPingRequests = b()
	if b() {
		j.Status.Motd = component(pick(rng, "hello", "§aGreen §lbold", "two\nlines"))
	}
	j.Query.Enabled, j.Query.Port, j.Query.ShowPlugins = b(), pick(rng, 25577, 1), b()
	j.ConnectionTimeout = configutil.Duration(pick(rng, 5*time.Second, 1500*time.Millisecond, time.Minute))
	j.ReadTimeout = configutil.Duration(pick(rng, 30*time.Second, 250*time.Millisecond))
	j.PacketLimiter.Interval = configutil.Duration(pick(rng, 7*time.Second, 0, time.Second))
	j.PacketLimiter.PacketsPerSecond = pick(rng, 500, 0, -1)
	j.PacketLimiter.BytesPerSecond = pick(rng, -1, 0, 1<<20)
	for i := range j.Lite.Routes {
		r := &j.Lite.Routes[i]
		r.CachePingTTL = configutil.Duration(pick(rng, 0, 3*time.Second, -time.Second, 90*time.Second))
		r.ProxyProtocol, r.TCPShieldRealIP, r.ModifyVirtualHost = b(), b(), b()
		if rng.Intn(3) == 0 {
			r.Fallback = &liteconfig.Status{MOTD: component(pick(rng, "offline", "§cDown"))}
			r.Fallback.Version.Name = pick(rng, "", "Gate")
			if b() {
				r.Fallback.Version.Protocol = 767
			}
		}
	}
	c.HealthService.Enabled = b()
	c.HealthService.Bind = pick(rng, "0.0.0.0:9090", "127.0.0.1:9191")
	c.NoAutoReload = b()
	return c
}

func TestValidate(t *testing.T) {
	b, err := os.ReadFile(filepath.Join(tracefmt.OutDir(), "cfgs.json"))
	if err != nil {
		t.Fatal(err)
	}
	var cfgs []absCfg
	if err := json.Unmarshal(b, &cfgs); err != nil {
		t.Fatal(err)
	}
	tw, err := tracefmt.Create("trace.ndjson")
	if err != nil {
		t.Fatal(err)
	}
	dir := filepath.Join(tracefmt.OutDir(), "cfgfiles")
	if err := os.MkdirAll(dir, 0o755); err != nil {
		t.Fatal(err)
	}
	rng := rand.New(rand.NewSource(tracefmt.Seed()))
	st := stats{ByDev: map[string]int{}}
	reps := tracefmt.EnvInt("VERIF_REPS", 2)
	id := 0
	for _, a := range cfgs {
		for r := 0; r < reps; r++ { // several concrete realisations of the same abstract configuration
			id++
			c := concretise(a, rng)
			before, _ := fps(c)
			_, errs := c.Validate()
			after, _ := fps(c)
			msgs := make([]string, 0, len(errs))
			for _, e := range errs {
				msgs = append(msgs, e.Error())
			}
			atomsJSON, _ := json.Marshal(a.Atoms)
			var atomsMap map[string]any
			json.Unmarshal(atomsJSON, &atomsMap)
			tw.Emit(tracefmt.Rec{"ev": "validate", "id": id, "atoms": atomsMap, "lite": a.Lite,
				"invalid": len(errs) != 0, "nerrs": len(errs), "messages": msgs,
				"validate_pure": before == after}) // Validate must not edit the configuration
			st.Configs++
			if len(errs) == 0 {
				st.Accepted++
				roundTrips(tw, &st, dir, c, id, "atoms", false)
			} else {
				st.Rejected++
			}
			if len(st.Samples) < 3 && len(errs) == 2 {
				st.Samples = append(st.Samples, map[string]any{"atoms": atomsMap, "lite": a.Lite, "errors": msgs})
			}
		}
	}
	n := tracefmt.EnvInt("VERIF_RICH", 150)
	for i := 0; i < n; i++ {
		id++
		c := rich(rng)
		_, errs := c.Validate()
		if len(errs) != 0 {
			t.Fatalf("rich configuration unexpectedly rejected: %v", errs)
		}
		roundTrips(tw, &st, dir, c, id, "rich", true)
		st.Rich++
	}
	if err := tw.Close(); err != nil {
		t.Fatal(err)
	}
	tracefmt.WriteJSON("stats.json", st)
}
