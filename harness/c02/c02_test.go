//go:build verif

// C02 harness: feeds byte streams to the real codec.Decoder (all bytes available at once)
// and records, per Decode call, what it returned next to what an independent frame parser
// (own VarInt, Go's compress/zlib -- never gate's code) sees at the decoder's position.
// Streams: every row of the decision table exported by TLC from FrameAccept.tla, mutated
// valid streams, adversarial length / claimed-size VarInts, runs of empty frames, random bytes.
// No verdicts here: FrameAccept_Trace.tla re-evaluates Frame() on the logged head bytes,
// zlib facts and sizes.
package c02

import (
	"bytes"
	"compress/zlib"
	"encoding/json"
	"fmt"
	"hash/fnv"
	"io"
	"math/rand"
	"os"
	"path/filepath"
	"runtime"
	"testing"
	"time"

	"github.com/go-logr/logr"

	"go.minekube.com/gate/pkg/edition/java/proto/codec"
	"go.minekube.com/gate/pkg/edition/java/proto/state"
	"go.minekube.com/gate/pkg/edition/java/proto/state/states"
	"go.minekube.com/gate/pkg/gate/proto"

	"verif/harness/tracefmt"
)

const (
	maxFrame = 1<<21 - 1
	capSB    = 2 << 20
	capCB    = 8 << 20
	inflCap  = capCB + 2 // the harness never inflates further than this
)

// ---------------------------------------------------------------- own wire helpers

func putVarInt(b *bytes.Buffer, v int) {
	u := uint32(int32(v))
	for u >= 0x80 {
		b.WriteByte(byte(u) | 0x80)
		u >>= 7
	}
	b.WriteByte(byte(u))
}

func varInt(v int) []byte { var b bytes.Buffer; putVarInt(&b, v); return b.Bytes() }

// getVarInt: value, length, ok (ok=false: not terminated within 5 bytes / input ended)
func getVarInt(b []byte) (int, int, bool) {
	var u uint32
	for i := 0; i < 5 && i < len(b); i++ {
		u |= uint32(b[i]&0x7f) << (7 * uint(i))
		if b[i]&0x80 == 0 {
			return int(int32(u)), i + 1, true
		}
	}
	return 0, 0, false
}

type zfacts struct {
	ok    bool
	n     int
	trail int
	head  []byte // first bytes of the inflated data
	out   []byte // the inflated data when small
	sum   uint64 // its FNV-1a hash otherwise
}

const keepOut = 1 << 16

var (
	zcache  = map[uint64]zfacts{}
	scratch bytes.Buffer
)

func sum64(b []byte) uint64 { h := fnv.New64a(); h.Write(b); return h.Sum64() }

func inflate(body []byte) zfacts {
	key := sum64(body) ^ uint64(len(body))<<40
	if z, ok := zcache[key]; ok {
		return z
	}
	var z zfacts
	br := bytes.NewReader(body)
	zr, err := zlib.NewReader(br)
	if err == nil {
		scratch.Reset()
		n, err := io.CopyN(&scratch, zr, inflCap)
		z.n = int(n)
		out := scratch.Bytes()
		z.head = append([]byte{}, out[:min(5, len(out))]...)
		if len(out) <= keepOut {
			z.out = append([]byte{}, out...)
		} else {
			z.sum = sum64(out)
		}
		if err == io.EOF { // complete stream, checksum verified, below the cap
			z.ok = true
			z.trail = br.Len()
		}
	}
	zcache[key] = z
	return z
}

// same bytes as the inflated data described by z?
func (z zfacts) equals(p []byte) bool {
	if len(p) != z.n {
		return false
	}
	if z.n <= keepOut {
		return bytes.Equal(p, z.out)
	}
	return sum64(p) == z.sum
}

// ---------------------------------------------------------------- own frame parser (steers the run only)

type frame struct {
	kind        string // skip raw inflated reject incomplete
	off, plen   int
	used        int
	zoff, zlen  int
	z           zfacts
	phead       []byte
	payload     []byte
	interesting bool
}

func capOf(dir string) int {
	if dir == "sb" {
		return capSB
	}
	return capCB
}

func parse(s []byte, dir string, thr int) (f frame) {
	L, n, ok := getVarInt(s)
	if !ok {
		f.interesting = true
		if len(s) >= 5 {
			f.kind = "reject"
		} else {
			f.kind = "incomplete"
		}
		return
	}
	switch {
	case L == 0:
		f.kind, f.used = "skip", n
		return
	case L < 0 || L > maxFrame:
		f.kind, f.interesting = "reject", true
		return
	case len(s)-n < L:
		f.kind, f.interesting = "incomplete", len(s) > 0
		return
	}
	body := s[n : n+L]
	if thr < 0 {
		f.kind, f.off, f.plen, f.used, f.payload = "raw", n, L, n+L, body
		return
	}
	claimed, cn, ok := getVarInt(body)
	if !ok {
		f.kind, f.interesting = "reject", true
		return
	}
	f.interesting = true
	rest := body[cn:]
	f.zoff, f.zlen = n+cn, len(rest)
	switch {
	case claimed == 0:
		switch {
		case len(rest) > thr:
			f.kind = "reject"
		case len(rest) == 0:
			f.kind, f.used = "skip", n+L
		default:
			f.kind, f.off, f.plen, f.used, f.payload = "raw", n+cn, len(rest), n+L, rest
			f.interesting = len(rest) == thr
		}
	case claimed < 0 || claimed < thr || claimed > capOf(dir):
		f.kind = "reject"
	default:
		f.z = inflate(rest)
		f.phead = f.z.head
		if f.z.ok && f.z.n == claimed {
			f.kind, f.plen, f.used = "inflated", claimed, n+L
		} else {
			f.kind = "reject"
		}
	}
	return
}

// ---------------------------------------------------------------- stream construction

func pattern(n int) []byte {
	p := make([]byte, n)
	if n > 0 {
		p[0] = 0x7e // a packet id no registry knows
	}
	for i := 1; i < n; i += 97 {
		p[i] = byte(i)
	}
	return p
}

func randPayload(rng *rand.Rand, n int) []byte {
	p := make([]byte, n)
	if rng.Intn(2) == 0 {
		rng.Read(p)
	}
	if n > 0 {
		p[0] = 0x7e
	}
	return p
}

var deflated = map[int][]byte{}

func deflate(p []byte, level int) []byte {
	var b bytes.Buffer
	zw, _ := zlib.NewWriterLevel(&b, level)
	zw.Write(p)
	zw.Close()
	return b.Bytes()
}

func deflatedPattern(n int) []byte {
	if d, ok := deflated[n]; ok {
		return d
	}
	d := deflate(pattern(n), zlib.DefaultCompression)
	deflated[n] = d
	return d
}

func plainFrame(p []byte) []byte {
	var b bytes.Buffer
	putVarInt(&b, len(p))
	b.Write(p)
	return b.Bytes()
}

// frame under compression: claimed + body as given
func envFrame(claimed int, body []byte) []byte {
	var in bytes.Buffer
	putVarInt(&in, claimed)
	in.Write(body)
	return plainFrame(in.Bytes())
}

// a well-formed frame for payload p under threshold thr (what a correct writer sends)
func goodFrame(p []byte, thr int) []byte {
	if thr < 0 {
		return plainFrame(p)
	}
	if len(p) < thr || len(p) == 0 {
		return envFrame(0, p)
	}
	return envFrame(len(p), deflate(p, zlib.DefaultCompression))
}

var sentinelPayload = []byte{0x7e, 1, 2, 3}

type row struct {
	T       string `json:"t"`
	Dir     string `json:"dir"`
	Thr     int    `json:"thr"`
	Claimed int    `json:"claimed"`
	Zd      int    `json:"zd"`
	Zk      string `json:"zk"`
	Rest    int    `json:"rest"`
	Len     int    `json:"len"`
	Short   int    `json:"short"`
}
type scen struct {
	Row     row    `json:"row"`
	Verdict string `json:"verdict"`
	Zn      int    `json:"zn"`
}

type stream struct {
	dir string
	thr int
	b   []byte
	src string
}

func fromRow(sc scen) stream {
	r := sc.Row
	st := stream{dir: r.Dir, thr: r.Thr, src: "table:" + r.T}
	var b bytes.Buffer
	switch r.T {
	case "comp":
		body := append([]byte{}, deflatedPattern(sc.Zn)...)
		switch r.Zk {
		case "trunc":
			body = body[:len(body)-5]
		case "badsum":
			body[len(body)-1] ^= 0x55
		case "garbage":
			body = []byte{1, 2, 3, 4, 5, 6, 7, 8, 9, 10}
		case "trail":
			body = append(body, 9, 9, 9)
		}
		b.Write(envFrame(r.Claimed, body))
		b.Write(goodFrame(sentinelPayload, r.Thr))
	case "plain":
		b.Write(envFrame(0, pattern(r.Rest)))
		b.Write(goodFrame(sentinelPayload, r.Thr))
	case "len":
		st.thr = -1
		putVarInt(&b, r.Len)
		if r.Len > 0 && r.Len <= maxFrame {
			b.Write(pattern(r.Len - r.Short))
			if r.Short == 0 {
				b.Write(goodFrame(sentinelPayload, -1))
			}
		} else {
			b.Write([]byte{0x7e, 2, 3})
		}
	}
	st.b = b.Bytes()
	return st
}

// ---------------------------------------------------------------- driving the real decoder

type outcome struct {
	res     string
	payload []byte
	alloc   int64
}

var emptyRegistry = state.NewRegistry(states.HandshakeState)

func newDecoder(st stream) *codec.Decoder {
	dir := proto.ServerBound
	if st.dir == "cb" {
		dir = proto.ClientBound
	}
	d := codec.NewDecoder(bytes.NewReader(st.b), dir, logr.Discard())
	d.SetState(emptyRegistry) // no packet is known: payloads come back undecoded
	if st.thr >= 0 {
		d.SetCompressionThreshold(st.thr)
	}
	return d
}

func decodeOnce(d *codec.Decoder) (o outcome) {
	type ret struct {
		ctx *proto.PacketContext
		err error
		pan bool
	}
	ch := make(chan ret, 1)
	var m0, m1 runtime.MemStats
	runtime.ReadMemStats(&m0)
	go func() {
		var r ret
		defer func() {
			if x := recover(); x != nil {
				r.pan = true
			}
			ch <- r
		}()
		r.ctx, r.err = d.Decode()
	}()
	select {
	case r := <-ch:
		runtime.ReadMemStats(&m1)
		o.alloc = int64(m1.TotalAlloc - m0.TotalAlloc)
		switch {
		case r.pan:
			o.res = "panic"
		case r.err != nil || r.ctx == nil:
			o.res = "error"
		default:
			o.res, o.payload = "payload", r.ctx.Payload
		}
	case <-time.After(20 * time.Second):
		o.res = "hang"
	}
	return
}

type stats struct {
	Streams     int
	Decodes     int
	Frames      int
	BySrc       map[string]int
	ByKind      map[string]int
	ByResult    map[string]int
	Distinct    int
	Interesting int
	Samples     []any
}

func run(tw *tracefmt.Writer, st stream, stt *stats, seen map[uint64]bool) {
	h := fnv.New64a()
	h.Write(st.b)
	fmt.Fprint(h, st.dir, st.thr)
	if k := h.Sum64(); !seen[k] {
		seen[k] = true
		stt.Distinct++
	} else {
		return
	}
	stt.Streams++
	stt.BySrc[st.src]++
	tw.Emit(tracefmt.Rec{"ev": "reset", "dir": st.dir, "thr": st.thr, "total": len(st.b), "src": st.src})
	d := newDecoder(st)
	pos := 0
	interesting := false
	for {
		var f frame
		for {
			rest := st.b[pos:]
			f = parse(rest, st.dir, st.thr)
			interesting = interesting || f.interesting
			tw.Emit(tracefmt.Rec{"ev": "frame", "head": tracefmt.Bytes(rest[:min(16, len(rest))]), "avail": len(rest),
				"zoff": f.zoff, "zlen": f.zlen,
				"z":     map[string]any{"ok": f.z.ok, "n": f.z.n, "trail": f.z.trail},
				"phead": tracefmt.Bytes(f.phead), "hk": f.kind})
			stt.Frames++
			stt.ByKind[f.kind]++
			if f.kind != "skip" {
				break
			}
			pos += f.used
		}
		o := decodeOnce(d)
		pis := "none"
		if o.res == "payload" {
			pis = "other"
			if (f.kind == "raw" && bytes.Equal(o.payload, f.payload)) || (f.kind == "inflated" && f.z.equals(o.payload)) {
				pis = f.kind
			}
		}
		tw.Emit(tracefmt.Rec{"ev": "decode", "res": o.res, "plen": len(o.payload), "pis": pis, "alloc": o.alloc})
		stt.Decodes++
		stt.ByResult[o.res]++
		if len(stt.Samples) < 3 && f.kind == "reject" && len(st.b) < 40 {
			stt.Samples = append(stt.Samples, map[string]any{"dir": st.dir, "thr": st.thr, "stream": tracefmt.Bytes(st.b),
				"parser": f.kind, "real": o.res})
		}
		if o.res == "payload" && (f.kind == "raw" || f.kind == "inflated") {
			pos += f.used
			continue
		}
		break
	}
	if interesting {
		stt.Interesting++
	}
}

// ---------------------------------------------------------------- generated hostile streams

var thresholds = []int{-1, -1, 0, 1, 5, 64, 256}

func validStream(rng *rand.Rand) (stream, [][2]int) {
	st := stream{dir: []string{"sb", "cb"}[rng.Intn(2)], thr: thresholds[rng.Intn(len(thresholds))]}
	var b bytes.Buffer
	var spans [][2]int
	for i := 1 + rng.Intn(3); i > 0; i-- {
		n := []int{1, 2, 4, 5, 6, 63, 64, 65, 127, 128, 255, 256, 257, 300, 1000}[rng.Intn(15)]
		fr := goodFrame(randPayload(rng, n), st.thr)
		spans = append(spans, [2]int{b.Len(), b.Len() + len(fr)})
		b.Write(fr)
	}
	st.b = b.Bytes()
	return st, spans
}

func nonMinimal(v, width int) []byte {
	u := uint32(int32(v))
	out := make([]byte, width)
	for i := 0; i < width; i++ {
		out[i] = byte(u&0x7f) | 0x80
		u >>= 7
	}
	out[width-1] &= 0x7f
	return out
}

func mutate(rng *rand.Rand, st stream, spans [][2]int) stream {
	b := append([]byte{}, st.b...)
	sp := spans[rng.Intn(len(spans))]
	L, n, _ := getVarInt(b[sp[0]:])
	body := b[sp[0]+n : sp[1]]
	splice := func(prefix, nb []byte) {
		nb2 := append(append(append([]byte{}, b[:sp[0]]...), prefix...), nb...)
		b = append(nb2, b[sp[1]:]...)
	}
	kind := rng.Intn(12)
	st.src = fmt.Sprintf("mutated:%d", kind)
	switch kind {
	case 0: // flip a bit anywhere
		i := rng.Intn(len(b))
		b[i] ^= 1 << uint(rng.Intn(8))
	case 1: // truncate
		b = b[:rng.Intn(len(b))]
	case 2: // length prefix off by a little
		splice(varInt(L+[]int{-1, 1, 2, -2}[rng.Intn(4)]), body)
	case 3: // hostile length prefix
		splice(varInt([]int{-1, -2147483648, maxFrame, maxFrame + 1, 1 << 28, 2147483647, 0}[rng.Intn(7)]), body)
	case 4: // non-minimal length prefix
		splice(nonMinimal(L, 2+rng.Intn(4)), body)
	case 5: // over-long VarInt
		splice([]byte{0x80, 0x80, 0x80, 0x80, 0x80, 0x01}, body)
	case 6, 7, 8: // claimed size games (compression on)
		if st.thr >= 0 {
			c, cn, ok := getVarInt(body)
			if ok {
				vals := []int{0, -1, -2147483648, 1, st.thr - 1, st.thr, c - 1, c + 1, capOf(st.dir), capOf(st.dir) + 1, 2147483647}
				nc := varInt(vals[rng.Intn(len(vals))])
				if kind == 8 {
					nc = nonMinimal(c, 2+rng.Intn(4))
				}
				nb := append(append([]byte{}, nc...), body[cn:]...)
				splice(varInt(len(nb)), nb)
			}
		} else {
			b[rng.Intn(len(b))] = byte(rng.Intn(256))
		}
	case 9: // zlib body cut short / extended (length prefix adjusted)
		if len(body) > 3 {
			nb := append([]byte{}, body[:len(body)-1-rng.Intn(min(6, len(body)-2))]...)
			if rng.Intn(2) == 0 {
				nb = append(append([]byte{}, body...), byte(rng.Intn(256)), byte(rng.Intn(256)))
			}
			splice(varInt(len(nb)), nb)
		}
	case 10: // corrupt the last bytes (checksum) of the body
		if len(body) > 2 {
			b[sp[1]-1-rng.Intn(2)] ^= 0xff
		}
	case 11: // insert empty frames in front
		k := rng.Intn(4)
		b = append(bytes.Repeat([]byte{0}, k), b...)
	}
	st.b = b
	return st
}

func TestStreams(t *testing.T) {
	raw, err := os.ReadFile(filepath.Join(tracefmt.OutDir(), "scenarios.json"))
	if err != nil {
		t.Fatal(err)
	}
	var scens []scen
	if err := json.Unmarshal(raw, &scens); err != nil {
		t.Fatal(err)
	}
	tw, err := tracefmt.Create("trace.ndjson")
	if err != nil {
		t.Fatal(err)
	}
	stt := &stats{BySrc: map[string]int{}, ByKind: map[string]int{}, ByResult: map[string]int{}}
	seen := map[uint64]bool{}
	rng := rand.New(rand.NewSource(tracefmt.Seed()))

	// 1. the decision table
	for _, sc := range scens {
		run(tw, fromRow(sc), stt, seen)
	}
	// 2. inflated size != claimed size by more than one, wrong by a lot, zero-length inflation
	for _, dir := range []string{"sb", "cb"} {
		for _, c := range [][2]int{{10, 20}, {20, 10}, {300, 1000}, {1000, 300}, {5, 0}, {64, 65}, {64, 63}} {
			st := stream{dir: dir, thr: 5, src: "overlong"}
			st.b = append(envFrame(c[0], deflate(pattern(c[1]), zlib.BestSpeed)), goodFrame(sentinelPayload, 5)...)
			run(tw, st, stt, seen)
		}
	}
	// 2b. claimed-size VarInts padded beyond five bytes (not a VarInt any more): the frame's own
	// length prefix is minimal, the frame must be rejected whatever the padded value would be
	for _, dir := range []string{"sb", "cb"} {
		for _, thr := range []int{0, 64, 256} {
			overlong := func(v uint64, width int) []byte {
				out := make([]byte, width)
				for i := range out {
					out[i] = byte(v&0x7f) | 0x80
					v >>= 7
				}
				out[width-1] &= 0x7f
				return out
			}
			for _, width := range []int{6, 7, 10} {
				for _, c := range []struct {
					claimed uint64
					body    []byte
				}{
					{0, pattern(min(thr, 20))},                            // "uncompressed"
					{300, deflate(pattern(300), zlib.DefaultCompression)}, // would inflate exactly
					{1<<32 + 300, deflate(pattern(300), zlib.BestSpeed)},  // low 32 bits are a legal size
				} {
					in := append(overlong(c.claimed, width), c.body...)
					st := stream{dir: dir, thr: thr, src: "claimed-overlong"}
					st.b = append(plainFrame(in), goodFrame(sentinelPayload, thr)...)
					run(tw, st, stt, seen)
				}
			}
		}
	}
	// 3. runs of empty frames in front of a valid frame
	for k := 0; k <= 14; k++ {
		for _, thr := range []int{-1, 64} {
			var b bytes.Buffer
			for i := 0; i < k; i++ {
				if thr >= 0 && i%2 == 1 {
					b.Write([]byte{1, 0}) // empty uncompressed payload
				} else {
					b.WriteByte(0)
				}
			}
			b.Write(goodFrame(sentinelPayload, thr))
			run(tw, stream{dir: "sb", thr: thr, b: b.Bytes(), src: "emptyrun"}, stt, seen)
		}
	}
	// 3b. long-lived decoders: empty frames spread between real frames, never more than 10 in a
	// row but many in total (11, 12, 25, 60): every real payload must still come out
	for _, total := range []int{11, 12, 25, 60} {
		for _, thr := range []int{-1, 64} {
			for _, rl := range []int{1, 3, 10} {
				var b bytes.Buffer
				left := total
				for i := 0; left > 0; i++ {
					k := min(rl, left)
					for j := 0; j < k; j++ {
						if thr >= 0 && (i+j)%2 == 1 {
							b.Write([]byte{1, 0})
						} else {
							b.WriteByte(0)
						}
					}
					left -= k
					b.Write(goodFrame(randPayload(rng, 1+rng.Intn(90)), thr))
				}
				run(tw, stream{dir: []string{"sb", "cb"}[rl%2], thr: thr, b: b.Bytes(), src: "emptyspread"}, stt, seen)
			}
		}
	}
	// 4. mutated valid streams
	nMut := tracefmt.EnvInt("VERIF_MUT", 1500)
	for i := 0; i < nMut; i++ {
		st, spans := validStream(rng)
		if i%10 == 0 {
			st.src = "valid"
			run(tw, st, stt, seen)
			continue
		}
		run(tw, mutate(rng, st, spans), stt, seen)
	}
	// 5. random bytes
	nRand := tracefmt.EnvInt("VERIF_RAND", 1500)
	for i := 0; i < nRand; i++ {
		b := make([]byte, rng.Intn(24))
		rng.Read(b)
		if len(b) > 0 && rng.Intn(2) == 0 {
			b[0] = byte(rng.Intn(len(b) + 2)) // plausible small length
		}
		run(tw, stream{dir: []string{"sb", "cb"}[rng.Intn(2)], thr: thresholds[rng.Intn(len(thresholds))], b: b, src: "random"}, stt, seen)
	}
	if err := tw.Close(); err != nil {
		t.Fatal(err)
	}
	if err := tracefmt.WriteJSON("stats.json", stt); err != nil {
		t.Fatal(err)
	}
}
