//go:build verif

// Session harness: runs many concurrent player sessions (1.20.1 and 1.20.4 clients,
// healthy / refusing / kicking backends in the try list) through the live rig and logs
// the lifecycle events seen at both sides via packet taps; Session_Trace.tla judges
// every session against the composite lifecycle spec.
package session

import (
	"fmt"
	"sort"
	"sync"
	"testing"
	"time"

	"verif/harness/mcwire"
	"verif/harness/rig"
	"verif/harness/tracefmt"
)

type ev struct {
	seq  int
	rec  tracefmt.Rec
	sess string
}

type log struct {
	mu  sync.Mutex
	seq int
	evs []ev
}

func (l *log) add(sess string, r tracefmt.Rec) int {
	l.mu.Lock()
	defer l.mu.Unlock()
	l.seq++
	l.evs = append(l.evs, ev{l.seq, r, sess})
	return l.seq
}

func cfgIDs(proto int) (cbFinish, sbFinish int) {
	if proto >= rig.P1_20_5 {
		return 3, 3
	}
	return 2, 2
}

// tapClient logs lifecycle events of a client connection.
func tapClient(l *log, c *rig.Client, sess string) {
	modern := c.Proto >= rig.P1_20_2
	state := "hs"
	cbFin, sbFin := cfgIDs(c.Proto)
	var mu sync.Mutex
	c.Conn.Tap = func(out bool, p mcwire.Packet) {
		mu.Lock()
		defer mu.Unlock()
		emit := func(what string) { l.add(sess, tracefmt.Rec{"ev": "c", "what": what, "name": sess}) }
		switch state {
		case "hs":
			if out {
				emit("hs")
				state = "login"
			}
		case "login":
			switch {
			case out && p.ID == rig.SBLoginStart:
				emit("start")
			case out && p.ID == rig.SBLoginEncResp:
				emit("encresp")
			case out && p.ID == rig.SBLoginAck && modern:
				emit("ack")
				state = "config"
			case !out && p.ID == rig.LoginEncRequest:
				emit("encreq")
			case !out && p.ID == rig.LoginSuccessID:
				emit("success")
				if !modern {
					state = "play"
				}
			}
		case "config":
			switch {
			case !out && p.ID == cbFin:
				emit("cfgfin")
			case out && p.ID == sbFin:
				emit("cfgack")
				state = "play"
			}
		case "play":
			if !out && p.ID == rig.JoinGameID(c.Proto) {
				emit("join")
			}
		}
	}
}

// tapBackend logs lifecycle events of a backend connection; the session is known once the
// login start arrives, earlier events are attributed then.
func tapBackend(l *log, bc *rig.BackendConn, connNo func(sess string) string) {
	var mu sync.Mutex
	state := "hs"
	sess := ""
	conn := ""
	var pending []ev
	emit := func(what string, name string) {
		r := tracefmt.Rec{"ev": "b", "what": what, "name": name}
		if sess == "" {
			// not attributable yet: keep the global order number
			l.mu.Lock()
			l.seq++
			pending = append(pending, ev{l.seq, r, ""})
			l.mu.Unlock()
			return
		}
		r["conn"] = conn
		l.add(sess, r)
	}
	attribute := func(name string) {
		sess = name
		conn = connNo(name)
		l.mu.Lock()
		for _, e := range pending {
			e.rec["conn"] = conn
			e.rec["name"] = name
			l.evs = append(l.evs, ev{e.seq, e.rec, name})
		}
		l.mu.Unlock()
		pending = nil
	}
	mu.Lock()
	emit("accept", "")
	mu.Unlock()
	bc.Conn.Tap = func(out bool, p mcwire.Packet) {
		mu.Lock()
		defer mu.Unlock()
		proto := bc.Proto
		switch state {
		case "hs":
			if !out {
				emit("hs", "")
				state = "login"
			}
		case "login":
			switch {
			case !out && p.ID == rig.SBLoginStart:
				name := mcwire.NewRd(p.Data).Str()
				attribute(name)
				emit("start", name)
			case out && p.ID == rig.LoginSuccessID:
				emit("success", sess)
				if proto < rig.P1_20_2 {
					state = "play"
				}
			case !out && p.ID == rig.SBLoginAck && proto >= rig.P1_20_2:
				emit("ack", sess)
				state = "config"
			}
		case "config":
			cbFin, sbFin := cfgIDs(proto)
			switch {
			case out && p.ID == cbFin:
				emit("cfgfin", sess)
			case !out && p.ID == sbFin:
				emit("cfgack", sess)
				state = "play"
			}
		case "play":
			if out && p.ID == rig.JoinGameID(proto) {
				emit("join", sess)
			}
		}
	}
	_ = fmt.Sprint
}

func TestSessions(t *testing.T) {
	l := &log{}
	var cmu sync.Mutex
	counters := map[string]int{}
	connNo := func(sess string) string {
		cmu.Lock()
		defer cmu.Unlock()
		counters[sess]++
		return fmt.Sprintf("b%d", counters[sess])
	}
	mk := func(behave func(bc *rig.BackendConn), refuse bool) *rig.Backend {
		b, err := rig.NewBackend(behave)
		if err != nil {
			t.Fatal(err)
		}
		b.Refuse = refuse
		b.OnAccept = func(bc *rig.BackendConn) { tapBackend(l, bc, connNo) }
		return b
	}
	closed := func(bc *rig.BackendConn) {
		if bc.Name != "" {
			// the tap knows the conn id; log the close through a synthetic packet-less event
		}
	}
	_ = closed
	ok := mk(nil, false)
	kick := mk(func(bc *rig.BackendConn) {
		if err := bc.ReadLogin(); err != nil {
			return
		}
		// kicked during login: clientbound login disconnect with a JSON text component
		_ = bc.WritePacket(rig.LoginDisconnect, (&mcwire.Buf{}).String(`{"text":"go away"}`).B)
		time.Sleep(20 * time.Millisecond)
	}, false)
	refuse := mk(nil, true)
	defer ok.Close()
	defer kick.Close()
	defer refuse.Close()
	r, err := rig.New(rig.Options{
		Backends: map[string]*rig.Backend{"ok": ok, "kick": kick, "refuse": refuse},
		Try:      []string{"refuse", "kick", "ok"},
	})
	if err != nil {
		t.Fatal(err)
	}
	defer r.Close()

	n := tracefmt.EnvInt("VERIF_SESSIONS", 40)
	var wg sync.WaitGroup
	joined := 0
	var jmu sync.Mutex
	modernOf := map[string]bool{}
	for i := 0; i < n; i++ {
		i := i
		proto := []int{rig.P1_20, rig.P1_20_3}[i%2]
		name := fmt.Sprintf("S%d_%d", tracefmt.Seed()%1000, i)
		modernOf[name] = proto >= rig.P1_20_2
		wg.Add(1)
		go func() {
			defer wg.Done()
			c, err := r.NewClient(proto)
			if err != nil {
				t.Error(err)
				return
			}
			defer c.Close()
			c.Conn.Timeout = 15 * time.Second
			tapClient(l, c, name)
			if err := c.JoinFully("localhost", name); err == nil {
				jmu.Lock()
				joined++
				jmu.Unlock()
			}
			time.Sleep(10 * time.Millisecond)
		}()
	}
	wg.Wait()
	time.Sleep(50 * time.Millisecond)

	tw, err := tracefmt.Create("trace.ndjson")
	if err != nil {
		t.Fatal(err)
	}
	l.mu.Lock()
	evs := append([]ev(nil), l.evs...)
	l.mu.Unlock()
	sort.Slice(evs, func(a, b int) bool { return evs[a].seq < evs[b].seq })
	bySess := map[string][]ev{}
	for _, e := range evs {
		if e.sess != "" {
			bySess[e.sess] = append(bySess[e.sess], e)
		}
	}
	var names []string
	for s := range bySess {
		names = append(names, s)
	}
	sort.Strings(names)
	var samples []any
	for _, s := range names {
		tw.EmitRaw(tracefmt.Rec{"ev": "reset", "modern": modernOf[s], "sess": s})
		var sample []any
		for _, e := range bySess[s] {
			e.rec["gseq"] = e.seq
			tw.EmitRaw(e.rec)
			sample = append(sample, fmt.Sprintf("%v:%v:%v", e.rec["ev"], e.rec["conn"], e.rec["what"]))
		}
		if len(samples) < 2 {
			samples = append(samples, map[string]any{"session": s, "modern": modernOf[s], "events": sample})
		}
	}
	if err := tw.Close(); err != nil {
		t.Fatal(err)
	}
	tracefmt.WriteJSON("stats.json", map[string]any{"sessions": len(names), "joined": joined, "events": len(evs), "samples": samples})
}
