//go:build verif

// Session harness: runs many concurrent player sessions (1.20.1 and 1.20.4 clients,
// healthy / refusing / kicking backends in the try list) through the live rig and logs
// the lifecycle events seen at both sides via packet taps; Session_Trace.tla judges
// every session against the composite lifecycle spec.
package session

import (
	"context"
	"fmt"
	"sort"
	"sync"
	"testing"
	"time"

	cfgpacket "go.minekube.com/gate/pkg/edition/java/proto/packet/config"
	gproto "go.minekube.com/gate/pkg/gate/proto"

	"verif/harness/mcwire"
	"verif/harness/rig"
	"verif/harness/tracefmt"
)

type ev struct {
	seq  int
	rec  tracefmt.Rec
	sess string
}

type log struct {
	mu  sync.Mutex
	seq int
	evs []ev
}

func (l *log) add(sess string, r tracefmt.Rec) int {
	l.mu.Lock()
	defer l.mu.Unlock()
	l.seq++
	l.evs = append(l.evs, ev{l.seq, r, sess})
	return l.seq
}

func cfgIDs(proto int) (cbFinish, sbFinish int) {
	if proto >= rig.P1_20_5 {
		return 3, 3
	}
	return 2, 2
}

// tapClient logs lifecycle events of a client connection.
func tapClient(l *log, c *rig.Client, sess string) {
	modern := c.Proto >= rig.P1_20_2
	state := "hs"
	cbFin, sbFin := cfgIDs(c.Proto)
	startCfg, hasStart := rig.PlayID(gproto.ClientBound, c.Proto, &cfgpacket.StartUpdate{})
	ackCfg, _ := rig.PlayID(gproto.ServerBound, c.Proto, &cfgpacket.FinishedUpdate{})
	var mu sync.Mutex
	c.Conn.Tap = func(out bool, p mcwire.Packet) {
		mu.Lock()
		defer mu.Unlock()
		emit := func(what string) { l.add(sess, tracefmt.Rec{"ev": "c", "what": what, "name": sess}) }
		switch state {
		case "hs":
			if out {
				emit("hs")
				state = "login"
			}
		case "login":
			switch {
			case out && p.ID == rig.SBLoginStart:
				emit("start")
			case out && p.ID == rig.SBLoginEncResp:
				emit("encresp")
			case out && p.ID == rig.SBLoginAck && modern:
				emit("ack")
				state = "config"
			case !out && p.ID == rig.LoginEncRequest:
				emit("encreq")
			case !out && p.ID == rig.LoginSuccessID:
				emit("success")
				if !modern {
					state = "play"
				}
			}
		case "config":
			switch {
			case !out && p.ID == cbFin:
				emit("cfgfin")
			case out && p.ID == sbFin:
				emit("cfgack")
				state = "play"
			}
		case "play":
			switch {
			case !out && p.ID == rig.JoinGameID(c.Proto):
				emit("join")
			case !out && modern && hasStart && p.ID == startCfg:
				emit("startcfg")
			case out && modern && p.ID == ackCfg:
				emit("cfgenter")
				state = "config"
			}
		}
	}
}

// tapBackend logs lifecycle events of a backend connection; the session is known once the
// login start arrives, earlier events are attributed then.
func tapBackend(l *log, bc *rig.BackendConn, connNo func(sess string) string) (closed func()) {
	var mu sync.Mutex
	state := "hs"
	sess := ""
	conn := ""
	var pending []ev
	emit := func(what string, name string) {
		r := tracefmt.Rec{"ev": "b", "what": what, "name": name}
		if sess == "" {
			// not attributable yet: keep the global order number
			l.mu.Lock()
			l.seq++
			pending = append(pending, ev{l.seq, r, ""})
			l.mu.Unlock()
			return
		}
		r["conn"] = conn
		l.add(sess, r)
	}
	attribute := func(name string) {
		sess = name
		conn = connNo(name)
		l.mu.Lock()
		for _, e := range pending {
			e.rec["conn"] = conn
			e.rec["name"] = name
			l.evs = append(l.evs, ev{e.seq, e.rec, name})
		}
		l.mu.Unlock()
		pending = nil
	}
	mu.Lock()
	emit("accept", "")
	mu.Unlock()
	bc.Conn.Tap = func(out bool, p mcwire.Packet) {
		mu.Lock()
		defer mu.Unlock()
		proto := bc.Proto
		switch state {
		case "hs":
			if !out {
				emit("hs", "")
				state = "login"
			}
		case "login":
			switch {
			case !out && p.ID == rig.SBLoginStart:
				name := mcwire.NewRd(p.Data).Str()
				attribute(name)
				emit("start", name)
			case out && p.ID == rig.LoginSuccessID:
				emit("success", sess)
				if proto < rig.P1_20_2 {
					state = "play"
				}
			case !out && p.ID == rig.SBLoginAck && proto >= rig.P1_20_2:
				emit("ack", sess)
				state = "config"
			}
		case "config":
			cbFin, sbFin := cfgIDs(proto)
			switch {
			case out && p.ID == cbFin:
				emit("cfgfin", sess)
			case !out && p.ID == sbFin:
				emit("cfgack", sess)
				state = "play"
			}
		case "play":
			if out && p.ID == rig.JoinGameID(proto) {
				emit("join", sess)
			}
		}
	}
	return func() {
		mu.Lock()
		defer mu.Unlock()
		emit("closed", sess)
	}
}

func TestSessions(t *testing.T) {
	l := &log{}
	var cmu sync.Mutex
	counters := map[string]int{}
	connNo := func(sess string) string {
		cmu.Lock()
		defer cmu.Unlock()
		counters[sess]++
		return fmt.Sprintf("b%d", counters[sess])
	}
	var closers sync.Map // *rig.BackendConn -> func()
	mk := func(behave func(bc *rig.BackendConn), refuse bool) *rig.Backend {
		wrapped := func(bc *rig.BackendConn) {
			defer func() {
				if f, ok := closers.Load(bc); ok {
					f.(func())() // log the close first, then mark the connection done
					closers.Delete(bc)
				}
			}()
			if behave != nil {
				behave(bc)
				return
			}
			if err := bc.StandardJoin(-1); err != nil {
				return
			}
			bc.Pump()
		}
		b, err := rig.NewBackend(wrapped)
		if err != nil {
			t.Fatal(err)
		}
		b.Refuse = refuse
		b.OnAccept = func(bc *rig.BackendConn) { closers.Store(bc, tapBackend(l, bc, connNo)) }
		return b
	}
	ok := mk(nil, false)
	ok2 := mk(nil, false)
	kick := mk(func(bc *rig.BackendConn) {
		if err := bc.ReadLogin(); err != nil {
			return
		}
		// kicked during login: clientbound login disconnect with a JSON text component
		_ = bc.WritePacket(rig.LoginDisconnect, (&mcwire.Buf{}).String(`{"text":"go away"}`).B)
		time.Sleep(20 * time.Millisecond)
	}, false)
	refuse := mk(nil, true)
	defer ok.Close()
	defer ok2.Close()
	defer kick.Close()
	defer refuse.Close()
	r, err := rig.New(rig.Options{
		Backends: map[string]*rig.Backend{"ok": ok, "ok2": ok2, "kick": kick, "refuse": refuse},
		Try:      []string{"refuse", "kick", "ok"},
	})
	if err != nil {
		t.Fatal(err)
	}
	defer r.Close()

	n := tracefmt.EnvInt("VERIF_SESSIONS", 40)
	var wg sync.WaitGroup
	joined, switched := 0, 0
	var jmu sync.Mutex
	modernOf := map[string]bool{}
	for i := 0; i < n; i++ {
		i := i
		proto := []int{rig.P1_20, rig.P1_20_3}[i%2]
		name := fmt.Sprintf("S%d_%d", tracefmt.Seed()%1000, i)
		modernOf[name] = proto >= rig.P1_20_2
		wg.Add(1)
		go func() {
			defer wg.Done()
			c, err := r.NewClient(proto)
			if err != nil {
				t.Error(err)
				return
			}
			defer c.Close()
			c.Conn.Timeout = 15 * time.Second
			tapClient(l, c, name)
			if err := c.JoinFully("localhost", name); err != nil {
				return
			}
			jmu.Lock()
			joined++
			jmu.Unlock()
			ac := c.Auto()
			// some sessions switch servers through the API, some twice
			for k := 0; k < i%3; k++ {
				pl := r.P.PlayerByName(name)
				if pl == nil {
					break
				}
				target := []string{"ok2", "ok"}[k%2]
				ctx, cancel := context.WithTimeout(context.Background(), 10*time.Second)
				res, err := pl.CreateConnectionRequest(r.P.Server(target)).Connect(ctx)
				cancel()
				if err == nil && res != nil && res.Status().Successful() {
					jmu.Lock()
					switched++
					jmu.Unlock()
				}
				// let the client finish following the switch before the next one
				rig.WaitFor(3*time.Second, func() bool { st, _, _, _, closed := ac.Snapshot(); return closed || st == "play" })
				time.Sleep(5 * time.Millisecond)
			}
			c.Close()
			ac.Wait(3 * time.Second)
			l.add(name, tracefmt.Rec{"ev": "c", "what": "closed", "name": name})
			// the proxy must now drop this player's backend connections
			rig.WaitFor(5*time.Second, func() bool {
				for _, b := range []*rig.Backend{ok, ok2, kick} {
					for _, bc := range b.Conns() {
						if bc.Name == name && !connDone(&closers, bc) {
							return false
						}
					}
				}
				return true
			})
			time.Sleep(20 * time.Millisecond)
			l.add(name, tracefmt.Rec{"ev": "end"})
		}()
	}
	wg.Wait()
	time.Sleep(50 * time.Millisecond)

	tw, err := tracefmt.Create("trace.ndjson")
	if err != nil {
		t.Fatal(err)
	}
	l.mu.Lock()
	evs := append([]ev(nil), l.evs...)
	l.mu.Unlock()
	sort.Slice(evs, func(a, b int) bool { return evs[a].seq < evs[b].seq })
	bySess := map[string][]ev{}
	for _, e := range evs {
		if e.sess != "" {
			bySess[e.sess] = append(bySess[e.sess], e)
		}
	}
	var names []string
	for s := range bySess {
		names = append(names, s)
	}
	sort.Strings(names)
	var samples []any
	for _, s := range names {
		tw.EmitRaw(tracefmt.Rec{"ev": "reset", "modern": modernOf[s], "sess": s})
		var sample []any
		for _, e := range bySess[s] {
			e.rec["gseq"] = e.seq
			tw.EmitRaw(e.rec)
			sample = append(sample, fmt.Sprintf("%v:%v:%v", e.rec["ev"], e.rec["conn"], e.rec["what"]))
		}
		if len(samples) < 2 {
			samples = append(samples, map[string]any{"session": s, "modern": modernOf[s], "events": sample})
		}
	}
	if err := tw.Close(); err != nil {
		t.Fatal(err)
	}
	tracefmt.WriteJSON("stats.json", map[string]any{"sessions": len(names), "joined": joined, "switched": switched, "events": len(evs), "samples": samples})
}

// connDone reports whether the backend connection's script has ended (its close was logged).
func connDone(m *sync.Map, bc *rig.BackendConn) bool {
	_, ok := m.Load(bc)
	return !ok
}
