//go:build verif

// C18 harness (live rig): scripted fake backends send keep-alive packets (configuration
// phase of a 1.20.4 initial join; current + in-flight backend of a 1.20.1 server switch),
// a fake client replies with matching / unknown / duplicate ids, and the backends log
// which replies reach them.  Concurrent variants: backends and client fire at the same
// time, and several reply handlers (the exported forwardKeepAlive) run at once.
// KeepAlive_Trace.tla judges.
package c18

import (
	"context"
	"encoding/binary"
	"encoding/json"
	"fmt"
	"math/rand"
	"os"
	"path/filepath"
	"sync"
	"testing"
	"time"

	"go.minekube.com/gate/pkg/edition/java/proxy"

	"verif/harness/mcwire"
	"verif/harness/rig"
	"verif/harness/tracefmt"
)

type step struct {
	K  string `json:"k"`
	B  string `json:"b"`
	ID int    `json:"id"`
}
type hist struct {
	Kind string `json:"kind"`
	H    []step `json:"h"`
	N    int    `json:"n"` // lru: number of keep-alives
}

type env struct {
	rv   *rig.Rendezvous
	r    *rig.Rig
	rt   *rig.Router
	seed int64
	long time.Duration
}

// session is one scripted player with its recorder.
type session struct {
	e    *env
	mu   sync.Mutex
	recs []tracefmt.Rec
	c    *rig.SClient
	name string
	bs   map[string]*rig.SBackendConn
	note []string
	nbar int
}

func (s *session) emit(r tracefmt.Rec) { s.mu.Lock(); s.recs = append(s.recs, r); s.mu.Unlock() }
func (s *session) notef(f string, a ...any) {
	s.mu.Lock()
	s.note = append(s.note, fmt.Sprintf(f, a...))
	s.mu.Unlock()
}

// watch logs every keep-alive reply the backend connection receives, at receipt.
func (s *session) watch(b string, bc *rig.SBackendConn) {
	s.bs[b] = bc
	bc.SetOnRecv(func(r rig.Recv) {
		if r.State != "login" && r.ID == rig.SBKeepAliveID(bc.Proto, r.State == "config") && len(r.Data) == 8 {
			s.emit(tracefmt.Rec{"ev": "brecv", "b": b, "id": int(int64(binary.BigEndian.Uint64(r.Data))), "state": r.State})
		}
	})
}

func (s *session) ka(b string, id int) {
	bc := s.bs[b]
	if bc == nil {
		return
	}
	cfg := bc.Proto >= rig.P1_20_2 && s.c.SBState() == "config"
	s.emit(tracefmt.Rec{"ev": "bsend", "b": b, "id": id})
	_ = bc.WritePacket(rig.CBKeepAliveID(bc.Proto, cfg), rig.KeepAlivePayload(int64(id)))
}

// clientHas counts the keep-alives with id the client has received.
func (s *session) clientHas(id int) int {
	n := 0
	for _, r := range s.c.Log() {
		if r.State != "login" && r.ID == rig.CBKeepAliveID(s.c.Proto, r.State == "config") && len(r.Data) == 8 &&
			int64(binary.BigEndian.Uint64(r.Data)) == int64(id) {
			n++
		}
	}
	return n
}

func (s *session) reply(id int) {
	s.emit(tracefmt.Rec{"ev": "creply", "id": id})
	_ = s.c.SendKeepAlive(int64(id))
}

// settle makes sure the proxy processed what the client sent: through the connected
// backend when there is one (an unknown play packet is forwarded as is), else by waiting.
func (s *session) settle() {
	a := s.bs["a"]
	if a != nil && s.c.SBState() == "play" {
		s.nbar++
		want := (&mcwire.Buf{}).VarInt(800000 + s.nbar).B
		_ = s.c.WritePacket(0x00, want)
		if a.Wait(s.e.long, func(l []rig.Recv, closed bool) bool {
			for _, r := range l {
				if r.State == "play" && r.ID == 0x00 && string(r.Data) == string(want) {
					return true
				}
			}
			return closed
		}) {
			time.Sleep(3 * time.Millisecond) // the in-flight backend's socket may lag the barrier's
			return
		}
		s.notef("barrier never arrived")
	}
	time.Sleep(40 * time.Millisecond)
}

// setup brings a player into the state the kind asks for.
func (e *env) setup(kind string, name string) (*session, bool) {
	s := &session{e: e, name: name, bs: map[string]*rig.SBackendConn{}, note: []string{}}
	protoV := rig.P1_20_3
	if kind == "sw763" {
		protoV = rig.P1_20
	}
	c, err := e.r.NewSClient(protoV)
	if err != nil {
		return s, false
	}
	s.c = c
	if c.Start("localhost", name) != nil || !c.AwaitLoginSuccess(e.long) {
		return s, false
	}
	if protoV >= rig.P1_20_2 {
		_ = c.AckLogin()
	}
	a, err := e.rt.Await("a", name, e.long)
	if err != nil {
		return s, false
	}
	s.watch("a", a)
	_ = a.SendLoginSuccess()
	if protoV >= rig.P1_20_2 {
		// cfg765: the backend is in its configuration phase, in flight
		return s, a.AwaitLoginAck(e.long)
	}
	// sw763: join "a", then start a switch to "b" and let it reach the transition (play) state
	_ = a.SendJoinGame()
	if !c.AwaitJoinGame(1, e.long) {
		return s, false
	}
	p := e.r.P.PlayerByName(name)
	if !rig.WaitFor(e.long, func() bool { return p != nil && p.CurrentServer() != nil }) {
		return s, false
	}
	go func() {
		ctx, cancel := context.WithTimeout(context.Background(), 30*time.Second)
		defer cancel()
		p.CreateConnectionRequest(e.r.P.Server("b")).ConnectWithIndication(ctx)
	}()
	b, err := e.rt.Await("b", name, e.long)
	if err != nil {
		return s, false
	}
	s.watch("b", b)
	_ = b.SendLoginSuccess()
	// the proxy has handled b's login success once a keep-alive from b comes through
	s.ka("b", 7777)
	if !rig.WaitFor(e.long, func() bool { return s.clientHas(7777) > 0 }) {
		return s, false
	}
	s.reply(7777)
	s.settle()
	return s, true
}

func (e *env) play(hi int, h hist) []tracefmt.Rec {
	name := fmt.Sprintf("k%d_%d", e.seed%1000, hi)
	kind := h.Kind
	if kind == "lru" {
		kind = "cfg765"
	}
	if kind == "burst" || kind == "handlers" {
		kind = "sw763"
	}
	s, ok := e.setup(kind, name)
	defer func() {
		if s.c != nil {
			_ = s.c.Close()
		}
	}()
	if !ok {
		return nil
	}
	reset := tracefmt.Rec{"ev": "reset", "kind": h.Kind, "hist": hi}
	s.mu.Lock()
	s.recs = append([]tracefmt.Rec{reset}, s.recs...)
	s.mu.Unlock()
	switch h.Kind {
	case "cfg765", "sw763":
		for _, st := range h.H {
			if st.K == "ka" {
				before := s.clientHas(st.ID)
				s.ka(st.B, st.ID)
				if !rig.WaitFor(e.long, func() bool { return s.clientHas(st.ID) > before }) {
					s.notef("keep-alive %d of %s never reached the client", st.ID, st.B)
				}
			} else {
				s.reply(st.ID)
				s.settle()
			}
		}
	case "lru":
		for i := 0; i < h.N; i++ {
			s.ka("a", 100+i)
		}
		if !rig.WaitFor(e.long, func() bool { return s.clientHas(100+h.N-1) > 0 }) {
			s.notef("last keep-alive never reached the client")
		}
		for i := 0; i < h.N; i++ {
			s.reply(100 + i)
		}
		s.reply(100 + h.N - 1)
		s.reply(100)
		s.settle()
		time.Sleep(150 * time.Millisecond)
	case "burst":
		rng := rand.New(rand.NewSource(e.seed*977 + int64(hi)))
		var wg sync.WaitGroup
		for _, b := range []string{"a", "b"} {
			b := b
			seq := make([]int, 40)
			for i := range seq {
				seq[i] = 1 + rng.Intn(4)
			}
			wg.Add(1)
			go func() {
				defer wg.Done()
				for _, id := range seq {
					s.ka(b, id)
				}
			}()
		}
		rep := make([]int, 120)
		for i := range rep {
			rep[i] = 1 + rng.Intn(5)
		}
		wg.Add(1)
		go func() {
			defer wg.Done()
			for _, id := range rep {
				s.reply(id)
			}
		}()
		wg.Wait()
		s.settle()
		time.Sleep(100 * time.Millisecond)
	case "handlers":
		// K reply handlers at once for one id that both backends have pending.  They are held
		// until all are at the consume step, and whoever gets as far as the backend write is
		// held there for the others: a handler that looked the id up but has not consumed it
		// yet cannot hide behind a fast write.
		p := e.r.P.PlayerByName(name)
		const K = 5
		ids := []int{4000 + 10*hi, 4001 + 10*hi}
		if hi%2 == 1 {
			ids = ids[:1] // all handlers fight for one id
		}
		for _, id := range ids {
			s.ka("a", id)
			s.ka("b", id)
		}
		last := ids[len(ids)-1]
		if !rig.WaitFor(e.long, func() bool { return s.clientHas(last) >= 2 }) {
			s.notef("keep-alives never reached the client")
		}
		for _, id := range ids {
			e.rv.Expect("ka.consume", int64(id), K)
			e.rv.Expect("ka.found", int64(id), K) // between the lookup and the removal (under the lock)
			e.rv.Expect("ka.forward", int64(id), K)
		}
		start := make(chan struct{})
		var wg sync.WaitGroup
		for _, id := range ids {
			for g := 0; g < K; g++ {
				id := id
				wg.Add(1)
				go func() {
					defer wg.Done()
					<-start
					s.emit(tracefmt.Rec{"ev": "creply", "id": id, "handler": true})
					proxy.VerifForwardKeepAlive(p, int64(id))
				}()
			}
		}
		close(start)
		wg.Wait()
		s.settle()
		time.Sleep(60 * time.Millisecond)
	}
	for _, bc := range s.bs {
		bc.SetOnRecv(nil)
	}
	s.mu.Lock()
	defer s.mu.Unlock()
	out := make([]tracefmt.Rec, 0, len(s.recs)+1) // own copy: late arrivals must not touch it
	out = append(out, s.recs...)
	return append(out, tracefmt.Rec{"ev": "end", "notes": append([]string{}, s.note...)})
}

func TestReplay(t *testing.T) {
	b, err := os.ReadFile(filepath.Join(tracefmt.OutDir(), "hist.json"))
	if err != nil {
		t.Fatal(err)
	}
	var hists []hist
	if err := json.Unmarshal(b, &hists); err != nil {
		t.Fatal(err)
	}
	a, err := rig.NewSBackend()
	if err != nil {
		t.Fatal(err)
	}
	defer a.Close()
	bb, err := rig.NewSBackend()
	if err != nil {
		t.Fatal(err)
	}
	defer bb.Close()
	r, err := rig.New(rig.Options{Backends: map[string]*rig.Backend{"a": a.Backend, "b": bb.Backend}, Try: []string{"a"}})
	if err != nil {
		t.Fatal(err)
	}
	defer r.Close()
	rv := rig.NewRendezvous(400 * time.Millisecond)
	rv.Install()
	defer rv.Uninstall()
	e := &env{rv: rv, r: r, rt: rig.NewRouter(map[string]*rig.SBackend{"a": a, "b": bb}), seed: tracefmt.Seed(), long: 6 * time.Second}
	tw, err := tracefmt.Create("trace.ndjson")
	if err != nil {
		t.Fatal(err)
	}
	var mu sync.Mutex
	var wg sync.WaitGroup
	sem := make(chan struct{}, 12)
	runs, aborted, forwards := 0, 0, 0
	kinds := map[string]int{}
	var samples []any
	for hi, h := range hists {
		hi, h := hi, h
		wg.Add(1)
		sem <- struct{}{}
		go func() {
			defer wg.Done()
			defer func() { <-sem }()
			recs := e.play(hi, h)
			mu.Lock()
			defer mu.Unlock()
			if recs == nil {
				aborted++
				return
			}
			for _, x := range recs {
				if x["ev"] == "brecv" {
					forwards++
				}
				tw.Emit(x)
			}
			runs++
			kinds[h.Kind]++
			if len(samples) < 2 && len(h.H) > 2 {
				samples = append(samples, recs)
			}
		}()
	}
	wg.Wait()
	if err := tw.Close(); err != nil {
		t.Fatal(err)
	}
	tracefmt.WriteJSON("stats.json", map[string]any{"runs": runs, "aborted": aborted, "forwards": forwards, "rendezvous_met": rv.Met, "rendezvous_timed_out": rv.Timed,
		"kinds": kinds, "samples": samples})
}
