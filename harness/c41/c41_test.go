//go:build verif

// C41 harness: encodes abstract protobuf field sequences (TLC vectors and seeded random
// ones, optionally mutated at byte level) with protowire, puts them in front of the real
// connectutil.ExtractSessionPrincipalWire (as the unknown-field region of a connect.Session,
// or through proto.Unmarshal) and records input + result. Principal_Trace.tla judges.
package c41

import (
	"encoding/binary"
	"encoding/json"
	"fmt"
	"math/rand"
	"os"
	"path/filepath"
	"testing"

	"go.minekube.com/connect"
	"go.minekube.com/gate/pkg/util/connectutil"
	"google.golang.org/protobuf/encoding/protowire"
	"google.golang.org/protobuf/proto"

	"verif/harness/tracefmt"
)

const rawLogMax = 600

type absBytes struct {
	N int   `json:"n"`
	F int   `json:"f"`
	B []int `json:"b"`
}

// abs is the canonical abstract form of a byte string (see Principal.tla).
func abs(b []byte) absBytes {
	u := len(b) > 0
	for _, x := range b {
		if x != b[0] {
			u = false
			break
		}
	}
	a := absBytes{N: len(b), F: -1, B: []int{}}
	if u {
		a.F = int(b[0])
	}
	if !(u && len(b) > 64) {
		a.B = tracefmt.Bytes(b)
	}
	return a
}

func (a absBytes) bytes() []byte {
	if len(a.B) == a.N {
		out := make([]byte, a.N)
		for i, x := range a.B {
			out[i] = byte(x)
		}
		return out
	}
	out := make([]byte, a.N)
	for i := range out {
		out[i] = byte(a.F)
	}
	return out
}

type field struct {
	Num int             `json:"num"`
	Wt  int             `json:"wt"`
	V   json.RawMessage `json:"v"`
}

func be64(v uint64) []int {
	var b [8]byte
	binary.BigEndian.PutUint64(b[:], v)
	return tracefmt.Bytes(b[:])
}

func be32(v uint32) []int {
	var b [4]byte
	binary.BigEndian.PutUint32(b[:], v)
	return tracefmt.Bytes(b[:])
}

// groupBody is what the harness puts inside groups: principal-looking fields that a
// top-level reading must ignore.
func groupBody(b []byte) []byte {
	b = protowire.AppendTag(b, 12, protowire.BytesType)
	b = protowire.AppendBytes(b, []byte("zz"))
	b = protowire.AppendTag(b, 9, protowire.VarintType)
	b = protowire.AppendVarint(b, 7)
	b = protowire.AppendTag(b, 3, protowire.StartGroupType)
	b = protowire.AppendTag(b, 3, protowire.EndGroupType)
	return b
}

func appendCut(b []byte, kind int) []byte {
	switch kind {
	case 1: // tag without value
		return protowire.AppendTag(b, 5, protowire.VarintType)
	case 2: // length beyond the end
		b = protowire.AppendTag(b, 7, protowire.BytesType)
		b = protowire.AppendVarint(b, 5)
		return append(b, 'a', 'b')
	case 3: // unterminated group
		b = protowire.AppendTag(b, 5, protowire.StartGroupType)
		b = protowire.AppendTag(b, 6, protowire.VarintType)
		return protowire.AppendVarint(b, 2)
	case 4: // cut tag varint
		return append(b, 0x80)
	case 5: // varint overflowing 64 bits
		b = protowire.AppendTag(b, 6, protowire.VarintType)
		return append(b, 0xff, 0xff, 0xff, 0xff, 0xff, 0xff, 0xff, 0xff, 0xff, 0x02)
	default: // field number 0
		return append(b, 0x00)
	}
}

func encode(t *testing.T, fs []field) []byte {
	var b []byte
	for _, f := range fs {
		num := protowire.Number(f.Num)
		switch f.Wt {
		case 0:
			var v8 []int
			if err := json.Unmarshal(f.V, &v8); err != nil || len(v8) != 8 {
				t.Fatalf("bad varint value %s", f.V)
			}
			var v uint64
			for _, x := range v8 {
				v = v<<8 | uint64(x)
			}
			b = protowire.AppendTag(b, num, protowire.VarintType)
			b = protowire.AppendVarint(b, v)
		case 2:
			var a absBytes
			if err := json.Unmarshal(f.V, &a); err != nil {
				t.Fatalf("bad bytes value %s", f.V)
			}
			b = protowire.AppendTag(b, num, protowire.BytesType)
			b = protowire.AppendBytes(b, a.bytes())
		case 1:
			b = protowire.AppendTag(b, num, protowire.Fixed64Type)
			b = protowire.AppendFixed64(b, 0x0102030405060708)
		case 5:
			b = protowire.AppendTag(b, num, protowire.Fixed32Type)
			b = protowire.AppendFixed32(b, 0x01020304)
		case 3:
			b = protowire.AppendTag(b, num, protowire.StartGroupType)
			b = groupBody(b)
			b = protowire.AppendTag(b, num, protowire.EndGroupType)
		case 4:
			b = protowire.AppendTag(b, num, protowire.EndGroupType)
		case 9:
			var k []int
			if err := json.Unmarshal(f.V, &k); err != nil || len(k) != 1 {
				t.Fatalf("bad cut %s", f.V)
			}
			b = appendCut(b, k[0])
		default:
			t.Fatalf("bad wire type %d", f.Wt)
		}
	}
	return b
}

type stats struct {
	Records  int            `json:"records"`
	Vectors  int            `json:"vectors"`
	Long     int            `json:"long_sequences"`
	Random   int            `json:"random"`
	Mutated  int            `json:"mutated"`
	Outcomes map[string]int `json:"outcomes"`
	NoRaw    int            `json:"records_without_raw"`
	Samples  []any          `json:"samples"`
}

type runner struct {
	t  *testing.T
	tw *tracefmt.Writer
	st *stats
}

// call runs the real extractor on raw and logs the record.
func (r *runner) call(mode string, raw []byte, fs []field, tag string) {
	rec := tracefmt.Rec{"ev": "x", "mode": mode, "src": tag}
	if len(raw) <= rawLogMax {
		rec["raw"] = tracefmt.Bytes(raw)
	} else {
		if fs == nil {
			r.t.Fatalf("record without raw and fields")
		}
		r.st.NoRaw++
	}
	if fs != nil {
		rec["fields"] = fs
	}
	out := "err"
	var w *connectutil.SessionPrincipalWire
	func() {
		defer func() {
			if p := recover(); p != nil {
				out = "panic"
				rec["panic"] = fmt.Sprint(p)
			}
		}()
		s := new(connect.Session)
		if mode == "unmarshal" {
			// the production path: bytes from the wire
			if err := proto.Unmarshal(raw, s); err != nil {
				rec["msg"] = "unmarshal: " + err.Error()
				return
			}
		} else {
			s.ProtoReflect().SetUnknown(append([]byte(nil), raw...))
		}
		var err error
		w, err = connectutil.ExtractSessionPrincipalWire(s)
		switch {
		case err != nil:
			rec["msg"] = err.Error()
		case w == nil:
			out = "nil"
		default:
			out = "ok"
		}
	}()
	rec["out"] = out
	if out == "ok" {
		rec["res"] = map[string]any{
			"proto": be32(uint32(w.Protocol)),
			"ep":    abs([]byte(w.EndpointID)),
			"org":   abs([]byte(w.OrganizationID)),
			"nonce": tracefmt.Bytes(w.ConnectSessionNonce[:]),
			"spv":   be32(uint32(w.SourceProtocolVersion)),
			"rev":   be64(uint64(w.PolicyRevision)),
			"env":   abs(w.Envelope),
		}
	}
	r.st.Records++
	r.st.Outcomes[out]++
	if len(r.st.Samples) < 3 && out == "ok" && len(w.Envelope) > 0 && len(raw) < 60 {
		r.st.Samples = append(r.st.Samples, map[string]any{"raw": tracefmt.Bytes(raw), "out": out, "res": rec["res"]})
	}
	r.tw.Emit(rec)
}

func appendVarintPadded(b []byte, v uint64, pad int) []byte {
	n := protowire.SizeVarint(v)
	if pad <= 0 || n+pad > 10 {
		return protowire.AppendVarint(b, v)
	}
	for i := 0; i < n+pad; i++ {
		c := byte(v & 0x7f)
		v >>= 7
		if i < n+pad-1 {
			c |= 0x80
		}
		b = append(b, c)
	}
	return b
}

func appendTagRaw(b []byte, num uint64, wt int, pad int) []byte {
	return appendVarintPadded(b, num<<3|uint64(wt&7), pad)
}

var varintPool = []uint64{0, 1, 2, 3, 127, 128, 300, 1 << 31, 1<<32 + 2, 1<<63 - 1, 1 << 63, ^uint64(0)}

func randBytes(rng *rand.Rand) []byte {
	var n int
	switch rng.Intn(8) {
	case 0:
		n = 0
	case 1:
		n = 15
	case 2, 3:
		n = 16
	case 4:
		n = 17
	case 5:
		n = 65 + rng.Intn(120)
	default:
		n = rng.Intn(40)
	}
	b := make([]byte, n)
	if rng.Intn(3) == 0 {
		f := byte(rng.Intn(256))
		for i := range b {
			b[i] = f
		}
	} else {
		rng.Read(b)
	}
	return b
}

func want(num uint64) int {
	switch num {
	case 7, 8, 9, 12:
		return 2
	}
	return 0
}

// appendRandField appends one random field; big reports a field number above 2^29-1 or below 5.
func appendRandField(b []byte, rng *rand.Rand, depth int) (out []byte, special bool) {
	var num uint64
	switch p := rng.Intn(100); {
	case p < 70:
		num = uint64(5 + rng.Intn(9))
	case p < 88:
		num = uint64(1 + rng.Intn(15))
	case p < 95:
		num = uint64(16 + rng.Intn(3000))
	default:
		num = []uint64{1<<29 - 1, 1 << 29, 1<<31 - 1, 1 << 31, 1 << 40}[rng.Intn(5)]
	}
	special = num < 5 || num >= 1<<29
	wt := rng.Intn(6)
	if rng.Intn(100) < 55 {
		wt = want(num)
	} else if rng.Intn(40) == 0 {
		wt = 6 + rng.Intn(2)
	}
	pad := 0
	if rng.Intn(6) == 0 {
		pad = 1 + rng.Intn(3)
	}
	b = appendTagRaw(b, num, wt, pad)
	switch wt {
	case 0:
		v := varintPool[rng.Intn(len(varintPool))]
		if rng.Intn(4) == 0 {
			v = rng.Uint64()
		}
		p := 0
		if rng.Intn(5) == 0 {
			p = 1 + rng.Intn(4)
		}
		b = appendVarintPadded(b, v, p)
	case 1:
		b = protowire.AppendFixed64(b, rng.Uint64())
	case 5:
		b = protowire.AppendFixed32(b, rng.Uint32())
	case 2:
		pl := randBytes(rng)
		p := 0
		if rng.Intn(8) == 0 {
			p = 1 + rng.Intn(3)
		}
		b = appendVarintPadded(b, uint64(len(pl)), p)
		b = append(b, pl...)
	case 3:
		if depth < 3 {
			for k := rng.Intn(3); k > 0; k-- {
				var s bool
				b, s = appendRandField(b, rng, depth+1)
				_ = s
			}
		}
		endNum := num
		if rng.Intn(12) == 0 {
			endNum++
		}
		b = appendTagRaw(b, endNum, 4, 0)
	}
	return b, special
}

// appendValidish appends a mostly well-formed v2 proposal with repetitions.
func appendValidish(b []byte, rng *rand.Rand) (out []byte, special bool) {
	order := rng.Perm(9)
	haveEnv := false
	for _, k := range order {
		num := uint64(5 + k)
		if rng.Intn(4) == 0 {
			continue
		}
		reps := 1
		if rng.Intn(4) == 0 {
			reps = 2
		}
		for ; reps > 0; reps-- {
			switch num {
			case 6, 10, 11:
				b = appendTagRaw(b, num, 0, 0)
				b = appendVarintPadded(b, varintPool[rng.Intn(len(varintPool))], 0)
			case 7, 8:
				b = appendTagRaw(b, num, 2, 0)
				b = protowire.AppendBytes(b, randBytes(rng))
			case 9:
				n := make([]byte, 16)
				rng.Read(n)
				if rng.Intn(8) == 0 {
					n = n[:rng.Intn(16)]
				}
				b = appendTagRaw(b, num, 2, 0)
				b = protowire.AppendBytes(b, n)
			case 12:
				if haveEnv && rng.Intn(4) != 0 {
					continue
				}
				haveEnv = true
				e := randBytes(rng)
				if len(e) == 0 && rng.Intn(3) != 0 {
					e = []byte("e.y.J")
				}
				b = appendTagRaw(b, num, 2, 0)
				b = protowire.AppendBytes(b, e)
			default:
				var s bool
				b, s = appendRandField(b, rng, 0)
				special = special || s
			}
		}
	}
	return b, special
}

func TestTrace(t *testing.T) {
	tw, err := tracefmt.Create("trace.ndjson")
	if err != nil {
		t.Fatal(err)
	}
	st := &stats{Outcomes: map[string]int{}}
	r := &runner{t: t, tw: tw, st: st}

	// 1. TLC vectors
	var vecs [][]field
	vb, err := os.ReadFile(filepath.Join(tracefmt.OutDir(), "vectors.json"))
	if err != nil {
		t.Fatal(err)
	}
	if err := json.Unmarshal(vb, &vecs); err != nil {
		t.Fatal(err)
	}
	every := tracefmt.EnvInt("VERIF_UNMARSHAL_EVERY", 3)
	for i, fs := range vecs {
		if fs == nil {
			fs = []field{}
		}
		raw := encode(t, fs)
		r.call("unknown", raw, fs, "vec")
		st.Vectors++
		all5 := true
		for _, f := range fs {
			if f.Wt != 9 && f.Num < 5 {
				all5 = false
			}
		}
		if all5 && i%every == 0 {
			r.call("unmarshal", raw, fs, "vec")
		}
	}

	// 1b. long proposals: 70 / 200 / 1000 filler fields with the interesting fields at the END
	raw0 := func(v string) json.RawMessage { return json.RawMessage(v) }
	filler := func(n int, withScalars bool) []field {
		fs := make([]field, 0, n+2)
		for k := 0; k < n; k++ {
			switch {
			case withScalars && k%3 == 2:
				fs = append(fs, field{Num: 6 + 4*(k%2), Wt: 0, V: raw0("[0,0,0,0,0,0,0,1]")}) // protocol / source version 1
			case k%2 == 0:
				fs = append(fs, field{Num: 13, Wt: 0, V: raw0("[0,0,0,0,0,0,0,0]")})
			default:
				fs = append(fs, field{Num: 14, Wt: 2, V: raw0(`{"n":1,"f":120,"b":[120]}`)})
			}
		}
		return fs
	}
	nLong := 0
	for i, tail := range vecs {
		if len(tail) == 0 || len(tail) > 2 {
			continue
		}
		var ns []int
		switch {
		case len(tail) == 1:
			ns = []int{70, 200}
		case i%tracefmt.EnvInt("VERIF_LONG_EVERY", 25) == 0:
			ns = []int{70}
		}
		if i%400 == 0 {
			ns = append(ns, 1000)
		}
		big := false
		for _, f := range tail {
			var a absBytes
			if f.Wt == 2 && json.Unmarshal(f.V, &a) == nil && a.N > 64 { // 16 KiB payloads stay with the short vectors
				big = true
			}
		}
		if big {
			continue
		}
		for _, n := range ns {
			fs := append(filler(n, (i+n)%2 == 0), tail...)
			r.call("unknown", encode(t, fs), fs, fmt.Sprintf("long:%d", n))
			nLong++
		}
	}
	st.Long = nLong

	// 2. seeded random field sequences, half of them mutated at byte level
	rng := rand.New(rand.NewSource(tracefmt.Seed()))
	n := tracefmt.EnvInt("VERIF_RANDOM", 3000)
	for i := 0; i < n; i++ {
		var raw []byte
		special := false
		if rng.Intn(5) < 2 {
			raw, special = appendValidish(nil, rng)
		} else {
			for k := rng.Intn(7); k > 0; k-- {
				var s bool
				raw, s = appendRandField(raw, rng, 0)
				special = special || s
			}
		}
		mutated := false
		if rng.Intn(2) == 0 && len(raw) > 0 {
			mutated = true
			p := rng.Intn(len(raw))
			switch rng.Intn(4) {
			case 0:
				raw = raw[:p]
			case 1:
				raw[p] ^= byte(1 << rng.Intn(8))
			case 2:
				raw = append(raw[:p:p], append([]byte{byte(rng.Intn(256))}, raw[p:]...)...)
			default:
				raw = append(raw[:p:p], raw[p+1:]...)
			}
			st.Mutated++
		}
		if len(raw) > rawLogMax {
			raw = raw[:rawLogMax]
		}
		r.call("unknown", raw, nil, "rand")
		st.Random++
		if !mutated && !special {
			r.call("unmarshal", raw, nil, "rand")
		}
	}
	if err := tw.Close(); err != nil {
		t.Fatal(err)
	}
	if err := tracefmt.WriteJSON("stats.json", st); err != nil {
		t.Fatal(err)
	}
}
