//go:build verif

// C27 harness: replays TLC-generated call histories (queue / response / remove / clear)
// on the real resource pack handlers of gate (legacy, 1.17-1.20.2, modern) with a fake
// player that records the prompts written to the client and the responses reported to
// the in-flight backend. Every call runs in its own goroutine under a watchdog; a call
// that has not come back is re-run once on a fresh handler before it is logged as
// returned=false. ResourcePack_Trace.tla judges the log; nothing is asserted here.
package c27

import (
	"encoding/json"
	"errors"
	"fmt"
	"os"
	"path/filepath"
	"strings"
	"sync"
	"testing"
	"time"

	"github.com/robinbraemer/event"
	"go.minekube.com/common/minecraft/component"

	"go.minekube.com/gate/pkg/edition/java/proto/packet"
	"go.minekube.com/gate/pkg/edition/java/proto/state"
	"go.minekube.com/gate/pkg/edition/java/proxy"
	"go.minekube.com/gate/pkg/gate/proto"
	"go.minekube.com/gate/pkg/util/uuid"

	"verif/harness/tracefmt"
)

type op struct {
	Op   string `json:"op"`
	Pack string `json:"pack"`
	Sid  int    `json:"sid"`
	St   string `json:"st"`
	Fail string `json:"fail"` // "" | "prompt" (client writes of this call fail) | "report" (first backend write fails)
}

type hist struct {
	Ver  int    `json:"ver"`
	Mode string `json:"mode"` // the spec's handler kind for Ver (only selects the op encoding)
	H    []op   `json:"h"`
}

// the packs of ResourcePack.tla
type packDef struct {
	id     int
	forced bool
	origin proxy.ResourcePackOrigin
}

var packs = map[string]packDef{
	"A": {1, false, proxy.PluginOnProxyResourcePackOrigin},
	"B": {2, false, proxy.DownstreamServerResourcePackOrigin},
	"C": {1, true, proxy.DownstreamServerResourcePackOrigin},
	"D": {2, true, proxy.PluginOnProxyResourcePackOrigin},
}

func packID(i int) uuid.UUID {
	var u uuid.UUID
	u[15] = byte(i)
	return u
}

func idOf(u uuid.UUID) int {
	for i := 0; i < 15; i++ {
		if u[i] != 0 {
			return -1
		}
	}
	return int(u[15])
}

var statusByName = map[string]packet.ResponseStatus{
	"success":      packet.SuccessfulResourcePackResponseStatus,
	"declined":     packet.DeclinedResourcePackResponseStatus,
	"failed":       packet.FailedDownloadResourcePackResponseStatus,
	"accepted":     packet.AcceptedResourcePackResponseStatus,
	"downloaded":   packet.DownloadedResourcePackResponseStatus,
	"invalidUrl":   packet.InvalidURLResourcePackResponseStatus,
	"failedReload": packet.FailedToReloadResourcePackResponseStatus,
	"discarded":    packet.DiscardedResourcePackResponseStatus,
}

func statusName(s packet.ResponseStatus) string {
	for n, v := range statusByName {
		if v == s {
			return n
		}
	}
	return fmt.Sprintf("status%d", int(s))
}


// backendWriter records the responses the handler reports to the in-flight backend.
type backendWriter struct{ p *fakePlayer }

func (b backendWriter) WritePacket(pk proto.Packet) error {
	b.p.mu.Lock()
	defer b.p.mu.Unlock()
	if r, ok := pk.(*packet.ResourcePackResponse); ok {
		b.p.reports = append(b.p.reports, map[string]any{"id": max(idOf(r.ID), 0), "st": statusName(r.Status)})
	} else {
		b.p.reports = append(b.p.reports, map[string]any{"id": -1, "st": fmt.Sprintf("%T", pk)})
	}
	if b.p.failReport { // injected fault: this (attempted, logged) write is refused, once
		b.p.failReport = false
		return errInjected
	}
	return nil
}

var errInjected = errors.New("verif: injected write failure")
func (b backendWriter) Write([]byte) error { return nil }

// fakePlayer implements resourcepack.Player.
type fakePlayer struct {
	protocol proto.Protocol
	mu       sync.Mutex
	prompts  []string
	reports  []map[string]any
	kicks    int
	// injected faults for the current call
	failPrompt bool
	failReport bool
}

func (p *fakePlayer) ID() uuid.UUID { return packID(99) }
func (p *fakePlayer) WritePacket(pk proto.Packet) error {
	p.mu.Lock()
	defer p.mu.Unlock()
	if r, ok := pk.(*packet.ResourcePackRequest); ok {
		name := strings.TrimPrefix(r.URL, "http://packs.test/")
		if d, known := packs[name]; !known || r.Required != d.forced {
			name = "?" + r.URL
		}
		p.prompts = append(p.prompts, name)
	} else {
		p.prompts = append(p.prompts, fmt.Sprintf("?%T", pk))
	}
	if p.failPrompt { // injected fault: the (attempted, logged) write is refused
		return errInjected
	}
	return nil
}
func (p *fakePlayer) Write([]byte) error                                { return nil }
func (p *fakePlayer) BundleHandler() *proxy.VerifBundleDelimiterHandler { return nil }
func (p *fakePlayer) State() *state.Registry                            { return state.Play }
func (p *fakePlayer) Protocol() proto.Protocol                          { return p.protocol }
func (p *fakePlayer) BackendInFlight() proto.PacketWriter               { return backendWriter{p} }
func (p *fakePlayer) Disconnect(component.Component) {
	p.mu.Lock()
	p.kicks++
	p.mu.Unlock()
}

var _ proxy.VerifResourcePackPlayer = (*fakePlayer)(nil)

// take returns and clears what was recorded since the last call.
func (p *fakePlayer) take() (prompts []string, reports []map[string]any) {
	p.mu.Lock()
	defer p.mu.Unlock()
	prompts, reports = p.prompts, p.reports
	p.prompts, p.reports = nil, nil
	if prompts == nil {
		prompts = []string{}
	}
	if reports == nil {
		reports = []map[string]any{}
	}
	return
}

type session struct {
	p *fakePlayer
	h proxy.VerifResourcePackHandler
}

func newSession(ver int) *session {
	p := &fakePlayer{protocol: proto.Protocol(ver)}
	return &session{p: p, h: proxy.VerifNewResourcePackHandler(p, event.Nop)}
}

type result struct {
	returned bool
	panicked bool
	panicMsg string
	handled  bool
}

// call runs one operation on the real handler under the watchdog.
func (s *session) call(mode string, o op, watchdog time.Duration) result {
	s.p.mu.Lock()
	s.p.failPrompt, s.p.failReport = o.Fail == "prompt", o.Fail == "report"
	s.p.mu.Unlock()
	done := make(chan result, 1)
	go func() {
		var r result
		defer func() {
			if x := recover(); x != nil {
				r.panicked, r.panicMsg = true, fmt.Sprint(x)
			}
			done <- r
		}()
		switch o.Op {
		case "queue":
			d := packs[o.Pack]
			info := &proxy.ResourcePackInfo{
				ID:          packID(d.id),
				URL:         "http://packs.test/" + o.Pack,
				ShouldForce: d.forced,
				Origin:      d.origin,
			}
			_ = s.h.QueueResourcePack(info)
		case "response":
			b := &proxy.VerifResourcePackResponseBundle{Status: statusByName[o.St]}
			if mode == "modern" {
				b.ID = packID(o.Sid)
			}
			r.handled, _ = s.h.OnResourcePackResponse(b)
		case "remove":
			s.h.Remove(packID(o.Sid))
		case "clear":
			s.h.ClearAppliedResourcePacks()
		}
		r.returned = true
	}()
	select {
	case r := <-done:
		return r
	case <-time.After(watchdog):
		return result{}
	}
}

// replay runs a history; upTo < 0 means all of it. It returns the per-call records and
// whether the last executed call came back.
func replay(ver int, mode string, h []op, watchdog time.Duration) (recs []tracefmt.Rec, hungAt int) {
	s := newSession(ver)
	for i, o := range h {
		r := s.call(mode, o, watchdog)
		prompts, reports := s.p.take()
		rec := tracefmt.Rec{"ev": "op", "op": o.Op, "pack": o.Pack, "sid": o.Sid, "st": o.St, "fail": o.Fail,
			"returned": r.returned || r.panicked, "panicked": r.panicked,
			"prompts": prompts, "reports": reports, "handled": r.handled}
		if r.panicked {
			rec["panic"] = r.panicMsg
		}
		recs = append(recs, rec)
		if o.Fail != "" {
			return recs, -1 // after a refused write the client's state is not defined: the history ends
		}
		if !r.returned {
			// a hung or panicked call ends the history: the handler's state is no longer defined
			if !r.panicked {
				return recs, i
			}
			return recs, -1
		}
	}
	return recs, -1
}

func TestReplay(t *testing.T) {
	b, err := os.ReadFile(filepath.Join(tracefmt.OutDir(), "hist.json"))
	if err != nil {
		t.Fatal(err)
	}
	var hists []hist
	if err := json.Unmarshal(b, &hists); err != nil {
		t.Fatal(err)
	}
	tw, err := tracefmt.Create("trace.ndjson")
	if err != nil {
		t.Fatal(err)
	}
	watchdog := time.Duration(tracefmt.EnvInt("VERIF_WATCHDOG_MS", 3000)) * time.Millisecond
	maxHung := tracefmt.EnvInt("VERIF_MAX_HUNG", 4)
	stats := map[string]any{}
	var samples []any
	runs, calls, hung, panics, skipped, unconfirmed := 0, 0, 0, 0, 0, 0
	perMode := map[string]int{}
	hungIn := map[string]int{}
	{
		for _, f := range hists {
			h := f.H
			if hungIn[f.Mode] >= maxHung {
				// the deadlock verdict for this handler is established; every further
				// history would cost two watchdog periods
				skipped++
				continue
			}
			recs, hungAt := replay(f.Ver, f.Mode, h, watchdog)
			if hungAt >= 0 {
				// confirm by one re-run of the same prefix on a fresh handler
				recs2, hungAt2 := replay(f.Ver, f.Mode, h[:hungAt+1], watchdog)
				if hungAt2 != hungAt {
					unconfirmed++
					recs = recs2 // the re-run came back: keep what it did
				} else {
					hung++
					hungIn[f.Mode]++
				}
			}
			tw.Emit(tracefmt.Rec{"ev": "reset", "ver": f.Ver, "mode": f.Mode})
			for _, r := range recs {
				if p, _ := r["panicked"].(bool); p {
					panics++
				}
				tw.Emit(r)
				calls++
			}
			runs++
			perMode[f.Mode]++
			if len(samples) < 3 && len(recs) >= 3 && len(recs[len(recs)-1]["prompts"].([]string)) > 0 {
				samples = append(samples, map[string]any{"ver": f.Ver, "mode": f.Mode, "calls": recs})
			}
		}
	}
	if err := tw.Close(); err != nil {
		t.Fatal(err)
	}
	stats["runs"], stats["calls"], stats["hung"], stats["panics"] = runs, calls, hung, panics
	stats["skipped_after_hung"], stats["unconfirmed_hangs"] = skipped, unconfirmed
	stats["per_mode"], stats["samples"] = perMode, samples
	tracefmt.WriteJSON("stats.json", stats)
}
