//go:build verif

package c27

import (
	"encoding/json"
	"os"
	"path/filepath"
	"sync"
	"testing"
	"time"

	"github.com/robinbraemer/event"

	"go.minekube.com/gate/pkg/edition/java/proxy"

	"verif/harness/tracefmt"
)

// holdMgr is an event manager whose FireParallel can be held once at its entry: it pins a
// response call at the point where it fires the status event, while another goroutine calls
// the handler. It can only delay; the trace is judged as usual.
type holdMgr struct {
	event.Manager
	mu      sync.Mutex
	armed   bool
	entered chan struct{}
	release chan struct{}
}

func (m *holdMgr) FireParallel(e event.Event, after ...event.HandlerFunc) {
	m.mu.Lock()
	hold := m.armed
	m.armed = false
	m.mu.Unlock()
	if hold {
		close(m.entered)
		<-m.release
	}
}

type parCase struct {
	First string `json:"first"` // pack queued first (and prompted)
	St    string `json:"st"`    // the client's final status for it
	Next  string `json:"next"`  // pack with the same id queued by another goroutine meanwhile
}

// TestConcurrent: queue(first); then response(final) held at its status event || queue(next).
func TestConcurrent(t *testing.T) {
	b, err := os.ReadFile(filepath.Join(tracefmt.OutDir(), "par.json"))
	if err != nil {
		t.Fatal(err)
	}
	var cases []parCase
	if err := json.Unmarshal(b, &cases); err != nil {
		t.Fatal(err)
	}
	tw, err := tracefmt.Create("par.ndjson")
	if err != nil {
		t.Fatal(err)
	}
	const ver = 765
	overlapped := 0
	for _, c := range cases {
		mgr := &holdMgr{Manager: event.Nop, entered: make(chan struct{}), release: make(chan struct{})}
		p := &fakePlayer{protocol: ver}
		s := &session{p: p, h: proxy.VerifNewResourcePackHandler(p, mgr)}
		tw.Emit(tracefmt.Rec{"ev": "reset", "ver": ver, "mode": "modern"})
		q1 := op{Op: "queue", Pack: c.First}
		r1 := s.call("modern", q1, 5*time.Second)
		pr, rp := p.take()
		tw.Emit(tracefmt.Rec{"ev": "op", "op": "queue", "pack": c.First, "sid": 0, "st": "", "fail": "",
			"returned": r1.returned, "panicked": r1.panicked, "prompts": pr, "reports": rp, "handled": false})
		if !r1.returned {
			continue
		}
		a := op{Op: "response", Sid: packs[c.First].id, St: c.St}
		bq := op{Op: "queue", Pack: c.Next}
		mgr.mu.Lock()
		mgr.armed = true
		mgr.mu.Unlock()
		ra := make(chan result, 1)
		rb := make(chan result, 1)
		go func() { ra <- s.call("modern", a, 20*time.Second) }()
		held := false
		select {
		case <-mgr.entered:
			held = true
		case <-time.After(5 * time.Second): // no status event on this path: the calls simply run one after the other
		}
		go func() { rb <- s.call("modern", bq, 20*time.Second) }()
		var resB result
		gotB := false
		if held {
			select {
			case resB = <-rb: // the queue call ran while the response call was held: they overlapped
				gotB = true
				overlapped++
			case <-time.After(300 * time.Millisecond): // the handler is locked: let the response call finish first
			}
			close(mgr.release)
		}
		resA := <-ra
		if !gotB {
			resB = <-rb
		}
		pr, rp = p.take()
		opj := func(o op) map[string]any {
			return map[string]any{"op": o.Op, "pack": o.Pack, "sid": o.Sid, "st": o.St, "fail": ""}
		}
		tw.Emit(tracefmt.Rec{"ev": "par", "a": opj(a), "b": opj(bq), "returned": resA.returned && resB.returned,
			"prompts": pr, "reports": rp, "handled": resA.handled, "overlapped": gotB})
	}
	if err := tw.Close(); err != nil {
		t.Fatal(err)
	}
	tracefmt.WriteJSON("par_stats.json", map[string]any{"cases": len(cases), "overlapped": overlapped})
}
