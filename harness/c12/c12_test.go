//go:build verif

// C12 harness.
//
// TestSchedules forces TLC-generated gate-point schedules (one listing call against
// two writers of the same collection) on the real proxy and records the call/return
// history that ListingHist_Trace.tla judges (snapshot atomicity of returned lists).
//
// TestRace lets joins, leaves, server (un)registrations, server player-list updates
// and every listing API run freely against each other; it is meant to run under
// `go test -race` in a child process whose output the check inspects (race detector
// reports, fatal "concurrent map iteration and map write").
// Go code only drives and records.
package c12

import (
	"encoding/json"
	"fmt"
	"math/rand"
	"net"
	"os"
	"path/filepath"
	"runtime"
	"sort"
	"strconv"
	"strings"
	"sync"
	"sync/atomic"
	"testing"
	"time"

	"github.com/robinbraemer/event"
	"go.minekube.com/common/minecraft/component"
	"go.minekube.com/gate/pkg/edition/java/auth"
	"go.minekube.com/gate/pkg/edition/java/config"
	"go.minekube.com/gate/pkg/edition/java/profile"
	"go.minekube.com/gate/pkg/edition/java/proto/version"
	"go.minekube.com/gate/pkg/edition/java/proxy"
	"go.minekube.com/gate/pkg/util/uuid"

	"verif/harness/sched"
	"verif/harness/tracefmt"
)

type wop struct {
	Op string `json:"op"`
	K  string `json:"k"`
}

type schedule struct {
	Init  []string       `json:"init"`
	Wprog map[string]wop `json:"wprog"`
	Sched []string       `json:"sched"`
	Kind  string         `json:"kind,omitempty"`
}

type stats struct {
	Runs        int            `json:"runs"`
	ByKind      map[string]int `json:"by_kind"`
	Blocked     int            `json:"blocked_steps"`
	Hung        int            `json:"hung_runs"`
	Events      int            `json:"events"`
	GateArrival map[string]int `json:"gate_arrivals"`
	// a writer's mutation event arrived while a listing thread was parked between
	// list.*.iter and its return (what the abstract spec calls an overlap)
	Overlaps int   `json:"writes_inside_iteration"`
	Samples  []any `json:"samples"`
}

type addr string

func (a addr) Network() string { return "tcp" }
func (a addr) String() string  { return string(a) }

type nullConn struct {
	name   string
	once   sync.Once
	closed chan struct{}
}

func newNullConn(name string) *nullConn { return &nullConn{name: name, closed: make(chan struct{})} }
func (c *nullConn) Read([]byte) (int, error) {
	<-c.closed
	return 0, net.ErrClosed
}
func (c *nullConn) Write(b []byte) (int, error) {
	select {
	case <-c.closed:
		return 0, net.ErrClosed
	default:
		return len(b), nil
	}
}
func (c *nullConn) Close() error                     { c.once.Do(func() { close(c.closed) }); return nil }
func (c *nullConn) LocalAddr() net.Addr              { return addr("proxy") }
func (c *nullConn) RemoteAddr() net.Addr             { return addr(c.name) }
func (c *nullConn) SetDeadline(time.Time) error      { return nil }
func (c *nullConn) SetReadDeadline(time.Time) error  { return nil }
func (c *nullConn) SetWriteDeadline(time.Time) error { return nil }

func idOf(s string) uuid.UUID { return uuid.OfflinePlayerUUID("verif-" + s) }

var sharedAuth auth.Authenticator

func newProxy() (*proxy.Proxy, event.Manager) {
	cfg := config.DefaultConfig
	cfg.OnlineMode = false
	mgr := event.New()
	px, err := proxy.New(proxy.Options{Config: &cfg, EventMgr: mgr, Authenticator: sharedAuth})
	if err != nil {
		panic(err)
	}
	return px, mgr
}

func newLogin(px *proxy.Proxy, name string) *proxy.VerifLogin {
	return proxy.VerifNewLogin(px, newNullConn(name), &profile.GameProfile{ID: idOf(name), Name: "P" + name},
		false, version.Minecraft_1_20_2.Protocol)
}

// sortServersResult sorts a Servers() result in place, like the builtin commands do.
func sortServersResult(l []proxy.RegisteredServer) {
	sort.Slice(l, func(i, j int) bool { return l[i].ServerInfo().Name() < l[j].ServerInfo().Name() })
}

// walkServersResult reads the names of a Servers() result.
func walkServersResult(l []proxy.RegisteredServer) []string {
	out := []string{}
	for _, sv := range l {
		out = append(out, sv.ServerInfo().Name())
	}
	return out
}

// dupLogin is another connection claiming the identity of element k.
func dupLogin(px *proxy.Proxy, k string) *proxy.VerifLogin {
	return proxy.VerifNewLogin(px, newNullConn("dup-"+k), &profile.GameProfile{ID: idOf(k), Name: "P" + k},
		false, version.Minecraft_1_20_2.Protocol)
}

func serverInfo(name string, i int) proxy.ServerInfo {
	return proxy.NewServerInfo(name, &net.TCPAddr{IP: net.IPv4(127, 0, 0, 1), Port: 30000 + i})
}

func nameOf(p proxy.Player) string { return p.RemoteAddr().String() }

var kinds = []string{"players.list", "servers.list", "sp.range", "players.list", "players.count", "sp.len"}

// Every writer operation has the same shape: w.enter, a gate before the lock is asked
// for (for a leaving player that is after its connection was closed and before it is
// unregistered), the gate inside the critical section.
var gatesOf = map[string][]string{
	"players": {"w.enter", "reg.register.enter", "reg.unregister.enter", "reg.register.insert", "reg.unregister.locked",
		"list.players.enter", "list.players.iter", "list.players.step",
		"list.disconnectall.enter", "list.disconnectall.iter", "list.disconnectall.step"},
	"servers": {"w.enter", "w.mid", "srv.register.insert", "srv.unregister.delete", "list.servers.enter", "list.servers.iter", "list.servers.step"},
	"sp":      {"w.enter", "w.mid", "sp.add.locked", "sp.remove.locked", "list.range.enter", "list.range.iter", "list.range.step"},
}

var writeEvents = map[string]bool{"reg.inserted": true, "reg.deleted": true, "reg.register.insert": true,
	"reg.unregister.locked": true, "srv.register.insert": true, "srv.unregister.delete": true,
	"sp.add.locked": true, "sp.remove.locked": true}

type runner struct {
	tw     *tracefmt.Writer
	st     *stats
	step   time.Duration
	hungTO time.Duration
}

func (r *runner) run(n int, s schedule) {
	kind := s.Kind
	readers := map[string]bool{}
	for _, t := range s.Sched {
		if strings.HasPrefix(t, "r") {
			readers[t] = true
		}
	}
	if len(readers) > 1 && kind == "players.disconnectall" {
		// DisconnectAll unregisters players itself; a second listing call next to it
		// would see removals the history does not show
		kind = "players.list"
	}
	coll := kind[:strings.IndexByte(kind, '.')]
	if s.Sched == nil {
		s.Sched = []string{}
	}
	if s.Init == nil {
		s.Init = []string{}
	}
	sort.Strings(s.Init)
	r.tw.Emit(tracefmt.Rec{"ev": "reset", "n": n, "kind": kind, "init": s.Init, "wprog": s.Wprog, "sched": s.Sched})

	px, _ := newProxy()
	keys := []string{"k1", "k2", "k3"}
	logins := map[string]*proxy.VerifLogin{}
	infos := map[string]proxy.ServerInfo{}
	var rs proxy.RegisteredServer
	inInit := map[string]bool{}
	for _, k := range s.Init {
		inInit[k] = true
	}
	switch coll {
	case "players":
		for _, k := range keys {
			logins[k] = newLogin(px, k)
			if inInit[k] {
				logins[k].Activate()
			}
		}
	case "servers":
		for i, k := range keys {
			infos[k] = serverInfo(k, i)
			if inInit[k] {
				if _, err := px.Register(infos[k]); err != nil {
					panic(err)
				}
			}
		}
	case "sp":
		var err error
		rs, err = px.Register(serverInfo("s0", 99))
		if err != nil {
			panic(err)
		}
		for _, k := range keys {
			logins[k] = newLogin(px, k)
			logins[k].Activate()
			if inInit[k] {
				proxy.VerifServerPlayersAdd(rs, logins[k].Player())
			}
		}
	}

	ctl := sched.New(nil, gatesOf[coll]...)
	// count writes that land while a listing thread is between its iter gate and its return
	var overlaps atomic.Int32
	ctl.OnEvent = func(thread, name string, kv []any) {
		if strings.HasPrefix(thread, "w") && writeEvents[name] {
			for _, rn := range []string{"r1", "r2"} {
				if strings.HasPrefix(ctl.At(rn), "list.") {
					overlaps.Add(1)
				}
			}
		}
	}
	ctl.Install()

	threads := []string{}
	for w, op := range s.Wprog {
		w, op := w, op
		threads = append(threads, w)
		ctl.Go(w, func() {
			proxy.VerifYield("w.enter")
			r.tw.Emit(tracefmt.Rec{"ev": "w.call", "t": w, "op": op.Op, "k": op.K})
			if coll != "players" {
				proxy.VerifYield("w.mid")
			}
			switch coll {
			case "players":
				switch op.Op {
				case "add":
					logins[op.K].Activate()
				case "del":
					_ = logins[op.K].Close()
				case "dup":
					// a second connection with the same UUID and name: refused and torn down
					dupLogin(px, op.K).Activate()
				}
			case "servers":
				switch op.Op {
				case "add":
					_, _ = px.Register(infos[op.K])
				case "del":
					px.Unregister(infos[op.K])
				case "dup":
					_, _ = px.Register(serverInfo(op.K, 50)) // same name: ErrServerAlreadyExists
				}
			case "sp":
				switch op.Op {
				case "add", "dup":
					proxy.VerifServerPlayersAdd(rs, logins[op.K].Player())
				case "del":
					proxy.VerifServerPlayersRemove(rs, logins[op.K].Player())
				}
			}
			r.tw.Emit(tracefmt.Rec{"ev": "w.ret", "t": w})
		})
	}
	rnames := make([]string, 0, len(readers))
	for t := range readers {
		rnames = append(rnames, t)
	}
	sort.Strings(rnames)
	for _, t := range rnames {
		t := t
		k := kind
		threads = append(threads, t)
		ctl.Go(t, func() {
			r.tw.Emit(tracefmt.Rec{"ev": "r.call", "t": t, "api": k})
			rec := tracefmt.Rec{"ev": "r.ret", "t": t, "api": k}
			// the same caller asks for the count right after a listing
			second := map[string]string{"players.list": "players.count", "sp.range": "sp.len",
				"servers.list": "servers.list"}[k]
			var own []proxy.RegisteredServer // the first Servers() result: the caller's own slice
			switch k {
			case "players.list":
				l := []string{}
				for _, p := range px.Players() {
					l = append(l, nameOf(p))
				}
				rec["list"] = l
			case "players.count":
				rec["count"] = px.PlayerCount()
			case "players.disconnectall":
				px.DisconnectAll(&component.Text{Content: "bye"})
				l := []string{}
				for _, key := range keys {
					if logins[key].Closed() {
						l = append(l, key)
					}
				}
				rec["closed"] = l
			case "servers.list":
				l := []string{}
				own = px.Servers()
				for _, sv := range own {
					l = append(l, sv.ServerInfo().Name())
				}
				rec["list"] = l
			case "sp.range":
				l := []string{}
				for _, p := range proxy.PlayersToSlice[proxy.Player](rs.Players()) {
					l = append(l, nameOf(p))
				}
				rec["list"] = l
			case "sp.len":
				rec["count"] = rs.Players().Len()
			}
			r.tw.Emit(rec)
			if second == "servers.list" {
				// a second lister; meanwhile the first caller sorts its own result (as /server
				// and /glist do) and filters it in place: that must not show in anybody else's list
				r.tw.Emit(tracefmt.Rec{"ev": "r.call", "t": t, "api": second})
				other := px.Servers()
				sortServersResult(own)
				if len(own) > 1 {
					copy(own, own[1:])
				}
				r.tw.Emit(tracefmt.Rec{"ev": "r.ret", "t": t, "api": second, "list": walkServersResult(other)})
			} else if second != "" {
				r.tw.Emit(tracefmt.Rec{"ev": "r.call", "t": t, "api": second})
				n := 0
				if second == "players.count" {
					n = px.PlayerCount()
				} else {
					n = rs.Players().Len()
				}
				r.tw.Emit(tracefmt.Rec{"ev": "r.ret", "t": t, "api": second, "count": n})
			}
		})
	}

	res := ctl.Run(s.Sched, r.step, r.hungTO)
	ctl.Uninstall()
	r.st.Blocked += res.Blocked
	if !res.Finished {
		r.st.Hung++
		r.tw.Emit(tracefmt.Rec{"ev": "hung", "n": n})
	} else {
		r.tw.Emit(tracefmt.Rec{"ev": "end"})
	}
	for _, e := range ctl.Log {
		if i := strings.IndexByte(e, '@'); i >= 0 && e[:i] != "?" {
			r.st.GateArrival[e[i+1:]]++
		}
	}
	r.st.Overlaps += int(overlaps.Load())
	r.st.Runs++
	r.st.ByKind[kind]++
	if len(r.st.Samples) < 2 && len(s.Sched) > 6 {
		r.st.Samples = append(r.st.Samples, map[string]any{"kind": kind, "init": s.Init, "wprog": s.Wprog,
			"sched": s.Sched, "steps": res.Steps})
	}
}

// kindFor rotates the listing APIs over the schedules.  DisconnectAll is only used
// with add-only writers: its observable (who got disconnected) cannot tell a
// writer's own Close apart.
func kindFor(i int, s schedule) string {
	for _, op := range s.Wprog {
		if op.Op == "del" {
			return kinds[i%len(kinds)]
		}
	}
	if i%2 == 0 {
		return "players.disconnectall"
	}
	return kinds[i%len(kinds)]
}

func envStr(name, def string) string {
	if v := os.Getenv(name); v != "" {
		return v
	}
	return def
}

func TestSchedules(t *testing.T) {
	b, err := os.ReadFile(filepath.Join(tracefmt.OutDir(), envStr("VERIF_SCHED_FILE", "sched.json")))
	if err != nil {
		t.Fatal(err)
	}
	var scheds []schedule
	if err := json.Unmarshal(b, &scheds); err != nil {
		t.Fatal(err)
	}
	if sharedAuth, err = auth.New(auth.Options{}); err != nil {
		t.Fatal(err)
	}
	st := &stats{GateArrival: map[string]int{}, ByKind: map[string]int{}}
	r := &runner{st: st,
		step:   time.Duration(tracefmt.EnvInt("VERIF_STEP_MS", 6)) * time.Millisecond,
		hungTO: time.Duration(tracefmt.EnvInt("VERIF_HUNG_MS", 5000)) * time.Millisecond,
	}
	// The real code may crash the process (that is one of the things C12 is about):
	// the trace is written in parts of `chunk` runs, the index of the run in progress
	// is kept in a file, and the check restarts the harness past a crashing run.
	const chunk = 25
	skip := map[int]bool{}
	for _, f := range strings.Split(os.Getenv("VERIF_SKIP"), ",") {
		if n, err := strconv.Atoi(f); err == nil {
			skip[n] = true
		}
	}
	prefix := envStr("VERIF_TRACE_FILE", "trace")
	for i0 := tracefmt.EnvInt("VERIF_START", 0); i0 < len(scheds); i0 += chunk {
		tw, err := tracefmt.Create(fmt.Sprintf("%s.%06d.ndjson", prefix, i0))
		if err != nil {
			t.Fatal(err)
		}
		r.tw = tw
		for i := i0; i < i0+chunk && i < len(scheds); i++ {
			if skip[i] {
				continue
			}
			s := scheds[i]
			if s.Kind == "" {
				s.Kind = kindFor(i, s)
			}
			pf := filepath.Join(tracefmt.OutDir(), "progress.txt")
			_ = os.WriteFile(pf+".tmp", []byte(strconv.Itoa(i)), 0o644)
			_ = os.Rename(pf+".tmp", pf)
			r.run(i, s)
		}
		st.Events += tw.N
		if err := tw.Close(); err != nil {
			t.Fatal(err)
		}
	}
	if err := tracefmt.WriteJSON(envStr("VERIF_STATS_FILE", "stats.json"), st); err != nil {
		t.Fatal(err)
	}
}

// TestRace: free-running joins / leaves / listings.  No oracle here: the race
// detector and the Go runtime of this (child) process are the oracle.
func TestRace(t *testing.T) {
	var err error
	if sharedAuth, err = auth.New(auth.Options{}); err != nil {
		t.Fatal(err)
	}
	rounds := tracefmt.EnvInt("VERIF_ROUNDS", 20)
	rng := rand.New(rand.NewSource(tracefmt.Seed()))
	calls := map[string]int{}
	var cmu sync.Mutex
	count := func(k string) { cmu.Lock(); calls[k]++; cmu.Unlock() }
	for round := 0; round < rounds; round++ {
		px, _ := newProxy()
		rs, err := px.Register(serverInfo("s0", 99))
		if err != nil {
			t.Fatal(err)
		}
		nPlayers := 4 + rng.Intn(5)
		var wg sync.WaitGroup
		var stop atomic.Bool
		seeds := make([]int64, 32)
		for i := range seeds {
			seeds[i] = rng.Int63()
		}
		// players join, visit the server's list, leave
		for i := 0; i < nPlayers; i++ {
			i := i
			wg.Add(1)
			go func() {
				defer wg.Done()
				lr := rand.New(rand.NewSource(seeds[i]))
				l := newLogin(px, "p"+string(rune('a'+i)))
				for j := lr.Intn(3); j > 0; j-- {
					runtime.Gosched()
				}
				l.Activate()
				count("join")
				if pl := l.Player(); pl != nil && !l.Closed() {
					proxy.VerifServerPlayersAdd(rs, pl)
					count("sp.add")
					for j := lr.Intn(4); j > 0; j-- {
						runtime.Gosched()
					}
					if lr.Intn(2) == 0 {
						proxy.VerifServerPlayersRemove(rs, pl)
						count("sp.remove")
						_ = l.Close()
						count("leave")
					}
				}
			}()
		}
		// somebody keeps trying to join under the first player's identity (refused while that
		// player is online)
		wg.Add(1)
		go func() {
			defer wg.Done()
			for j := 0; j < 4; j++ {
				dupLogin(px, "pa").Activate()
				count("dup-join")
				runtime.Gosched()
			}
		}()
		// servers come and go
		wg.Add(1)
		go func() {
			defer wg.Done()
			for j := 0; j < 6; j++ {
				info := serverInfo("dyn"+string(rune('a'+j%3)), j%3)
				if _, err := px.Register(info); err == nil {
					count("srv.register")
				}
				runtime.Gosched()
				if px.Unregister(info) {
					count("srv.unregister")
				}
			}
		}()
		// one caller sorts the list of servers it got (as /server and /glist do), another walks its own
		for g := 0; g < 2; g++ {
			g := g
			wg.Add(1)
			go func() {
				defer wg.Done()
				for j := 0; j < 30 && !stop.Load(); j++ {
					if g == 0 {
						sortServersResult(px.Servers())
						count("Servers+sort")
					} else {
						_ = walkServersResult(px.Servers())
						count("Servers+walk")
					}
					if j%4 == 3 {
						runtime.Gosched()
					}
				}
			}()
		}
		// listing calls from several goroutines
		for g := 0; g < 3; g++ {
			g := g
			wg.Add(1)
			go func() {
				defer wg.Done()
				lr := rand.New(rand.NewSource(seeds[16+g]))
				for j := 0; j < 40 && !stop.Load(); j++ {
					switch lr.Intn(6) {
					case 0:
						_ = len(px.Players())
						count("Players")
					case 1:
						_ = px.PlayerCount()
						count("PlayerCount")
					case 2:
						_ = len(px.Servers())
						count("Servers")
					case 3:
						rs.Players().Range(func(p proxy.Player) bool { _ = p.ID(); return true })
						count("Range")
					case 4:
						_ = rs.Players().Len()
						count("Len")
					case 5:
						_ = len(proxy.PlayersToSlice[proxy.Player](rs.Players()))
						count("PlayersToSlice")
					}
					if j%8 == 7 {
						runtime.Gosched()
					}
				}
			}()
		}
		if round%2 == 0 {
			wg.Add(1)
			go func() {
				defer wg.Done()
				for j := rng.Intn(3); j > 0; j-- {
					runtime.Gosched()
				}
				px.DisconnectAll(&component.Text{Content: "bye"})
				count("DisconnectAll")
			}()
		}
		wg.Wait()
		stop.Store(true)
		px.DisconnectAll(&component.Text{Content: "end"})
		count("DisconnectAll")
	}
	if err := tracefmt.WriteJSON(envStr("VERIF_STATS_FILE", "stats_race.json"), map[string]any{"rounds": rounds, "calls": calls}); err != nil {
		t.Fatal(err)
	}
}
