//go:build verif

// C40 harness: runs the real javaCompatibleUsername on the TLC-exported (format, gamertag)
// inputs and on seeded random strings (invalid UTF-8 included), and BedrockData.JavaUuid
// on many XUIDs (small, adjacent, huge, negative, repeated). BedrockId_Trace.tla judges.
package c40

import (
	"encoding/json"
	"fmt"
	"math"
	"math/rand"
	"os"
	"path/filepath"
	"strconv"
	"sync"
	"testing"

	"go.minekube.com/gate/pkg/edition/bedrock/geyser"
	"go.minekube.com/gate/pkg/edition/bedrock/geyser/floodgate"

	"verif/harness/tracefmt"
)

type nameVec struct {
	Pre []int32 `json:"pre"`
	Suf []int32 `json:"suf"`
	Tag []int32 `json:"tag"`
}

func runes(s string) []int {
	out := []int{}
	for _, r := range []rune(s) {
		out = append(out, int(r))
	}
	return out
}

type stats struct {
	Names     int   `json:"names"`
	Changed   int   `json:"names_changed"`
	Truncated int   `json:"names_truncated"`
	Uuids     int   `json:"uuids"`
	Repeats   int   `json:"uuid_repeats"`
	ConcUuids int   `json:"uuids_computed_concurrently"`
	Samples   []any `json:"samples"`
}

func TestTrace(t *testing.T) {
	tw, err := tracefmt.Create("trace.ndjson")
	if err != nil {
		t.Fatal(err)
	}
	st := &stats{}
	rng := rand.New(rand.NewSource(tracefmt.Seed()))
	name := func(in string) {
		out := geyser.VerifJavaCompatibleUsername(in)
		tw.Emit(tracefmt.Rec{"ev": "name", "in": runes(in), "out": runes(out)})
		st.Names++
		if out != in {
			st.Changed++
		}
		if len([]rune(in)) > 16 {
			st.Truncated++
		}
		if len(st.Samples) < 3 && out != in && len(in) > 3 {
			st.Samples = append(st.Samples, map[string]any{"in": in, "out": out})
		}
	}
	var vecs []nameVec
	vb, err := os.ReadFile(filepath.Join(tracefmt.OutDir(), "names.json"))
	if err != nil {
		t.Fatal(err)
	}
	if err := json.Unmarshal(vb, &vecs); err != nil {
		t.Fatal(err)
	}
	for _, v := range vecs {
		tag := string(v.Tag)
		if len(v.Pre) == 0 && len(v.Suf) == 0 {
			name(tag) // usernameFormat "": the gamertag as it is
			name(fmt.Sprintf("%s", tag))
			continue
		}
		name(fmt.Sprintf(string(v.Pre)+"%s"+string(v.Suf), tag))
	}
	// random strings, invalid UTF-8 included, and odd format strings
	formats := []string{"%s", "_%s", "%s%s", "%d", "%%%s", "%q", "BE-%s-", "%20s", "%-20s|", "%.3s"}
	n := tracefmt.EnvInt("VERIF_RANDOM", 1500)
	for i := 0; i < n; i++ {
		b := make([]byte, rng.Intn(24))
		switch rng.Intn(3) {
		case 0:
			rng.Read(b)
		case 1:
			for k := range b {
				const pool = "abcXYZ019_ .-@#\xc3\xa9\xf0\x9f\x98\x80\x00\xff"
				b[k] = pool[rng.Intn(len(pool))]
			}
		default:
			s := []rune{}
			for k := 0; k < len(b); k++ {
				s = append(s, []rune{'a', 'Z', '7', '_', ' ', 'é', '名', '😀', 0x202e, 0x1F1E9, 0xFFFD, 0x7f, 0x17f, 0x212a, 0x130, 0x131, 's', 'K'}[rng.Intn(18)])
			}
			b = []byte(string(s))
		}
		f := formats[rng.Intn(len(formats))]
		if f == "%s%s" {
			name(fmt.Sprintf(f, string(b), string(b)))
		} else {
			name(fmt.Sprintf(f, string(b)))
		}
	}

	// UUIDs
	uuidOf := func(x int64) {
		d1 := &floodgate.BedrockData{Xuid: x, Username: "A", Version: "1"}
		d2 := &floodgate.BedrockData{Xuid: x, Username: "Other Name", DeviceOS: floodgate.DeviceOSXbox, IP: "198.51.100.7", Proxy: true}
		u1, e1 := d1.JavaUuid()
		u2, e2 := d2.JavaUuid()
		if e1 != nil || e2 != nil {
			t.Fatalf("JavaUuid(%d): %v %v", x, e1, e2)
		}
		tw.Emit(tracefmt.Rec{"ev": "uuid", "xuid": tracefmt.Bytes([]byte(strconv.FormatInt(x, 10))),
			"uuid": tracefmt.Bytes(u1[:]), "again": tracefmt.Bytes(u2[:])})
		st.Uuids++
		if len(st.Samples) < 5 && st.Uuids == 1 {
			st.Samples = append(st.Samples, map[string]any{"xuid": x, "uuid": u1.String()})
		}
	}
	m := tracefmt.EnvInt("VERIF_XUIDS", 1500)
	var seen []int64
	for i := 0; i < m; i++ {
		var x int64
		switch i % 6 {
		case 0:
			x = int64(1 + i/6) // small
		case 1:
			x = 2535400000000000 + rng.Int63n(1<<44) // realistic
		case 2:
			x = seen[len(seen)-1] + 1 // adjacent to the previous one
		case 3:
			x = math.MaxInt64 - int64(i)
		case 4:
			x = -seen[len(seen)-2] // sign flipped
		default:
			x = seen[rng.Intn(len(seen))] // repeated
			st.Repeats++
		}
		seen = append(seen, x)
		uuidOf(x)
	}
	// concurrent logins: several goroutines derive UUIDs for different XUIDs at the same time
	// (XUIDs of the sequential phase again, so equal XUIDs must give the UUIDs seen there)
	workers := tracefmt.EnvInt("VERIF_UUID_WORKERS", 8)
	per := tracefmt.EnvInt("VERIF_UUID_PER_WORKER", 20000)
	type obs struct {
		x      int64
		u1, u2 [16]byte
	}
	var wg sync.WaitGroup
	var cmu sync.Mutex
	startc := make(chan struct{})
	for wk := 0; wk < workers; wk++ {
		xs := make([]int64, 6)
		for k := range xs {
			xs[k] = seen[rng.Intn(len(seen))]
		}
		wg.Add(1)
		go func() {
			defer wg.Done()
			<-startc
			// a tight loop; every DISTINCT (xuid, uuid, uuid) observation is logged afterwards
			// (identical repetitions add nothing for the judge)
			distinct := map[obs]struct{}{}
			for k := 0; k < per; k++ {
				x := xs[k%len(xs)]
				d1 := &floodgate.BedrockData{Xuid: x, Username: "A"}
				d2 := &floodgate.BedrockData{Xuid: x, Username: "B", Proxy: true}
				u1, e1 := d1.JavaUuid()
				u2, e2 := d2.JavaUuid()
				if e1 != nil || e2 != nil {
					continue
				}
				distinct[obs{x, u1, u2}] = struct{}{}
			}
			cmu.Lock()
			defer cmu.Unlock()
			for o := range distinct {
				tw.Emit(tracefmt.Rec{"ev": "uuid", "xuid": tracefmt.Bytes([]byte(strconv.FormatInt(o.x, 10))),
					"uuid": tracefmt.Bytes(o.u1[:]), "again": tracefmt.Bytes(o.u2[:]), "conc": true})
				st.Uuids++
			}
			st.ConcUuids += per
		}()
	}
	close(startc)
	wg.Wait()
	if err := tw.Close(); err != nil {
		t.Fatal(err)
	}
	if err := tracefmt.WriteJSON("stats.json", st); err != nil {
		t.Fatal(err)
	}
}
