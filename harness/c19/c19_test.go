//go:build verif

// C19 harness: every TLC-enumerated scenario (client handshake address, client protocol,
// forwarding mode, profile properties, address hook) is one login through the live proxy;
// the fake backend records the server address of the handshake the proxy sends it.
// HandshakeAddr_Trace.tla judges. Nothing here compares expected and actual values.
package c19

import (
	"encoding/json"
	"fmt"
	"net"
	"os"
	"path/filepath"
	"strings"
	"sync"
	"testing"
	"time"

	"github.com/robinbraemer/event"

	"go.minekube.com/gate/pkg/edition/java/config"
	"go.minekube.com/gate/pkg/edition/java/profile"
	"go.minekube.com/gate/pkg/edition/java/proxy"
	"go.minekube.com/gate/pkg/util/uuid"

	"verif/harness/mcwire"
	"verif/harness/rig"
	"verif/harness/tracefmt"
)

type prop struct {
	N string `json:"n"`
	V string `json:"v"`
	S string `json:"s"`
}
type scenario struct {
	VH    []string `json:"vh"`
	Proto int      `json:"proto"`
	Mode  string   `json:"mode"`
	Props []prop   `json:"props"`
	NilP  bool     `json:"nilp"`
	Hook  string   `json:"hook"`
}

const bgSecret = `s3cr3t "quoted" \ <&> ü`
const velSecret = "velocity-secret"

// symbolic kinds of HandshakeAddr.tla -> concrete strings
func concrete(kind string) string {
	switch kind {
	case "":
		return ""
	case "textures", "other", "extraData", "bungeeguard-token":
		return kind
	case "weird":
		return `na"me\`
	case "plain":
		return "dmFsdWU9PQ=="
	case "quote":
		return `a"b\c'd` + "\t\n"
	case "nul":
		return "a\x00b\x01c\x7f"
	case "uni":
		return "ü€😀 "
	case "html":
		return "<script>&'</script>"
	case "empty":
		return ""
	case "long":
		return strings.Repeat("QUJDRA0K+/", 120)
	case "sig":
		return "c2lnbmF0dXJl"
	case "sigq":
		return `s"g\`
	}
	panic("unknown kind " + kind)
}

func bs(s string) []int { return tracefmt.Bytes([]byte(s)) }

func splitNUL(s string) [][]int {
	var out [][]int
	for _, p := range strings.Split(s, "\x00") {
		out = append(out, bs(p))
	}
	return out
}

type propRec struct {
	N []int `json:"n"`
	V []int `json:"v"`
	S []int `json:"s"`
}

// parseBungee reads the JSON the way BungeeCord/Spigot does: Gson into Property[]
// {name, value, signature}; JSON null is "no properties"; unknown members are ignored,
// an absent or null signature is no signature; name and value must be present.
func parseBungee(js string) (ok bool, out []propRec) {
	out = []propRec{}
	var arr []struct {
		Name      *string `json:"name"`
		Value     *string `json:"value"`
		Signature *string `json:"signature"`
	}
	if err := json.Unmarshal([]byte(js), &arr); err != nil {
		return false, out
	}
	for _, p := range arr {
		if p.Name == nil || p.Value == nil {
			return false, out
		}
		r := propRec{N: bs(*p.Name), V: bs(*p.Value), S: []int{}}
		if p.Signature != nil {
			r.S = bs(*p.Signature)
		}
		out = append(out, r)
	}
	return true, out
}

// hookInfo is a ServerInfo that implements proxy.HandshakeAddresser, keeping the host.
type hookInfo struct {
	name string
	addr net.Addr
}

func (h *hookInfo) Name() string   { return h.name }
func (h *hookInfo) Addr() net.Addr { return h.addr }
func (h *hookInfo) HandshakeAddr(def string, _ proxy.Player) string {
	return def + "\x00via-serverinfo-hook"
}

type backendHook struct{}

func (backendHook) BackendHandshakeAddr(def string, _ proxy.Player, _ proxy.RegisteredServer) (string, error) {
	return def + "\x00x", nil
}

type live struct {
	sc    scenario
	id    uuid.UUID
	props []profile.Property
	got   chan string
}

func TestTrace(t *testing.T) {
	b, err := os.ReadFile(filepath.Join(tracefmt.OutDir(), "scen.json"))
	if err != nil {
		t.Fatal(err)
	}
	var scens []scenario
	if err := json.Unmarshal(b, &scens); err != nil {
		t.Fatal(err)
	}
	tw, err := tracefmt.Create("trace.ndjson")
	if err != nil {
		t.Fatal(err)
	}
	seed := tracefmt.Seed()

	var mu sync.Mutex
	lives := map[string]*live{} // user name -> scenario in flight
	get := func(name string) *live { mu.Lock(); defer mu.Unlock(); return lives[name] }

	be, err := rig.NewBackend(func(bc *rig.BackendConn) {
		if err := bc.ReadLogin(); err != nil {
			return
		}
		if lv := get(bc.Name); lv != nil {
			select {
			case lv.got <- bc.HostAddr:
			default:
			}
		}
		_ = bc.LoginDisconnect("c19 done")
		time.Sleep(20 * time.Millisecond)
	})
	if err != nil {
		t.Fatal(err)
	}
	defer be.Close()
	beHost, _, _ := net.SplitHostPort(be.Addr())

	type gk struct {
		mode    string
		backend bool
	}
	groups := map[gk][]int{}
	for i, s := range scens {
		k := gk{s.Mode, s.Hook == "backend"}
		groups[k] = append(groups[k], i)
	}
	reached, unreached := 0, 0
	reloadAccepted, reloadRefused := 0, 0
	var samples []any
	classes := map[string]int{}
	for k, idxs := range groups {
		mgr := event.New()
		event.Subscribe(mgr, 0, func(e *proxy.GameProfileRequestEvent) {
			lv := get(e.Original().Name)
			if lv == nil {
				return
			}
			e.SetGameProfile(profile.GameProfile{ID: lv.id, Name: e.Original().Name, Properties: lv.props})
		})
		var r *rig.Rig
		event.Subscribe(mgr, 0, func(e *proxy.PlayerChooseInitialServerEvent) {
			if lv := get(e.Player().Username()); lv != nil && lv.sc.Hook == "info" {
				e.SetInitialServer(r.P.Server("hooked"))
			}
		})
		r, err = rig.New(rig.Options{EventMgr: mgr, Backends: map[string]*rig.Backend{"main": be}, Try: []string{"main"},
			Mutate: func(c *config.Config) {
				c.Forwarding.Mode = config.ForwardingMode(k.mode)
				c.Forwarding.VelocitySecret = velSecret
				c.Forwarding.BungeeGuardSecret = bgSecret
			}})
		if err != nil {
			t.Fatal(err)
		}
		addr, _ := net.ResolveTCPAddr("tcp", be.Addr())
		if _, err := r.P.Register(&hookInfo{name: "hooked", addr: addr}); err != nil {
			t.Fatal(err)
		}
		if k.backend {
			r.P.SetBackendHandshakeAddresser(backendHook{})
		}
		// Premise of the check: forwarding mode and secrets cannot change while players are online
		// (restart-required settings). Probe the proxy's live-reload entry point with both changes.
		for _, change := range []func(c *config.Config){
			func(c *config.Config) { c.Forwarding.BungeeGuardSecret = "rotated-secret" },
			func(c *config.Config) {
				c.Forwarding.Mode = config.LegacyForwardingMode
				c.Forwarding.VelocitySecret = "x"
			},
		} {
			cand := *r.Cfg
			change(&cand)
			if err := r.P.ApplyLiveConfig(&cand); err == nil {
				reloadAccepted++
			} else {
				reloadRefused++
			}
		}
		var wg sync.WaitGroup
		sem := make(chan struct{}, 16)
		for _, i := range idxs {
			i := i
			wg.Add(1)
			sem <- struct{}{}
			go func() {
				defer wg.Done()
				defer func() { <-sem }()
				s := scens[i]
				name := fmt.Sprintf("c%d_%d", seed%1000, i)
				lv := &live{sc: s, got: make(chan string, 1)}
				// a player id with leading zero / high bytes, different per scenario
				for j := range lv.id {
					lv.id[j] = byte((i*31 + j*j*7 + int(seed)) % 256)
				}
				if i%5 == 0 {
					lv.id[0], lv.id[1] = 0, 0x0a
				}
				if !s.NilP {
					lv.props = []profile.Property{}
				}
				wantProps := []propRec{}
				for _, p := range s.Props {
					pp := profile.Property{Name: concrete(p.N), Value: concrete(p.V), Signature: concrete(p.S)}
					lv.props = append(lv.props, pp)
					wantProps = append(wantProps, propRec{bs(pp.Name), bs(pp.Value), bs(pp.Signature)})
				}
				mu.Lock()
				lives[name] = lv
				mu.Unlock()
				defer func() { mu.Lock(); delete(lives, name); mu.Unlock() }()

				ip := fmt.Sprintf("127.%d.%d.%d", 1+i%3, (i/250)%250, 2+i%250)
				c, err := r.DialFrom(ip)
				if err != nil {
					t.Errorf("dial from %s: %v", ip, err)
					return
				}
				defer c.Close()
				local, _, _ := net.SplitHostPort(c.C.LocalAddr().String())
				clientAddr := strings.Join(s.VH, "\x00")
				rec := tracefmt.Rec{"ev": "case", "i": i, "mode": s.Mode, "hook": s.Hook, "proto": s.Proto,
					"vh": splitNUL(clientAddr), "reached": false, "parts": [][]int{},
					"backendAddr": bs(be.Addr()), "backendHost": bs(beHost), "ip": bs(local),
					"uuid": tracefmt.Bytes(lv.id[:]), "props": wantProps, "secret": bs(bgSecret),
					"jsonok": false, "gotprops": []propRec{}}
				if err := c.WritePacket(0, rig.HandshakePayload(s.Proto, clientAddr, 25565, 2)); err != nil {
					t.Error(err)
					return
				}
				if err := c.WritePacket(rig.SBLoginStart, rig.LoginStartPayload(s.Proto, name, rig.OfflineUUID(name))); err != nil {
					t.Error(err)
					return
				}
				// client side: follow the login until the proxy closes or the backend reported
				go func() {
					c.Timeout = 20 * time.Second
					for {
						p, err := c.ReadPacket()
						if err != nil {
							return
						}
						switch p.ID {
						case rig.LoginSetCompress:
							c.SetCompression(mcwire.NewRd(p.Data).VarInt())
						case rig.LoginSuccessID:
							if s.Proto >= rig.P1_20_2 {
								_ = c.WritePacket(rig.SBLoginAck, nil)
							}
						case rig.LoginPluginMsg:
							id := mcwire.NewRd(p.Data).VarInt()
							_ = c.WritePacket(rig.SBLoginPluginResp, (&mcwire.Buf{}).VarInt(id).Bool(false).B)
						}
					}
				}()
				select {
				case got := <-lv.got:
					rec["reached"] = true
					parts := strings.Split(got, "\x00")
					rec["parts"] = splitNUL(got)
					if len(parts) >= 4 {
						ok, props := parseBungee(parts[3])
						rec["jsonok"], rec["gotprops"] = ok, props
					}
				case <-time.After(15 * time.Second):
				}
				mu.Lock()
				tw.Emit(rec)
				if rec["reached"] == true {
					reached++
				} else {
					unreached++
				}
				classes[fmt.Sprintf("%s/%s", s.Mode, s.Hook)]++
				if len(samples) < 3 && len(s.VH) > 1 && (s.Mode == "bungeeguard" || s.Mode == "none") && i%7 == 0 {
					samples = append(samples, map[string]any{"client_addr": clientAddr, "proto": s.Proto, "mode": s.Mode,
						"hook": s.Hook, "backend_addr": strings.Join(func() []string {
							var o []string
							for _, p := range rec["parts"].([][]int) {
								bb := make([]byte, len(p))
								for x, v := range p {
									bb[x] = byte(v)
								}
								o = append(o, string(bb))
							}
							return o
						}(), "\\0")})
				}
				mu.Unlock()
			}()
		}
		wg.Wait()
		r.Close()
	}
	if err := tw.Close(); err != nil {
		t.Fatal(err)
	}
	tracefmt.WriteJSON("stats.json", map[string]any{"cases": len(scens), "reached": reached, "unreached": unreached,
		"classes": classes, "samples": samples, "reload_accepted": reloadAccepted, "reload_refused": reloadRefused})
}
