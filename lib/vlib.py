"""Shared machinery for /verif checks (python3 stdlib only).

A check is a python module /verif/checks/<ID>.py defining `run(ctx)`.  It uses
the helpers on `Ctx`:

  ctx.tlc(...)            run TLC on a module from /verif/spec in a scratch copy
  ctx.harness(...)        run a Go harness test (built from /repo's working tree, -tags verif)
  ctx.validate_trace(...) run a *_Trace spec over an ndjson trace recorded from the real code
  ctx.finding(...)        record a real-code outcome the spec forbids
  ctx.finish(...)         write evidence/<id>.json, print verdict lines, exit

Verdict discipline (DESIGN.md section 1): exit 0 = held on everything explored,
exit 1 + "VIOLATION property=<id> replay=<path>" = the REAL code produced an
outcome the spec forbids (and it is not listed in known_findings.jsonl),
exit 2 = tool problem (never a verdict).
"""
import hashlib
import json
import os
import re
import shutil
import subprocess
import sys
import tempfile
import time

VERIF = os.path.dirname(os.path.dirname(os.path.abspath(__file__)))
REPO = os.environ.get("VERIF_REPO", "/repo")
SPEC = os.path.join(VERIF, "spec")
HARNESS = os.path.join(VERIF, "harness")
EVIDENCE = os.environ.get("VERIF_EVIDENCE") or os.path.join(VERIF, "evidence")
KNOWN = os.path.join(VERIF, "known_findings.jsonl")
TLA_CP = "/opt/veriftools/tla/tla2tools.jar:/opt/veriftools/tla/CommunityModules-deps.jar"
GO = os.environ.get("VERIF_GO", "go1.26")
NCPU = os.cpu_count() or 4


class ToolError(Exception):
    """Something in the machinery failed: exit 2, never a violation."""


def goenv(extra=None):
    env = dict(os.environ)
    env.update(
        GOFLAGS="-mod=mod",
        GOPROXY="off",
        GOSUMDB="off",
        GOTOOLCHAIN="local",
        CGO_ENABLED=env.get("CGO_ENABLED", "1"),
    )
    if extra:
        env.update({k: str(v) for k, v in extra.items()})
    return env


class TlcResult:
    def __init__(self, rc, out, wall):
        self.rc = rc
        self.out = out
        self.wall = wall
        self.generated = 0
        self.distinct = 0
        self.depth = 0
        m = None
        for m in re.finditer(r"(\d+) states generated, (\d+) distinct states found", out):
            pass
        if m:
            self.generated = int(m.group(1))
            self.distinct = int(m.group(2))
        m = re.search(r"depth of the complete state graph search is (\d+)", out)
        if m:
            self.depth = int(m.group(1))
        # simulation mode prints different statistics
        m = re.search(r"The number of states generated: (\d+)", out)
        if m and not self.generated:
            self.generated = int(m.group(1))
            self.distinct = self.generated
        self.ok = rc == 0 and "Error:" not in out
        self.violated = None
        m = re.search(r"Invariant (\S+) is violated", out)
        if m:
            self.violated = m.group(1)
        m = re.search(r"Action property (\S+) is violated", out)
        if m:
            self.violated = m.group(1)
        if "Temporal properties were violated" in out or re.search(r"Temporal property \S+ (was|is) violated", out):
            self.violated = self.violated or "temporal"
        if "Deadlock reached" in out:
            self.violated = self.violated or "deadlock"
        if re.search(r"Postcondition \S+.* is false", out):
            self.violated = self.violated or "postcondition"

    def printed(self, tag):
        """Values printed by PrintT(<<"TAG", ...>>) as raw TLC text after the tag."""
        res = []
        pat = re.compile(r'^<<"' + re.escape(tag) + r'",\s*(.*)>>\s*$')
        for line in self.out.splitlines():
            m = pat.match(line.strip())
            if m:
                res.append(m.group(1))
        return res

    def printed_json(self, tag):
        """PrintT(<<"TAG", ToJson(x)>>) lines decoded to python values (deduplicated, ordered)."""
        seen, res = set(), []
        for raw in self.printed(tag):
            raw = raw.strip()
            if raw.startswith('"') and raw.endswith('"'):
                s = raw[1:-1]
                s = s.replace('\\"', '"').replace("\\\\", "\\")
                if s in seen:
                    continue
                seen.add(s)
                try:
                    res.append(json.loads(s))
                except ValueError:
                    raise ToolError("cannot decode TLC printed json: " + s[:200])
        return res

    def tail(self, n=40):
        return "\n".join(self.out.splitlines()[-n:])


class Ctx:
    def __init__(self, pid, tier, seed, replay=None):
        self.pid = pid
        self.tier = tier
        self.seed = seed
        self.replay = replay
        self.t0 = time.time()
        base = os.environ.get("VERIF_TMP") or "/var/tmp"
        os.makedirs(base, exist_ok=True)
        self.scratch = tempfile.mkdtemp(prefix="verif-%s-" % pid, dir=base)
        self.findings = []
        self.notes = []
        self._tlc_n = 0
        self._known = load_known()
        self.states = 0
        self.transitions = 0
        self.traces_validated = 0

    # ------------------------------------------------------------------ util
    @property
    def quick(self):
        return self.tier == "quick"

    def pick(self, quick, thorough):
        return quick if self.quick else thorough

    def log(self, *a):
        print("[%s %6.1fs]" % (self.pid, time.time() - self.t0), *a, flush=True)

    def path(self, *p):
        d = os.path.join(self.scratch, *p)
        os.makedirs(os.path.dirname(d), exist_ok=True)
        return d

    def cleanup(self):
        if os.environ.get("VERIF_KEEP"):
            self.log("scratch kept at", self.scratch)
            return
        shutil.rmtree(self.scratch, ignore_errors=True)

    # ------------------------------------------------------------------- TLC
    def tlc(self, module, cfg=None, *, files=None, workers=None, simulate=None, depth=None,
            timeout=900, deadlock=False, dfs=False, extra=None, heap=None, count=True,
            allow_violation=False, cfg_text=None, seed=None):
        """Run TLC on spec/<module>.tla with spec/<cfg> (default <module>.cfg).

        files: {name: path-or-bytes} placed next to the spec (trace / vector inputs).
        Returns TlcResult.  Raises ToolError on TLC errors that are not property
        violations (parse errors, evaluation errors, timeouts).
        With allow_violation the caller inspects res.violated itself.
        """
        self._tlc_n += 1
        d = self.path("tlc%d" % self._tlc_n, "x")
        d = os.path.dirname(d)
        for root in (SPEC, os.path.join(SPEC, "lib")):
            for f in os.listdir(root):
                if f.endswith(".tla"):
                    shutil.copy(os.path.join(root, f), os.path.join(d, f))
        cfgname = module + ".cfg"
        if cfg_text is not None:
            with open(os.path.join(d, cfgname), "w") as fh:
                fh.write(cfg_text)
        else:
            src = os.path.join(SPEC, cfg or cfgname)
            shutil.copy(src, os.path.join(d, cfgname))
        for name, src in (files or {}).items():
            dst = os.path.join(d, name)
            if isinstance(src, (bytes, bytearray)):
                with open(dst, "wb") as fh:
                    fh.write(src)
            else:
                shutil.copy(src, dst)
        if workers is None:
            workers = "auto"
        heap = heap or os.environ.get("VERIF_TLC_HEAP", "8g")
        cmd = ["java", "-XX:+UseParallelGC", "-Xss512m", "-Xmx" + heap]
        if dfs:
            cmd.append("-Dtlc2.tool.queue.IStateQueue=StateDeque")
        cmd += ["-cp", TLA_CP, "tlc2.TLC", "-metadir", os.path.join(d, "meta"),
                "-workers", str(workers), "-config", cfgname, "-noGenerateSpecTE"]
        if not deadlock:
            cmd.append("-deadlock")
        if simulate is not None:
            cmd += ["-simulate", "num=%d" % simulate]
            if depth:
                cmd += ["-depth", str(depth)]
        cmd += ["-seed", str(self.seed if seed is None else seed)]
        cmd += list(extra or [])
        cmd.append(module + ".tla")
        t = time.time()
        try:
            p = subprocess.run(cmd, cwd=d, stdout=subprocess.PIPE, stderr=subprocess.STDOUT,
                               timeout=timeout, text=True, errors="replace")
        except subprocess.TimeoutExpired:
            raise ToolError("TLC timeout after %ss on %s" % (timeout, module))
        res = TlcResult(p.returncode, p.stdout, time.time() - t)
        res.dir = d
        if count:
            self.states += res.distinct
            self.transitions += res.generated
        if not res.ok:
            if res.violated and allow_violation:
                return res
            raise ToolError("TLC failed on %s (rc=%d, violated=%s):\n%s"
                            % (module, p.returncode, res.violated, res.tail(60)))
        return res

    def validate_trace(self, module, trace_path, *, cfg=None, trace_name="trace.ndjson",
                       files=None, dfs=False, timeout=900, n_traces=1, cfg_text=None):
        """Trace validation: the *_Trace module consumes trace_name line by line.

        Convention: the module prints <<"MATCHED", k>> from its POSTCONDITION where k is
        the number of trace lines consumed by the longest accepted prefix (high-water
        mark in TLC register 1), and <<"TRACELEN", n>>.
        Returns (accepted, matched, total, result).
        """
        fs = dict(files or {})
        fs[trace_name] = trace_path
        res = self.tlc(module, cfg, files=fs, workers=1, dfs=dfs, timeout=timeout,
                       allow_violation=True, count=False, cfg_text=cfg_text)
        m = res.printed("MATCHED")
        n = res.printed("TRACELEN")
        if (not m or not n) and res.violated and res.violated != "postcondition":
            # an INVARIANT of the trace spec failed: the postcondition was not evaluated.
            # TLC stops at the violating state; its depth is the number of consumed lines.
            recs_total = sum(1 for _ in open(trace_path))
            return False, max(0, res.distinct - 2), recs_total, res
        if not m or not n:
            raise ToolError("trace spec %s printed no MATCHED/TRACELEN:\n%s" % (module, res.tail(60)))
        matched, total = int(m[-1]), int(n[-1])
        if res.rc != 0 and res.violated is None:
            # parse / evaluation errors inside the trace spec are tool errors, not verdicts
            raise ToolError("trace spec %s evaluation error:\n%s" % (module, res.tail(60)))
        accepted = matched == total and res.rc == 0
        if not accepted and matched == total:
            # all lines consumed but an INVARIANT of the trace spec failed on the way
            matched = max(0, res.distinct - 2)
        if accepted:
            self.traces_validated += n_traces
        return accepted, matched, total, res

    def validate_runs(self, module, recs, *, reset="reset", cfg=None, files=None, dfs=False,
                      timeout=900, max_rejects=12, cfg_text=None):
        """Validate a concatenation of independent runs (each starts with a `reset` line).

        After a rejection the offending run is cut out and validation continues with the
        rest, so one bad run does not leave the remainder unexamined.
        Returns (rejected_runs, events_matched, states) where each rejected run is
        {"run": [records], "bad_index": i, "bad": record}.
        """
        rejected, matched_total, states = [], 0, 0
        nruns = sum(1 for r in recs if r.get("ev") == reset)
        rest = recs
        n = 0
        while rest:
            n += 1
            p = self.path("runs%d.ndjson" % n)
            write_ndjson(p, rest)
            ok, matched, total, res = self.validate_trace(module, p, cfg=cfg, files=files, dfs=dfs,
                                                          timeout=timeout, n_traces=0, cfg_text=cfg_text)
            states += res.distinct
            if ok:
                matched_total += matched
                break
            start = min(matched, len(rest) - 1)
            while start > 0 and rest[start].get("ev") != reset:
                start -= 1
            end = matched + 1
            while end < len(rest) and rest[end].get("ev") != reset:
                end += 1
            rejected.append({"run": rest[start:end], "bad_index": matched - start,
                             "bad": rest[matched] if matched < len(rest) else None})
            matched_total += start
            rest = rest[end:]
            if len(rejected) >= max_rejects:
                self.notes.append("stopped after %d rejected runs; %d trace lines unexamined"
                                  % (max_rejects, len(rest)))
                break
        self.traces_validated += nruns - len(rejected)
        return rejected, matched_total, states

    # -------------------------------------------------------------------- Go
    def harness(self, pkg, run=".", *, env=None, race=False, timeout=900, tags="verif",
                args=None, check=True, cwd=None, verbose=False):
        """go test one harness package against /repo's working tree."""
        ensure_harness_mod()
        e = goenv(env)
        e.setdefault("VERIF_OUT", self.scratch)
        e["VERIF_SEED"] = str(self.seed)
        e["VERIF_TIER"] = self.tier
        cmd = [GO, "test", "-tags", tags, "-count=1", "-vet=off", "-timeout", "%ds" % timeout,
               "-run", run]
        if race:
            cmd.append("-race")
        if verbose:
            cmd.append("-v")
        if os.path.realpath(REPO) != "/repo":
            # judge a scratch worktree of gate instead of /repo (seeded-change evaluation):
            # same harness sources, alternate go.mod whose replace points at that tree
            alt = os.path.join(self.scratch, "go.alt.mod")
            if not os.path.exists(alt):
                mod = open(os.path.join(HARNESS, "go.mod")).read()
                mod = mod.replace("replace go.minekube.com/gate => /repo",
                                  "replace go.minekube.com/gate => " + os.path.realpath(REPO))
                with open(alt, "w") as fh:
                    fh.write(mod)
                shutil.copy(os.path.join(HARNESS, "go.sum"), os.path.join(self.scratch, "go.alt.sum"))
            cmd += ["-modfile", alt]
        cmd.append(pkg)
        cmd += list(args or [])
        try:
            p = subprocess.run(cmd, cwd=cwd or HARNESS, env=e, stdout=subprocess.PIPE,
                               stderr=subprocess.STDOUT, text=True, errors="replace",
                               timeout=timeout + 120)
        except subprocess.TimeoutExpired:
            raise ToolError("harness timeout: " + " ".join(cmd))
        if check and p.returncode != 0:
            raise ToolError("harness failed (%s rc=%d):\n%s"
                            % (pkg, p.returncode, "\n".join(p.stdout.splitlines()[-80:])))
        return p

    # -------------------------------------------------------------- verdicts
    def finding(self, key, desc, replay=None):
        """Record that the REAL code produced an outcome the spec forbids.

        key identifies the specific failing input/schedule/history class; it is what
        known_findings.jsonl lists."""
        for f in self.findings:
            if f["key"] == key:
                f["count"] += 1
                return
        self.findings.append({"key": key, "desc": desc, "replay": replay, "count": 1})

    def finish(self, level, coverage, assumptions=None):
        cov = dict(coverage)
        if level == "model_checking":
            cov.setdefault("states", max(self.states, 0))
            cov.setdefault("transitions", max(self.transitions, 0))
            if not cov["transitions"]:
                # every distinct state was generated at least once: a sound lower bound
                cov["transitions"] = cov["states"]
            cov.setdefault("traces_validated_against_impl", self.traces_validated)
        unknown, known = [], []
        for f in self.findings:
            k = self._known.get((self.pid, f["key"]))
            if k and k.get("status") == "known":
                known.append(f)
            else:
                unknown.append(f)
        rd = os.path.join(EVIDENCE, "replay", self.pid)
        lines = []
        for f in known:
            lines.append("KNOWN-FINDING: property=%s %s (%s)" % (self.pid, f["key"], f["desc"]))
        for f in unknown:
            os.makedirs(rd, exist_ok=True)
            name = re.sub(r"[^A-Za-z0-9_.-]+", "_", f["key"])[:80] or "replay"
            path = os.path.join(rd, name + ".json")
            with open(path, "w") as fh:
                json.dump({"property": self.pid, "key": f["key"], "desc": f["desc"],
                           "seed": self.seed, "tier": self.tier, "replay": f["replay"]},
                          fh, indent=1, default=str)
            lines.append("VIOLATION property=%s replay=%s" % (self.pid, path))
            lines.append("  detail: %s :: %s" % (f["key"], f["desc"]))
        cov["known_findings_seen"] = [f["key"] for f in known]
        ev = {
            "property_id": self.pid,
            "tier": self.tier,
            "seed": self.seed,
            "level": level,
            "coverage": cov,
            "assumptions": list(assumptions or []) + self.notes,
            "wall_s": round(time.time() - self.t0, 2),
            "violations": len(unknown),
        }
        os.makedirs(EVIDENCE, exist_ok=True)
        with open(os.path.join(EVIDENCE, self.pid + ".json"), "w") as fh:
            json.dump(ev, fh, indent=1, default=str)
            fh.write("\n")
        for l in lines:
            print(l, flush=True)
        self.log("done: %d violation(s), %d known finding(s), %.1fs"
                 % (len(unknown), len(known), time.time() - self.t0))
        return 1 if unknown else 0


def load_known():
    res = {}
    if os.path.exists(KNOWN):
        for line in open(KNOWN):
            line = line.strip()
            if not line or line.startswith("#"):
                continue
            r = json.loads(line)
            res[(r["property"], r["key"])] = r
    return res


_harness_ready = False


def ensure_harness_mod():
    """The harness module needs /repo's go.sum (no network, GOFLAGS=-mod=mod)."""
    global _harness_ready
    if _harness_ready:
        return
    src = os.path.join(REPO, "go.sum")
    dst = os.path.join(HARNESS, "go.sum")
    try:
        a = open(src, "rb").read()
        b = open(dst, "rb").read() if os.path.exists(dst) else b""
        # keep any extra lines the harness needs (rapid etc.) -- union, stable order
        have = set(b.splitlines())
        add = [l for l in a.splitlines() if l not in have]
        if add:
            with open(dst, "ab") as fh:
                fh.write(b"\n".join(add) + b"\n")
    except OSError as e:
        raise ToolError("cannot prepare harness go.sum: %s" % e)
    _harness_ready = True


def read_ndjson(path):
    out = []
    with open(path) as fh:
        for line in fh:
            line = line.strip()
            if line:
                out.append(json.loads(line))
    return out


def write_ndjson(path, recs):
    with open(path, "w") as fh:
        for r in recs:
            fh.write(json.dumps(r, separators=(",", ":"), sort_keys=True))
            fh.write("\n")


def sha(s):
    return hashlib.sha256(s if isinstance(s, bytes) else s.encode()).hexdigest()[:12]


def main(argv):
    import importlib.util

    if len(argv) < 2:
        print("usage: vcheck <ID> [quick|thorough] [--replay file]", file=sys.stderr)
        return 2
    pid = argv[1]
    tier = os.environ.get("VERIF_TIER", "quick")
    replay = None
    rest = argv[2:]
    i = 0
    while i < len(rest):
        if rest[i] in ("quick", "thorough"):
            tier = rest[i]
        elif rest[i] == "--replay":
            i += 1
            replay = rest[i]
        i += 1
    try:
        seed = int(os.environ.get("VERIF_SEED", "1"))
    except ValueError:
        seed = 1
    seed = seed % (2 ** 31)
    mod_path = os.path.join(VERIF, "checks", pid + ".py")
    if not os.path.exists(mod_path):
        print("no such check:", pid, file=sys.stderr)
        return 2
    spec = importlib.util.spec_from_file_location("check_" + pid, mod_path)
    mod = importlib.util.module_from_spec(spec)
    sys.path.insert(0, os.path.join(VERIF, "lib"))
    spec.loader.exec_module(mod)
    ctx = Ctx(pid, tier, seed, replay)
    try:
        rc = mod.run(ctx)
        return int(rc or 0)
    except ToolError as e:
        print("TOOL-ERROR property=%s: %s" % (pid, e), flush=True)
        return 2
    finally:
        ctx.cleanup()
